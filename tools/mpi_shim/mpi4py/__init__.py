raise ImportError("MPI not available (test shim)")
