#!/venv/bin/python
"""development tool: report which functions of the files a property is anchored in were never entered by its check
   tools/anchor_coverage_report.py <outdir of anchor_coverage.sh> [--all]   (--all: union over all checks)"""
import ast
import glob
import json
import os
import sys

import coverage

out = sys.argv[1]
union = "--all" in sys.argv
REPO = os.environ.get("VF_REPO", "/repo")
props = {}
for l in open("/verif/properties.jsonl"):
    d = json.loads(l)
    props[d["id"]] = d


def files_of(anchor):
    p = os.path.join(REPO, anchor)
    if os.path.isdir(p):
        return sorted(glob.glob(os.path.join(p, "**", "*.py"), recursive=True))
    return [p] if os.path.exists(p) else []


def functions(path):
    tree = ast.parse(open(path).read())
    res = []

    def visit(node, prefix):
        for ch in ast.iter_child_nodes(node):
            if isinstance(ch, (ast.FunctionDef, ast.AsyncFunctionDef)):
                body = [s for s in ch.body if not (isinstance(s, ast.Expr) and isinstance(getattr(s, "value", None), ast.Constant))]
                if body:
                    lines = set()
                    for s in body:
                        for n in ast.walk(s):
                            if hasattr(n, "lineno"):
                                lines.add(n.lineno)
                    res.append((prefix + ch.name, ch.lineno, lines))
                visit(ch, prefix + ch.name + ".")
            elif isinstance(ch, ast.ClassDef):
                visit(ch, prefix + ch.name + ".")
    visit(tree, "")
    return res


def lines_of(covfile):
    d = coverage.CoverageData(basename=covfile)
    d.read()
    return {f: set(d.lines(f) or []) for f in d.measured_files()}


allcov = {}
percheck = {}
for f in sorted(glob.glob(os.path.join(out, "*.cov"))):
    pid = os.path.basename(f)[:-4]
    percheck[pid] = lines_of(f)
    for k, v in percheck[pid].items():
        allcov.setdefault(k, set()).update(v)

for pid, d in sorted(props.items()):
    if pid not in percheck:
        continue
    cov = allcov if union else percheck[pid]
    print("== %s %s" % (pid, d["title"]))
    for a in d["anchors"]["files"]:
        for path in files_of(a):
            ex = cov.get(path, set())
            fs = functions(path)
            never = [(n, ln) for n, ln, body in fs if not (body & ex)]
            tot = len(fs)
            print("  %-55s functions entered %3d/%3d" % (os.path.relpath(path, REPO), tot - len(never), tot))
            if never:
                print("      never entered: " + ", ".join("%s:%d" % x for x in never))
