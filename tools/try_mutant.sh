#!/bin/bash
# usage: tools/try_mutant.sh <mutant dir with patch.diff> <property id> [tier]
# applies the patch to /repo, runs the check, prints the verdict lines, ALWAYS restores /repo
d="$1"; p="$2"; tier="${3:-quick}"
cd /repo || exit 2
if ! git apply --check "$d/patch.diff" 2>/dev/null; then echo "PATCH-DOES-NOT-APPLY $d"; exit 3; fi
git apply "$d/patch.diff"
( cd /verif && ./check "$p" --tier "$tier" 2>&1 | grep -E "^VIOLATION|^KNOWN|done:|MACHINERY" | cut -c1-260 | head -6 )
git -C /repo checkout -- . 
