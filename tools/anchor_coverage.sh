#!/bin/bash
# development tool: run the quick checks under coverage.py and report, per property, which lines of the files the
# property is anchored in were executed by its check (children processes are not traced).
#   tools/anchor_coverage.sh <outdir> [ids...]
out=$1; shift; mkdir -p $out/ev
ids=${@:-$(cd /verif; python3 -c "import json;print(' '.join(c['property_id'] for c in json.load(open('MANIFEST.json'))['checks']))")}
for p in $ids; do
  ( cd /verif; VF_COVERAGE=$out/$p.cov VF_EVIDENCE_DIR=$out/ev ./check $p --tier quick > $out/$p.log 2>&1; echo "$p rc=$?" >> $out/SUMMARY ) &
  while [ $(jobs -r | wc -l) -ge ${PAR:-4} ]; do sleep 2; done
done
wait
echo ALLDONE >> $out/SUMMARY
