#!/usr/bin/env python3
"""Regenerates the machine-made tables of DESIGN.md (between the STATUS markers) from MANIFEST.json, known_findings.json and seeded/*/meta.json."""
import glob
import json
import os
import re

HERE = os.path.dirname(os.path.dirname(os.path.abspath(__file__)))
man = json.load(open(os.path.join(HERE, "MANIFEST.json")))
kf = json.load(open(os.path.join(HERE, "known_findings.json")))["findings"]
out = []
out.append("### S.1 Checks (generated from MANIFEST.json)\n")
tim = json.load(open(os.path.join(HERE, "tools", "quick_timings.json")))["seconds"] if os.path.exists(os.path.join(HERE, "tools", "quick_timings.json")) else {}
out.append("| property | specification modules | quick (s) | deciding method |")
out.append("|---|---|---|---|")
for c in man["checks"]:
    pid = c["property_id"]
    src = open(os.path.join(HERE, "harness", "props", pid + ".py")).read()
    specs = {os.path.basename(f)[:-4] for f in glob.glob(os.path.join(HERE, "specs", "*.tla"))}
    text = src
    for extra in re.findall(r"from props import (\w+)", src) + re.findall(r"from props\.(\w+) import", src):
        if extra.startswith("C") and extra[1:3].isdigit() and "_" not in extra:
            continue
        fp = os.path.join(HERE, "harness", "props", extra + ".py")
        if os.path.exists(fp):
            text += open(fp).read()
    mods = sorted(m for m in specs if re.search(r'"%s"' % m, text))
    if pid == "C13":
        mods = ["OpAlgebra"]
    if pid == "C10":
        mods = ["PowerBins"]
    out.append("| %s | %s | %s | %s |" % (pid, ", ".join(mods), tim.get(pid, ""), c["technique"][:260].replace("|", "/")))
out.append("\nNot applicable: " + "; ".join("%s (%s)" % (n["property_id"], n["reason"][:140]) for n in man["not_applicable"]) + "\n")
out.append("### S.2 Genuine defects of the pinned tree (generated from known_findings.json)\n")
out.append("| id | property | status | commit | what failed |")
out.append("|---|---|---|---|---|")
for f in kf:
    what = f.get("line", f.get("what", ""))
    what = re.sub(r"^fixed: property=\S+ \S+ ", "", what)
    out.append("| %s | %s | %s | %s | %s |" % (f["id"], f["property"], f["status"], f.get("commit", "-") or "-", what[:330].replace("|", "/")))
out.append("")
out.append("### S.3 Seeded changes and the checks that catch them (generated from seeded/*/meta.json)\n")
out.append("| id | property | change | needs | caught by |")
out.append("|---|---|---|---|---|")
for d in sorted(glob.glob(os.path.join(HERE, "seeded", "*", "meta.json"))):
    m = json.load(open(d))
    sid = os.path.basename(os.path.dirname(d))
    caught = ("`%s` (exit %s)" % (m.get("check_cmd", ""), m.get("check_exit"))) if m.get("caught") else "NOT CAUGHT"
    out.append("| %s | %s | %s | %s | %s |" % (sid, m.get("property"), str(m.get("summary", ""))[:200].replace("|", "/").replace("\n", " "), str(m.get("needs", ""))[:160].replace("|", "/").replace("\n", " "), caught))
out.append("")
txt = "\n".join(out)
p = os.path.join(HERE, "DESIGN.md")
s = open(p).read()
b, e = "<!-- STATUS:BEGIN -->", "<!-- STATUS:END -->"
if b in s:
    s = s[:s.index(b) + len(b)] + "\n" + txt + "\n" + s[s.index(e):]
    open(p, "w").write(s)
    print("DESIGN.md tables regenerated:", len(man["checks"]), "checks,", len(kf), "findings")
else:
    print(txt)
