#!/usr/bin/env python3
"""Generates /verif/MANIFEST.json from the table below (one entry per property with a working check).
Run after adding/removing a check:  python3 tools/gen_manifest.py"""
import json
import os

HERE = os.path.dirname(os.path.dirname(os.path.abspath(__file__)))

NA_FIXED = {
    "C28": "a continuous numerical agreement between two implementations and a normalisation identity of exp/log-built spectra: no state, history, schedule or discrete case analysis, and no exact number domain in which TLA+ could compute the expected field (DESIGN.md section 7).",
    "C30": "values of transcendental quantile functions (Phi, exp, inverse-gamma quantiles): TLC has neither reals nor these functions and the transforms have no case analysis, so a specification would decide nothing (DESIGN.md section 7).",
}

TRUST = ("TLC 1.8 and the CommunityModules; the transcription of the documented behaviour into TLA+; the harness "
         "projections from concrete objects to abstract state; ")

# pid -> (technique, level text, level note, design ref)
CHECKS = {}


def add(pid, technique, text, note, ref=None):
    CHECKS[pid] = dict(technique=technique, text=text, note=note, ref=ref or ("section 6, " + pid))


add("C23", "TLC exhaustive on AllReduce.tla + TLC on message programs extracted from the real code (RankPrograms.tla) + blocking-send runs",
    "The summation algorithm is specified in TLA+ (AllReduce.tla) with rendezvous sends and checked exhaustively by TLC for all ordered "
    "partitions of <=6 (quick) / <=8 (thorough) summands over 3 / 4 tasks: canonical tree on every task, conservation, no deadlock. "
    "The real allreduce_sum is bound to it by extracting each rank's communication program with a recording communicator for every "
    "partition and 5 summand kinds and letting TLC explore every interleaving of those real programs (deadlock, message-kind pairing, "
    "symbolic result = canonical tree), and by running the real code on association-sensitive floats under a process-per-rank "
    "communicator with blocking sends (bit-identical to the single-process sum).",
    TRUST + "the simulated communicator (no libmpi in the sandbox): in-order delivery per pair, correct collectives.")

add("C07", "TLC exhaustive on FieldImmut.tla + replay of TLC behaviours into real Field/AnyArray/NumPy objects + trace validation (FieldImmutTrace.tla)",
    "Array objects, AnyArray wrappers and Fields are modelled with their own write flags and buffer versions (FieldImmut.tla); TLC checks "
    "Immutable and Protected over all histories of <=7 (quick) / <=9 (thorough) operations (every public constructor, every handle, views, "
    "five kinds of writes through arrays and three through wrappers). Every history TLC emits (exhaustive to depth 4/5, simulated to depth 10) is "
    "replayed on the real objects and every live field and every operator built from one is compared with its construction snapshot after every "
    "step; a seeded random driver of the real objects is validated against the spec in the other direction. Source arrays come in three flavours "
    "(plain ndarray, ndarray subclass, memory-mapped file) and PS_field (the array a user callable hands out) is one of the constructors.",
    TRUST + "writable aliases created before construction are outside the quantifier.")
add("C21", "TLC exhaustive on RandomCtx.tla (action properties) + behaviour replay into nifty.cl.random + trace validation of drivers, of the library's own RNG use and of the repository's own RNG tests (test_random.py run under the recorder) + ExecStrategy.tla configuration runs",
    "The RNG stack (seed identities, spawn counters, draw positions, open contexts, getState/setState) is specified in RandomCtx.tla; TLC checks that "
    "leaving a context normally or by an exception restores the previous generator exactly, for all histories of <=5/6 operations. TLC behaviours are "
    "replayed on the real module (projection, bit-generator state and reference draws compared); event traces recorded from seeded drivers with real "
    "with-blocks and from SampledKLEnergy / optimize_kl are validated by RandomCtxTrace.tla. ExecStrategy.tla enumerates the valid (map, JIT, process) "
    "configurations of a JAX VI run; the harness runs a covering selection: bit-identical for repeats and fresh processes, 1e-8 across maps/JIT.",
    TRUST + "reference draws come from NumPy generators built from the seed identity alone.")

add("C27", "TLC exhaustive on OptimizeKLConfig.tla (one and two calls) + TLC-predicted observables for a covering array replayed into the real driver + RNG trace validation",
    "The driver's phases are specified over the option vector (OptimizeKLConfig.tla); TLC checks for every valid vector of the control-relevant options, "
    "for one call and for two consecutive calls in one process, that the run completes, the RNG stack depth is restored, files are written only into the "
    "call's own directory and only when one was given, and the returned list / callbacks follow the options; the transcription of the pinned defects is "
    "refuted. A seeded pairwise (quick) / 3-wise plus random (thorough) covering array over all 19 options is handed to TLC, which predicts each vector's "
    "observables; the real driver runs every vector back-to-back in one process and is compared. The driver's RNG push/pop/spawn/setState events are "
    "recorded from outside and validated by RandomCtxTrace.tla.",
    TRUST + "resume and initial_index are exercised with a preceding call that produced the state they continue.")

add("C24", "TLC exhaustive on JaxVIResume.tla (all crash points, <=2 crashes) + SIGKILL injection at every recorded file-system effect of the real driver + trace validation of the crashed-and-resumed histories",
    "The persistence protocol of nifty.re.optimize_kl is specified with one action per file-system effect, Crash in every state and Restart(resume) "
    "(JaxVIResume.tla); TLC checks Resumable, SameResult, AtMostOneLost and LastComplete for every crash point of a 3-iteration run with up to two crashes "
    "and refutes the in-place protocol of the pinned snapshot. The real driver runs in a child process under a file-system interposer: every recorded "
    "effect (open, write, close, replace, makedirs) is a crash point at which the child is SIGKILLed before / after / mid-write, then restarted with "
    "resume=True and compared bit for bit with the uninterrupted run (thorough: all points, two sample modes, double crashes; quick: the points around "
    "last.pkl plus a seeded sample). All histories are validated against JaxVIResumeTrace.tla.",
    TRUST + "crash = process kill; fsync/power-loss durability is outside the model.", )

add("C25", "TLC exhaustive on ClVIResume.tla (all crash points, both strategies, sampled/MAP schedules) + SIGKILL injection at the recorded file-system effects of the real classic driver + trace validation of the histories",
    "The classic driver's persistence protocol (energy/minisanity histories, sample files, mean, marker; strategies all/latest; sampled and MAP "
    "iterations) is specified with one action per file-system effect, Crash in every state and Restart(resume) (ClVIResume.tla). TLC proves Resumable and "
    "NotSilentlyWrong for strategy 'all' (<=2 crashes, 2-5 schedules), refutes them for 'latest' (known finding D10c) and for the pinned protocol "
    "(repaired). The real driver runs in a child process under a file-system interposer; the crash points (thorough: every effect x before/after/torn of "
    "6 strategy/schedule combinations; quick: the windows the model singles out plus a seeded sample) are realised by SIGKILL, the run is resumed and "
    "compared bit for bit with the uninterrupted one. All histories are validated against ClVIResumeTrace.tla.",
    TRUST + "crash = process kill; fsync/power-loss durability is outside the model.")

add("C26", "TLC exhaustive on SampleListFS.tla and StreamStat.tla + replay of TLC histories / streams into the real sample lists (simulated communicator) and statistics",
    "Save / overwrite / load histories of plain and residual sample lists under prefix-related base names with any number of tasks on either side are "
    "specified in SampleListFS.tla (unlink-next rule, per-rank shares, partial effects of refused saves, stale mean removal); TLC checks FaithfulNow and "
    "NoStaleMean for all histories of <=3 operations, n<=3/4 samples, <=3/4 tasks. Simulated histories of 5 operations and all 2-operation histories are "
    "replayed with the real SampleList / ResidualSampleList (fields and multi-fields) in a scratch directory under a process-per-rank communicator; every "
    "load after a successful save must return exactly the saved samples in order on every rank. StreamStat.tla gives mean and unbiased variance of all "
    "integer streams up to length 4/6 as exact rationals (and checks the Welford recurrence against the closed form); StatCalculator, sample_stat, "
    "average, the probing helpers (probe_with_posterior_samples, probe_diagonal, approximation2endo: an operator that hands out the stream) "
    "and the HDF5 export are compared with them; ShiftInvariant (a common offset leaves the variance alone) is replayed with an offset of 1e8. "
    "The long-list configuration (lists of 2, 10, 11, 12 samples, two-digit indices) is enumerated for all overwrite histories and replayed.",
    TRUST + "the simulated communicator (no libmpi in the sandbox).")

add("C22", "TLC exhaustive on Distribute.tla + trace validation of the per-rank draw sequences of the real code under a simulated communicator (DistributeTrace.tla) + bit-identity of results over 1..6/7 tasks",
    "The distribution rule of (mirrored) samples over tasks (shareRange, one seed sequence per unmirrored sample, redraw rule for an odd first index) is "
    "specified in Distribute.tla; TLC checks that the global (seed, sign) list equals the single-task one and that the shares partition the indices for "
    "n<=4/6 samples and T<=6/8 tasks including T > samples. The real nifty.cl code runs under a process-per-rank communicator: the contexts entered by "
    "draw_samples on every rank are recorded through the RNG recorder and validated by DistributeTrace.tla; SampledKLEnergy (value, gradient, metric, "
    "samples, statistics, at()) and full optimize_kl runs (sampled, MAP, constants, point estimates, geoVI, output directory, resume) must be "
    "bit-identical on every rank for every task count.",
    TRUST + "the simulated communicator with mpi4py's pickling semantics (no libmpi in the sandbox; the property text asks for real MPI runs).")

add("C15", "TLC exhaustive on CGPair.tla (eager and compiled control skeletons on the same predicate valuations) + trace validation of real runs of both solvers (CGTrace.tla) with harness-computed ground truth",
    "The eager and the compiled CG are transcribed decision by decision (CGPair.tla); TLC explores every predicate valuation sequence for maxiter 3/4 and "
    "all stopping configurations (resnorm/absdelta/miniter/x0/raise): under the positive definite environment same verdict, iteration count and "
    "position and the verdict law incl. convergence exactly at the limit; under any environment the non-positive-definite law (failure when asked to, "
    "steepest-descent point iff the first direction has negative curvature). Both real solvers run on generated pytree systems (HPD with condition up to "
    "e^6, indefinite, negative definite, singular; convergence exactly at the iteration limit; with/without x0); their per-iteration reports and the "
    "curvature of every wrapped matrix application are validated against the skeletons by CGTrace.tla and the final event carries ground truth from "
    "the returned solution (true residual, energy vs start, steepest-descent step, agreement of the variants).",
    TRUST + "predicates within 64 ulp of their threshold are left to TLC; tolerances rtol 1e-9 (agreement), 1e-6 (residual). The documented entry points "
    "cg / static_cg (not only the transcribed _cg / _static_cg) are driven as well: accuracy, info = 0, agreement, use of the starting point.")

add("C17", "TLC exhaustive on NewtonPair.tla (eager and compiled Newton-CG bookkeeping on the same environment) + trace validation of real runs (NewtonTrace.tla) with harness-computed ground truth; trust-region energy law on the same objectives",
    "The line search over nine trial step lengths (reset after the 6th failure, abort after the 9th), the convergence tests and the iteration limit "
    "of the eager and of the compiled Newton-CG are transcribed side by side (NewtonPair.tla); TLC checks for every environment sequence (maxiter 3/4, "
    "miniter 0/1, with/without absdelta) that both agree on status, iteration count and accepted steps, that only non-raising trials are accepted and "
    "that an iteration with a lowering trial never ends in the abort status. Both real solvers and the trust-region solver run on trigonometric, "
    "quartic, Rosenbrock-like and quadratic objectives on pytree positions from starts with positive, zero and negative curvature; every objective "
    "evaluation is recorded, segmented into iterations and validated by NewtonTrace.tla together with ground truth (final energy vs start, g.Hg at each "
    "iteration start and the direction of the first trial, progress, agreement of the variants).",
    TRUST + "agreement tolerance rtol 1e-7. The documented entry points (newton_cg, static_newton_cg, trust_ncg, minimize with both methods and with args) are "
    "driven on convex quadratics and quartics: never above the start, the minimum of a strictly convex quadratic is approached.")

add("C14", "TLC exhaustive on ControllerCG.tla + replay of controller behaviours into the five real controllers + trace validation of real ConjugateGradient runs (ControllerCGTrace.tla) with ground truth; InversionEnabler solves",
    "The counter logic of the iteration controllers and the control skeleton of the classic CG (controller asked first, vanishing / NaN gamma, "
    "non-positive curvature, residual recomputation every nreset-th step) are specified in ControllerCG.tla; TLC checks ConvergedLaw, ErrorLaw, Returns and "
    "ResetLaw for every environment sequence and five parametrisations. Every controller behaviour TLC emits is replayed into the real Gradient-norm "
    "(absolute/relative), Grad-inf-norm, relative / absolute / stochastic Delta-energy controllers with synthetic energies realising each hit or miss. "
    "The real CG runs on generated HPD systems (n<=25/40, condition up to 1e3/1e6, real/complex, with/without preconditioner, reset periods 1-20, "
    "all six controller types, zero and non-zero start) through a recording controller and operator; traces are validated against the skeleton and carry "
    "ground truth (true residual vs criterion, value/gradient consistency, a return without the controller only for a vanishing true residual); right-hand "
    "sides of magnitude 1e-5 .. 1e3; a CONVERGED that no resolution of the harness-evaluated hits explains is a ConvergedLaw violation. "
    "InversionEnabler.inverse_times/adjoint_inverse_times must solve the system.",
    TRUST + "criterion values within 1e-9 of the threshold are left to TLC; residual margin 1e-10*cond*|b|.")

add("C16", "TLC exhaustive on Descent.tla (minimiser loop + L-BFGS ring buffers) and LineSearch.tla + trace validation of real minimiser runs (DescentTrace.tla) and of every trial of real line searches (LineSearchTrace.tla) with recomputed Wolfe conditions",
    "The loop of DescentMinimizer.__call__ and the bracketing/zoom skeleton of LineSearch are specified over abstract energy levels and the floating-point "
    "facts of each trial step; TLC checks Monotone, ReturnsLevel, OnlyTwoVerdicts, SuccessIsWolfe, Terminates and, as an assumption evaluated at start-up, "
    "that both L-BFGS variants address the same (s,y) pairs in the same order for k<=2m+2, m<=3. Real runs of the five minimisers on convex and "
    "non-convex analytic energies are recorded through a recording controller and line searcher (including runs in which a user-supplied faulty line "
    "searcher returns a higher / equal energy) and validated by DescentTrace.tla; every energy evaluation of 300/3000 real line searches (varying c1, "
    "c2, initial step, direction quality) is recorded through a recording energy and validated by LineSearchTrace.tla; the strong Wolfe conditions are "
    "recomputed at every point returned with success; L_BFGS and VL_BFGS are fed the same histories and must return the same direction.",
    TRUST + "Wolfe slack 1e-10; facts within 1e-12 of their threshold are left to TLC.")

add("C01", "TLC exhaustive on OpAlgebra.tla (operator expressions as SSA programs with exact dyadic Gaussian matrices) + replay of every emitted program into nifty.cl",
    "Operator expressions (sum, difference, chain, scalar factor, negation, adjoint, inverse, sandwich) over a library of 40 leaves with exact matrices "
    "(scalings by 1, 2, -1, 1/2, i, 1+i on three domains; full and partial-space real and complex diagonals; non-invertible matrix operators; null; "
    "Hartley/FFT; block-diagonal operators with and without left-out keys) are enumerated by TLC as SSA programs; every state carries the exact TIMES and "
    "inverse matrices, the capability given by the rule of the statement and a PSD flag, and TLC checks inverse law, capability law, shapes, the Z2xZ2 "
    "table law and Hermitian-PSD law. Every program (quick: all <=2-slot + 800 simulated 3-slot; thorough: all <=3-slot + 6000 simulated 4-5-slot) is "
    "built through the public API and compared: dense matrix in every advertised mode for complex and real input, no lost capability, refusal of "
    "non-advertised modes, untouched input.",
    TRUST + "domains of <=4 pixels; an expression that advertises more than the rule after simplification is accepted if it acts correctly.")

add("C12", "TLC on LikelihoodRe.tla (exact rational Fisher matrices of every nifty.re likelihood, pulled back, summed and frozen) + replay of every instance into nifty.re (metric, left/right square root, transformation)",
    "The Fisher information of Gaussian, Student-t, Poisson, categorical, variable-covariance Gaussian / Student-t and the N-dimensional variable-covariance "
    "Gaussian (covariance and precision parametrisation) at rational points is transcribed into TLA+ over exact rationals, together with the composition "
    "laws (pull-back through integer linear models, sums of likelihoods sharing parameters, freezing a point estimate); TLC enumerates 205 instances and "
    "checks symmetry and non-negative diagonals. Every instance is built with nifty.re (three ways of passing the Gaussian covariance) and the dense "
    "matrices of metric, left_sqrt_metric and right_sqrt_metric (on the DECLARED tangent space) are compared: M = Fisher, M = L R, R = L^H; L = Jt^H for "
    "the exact transformations (also amended), E_data[Jt^H Jt] = M by exact moment substitution for the variable-covariance Gaussian; batched rows "
    "along either axis and dict-shaped data must give the block-diagonal matrix of the per-row spec matrices. Complex instances: the variable-covariance "
    "Gaussian on complex data (F = diag(s^2, 4/s^2)) and complex Gaussian data under a complex linear model C = A + iB on real or complex parameters "
    "(M = C^H N^-1 C, Hermitian on the spec; L o R = M on every tangent and R adjoint to L w.r.t. the real inner product on the code). The energies themselves are "
    "bound through their exact gradients (Score: Gaussian, Poisson, Student-t, categorical, variable-covariance Gaussian / Student-t, pulled back, summed, frozen) "
    "= jax.grad of the real energy.",
    TRUST + "float comparison 1e-10 relative.")
add("C13", "TLC exhaustive on OpAlgebra.tla (sampling obligations sf/si, PSD law) + exact covariance of draw_sample by unit excitations through Random.normal for every emitted program; SamplingEnabler by numerical inversion",
    "OpAlgebra.tla carries for every operator expression whether it MUST be able to draw a sample forward / from its inverse (positive scalings, diagonals, "
    "partial diagonals and complete block diagonals with a sampling dtype; sums of such forward only; sandwiches through the bun; adjoints keep, inverses "
    "swap) and whether its matrix is Hermitian PSD; TLC checks SampLaw and PsdLaw. Every program (quick: <=2 slots + 600 simulated 3-slot; thorough: all "
    "<=3 slots) is built with sampling dtype float64 / complex128 / none and draw_sample is turned into its exact linear map from white noise by feeding "
    "unit excitations through nifty.cl.random.Random.normal: L L^H must equal the operator (its inverse for from_inverse; twice that for complex draws, "
    "the library's convention), the zero excitation must give zero, an operator that must sample must not refuse and nothing that is not a Hermitian "
    "PSD matrix may return a sample. SamplingEnabler(A, B) must draw from (A+B)^-1 to the solver tolerance.",
    TRUST + "no Monte Carlo: the sample is linear in the noise; domains of <=4 pixels.")

add("C11", "TLC on LikelihoodCl.tla (value terms, exact gradient and Fisher metric of every classic likelihood energy and their chained / scaled / summed / Hamiltonian versions in exact rationals) + replay of every instance into nifty.cl",
    "Gaussian (diagonal and sandwich covariance), Poisson, Bernoulli, Student-t, inverse gamma and categorical energies at rational points are transcribed as "
    "negative log-probabilities: value as a list of terms c*fn(arg), gradient and Fisher metric as exact rationals, with the composition laws for a linear "
    "integer model, scalar factors, sums of two likelihoods on the same parameters and the standard Hamiltonian (120 instances, TLC checks symmetry and "
    "positivity). Every instance is evaluated with nifty.cl on a plain field and on a Linearization with metric: plain value = linearized value, value "
    "differences between points = differences of the spec value, gradient and dense metric exactly (1e-10), Jt^H Jt = metric for the coordinate "
    "transformations, get_metric_at = metric. The variable-covariance Gaussian is checked at rational points (value, gradient, both metrics) and its "
    "transformation in expectation over data by exact moment substitution. AveragedEnergy over mirrored residual samples (value, gradient, metric are the "
    "averages; composition `avg` of the specification) and the Gaussian energy over a MultiDomain with a block-diagonal inverse covariance "
    "(BlockDiagonalOperator.get_sqrt in the transformation) are instances as well.",
    TRUST + "float comparison 1e-10 relative; values are compared up to parameter-independent constants.")

add("C31", "TLC on MultiGrid.tla (index maps of periodic, open and HEALPix grids; laws checked on every grid) + replay of every index of every level into the real grid classes + law checks on the real outputs of a wider family",
    "Shapes, children, parents, neighbourhoods (and exact coordinates / volumes of the periodic grid) of every index of every level of 96 one-axis "
    "grids (periodic, open with padding 0/1, HEALPix nested; shape0 2-5, splits 2/3, depth 1-2) are specified in MultiGrid.tla; TLC checks "
    "parent(child) = index, children partition the next level, volume conservation and that neighbourhoods stay inside. Every index is evaluated in the "
    "real Grid / OpenGrid / HEALPixGrid - alone and as one axis of a two-axis grid - and compared (children, parent, neighbourhood, coordinate, volume, "
    "coordinate round trip). The laws of the statement are additionally evaluated on the real outputs alone for two-axis grids, MGrid products, "
    "FlatGrid (serial/nest bijection and round trip), HEALPix, SimpleOpenGrid and logarithmic radial grids.",
    TRUST + "one-axis specification (product grids act axis by axis); open-grid neighbourhoods are specified only where the refinement uses them. "
    "FlatGrid.tla: serial and nest flat indices of 70 two-axis grids and a sparse selection of nest indices per level (children / parents as array indices); "
    "TLC: both orderings are bijections and in nest ordering the children of f are f S .. f S + S - 1; every table is replayed into FlatGrid (index maps both ways, "
    "children, parents, 3 x 3 neighbourhoods, coordinates) and SparseGrid (array index <-> flat index, refined voxels, children, parents, coordinates).")

add("C08", "TLC on PowerBins.tla (exact geometry of harmonic grids and their power spaces) and DomainCache.tla (canonical-object cache over all call histories) + replay of every configuration / history into nifty.cl + volume laws on the real domains",
    "456 harmonic regular grids (1-2 axes, shapes up to 5x2 / 4x4, four dyadic distances per axis) with natural and custom binnings are specified exactly "
    "(squared k-length and bin of every pixel, unique lengths, counts and volumes of the bins; TLC: bins partition the grid, bin volumes add up, natural "
    "bins non-empty; closed form of the LMSpace size) and compared with RGSpace / PowerSpace: k-lengths, unique k-lengths, pindex, bin volumes, mean "
    "k-length per bin from the member pixels, refusal exactly when a bin is empty. DomainCache.tla specifies the canonical-object cache; TLC checks "
    "Canonical over all call histories of <=3/4 calls and simulated histories of 7 calls through every entry point (DomainTuple.make, re-make, makeDomain, "
    "MultiDomain.make in either key order, union, pickling, PowerSpace) are replayed: identical object / == / hash exactly when the descriptions are "
    "equal; unpickling in a fresh process yields that process's canonical objects. Total volume = sum of pixel volumes is checked on RG (position and "
    "harmonic), GL, HP, LM, power and DOF spaces.",
    TRUST + "dyadic distances (exact squares); the merging tolerance of nearly equal k-lengths is not exercised. Default partner domains (RGSpace: 1 / (n d) and back; "
    "LMSpace <-> GLSpace closed forms asserted in PowerBins.tla, HPSpace -> LMSpace(2 nside)) and check_codomain are replayed.")
add("C10", "TLC on PowerBins.tla + replay: dense PowerDistributor and adjoint, exact power_analyze round trips (with/without phase, sub-space of a product domain), create_power_operator, JAX mode distributor",
    "For each of the 456 binned harmonic grids of PowerBins.tla the PowerDistributor is projected to a dense matrix (M[p,b] = 1 iff pixel p is in bin b) and "
    "its adjoint to the per-bin sums; power_analyze of the square root of a distributed perfect-square spectrum must return the spectrum exactly, with "
    "phase information the spectra of real and imaginary part, for a complex field the spectrum of the squared modulus, and over the harmonic sub-space of "
    "a product domain; create_power_operator with the spectrum as a Field (also on a sub-space) and as a function must be the diagonal of the distributed "
    "spectrum; nifty.re's get_fourier_mode_distributor must bin the modes identically.",
    TRUST + "perfect-square spectra make sqrt and bin averages exact. get_signal_variance (sum over the modes of spectrum x pixel volume^2 = per bin count x spectrum, in Rat), "
    "linear (exact) / logarithmic (geometric progression) bin bounds and the usability of useful_binbounds for spaces with at least four k-lengths are checked as well.")

add("C09", "TLC on Harmonic.tla (FFT / Hartley entries as exact volume and fraction of a turn; INVERSE.TIMES = 1 checked exactly for quarter-turn grids) + replay into FFTOperator / HartleyOperator (four modes, both conventions), the three back ends, sub-space transforms; smoothing and SHT laws",
    "For 66 regular grids (1-3 axes, axis lengths 2-5, three distances per axis) every entry of the transform in TIMES and INVERSE mode is specified as "
    "(volume, rational fraction of a turn); TLC checks the harmonic pixel volume 1/(N vol) and, where all roots of unity are quarter turns, that INVERSE "
    "times TIMES is exactly the identity. The dense matrices of FFTOperator and of HartleyOperator under both conventions are compared in all four modes "
    "(adjoint modes = conjugate transposes) for complex and real input, the zero mode must be the integral, the transform on a sub-space of a product "
    "domain must act on every slice, and the ducc dispatch, the SciPy dispatch and nifty.re's hartley must agree with the specification on the same "
    "arrays under both conventions. HarmonicSmoothingOperator must be the identity for sigma=0 and HT^-1 diag(exp(-2 pi^2 sigma^2 k^2)) HT otherwise; the "
    "spherical-harmonic transforms must be adjoint-consistent and map the l=0 coefficient to the same constant map on GL and HEALPix pixelisations.",
    TRUST + "cos/sin/exp of the exact turn are evaluated by NumPy (1e-12); the SHT normalisation beyond adjointness and the l=0 mode is not covered.")

add("C36", "TLC on Minisanity.tla (reduced chi-square, mean, degrees of freedom and ignored entries of residual samples with NaNs and exact zeros in exact rationals) + replay of every instance into nifty.cl.extra.minisanity and nifty.re.minisanity",
    "Every placement of NaNs / exact zeros / values over 2-4 entries and 1-3 samples is a TLC state carrying the expected statistics as exact rationals "
    "(per sample: sum |r|^2 / ndof and sum r / ndof over the entries that are neither NaN nor 0; their sample average and unbiased variance; ndof and the "
    "ignored count). Each instance is fed to the classic diagnostics through a unit-noise Gaussian likelihood (residual = sample; data residuals and latent "
    "variables), through a scaled one (data 1, variance 4), and pairwise as two keys of a sum of likelihoods; where no entry is ignored the JAX "
    "diagnostics (reduced_residual_stats directly and minisanity with the normalised residual of jft.Gaussian) must report the same mean, reduced "
    "chi-square and ndof.",
    TRUST + "NaN is the marker 99 in the specification; the spread reported by the JAX diagnostics (population std) and the complex-valued conventions are not compared.")

add("C29", "TLC on GaussMarkov.tla (covariance recursion of Wiener / Ornstein-Uhlenbeck / integrated Wiener processes as a transition system over time steps, exact rationals; closed forms checked) + replay of every behaviour into nifty.re.gauss_markov by unit excitations",
    "One TLC action appends a time step with its own length and parameters (non-uniform grids, time-varying sigma / asperity / damping); the state "
    "carries the exact covariance Cov(s_a, s_b) of all states so far and the propagator. TLC checks on every reachable state that the recursion "
    "equals the closed forms of the continuous-time processes (Wiener variance = sum sigma^2 dt, OU variance sigma^2 (1 - prod rho^2) and cross "
    "covariance Var(x_a) prod rho, velocity of the integrated Wiener process a Wiener process, position variance sigma^2 t^3/3 and position-velocity "
    "covariance sigma^2 t^2/2 without asperity). Every complete behaviour is replayed: the linear map excitations -> path of the process functions "
    "(array and scalar parameters), of the model classes WienerProcess / OrnsteinUhlenbeckProcess / IntegratedWienerProcess and of the generic "
    "discrete_gauss_markov_process with explicit drift and diffusion matrices is extracted by unit excitations; L L^T must equal the specified "
    "covariance, the response to the initial state the propagator, and the path must be linear in the excitations.",
    TRUST + "rho = exp(-gamma dt) is given exactly and gamma computed in floating point; comparison to 1e-10.")

add("C35", "TLC on LosTraverse.tla (a line through a grid as a transition system over grid-line crossings, exact lengths per pixel; laws and termination checked) and IndexOps.tla (interpolation, regridding, zero padding, masks, non-uniform Fourier sums as exact sparse matrices) + replay of every walk / instance into the real operators",
    "LosTraverse.tla walks every segment between 8 rational end points (inside, on grid lines, outside the grid) over three distance settings: one "
    "action per grid-line crossing, weights = exact parameter lengths; TLC checks that each pixel is visited once, that the weights of an inside "
    "segment add up to 1 and (fairness) that the walk ends. The dense rows of LOSResponse (all lines in one operator) and its adjoint are compared "
    "with the walk; nifty.re's SamplingCartesianGridLOS is compared for interpolation orders 0 and 1 with the documented mid-point sampling rule "
    "at the spec's exact sampling points. IndexOps.tla gives, per instance, the sparse matrix with rational weights of LinearInterpolator (1-d, 2-d, "
    "periodic wrap, negative positions), RegriddingOperator (also on a sub-space and 2-d), FieldZeroPadder (end / central), MaskOperator (1-d, 2-d) "
    "and the exact fraction of a turn of every term of the non-uniform Fourier sum for Nufft (1-d, 2-d) and Gridder; forward matrices and adjoints "
    "are compared.",
    TRUST + "float32 weights and the 1e-7 end-point offset of LOSResponse bound its comparison to 2e-5; Nufft/Gridder at eps=1e-12 compared to 1e-9; VariablePositionNufft (positions as input) is bound to the same Fourier matrices: value E^H f, Jacobian with respect to the "
    "grid values and the coordinates, adjoint of the Jacobian; ShiftedPositionFFT and the parallax (sigmas) mode of LOSResponse are not covered.")

add("C33", "TLC on PyTree.tla (every tree_math operation defined tree-wise and on the flat array; TLC checks the two agree) and AxisMap.tla (vmap semantics vs the move-to-front algorithm) + replay of every instance into nifty.re.Vector / tree_math and smap / lmap / jax.vmap",
    "PyTree.tla: five container shapes (dict with unsorted insertion order, tuple, list, nested) over integer and Gaussian-integer leaves; arithmetic with "
    "trees and scalars on either side, floor division and modulo with Python semantics, comparisons, conj/real/imag, where, sum/size/dot/vdot/norms/"
    "min/max/any/all are specified twice (recursion over the tree, flat concatenation in JAX's leaf order) and TLC checks equality on all 750 instances; "
    "each instance is replayed exactly into Vector operators and the tree_math functions, including the structure of the result. AxisMap.tla: mapping "
    "f over input axes (positive, negative, None) into output axes (incl. None = batch-constant) defined directly (Take/Stack) and by the library's "
    "move-to-front algorithm, equal on all instances; smap and lmap are compared with the expected arrays for tuple axes, a single axis, per-leaf axes of a "
    "dict argument and of a dict result; jax.vmap must reproduce the specification (otherwise machinery failure).",
    TRUST + "leaves are 1-d; arrays of rank 3 with sizes (2,3,2); four function shapes (elementwise, contraction, two outputs, batch-constant output). Forests (three trees of one "
    "structure): mean, mean_and_std (biased / unbiased), stack / unstack, map_forest, map_forest_mean (vmap / lmap / smap) and unite (key union) against the entry-wise flat results "
    "(ForestLaw, UniteLaw); Vector.min / divmod / size / shape / copy / ravel.")

add("C03", "TLC on Calculus.tla (operator expressions as SSA programs with symbolic values and symbolic derivatives; derivative rules checked against exact dual-number differentiation on the rational sub-language) + replay of every program into nifty.cl at dyadic points",
    "One TLC action per operator constructor (key extraction, sums, differences, products, 25 point-wise functions with and without parameters, scaling, "
    "constant shift, a linear operator, contraction, dot product, Gaussian energy); the denotation of a slot is a vector of symbolic expressions and "
    "the Jacobian the symbolic derivative (chain / product / power rule, derivative table written from mathematics). TLC checks on every state that "
    "the symbolic derivative of rational expressions equals forward-mode differentiation with exact dual numbers. All 2-slot programs with every "
    "function, all 3-slot programs with four functions and simulated deeper ones are built in nifty.cl: value on a field = value on a "
    "linearization = Eval(val), dense Jacobian = Eval(D val), adjoint = transpose, metric of an energy = J^T J. The python arithmetic of operators "
    "(x / y, c / x, x / c, c - x, c + x, x ** n, x ** y, base ** x, abs(x), .real, .conjugate(), op[key]) and ptw_pre (substitution of the function "
    "into every atom) are actions of the specification as well; programs of up to three slots are replayed a second time through the other "
    "implementations of the same mathematics (JaxOperator for point-wise functions, MultiLinearEinsum for products and scalar products, "
    "JaxLikelihoodEnergyOperator for the unit Gaussian energy).",
    TRUST + "real fields, two pixels per key; non-smooth / undefined points (also 0/0 as the rounding residue of an exact zero) are skipped; complex inputs are not covered.")
add("C04", "TLC on Calculus.tla (programs over both keys) + replay: simplify_for_constant_input and EnergyAdapter(constants=...) against the value and the free-key columns of the symbolic Jacobian",
    "For every program over both keys and each key held constant the specialised operator must live on the other key, keep the target, reproduce the "
    "value and exactly the Jacobian columns (and for energies the metric block) of the free key; EnergyAdapter with constants must report value and "
    "gradient of the free key only and one minimiser step must leave the constant key untouched.",
    TRUST + "two keys (two proper subsets); real fields. StochasticEnergyAdapter (the constant key filled with the adapter's own mirrored samples): value, gradient, "
    "metric = the averages of the specification's value / free-key columns / metric block over the samples; at() keeps the samples; EnergyAdapter.apply_metric.")
add("C05", "TLC on Calculus.tla (programs with re-used slots = shared Python objects) + replay: optimise_operator(op) against the symbolic value and Jacobian at up to four points; the original operator re-evaluated",
    "Slots may be used several times, so the built operator contains the same object in several places (shared leaves and sub-trees; a vacuity "
    "witness shows such programs are reached). The optimised operator must keep domain and target and reproduce value and Jacobian of the "
    "specification at points different from the optimiser's single random self-check; the original must be unaffected.",
    TRUST + "a failing self-check of the optimiser on programs that are not finite on standard-normal inputs (sqrt / log of negative numbers) counts as a refusal.")

add("C06", "TLC on FieldArith.tla (contractions of fields over tuples of spaces with exact pixel volumes in complex rationals; laws integrate = sum . weight, mean V = integrate, vdot(x,x) = |x|^2, two-step contraction) + replay of every instance into nifty.cl.Field / MultiField",
    "104 instances per value mode (all tuples of one or two spaces out of two regular grids, a power space with volumes 1/4, 1/2, 1/4 and an "
    "unstructured domain; every non-empty set of contracted spaces; two value patterns) carry the exact results of sum, prod, vdot (conjugate-"
    "linear in the first argument), integrate, total volume, mean, variance, weight(1, -1, 2) and the norms. Replayed for int64, float64 and "
    "complex128 values: partial contractions (result domain checked), the scalar s_* variants, point-wise arithmetic and comparisons against "
    "NumPy, MultiField dot product / norm / sum / arithmetic against concatenated arrays, volume operations over the unstructured domain must "
    "fail, operands on a different domain of the same shape must be rejected.",
    TRUST + "sphere pixelisations enter through C08's volume laws only. Further Field / MultiField interface (unary plus, scale, map, extract, unite, flexible_addsub, all / any with "
    "spaces, real / imag / astype, broadcast of a contracted field, s_std; per-key real / imag / conjugate / abs / clip / astype, s_all / s_any, size, val_rw) against the array results.")

add("C18", "TLC on LinGauss.tla (exact posterior covariance of linear Gaussian models and its blocks under point estimates) and SampleModes.tla (sampling-mode state machine of the JAX driver: keys re-used / fresh, samples aligned with keys; action properties) + replay of every sampling schedule into OptimizeVI.draw_samples with recording samplers + exact sample covariance of the real samplers by unit excitations (classic through Random.normal, JAX through evi.random_like)",
    "24 models (six response matrices incl. rank 0 and rank 1, two noise settings, two data vectors): D = (1 + R^T N^-1 R)^-1 by adjugates in Rat; "
    "TLC checks D Dinv = 1, symmetry, 0 < D_ii <= 1, conditional <= marginal variances. For the classic SampledKLEnergy (mirrored / not, 1-2 "
    "samples, point estimates, MGVI and geoVI) and for nifty.re's draw_linear_residual / draw_residual the linear map excitations -> residuals "
    "is extracted: L L^T = D (block under point estimates, zero residual for point-estimated keys), draws independent, mirrored samples exact "
    "negatives, average = expansion point, non-linear update leaves samples of a linear model unchanged. SampleModes.tla: per iteration a mode and a "
    "number of samples; TLC checks that re-sampling uses fresh keys, '*_sample' and 'nonlinear_update' keep the keys, n = 0 changes nothing, a changed n "
    "always re-samples, samples stay aligned with keys; every schedule of 3 (4) iterations is stepped through the real draw_samples whose two "
    "samplers are replaced (constructor arguments) by recording stand-ins that carry key identity, sign and update count in the sample values.",
    TRUST + "CG tolerances 1e-13, comparison 1e-9.")
add("C19", "TLC on LinGauss.tla (sampled KL of quadratic Hamiltonians in Rat: value and gradient of the average over expansion point +- residuals; closed-form law for mirrored samples) + replay into SampledKLEnergyClass / SampledKLEnergy and nifty.re _kl_vg / _kl_met",
    "For every model, two expansion points and two residuals (mirrored and not) the spec gives the exact average value and gradient; the metric is "
    "Dinv. Replayed into the classic energy on a ResidualSampleList with exactly these residuals (value, gradient, dense metric, at(), constant "
    "keys: gradient / metric of the free keys only, a minimiser step leaves the constant keys of the samples untouched), the energy built by "
    "SampledKLEnergy from its own samples (value / gradient = plain averages), and nifty.re's _kl_vg / _kl_met and Samples.at(). Mildly non-linear "
    "versions of the models are checked for self-consistency (KL = average of the library's own Hamiltonian over the samples at the moved point).",
    TRUST + "with constant keys only gradient and metric are compared (the classic energy drops position-independent terms).")
add("C20", "TLC on LinGauss.tla (exact posterior mean and covariance; signal-space = data-space Wiener filter checked) + replay into wiener_filter_posterior, WienerFilterCurvature, classic and JAX optimize_kl (MAP and MGVI)",
    "m = D R^T N^-1 d and D exactly for all 24 models incl. rank-deficient responses (TLC: Dinv m = j and m = R^T (R R^T + N)^-1 d). nifty.re's "
    "wiener_filter_posterior in signal and in data space, its mirrored samples, the classic WienerFilterCurvature inverse and its sampler (exact "
    "covariance by unit excitations), and three iterations of the classic and of the JAX VI driver as MAP and as MGVI must reproduce m (1e-9 / 1e-7) "
    "and D.",
    TRUST + "in quick mode the VI drivers run on a quarter of the models.")

add("C34", "TLC on EigBatches.tla (batch schedule of the resumable eigenvalue computation; exactness, suffix property, termination) and LinGauss.tla (ELBO closed forms) + trace validation of recorded eigensolver requests (EigBatchesTrace.tla) + replay of the ELBO configuration grid and of Lanczos",
    "EigBatches.tla: for every (n, batches, precomputed) the missing eigenvalues are requested in non-empty batches, a run resumed after complete "
    "batches continues the uninterrupted schedule, the run terminates. The real _eigsh is run for 126 (n, batches, precomputed) combinations on a "
    "diagonal operator with scipy's eigsh wrapped from outside: the recorded requests (size, number of deflated eigenpairs) are validated against "
    "the specification and the eigenvalues against the exact ones. LinGauss.tla gives |Dinv| and the exact sample averages of the Hamiltonian; "
    "TLC checks H(posterior mean) = 1/2 d^T G^-1 d <= H(anywhere) (ELBO <= log-evidence, equality for the exact posterior) and |G| = |N||Dinv|. "
    "The ELBO with all eigenvalues must equal 1/2 log|D| + dim/2 - H(sample) for every sample, for eager / compiled metric, signal / data space, "
    "with the eigensystem saved and resumed from part of it, in nifty.re and nifty.cl. Lanczos with order = dimension reproduces spectrum, basis "
    "and V A V^T = T, the quadrature is exact per probe, the stochastic log-determinant is exact for diagonal operators.",
    TRUST + "the estimators below full order (stochastic error) are not covered. The classic module's _eigsh is validated against EigBatchesTrace.tla like the JAX one (234 request "
    "traces, including resumed runs that are handed more eigenpairs than requested: Kept); classic ELBO with saved / resumed eigensystem.")

add("C32", "TLC on Leapfrog.tla (exact leapfrog trajectories; reversibility and symplecticity checked), HmcChain.tla (key lineage and bookkeeping of the chain classes, with trace validation of recorded chains by HmcChainTrace.tla and replay of segmentations) and NutsTree.tla (U-turn bookkeeping of the iterative tree doubling = balanced sub-trees of the recursive definition) + replay into leapfrog_step, iterative_build_tree (is_euclidean_uturn wrapped from outside) and generate_hmc_acc_rej",
    "Leapfrog.tla: one action per integrator step over Rat for two quadratic potentials and a quartic one, diagonal inverse mass matrices, dyadic "
    "(also negative) step sizes; TLC checks momentum-flip reversibility, that a negative step undoes a positive one and M^T J M = J for the "
    "accumulated linear map; trajectories are replayed exactly into leapfrog_step; on a non-polynomial potential the real stepper is checked for "
    "reversibility, unit Jacobian determinant and symplecticity. NutsTree.tla: for sub-trees of 2-16 leaves the partners tested at every odd leaf "
    "(population count / trailing ones) are exactly the aligned blocks ending there, no slot is stale, the whole sub-tree is tested at its end; "
    "the real iterative_build_tree is run with Python control flow and a wrapped is_euclidean_uturn: tested pairs, sub-tree ends and proposal "
    "leaf are mapped to leaf indices on the orbit and compared. generate_hmc_acc_rej: accepted state is the start or the flipped end, the decision "
    "is the Bernoulli draw of min(1, exp(H0 - H1)). HmcChain.tla: generate_n_samples of HMCChain / NUTSChain as a state machine (split, momentum, "
    "transition, carry, update; Begin/End per call): TLC checks FreshKeys (every draw has its own key, no key is split and drawn from), KeyAdvances, "
    "RunningMean, RowsAreStates for all behaviours of 3/4 transitions and refutes four defective designs; real chains are recorded through wrappers "
    "installed from outside (keys as paths below the root key, positions as ids) and validated by HmcChainTrace.tla; the segmentations TLC enumerates "
    "are replayed: a run cut into several calls that continue from the returned core state visits the states of the uncut run, compiled loop = Python loop.",
    TRUST + "the statistical part of the statement (long chains reproduce the moments) has no finite-state content and is NOT decided by this check.")

add("C02", "TLC on IndexOps.tla (exact sparse matrices of the index-map operators incl. contraction / integration, transposition, inserters, slicing, stepped slices; permutation and slice-length laws) + replay into the real operators (forward and adjoint) + adjoint / linearity / inverse / target / input-unchanged laws over a catalogue of every exported linear operator class",
    "IndexOps.tla gives per instance the sparse matrix of ContractionOperator / IntegrationOperator (every set of contracted spaces, weights), "
    "TransposeOperator (all six orders of three sub-domains), ValueInserter, DomainTupleFieldInserter, SliceOperator (start / centred, also next to "
    "a multi-axis sub-domain kept by None and next to an unstructured domain) and SplitOperator with stepped python slices; TLC checks "
    "(partial) permutation laws and that a slice selects ceil((stop-start)/step) pixels; dense forward and adjoint matrices of the real "
    "operators are compared. 55 constructions covering every exported linear operator class are checked with seeded real and complex vectors for "
    "<y, A x> = <A^H y, x> (real part for the real-linear ones), linearity with complex factors, advertised (adjoint) inverses, the declared "
    "target and that the input field is not modified.",
    TRUST + "exact matrices of the harmonic / padding / regridding / interpolation / mask / line-of-sight / non-uniform Fourier operators are in C09 and C35, the operator algebra in C01. "
    "FFTShiftOperator (all axis selections, shapes up to 5 x 4; ShiftTwice law) and Multifield2Vector have exact matrices here; the catalogue has 63 constructions "
    "(FuncConvolutionOperator on regular, Gauss-Legendre and HEALPix grids and on one of several sub-domains, JaxLinearOperator, Gridder, ...).")


def main():
    props = [json.loads(l) for l in open(os.path.join(HERE, "properties.jsonl"))]
    checks = []
    na = []
    for p in props:
        pid = p["id"]
        if pid in CHECKS:
            c = CHECKS[pid]
            checks.append(dict(
                property_id=pid,
                quick_cmd="./check %s --tier quick" % pid,
                thorough_cmd="./check %s --tier thorough" % pid,
                evidence_file="/verif/evidence/%s.json" % pid,
                replay_cmd_template="./check %s --replay {path}" % pid,
                engine="tlc-conformance",
                level_claimed=dict(category="model_checking", text=c["text"], design_ref="DESIGN.md " + c["ref"]),
                level_note=c["note"],
                technique=c["technique"],
            ))
        elif pid in NA_FIXED:
            na.append(dict(property_id=pid, reason=NA_FIXED[pid]))
        else:
            na.append(dict(property_id=pid, reason="check not built yet in this round (design in DESIGN.md section 6); not claimed until it runs green"))
    man = dict(
        version=1,
        setup_cmd="./check --setup",
        hooks=dict(guard="NIFTY_VERIF", enable="none needed: every observation point is reached from outside the library (wrappers, "
                   "module-level patching in the harness process, file-system interposition); checks import /repo's working tree directly",
                   baseline_off_cmd="cd /repo && /venv/bin/python -m pytest -ra -q -p no:cacheprovider --timeout=900 --continue-on-collection-errors",
                   source_commits=[], add_only=True),
        engines=[dict(name="tlc-conformance", path="/verif/check", serves_properties=sorted(CHECKS),
                      kind_free_text="explicit TLA+ specifications under /verif/specs checked with TLC, bound to NIFTy by replaying "
                                     "TLC-generated behaviours/states into the real code and by validating traces recorded from the real code "
                                     "against trace specifications (harness under /verif/harness)"),
                 dict(name="tlc-conformance-extra", path="/verif/check X01", serves_properties=[],
                      kind_free_text="specifications beyond the listed properties (DESIGN section 8): `./check X01 --tier quick` - KLSchedule.tla, the schedule "
                                     "normalisation of nifty.cl.minimization.config.OptimizeKLConfig (repetitions, fill-up, joining of stages), every configuration "
                                     "replayed through a config file into the real class; evidence under evidence/extra/")],
        checks=checks,
        notes="See DESIGN.md. Exit codes of every check: 0 held, 1 violation (VIOLATION line), 2 machinery failure.",
        not_applicable=na,
    )
    with open(os.path.join(HERE, "MANIFEST.json"), "w") as f:
        json.dump(man, f, indent=1)
    print("MANIFEST.json: %d checks, %d not applicable/unclaimed" % (len(checks), len(na)))


if __name__ == "__main__":
    main()
