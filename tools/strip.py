import ast, sys
class Strip(ast.NodeTransformer):
    def visit_FunctionDef(self, n):
        self.generic_visit(n)
        if n.body and isinstance(n.body[0], ast.Expr) and isinstance(getattr(n.body[0],'value',None), ast.Constant) and isinstance(n.body[0].value.value,str):
            n.body = n.body[1:] or [ast.Pass()]
        return n
    visit_ClassDef = visit_FunctionDef
    visit_AsyncFunctionDef = visit_FunctionDef
for fn in sys.argv[1:]:
    tree = ast.parse(open(fn).read())
    print("#"*20, fn)
    out = ast.unparse(Strip().visit(tree))
    print("\n".join(l for l in out.splitlines() if not l.startswith(('import ','from '))))
