#!/usr/bin/env python3
"""Confirm a seeded change delivered by a sub-agent and keep it under /verif/seeded/<id>/.
usage: tools/adopt_mutant.py <source dir with patch.diff demo.py meta.json> <seed id> <property> [--tests "<pytest args>"]

Confirms in a scratch worktree outside /repo and /verif (removed afterwards):
  * the patch applies to /repo's HEAD
  * demo.py exits 0 without the patch and non-zero with it
  * the named existing tests pass with the patch (MPI shim on the path: `from mpi4py import MPI` raises RuntimeError here)
then runs the property's check against the patched /repo (restored straight afterwards) and records everything in meta.json."""
import json
import os
import shutil
import subprocess
import sys

src, sid, prop = sys.argv[1], sys.argv[2], sys.argv[3]
tests = None
tier = "quick"
if "--tests" in sys.argv:
    tests = sys.argv[sys.argv.index("--tests") + 1]
if "--tier" in sys.argv:
    tier = sys.argv[sys.argv.index("--tier") + 1]
dst = os.path.join("/verif/seeded", sid)
wt = "/tmp/wt_verify_" + sid
env = dict(os.environ, JAX_PLATFORMS="cpu", OMP_NUM_THREADS="1", PYTHONPATH="/verif/tools/mpi_shim:" + wt)


def sh(cmd, **kw):
    return subprocess.run(cmd, shell=True, stdout=subprocess.PIPE, stderr=subprocess.STDOUT, text=True, **kw)


subprocess.run("git -C /repo worktree remove --force %s" % wt, shell=True, stdout=subprocess.DEVNULL, stderr=subprocess.DEVNULL)
r = sh("git -C /repo worktree add -q --detach %s HEAD" % wt)
ran = []
try:
    chk = sh("git -C %s apply --check %s/patch.diff" % (wt, src))
    if chk.returncode != 0:
        print("PATCH DOES NOT APPLY:", chk.stdout[-500:])
        sys.exit(3)
    d0 = sh("cd %s && /venv/bin/python %s/demo.py" % (wt, src), env=env, timeout=1800)
    ran.append("demo.py on the unchanged tree: exit %d" % d0.returncode)
    sh("git -C %s apply %s/patch.diff" % (wt, src))
    d1 = sh("cd %s && /venv/bin/python %s/demo.py" % (wt, src), env=env, timeout=1800)
    ran.append("demo.py with the patch: exit %d" % d1.returncode)
    tres = None
    if tests:
        t = sh("cd %s && /venv/bin/python -m pytest -q -x -p no:cacheprovider --timeout=1800 %s 2>&1 | tail -3" % (wt, tests), env=env, timeout=7200)
        tres = t.stdout.strip().splitlines()[-1] if t.stdout.strip() else "?"
        ran.append("pytest %s with the patch: %s" % (tests, tres))
    ok = d0.returncode == 0 and d1.returncode != 0 and (tres is None or ("passed" in tres and "failed" not in tres))
finally:
    subprocess.run("git -C /repo worktree remove --force %s" % wt, shell=True, stdout=subprocess.DEVNULL, stderr=subprocess.DEVNULL)
print("\n".join(ran))
if not ok:
    print("NOT CONFIRMED - not kept")
    print(d1.stdout[-600:])
    sys.exit(1)
if "--nocheck" in sys.argv:
    # confirmed and kept; the check is run side by side in a scratch worktree (tools/try_mutant_wt.sh <dir> <prop> quick --record)
    os.makedirs(dst, exist_ok=True)
    shutil.copy(os.path.join(src, "patch.diff"), dst)
    shutil.copy(os.path.join(src, "demo.py"), dst)
    meta = json.load(open(os.path.join(src, "meta.json")))
    meta.update(id=sid, property=prop, confirmed=ran)
    json.dump(meta, open(os.path.join(dst, "meta.json"), "w"), indent=1)
    print("kept as", dst, "(check pending)")
    sys.exit(0)
# run the check against the patched /repo
subprocess.run("git -C /repo apply %s/patch.diff" % src, shell=True, check=True)
try:
    c = sh("cd /verif && ./check %s --tier %s" % (prop, tier), timeout=7200)
finally:
    subprocess.run("git -C /repo checkout -- .", shell=True)
lines = [l[:300] for l in c.stdout.splitlines() if l.startswith(("VIOLATION", "KNOWN-FINDING", "MACHINERY"))]
caught = any(l.startswith("VIOLATION") for l in lines)
os.makedirs(dst, exist_ok=True)
shutil.copy(os.path.join(src, "patch.diff"), dst)
shutil.copy(os.path.join(src, "demo.py"), dst)
meta = json.load(open(os.path.join(src, "meta.json")))
meta.update(id=sid, property=prop, confirmed=ran, check_cmd="./check %s --tier %s" % (prop, tier), check_exit=c.returncode, caught=caught, check_lines=lines[:4])
json.dump(meta, open(os.path.join(dst, "meta.json"), "w"), indent=1)
print("kept as", dst, "| check exit", c.returncode, "| caught" if caught else "| NOT CAUGHT")
for l in lines[:3]:
    print("  ", l)
