#!/bin/bash
# try_mutant_wt.sh <seeded-dir> <prop> [tier] [--record]: run a check against a scratch worktree of /repo's HEAD with the seeded
# change applied (VF_REPO), so that several changes can be tried side by side; the worktree and its evidence are removed afterwards.
d=$(realpath "$1"); prop=$2; tier=${3:-quick}; rec=$4
id=$(basename "$d")_$$
wt=/tmp/wtm_$id; ev=/tmp/evm_$id
git -C /repo worktree remove --force $wt >/dev/null 2>&1
git -C /repo worktree add -q --detach $wt HEAD || exit 2
trap 'git -C /repo worktree remove --force $wt >/dev/null 2>&1; rm -rf $ev' EXIT
git -C $wt apply "$d/patch.diff" || { echo "patch does not apply"; exit 2; }
mkdir -p $ev
VF_REPO=$wt VF_EVIDENCE_DIR=$ev /verif/check $prop --tier $tier > $ev/out.txt 2>&1
rc=$?
grep -E "VIOLATION|KNOWN-FINDING|MACHINERY|done:" $ev/out.txt | cut -c1-400 | head -8
echo "== $(basename $d) $prop $tier exit $rc"
if [ "$rec" = "--record" ]; then
  /venv/bin/python - "$d" "$rc" "$ev/out.txt" "$prop" "$tier" <<'P'
import json, sys
d, rc, out, prop, tier = sys.argv[1:]
m = json.load(open(d + "/meta.json"))
lines = [l.strip()[:400] for l in open(out) if l.startswith("VIOLATION")][:5]
m.update(check_cmd="./check %s --tier %s" % (prop, tier), check_exit=int(rc), caught=(int(rc) == 1 and bool(lines)), check_lines=lines)
json.dump(m, open(d + "/meta.json", "w"), indent=1)
P
fi
exit $rc
