------------------------------ MODULE HmcChain ------------------------------
(* C32 (chain bookkeeping).  nifty.re.hmc_oo._Sampler.generate_n_samples as a state machine.  One transition of the chain is
   several steps of the code, each a named action here:
       Split        key -> three children (the code: `key, k1, k2 = random.split(key, 3)`)
       Momentum(k)  the momentum is refreshed with one child
       Transition(k, a, moved)   HMC accept/reject or the NUTS tree with another child; acceptance statistic a, new position or not
       Carry(k)     the remaining child becomes the chain's key (returned in the core state)
       Update       update_chain(chain, idx, tree): row idx of the samples, running mean of the acceptance
   Begin(n) / End  one call of generate_n_samples; a later call continues from the returned core state (key, position).
   Keys are paths of child indices below the root key: splitting is the only way keys are made, so two keys are equal iff their
   paths are.  Positions are ids: 0 the initial position, g the position proposed by global transition g.
   Variant = "ok" is the design; the other variants are defective designs that the laws below must refute (vacuity witnesses). *)
EXTENDS Integers, Sequences, FiniteSets, TLC, Json, Rat
CONSTANTS MaxSteps, MaxSegs, Variant, EmitSegs, Outcomes   \* Outcomes = "fixed": one outcome per transition (used to enumerate the segmentations only)
VARIABLES key, avail, drawn, splitk, pos, gstep, seg, idx, n, samples, allsamples, accs, accmean, pc, lastacc, cuts
vars == <<key, avail, drawn, splitk, pos, gstep, seg, idx, n, samples, allsamples, accs, accmean, pc, lastacc, cuts>>
AccVals == {<<0, 1>>, <<1, 2>>, <<1, 1>>}
Child(k, i) == Append(k, i)
Init == /\ key = <<>> /\ avail = {} /\ drawn = <<>> /\ splitk = {} /\ pos = 0 /\ gstep = 0 /\ seg = 0 /\ idx = 0 /\ n = 0
        /\ samples = <<>> /\ allsamples = <<>> /\ accs = <<>> /\ accmean = <<0, 1>> /\ pc = "idle" /\ lastacc = <<0, 1>> /\ cuts = <<>>
Begin(m) == /\ pc = "idle" /\ seg < MaxSegs /\ m \in 1..(MaxSteps - gstep)
            /\ seg' = seg + 1 /\ n' = m /\ idx' = 0 /\ samples' = [i \in 1..m |-> -1] /\ accs' = <<>> /\ accmean' = <<0, 1>>
            /\ pc' = "split" /\ cuts' = Append(cuts, m)
            /\ UNCHANGED <<key, avail, drawn, splitk, pos, gstep, allsamples, lastacc>>
Split == /\ pc = "split"
         /\ avail' = {Child(key, 0), Child(key, 1), Child(key, 2)} /\ splitk' = splitk \cup {key} /\ pc' = "momentum"
         /\ UNCHANGED <<key, drawn, pos, gstep, seg, idx, n, samples, allsamples, accs, accmean, lastacc, cuts>>
Momentum(k) == /\ pc = "momentum" /\ k \in avail
               /\ drawn' = Append(drawn, k) /\ avail' = avail \ {k} /\ pc' = "build"
               /\ UNCHANGED <<key, splitk, pos, gstep, seg, idx, n, samples, allsamples, accs, accmean, lastacc, cuts>>
Transition(k, a, moved) ==
         /\ pc = "build" /\ (IF Variant = "reuse" THEN k = drawn[Len(drawn)] ELSE k \in avail)
         /\ drawn' = Append(drawn, k) /\ avail' = avail \ {k} /\ gstep' = gstep + 1
         /\ pos' = (IF moved THEN gstep + 1 ELSE pos) /\ lastacc' = a /\ pc' = "carry"
         /\ UNCHANGED <<key, splitk, seg, idx, n, samples, allsamples, accs, accmean, cuts>>
Carry(k) == /\ pc = "carry" /\ (IF Variant = "nocarry" THEN k = key ELSE k \in avail)
            /\ key' = k /\ avail' = {} /\ pc' = "update"
            /\ UNCHANGED <<drawn, splitk, pos, gstep, seg, idx, n, samples, allsamples, accs, accmean, lastacc, cuts>>
\* chain.acceptance + (a - chain.acceptance) / (idx + 1)
Update == /\ pc = "update"
          /\ samples' = [samples EXCEPT ![IF Variant = "offbyone" /\ idx > 0 THEN idx ELSE idx + 1] = pos]
          /\ allsamples' = Append(allsamples, pos)
          /\ accs' = Append(accs, lastacc)
          /\ accmean' = RAdd(accmean, RDiv(RSub(lastacc, accmean), Z(IF Variant = "meanidx" /\ idx > 0 THEN idx ELSE idx + 1)))
          /\ idx' = idx + 1 /\ pc' = (IF idx + 1 = n THEN "end" ELSE "split")
          /\ UNCHANGED <<key, avail, drawn, splitk, pos, gstep, seg, n, lastacc, cuts>>
End == /\ pc = "end" /\ pc' = "idle"
       /\ UNCHANGED <<key, avail, drawn, splitk, pos, gstep, seg, idx, n, samples, allsamples, accs, accmean, lastacc, cuts>>
Done == pc = "idle" /\ (gstep = MaxSteps \/ seg = MaxSegs) /\ UNCHANGED vars
Next == \/ \E m \in 1..MaxSteps : Begin(m)
        \/ Split \/ Update \/ End \/ Done
        \/ \E k \in (IF Outcomes = "fixed" THEN {Child(key, 2)} ELSE avail) : Momentum(k)
        \/ \E k \in (IF Outcomes = "fixed" THEN {Child(key, 1)} ELSE avail \cup {key} \cup {drawn[i] : i \in 1..Len(drawn)}),
              a \in (IF Outcomes = "fixed" THEN {<<1, 1>>} ELSE AccVals), moved \in (IF Outcomes = "fixed" THEN {TRUE} ELSE BOOLEAN) : Transition(k, a, moved)
        \/ \E k \in avail \cup {key} : Carry(k)
Spec == Init /\ [][Next]_vars
\* ---- laws ---------------------------------------------------------------------------------------------------------------
\* every random draw has its own key; no key is both split and drawn from; the key that is carried on was not drawn from
FreshKeys == /\ \A i, j \in 1..Len(drawn) : i # j => drawn[i] # drawn[j]
             /\ \A i \in 1..Len(drawn) : drawn[i] \notin splitk /\ drawn[i] # key
\* the carried key advances with every transition: it is never split twice, whatever the segmentation
KeyAdvances == (pc \in {"idle", "split"}) => (key \notin splitk /\ Len(key) = gstep)
\* the acceptance statistic is the arithmetic mean of the per-transition statistics of this call
RunningMean == (pc \in {"split", "end", "idle"} /\ Len(accs) > 0) => accmean = RDiv(RSum(accs, 1, Len(accs)), Z(Len(accs)))
\* row i of the returned samples is the state after transition i of this call; the last row is the returned position
RowsAreStates == (pc \in {"end", "idle"} /\ seg > 0) =>
                    /\ \A i \in 1..n : samples[i] = allsamples[Len(allsamples) - n + i]
                    /\ samples[n] = pos
\* a run cut into several calls visits the same states as one call: the visited states do not depend on `cuts`
\* (in the model the per-transition outcome is a free choice; on the code the law is checked by replaying `cuts`)
Continuity == Len(allsamples) = (IF pc \in {"carry", "update"} THEN gstep - 1 ELSE gstep)
Emit == (EmitSegs /\ pc = "idle" /\ (gstep = MaxSteps \/ seg = MaxSegs)) => PrintT(ToJson([cuts |-> cuts]))
\* vacuity witnesses (expected to be violated)
NeverRejects == ~(gstep > 1 /\ pc = "idle" /\ \E i \in 2..Len(allsamples) : allsamples[i] = allsamples[i - 1])
NeverTwoCalls == seg < 2
View == <<key, avail, drawn, splitk, pos, gstep, seg, idx, n, samples, allsamples, accs, accmean, pc, lastacc>>
=============================================================================
