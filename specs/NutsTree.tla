------------------------------ MODULE NutsTree ------------------------------
(* C32 (tree part).  Index bookkeeping of nifty.re.hmc.iterative_build_tree: new leaves 0,1,2,... of a subtree of 2^Depth
   leaves; even leaves are stored at S[popcount(n)], at every odd leaf n the U-turn test is run against
   S[i_min..i_max].  Claim: those are exactly the left ends of the balanced subtrees whose right end is n. *)
EXTENDS Integers, FiniteSets, TLC, Json
CONSTANT Depth
VARIABLES n, S, checked
vars == <<n, S, checked>>
RECURSIVE PopCount(_)
PopCount(x) == IF x = 0 THEN 0 ELSE (x % 2) + PopCount(x \div 2)
RECURSIVE TrailingOnes(_)
TrailingOnes(x) == IF x % 2 = 1 THEN 1 + TrailingOnes(x \div 2) ELSE 0
Pow2(j) == 2^j
N == Pow2(Depth)
Init == n = 0 /\ S = [k \in 0..(Depth) |-> -1] /\ checked = {}
\* leaf 0 is stored at S[0] before the loop; the loop handles n = 1 .. N-1
Step == /\ n < N
        /\ IF n = 0 THEN S' = [S EXCEPT ![0] = 0] /\ checked' = {}
           ELSE IF n % 2 = 0 THEN S' = [S EXCEPT ![PopCount(n)] = n] /\ checked' = {}
           ELSE LET l == TrailingOnes(n)  imax == PopCount(n - 1)  imin == imax - l + 1 IN
                /\ checked' = {S[k] : k \in imin..imax} /\ S' = S
        /\ n' = n + 1
Next == Step \/ (n = N /\ UNCHANGED vars)
Spec == Init /\ [][Next]_vars
\* after processing odd leaf m = n-1: the set of left partners that were tested
Expected(m) == {m - Pow2(j) + 1 : j \in 1..TrailingOnes(m)}
BalancedSubtrees == (n > 0 /\ (n - 1) % 2 = 1) => checked = Expected(n - 1)
NoStaleSlot == \A k \in 0..Depth : S[k] = -1 \/ (S[k] % 2 = 0 /\ PopCount(S[k]) = k /\ S[k] < N)
\* the recursive definition of the doubling scheme: the balanced sub-trees (aligned blocks of 2^j leaves) that END at leaf m
Blocks(m) == {<<m - Pow2(j) + 1, m>> : j \in {i \in 1..Depth : (m + 1) % Pow2(i) = 0}}
RecursiveDefinition == (n > 0 /\ (n - 1) % 2 = 1) => {<<l, n - 1>> : l \in checked} = Blocks(n - 1)
\* at the last leaf of the sub-tree the whole sub-tree is among the tested blocks
WholeTreeTested == n = N /\ Depth > 0 => 0 \in checked
Emit == (n > 0 /\ (n - 1) % 2 = 1) => PrintT(ToJson([depth |-> Depth, leaf |-> n - 1, partners |-> checked]))
=============================================================================
