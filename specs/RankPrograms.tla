---------------------------- MODULE RankPrograms ----------------------------
(* A generic network of sequential processes executing GIVEN communication programs under synchronous-send
   semantics (C23, spec B).  The programs are not written by hand: they are extracted from the real
   nifty.cl.utilities.allreduce_sum by running every rank against a recording communicator (harness/vf/
   fakempi.py, class RecordingComm) for one ordered partition and one kind of summand.  TLC explores every
   interleaving of the real code's message pattern.

   op records:  [op |-> "send", peer, tag, expr] | [op |-> "recv", peer, tag] | [op |-> "coll", name, root, expr]
   expr is an expression tree  <<"L", i>> | <<"N", a, b>> | <<"R", k>> (the k-th value this rank received) |
   <<"X">> (opaque payload: shapes, keys, numeric buffers).  *)
EXTENDS Naturals, Sequences, FiniteSets, TLC, Json, IOUtils
Insts == JsonDeserialize(IOEnv.PROG_FILE)
VARIABLES inst, pc, got, res
vars == <<inst, pc, got, res>>
I == Insts[inst]
NT == Len(I.ranks)
Ranks == 1..NT                       \* rank t of the code is process t+1 here
Ops(t) == I.ranks[t]
AtEnd(t) == pc[t] > Len(Ops(t))
Cur(t) == Ops(t)[pc[t]]
NoneV == <<"none">>

RECURSIVE Resolve(_,_)
Resolve(e, g) == IF e[1] = "N" THEN <<"N", Resolve(e[2], g), Resolve(e[3], g)>>
                 ELSE IF e[1] = "R" THEN g[e[2]]
                 ELSE e

Init == /\ inst \in 1..Len(Insts)
        /\ pc = [t \in 1..Len(Insts[inst].ranks) |-> 1]
        /\ got = [t \in 1..Len(Insts[inst].ranks) |-> <<>>]
        /\ res = [t \in 1..Len(Insts[inst].ranks) |-> NoneV]

\* a blocking send completes only together with the matching receive
CanMeet(s, r) == /\ s # r /\ ~AtEnd(s) /\ ~AtEnd(r)
                 /\ Cur(s).op = "send" /\ Cur(s).peer + 1 = r
                 /\ Cur(r).op = "recv" /\ Cur(r).peer + 1 = s
Rendezvous(s, r) ==
  /\ CanMeet(s, r)
  /\ got' = [got EXCEPT ![r] = Append(@, Resolve(Cur(s).expr, got[s]))]
  /\ pc' = [pc EXCEPT ![s] = @ + 1, ![r] = @ + 1]
  /\ UNCHANGED <<inst, res>>
\* a collective completes when every rank has reached a collective
AllAtColl == \A t \in Ranks : ~AtEnd(t) /\ Cur(t).op = "coll"
Coll ==
  /\ AllAtColl
  /\ pc' = [t \in Ranks |-> pc[t] + 1]
  /\ (IF Cur(1).name = "bcast_value"
      THEN res' = [t \in Ranks |-> Resolve(Cur(Cur(1).root + 1).expr, got[Cur(1).root + 1])]
      ELSE UNCHANGED res)
  /\ UNCHANGED <<inst, got>>
AllDone == \A t \in Ranks : AtEnd(t)
Done == AllDone /\ UNCHANGED vars
Next == (\E s, r \in Ranks : Rendezvous(s, r)) \/ Coll \/ Done
Spec == Init /\ [][Next]_vars

\* --- properties -------------------------------------------------------------------------------------------
RECURSIVE Canon(_,_,_)
Canon(lo, st, n) == IF st = 1 THEN <<"L", lo>>
                    ELSE IF lo + st \div 2 < n THEN <<"N", Canon(lo, st \div 2, n), Canon(lo + st \div 2, st \div 2, n)>>
                    ELSE Canon(lo, st \div 2, n)
RECURSIVE TopStep(_,_)
TopStep(s, n) == IF s >= n THEN s ELSE TopStep(2*s, n)
\* every task returns the canonical pairwise tree (only meaningful for symbolic summands)
Correct == (AllDone /\ I.symbolic) => \A t \in Ranks : res[t] = Canon(0, TopStep(1, I.n), I.n)
\* a receive is only ever matched with a send of the same message kind (shape header / buffer / object ...)
TagMatch == \A s, r \in Ranks : CanMeet(s, r) => Cur(s).tag = Cur(r).tag
\* all ranks execute the same collective with the same root
CollMatch == AllAtColl => \A t \in Ranks : Cur(t).name = Cur(1).name /\ Cur(t).root = Cur(1).root
\* deadlock freedom is TLC's deadlock check: Done is the only stuttering step.
=============================================================================
