---------------------------- MODULE GaussMarkov ----------------------------
(* C29.  Discrete Gauss-Markov processes  s_{k+1} = F_k s_k + w_k,  w_k ~ N(0, Q_k),  started at a deterministic s_0, as a transition
   system over the time steps: the state carries the exact (Rat) covariance of the states so far,
        cov[b][a] = Cov(s_{a-1}, s_{b-1})   (a <= b, a D x D matrix),        prop[b] = d s_{b-1} / d s_0,
   and one action appends a time step with its own step length and parameters (non-uniform grids, time-varying parameters):
     Wiener             D = 1   F = 1                 Q = sigma^2 dt
     Ornstein-Uhlenbeck D = 1   F = rho = exp(-gamma dt)   Q = sigma^2 (1 - rho^2)          (rho in {1/2, 1/4} exactly)
     integrated Wiener  D = 2   F = [[1, dt], [0, 1]] Q = sigma^2 [[dt^3/3 + asperity dt, dt^2/2], [dt^2/2, dt]]
   which are the transition matrices and noise covariances of the continuous-time processes sampled at the grid points.
   TLC checks the closed forms (Wiener: Var x_k = sum sigma_i^2 dt_i; OU with constant sigma: Var x_k = sigma^2 (1 - prod rho_i^2);
   Cov(x_a, x_b) = Var x_a prod_{a <= i < b} rho_i) against the recursion on every reachable state. *)
EXTENDS Rat, Json
CONSTANTS Kind, NSteps, VaryParams,
          Stationary      \* Ornstein-Uhlenbeck only: the initial state is itself random with the variance sigma_0^2 of the first step (steady-state start)
VARIABLES k, steps, cov, prop, v0
vars == <<k, steps, cov, prop, v0>>
D == IF Kind = "iwp" THEN 2 ELSE 1
Dts == {R(1, 2), Z(1), Z(2)}
Sig2s == {Z(1), Z(4)}                     \* sigma in {1, 2}
Asps == IF Kind = "iwp" THEN {Z(0), R(1, 4)} ELSE {Z(0)}
Rhos == IF Kind = "ou" THEN {R(1, 2), R(1, 4)} ELSE {Z(1)}
F(st) == IF Kind = "iwp" THEN <<<<Z(1), st.dt>>, <<Z(0), Z(1)>>>> ELSE <<<<st.rho>>>>
Q(st) == CASE Kind = "wiener" -> <<<<RMul(st.s2, st.dt)>>>>
           [] Kind = "ou" -> <<<<RMul(st.s2, RSub(Z(1), RMul(st.rho, st.rho)))>>>>
           [] Kind = "iwp" -> LET d == st.dt  d2 == RMul(d, d)  d3 == RMul(d2, d) IN
                <<<<RMul(st.s2, RAdd(RDiv(d3, Z(3)), RMul(st.asp, d))), RMul(st.s2, RDiv(d2, Z(2)))>>,
                  <<RMul(st.s2, RDiv(d2, Z(2))), RMul(st.s2, d)>>>>
Zero == [i \in 1..D |-> [j \in 1..D |-> Z(0)]]
Init == /\ k = 0 /\ steps = <<>> /\ prop = <<Id(D)>>
        /\ v0 \in (IF Stationary THEN Sig2s ELSE {Z(0)})
        /\ cov = <<<<IF Stationary THEN <<<<v0>>>> ELSE Zero>>>>
Step(st) ==
  /\ k < NSteps
  /\ (Stationary /\ k = 0 => st.s2 = v0)
  /\ (~VaryParams /\ k > 0 => st.s2 = steps[1].s2 /\ st.asp = steps[1].asp /\ st.rho = steps[1].rho)
  /\ LET Fk == F(st)  FT == MT(Fk, D, D)  last == cov[k + 1]
         Pn == MAdd(MMul(MMul(Fk, last[k + 1], D, D, D), FT, D, D, D), Q(st), D, D) IN
       /\ cov' = Append(cov, [a \in 1..(k + 2) |-> IF a <= k + 1 THEN MMul(last[a], FT, D, D, D) ELSE Pn])
       /\ prop' = Append(prop, MMul(Fk, prop[k + 1], D, D, D))
  /\ steps' = Append(steps, st) /\ k' = k + 1 /\ UNCHANGED v0
Next == \/ \E dt \in Dts, s2 \in Sig2s, asp \in Asps, rho \in Rhos : Step([dt |-> dt, s2 |-> s2, asp |-> asp, rho |-> rho])
        \/ (k = NSteps /\ UNCHANGED vars)
Spec == Init /\ [][Next]_vars
\* ---- laws -----------------------------------------------------------------------------------------------------
RECURSIVE ProdRho2(_, _)
ProdRho2(a, b) == IF a > b THEN Z(1) ELSE RMul(RMul(steps[a].rho, steps[a].rho), ProdRho2(a + 1, b))
RECURSIVE ProdRho(_, _)
ProdRho(a, b) == IF a > b THEN Z(1) ELSE RMul(steps[a].rho, ProdRho(a + 1, b))
VarX(b) == cov[b][b][1][1]
WienerClosed == (Kind = "wiener" /\ ~Stationary) => \A b \in 1..(k + 1) : VarX(b) = RSum([i \in 1..k |-> RMul(steps[i].s2, steps[i].dt)], 1, b - 1)
\* a steady-state start with constant sigma stays in the steady state
OUStationary == (Kind = "ou" /\ Stationary /\ ~VaryParams /\ k > 0) => \A b \in 1..(k + 1) : VarX(b) = steps[1].s2
OUClosed == (Kind = "ou" /\ ~Stationary /\ ~VaryParams /\ k > 0) => \A b \in 1..(k + 1) : VarX(b) = RMul(steps[1].s2, RSub(Z(1), ProdRho2(1, b - 1)))
OUCross == Kind = "ou" => \A b \in 1..(k + 1) : \A a \in 1..b : cov[b][a][1][1] = RMul(VarX(a), ProdRho(a, b - 1))
\* the velocity of the integrated Wiener process is a Wiener process; position-velocity covariance sigma^2 t^2/2 for constant parameters, no asperity
IWPVelocity == Kind = "iwp" => \A b \in 1..(k + 1) : cov[b][b][2][2] = RSum([i \in 1..k |-> RMul(steps[i].s2, steps[i].dt)], 1, b - 1)
Time(b) == RSum([i \in 1..k |-> steps[i].dt], 1, b - 1)
IWPClosed == (Kind = "iwp" /\ ~VaryParams /\ k > 0 /\ steps[1].asp = Z(0)) =>
               \A b \in 1..(k + 1) : LET t == Time(b) IN
                  /\ cov[b][b][1][1] = RMul(steps[1].s2, RDiv(RMul(t, RMul(t, t)), Z(3)))
                  /\ cov[b][b][1][2] = RMul(steps[1].s2, RDiv(RMul(t, t), Z(2)))
\* the transition matrices and noise covariances are those of ONE continuous-time process sampled at the grid points: two consecutive steps with
\* the same parameters compose into the single step over the merged interval (so refining the grid does not change the covariance at the old points)
RefineLaw == \A i \in 1..(k - 1) : (steps[i].s2 = steps[i + 1].s2 /\ steps[i].asp = steps[i + 1].asp) =>
               LET a == steps[i]  b == steps[i + 1]
                   m == [dt |-> RAdd(a.dt, b.dt), s2 |-> a.s2, asp |-> a.asp, rho |-> RMul(a.rho, b.rho)] IN
               /\ MMul(F(b), F(a), D, D, D) = F(m)
               /\ MAdd(MMul(MMul(F(b), Q(a), D, D, D), MT(F(b), D, D), D, D, D), Q(b), D, D) = Q(m)
NonNegative == \A b \in 1..(k + 1) : \A i \in 1..D : ~RLt(cov[b][b][i][i], Z(0))
\* vacuity witness (expected to be violated): a non-uniform grid with time-varying parameters is reached
NeverVaries == ~(k >= 2 /\ steps[1].dt # steps[2].dt /\ steps[1].s2 # steps[2].s2)
RJ(x) == [n |-> x[1], d |-> x[2]]
MJ(M) == [i \in 1..D |-> [j \in 1..D |-> RJ(M[i][j])]]
Emit == k < NSteps \/ PrintT(ToJson([kind |-> Kind, stationary |-> Stationary, steps |-> [i \in 1..k |-> [dt |-> RJ(steps[i].dt), s2 |-> RJ(steps[i].s2), asp |-> RJ(steps[i].asp), rho |-> RJ(steps[i].rho)]],
                                       cov |-> [b \in 1..(k + 1) |-> [a \in 1..b |-> MJ(cov[b][a])]], prop |-> [b \in 1..(k + 1) |-> MJ(prop[b])]]))
=============================================================================
