------------------------------ MODULE FlatGrid ------------------------------
(* C31 (second part).  Single-integer indices of a two-axis periodic multi-resolution grid (nifty.re.multi_grid.FlatGrid) and sparse
   selections of them (SparseGrid).
     level l has shape (n1_l, n2_l) = shape0 * product of the splits up to l; the children of (p, q) are (p s1 + u, q s2 + v)
     serial ordering   flat = i * n2_l + j                                                    (C order of the level)
     nest ordering     flat_0 = C order of level 0;  flat_{l+1}(i, j) = flat_l(parent) * (s1 s2) + (i mod s1) * s2 + (j mod s2)
                       (the flat index of a child is the flat index of its parent followed by one more digit: the children of
                       f are exactly f S .. f S + S - 1, like the nested HEALPix scheme)
     sparse grid       per level a sorted list of nest indices that are modelled ("mapping"); a voxel is addressed by its position
                       in that list; it is refined iff all of its children are in the next level's list
   One TLC state per grid; the state carries the index tables of every level. *)
EXTENDS Integers, Sequences, FiniteSets, TLC, Json
VARIABLES g, res
Shapes0 == {<<2, 3>>, <<1, 2>>, <<2, 2>>, <<3, 1>>}
SplitSet == {<<2, 2>>, <<3, 2>>, <<2, 1>>, <<1, 3>>}
Depth(gr) == Len(gr.splits)
RECURSIVE ShapeAt(_, _)
ShapeAt(gr, l) == IF l = 0 THEN gr.shape0 ELSE LET s == ShapeAt(gr, l - 1) IN <<s[1] * gr.splits[l][1], s[2] * gr.splits[l][2]>>
Cells(gr, l) == (0..(ShapeAt(gr, l)[1] - 1)) \X (0..(ShapeAt(gr, l)[2] - 1))
S(gr, l) == gr.splits[l][1] * gr.splits[l][2]                          \* number of children of a voxel of level l - 1
ParentOf(gr, l, c) == <<c[1] \div gr.splits[l][1], c[2] \div gr.splits[l][2]>>             \* level l -> level l - 1
ChildrenOf(gr, l, c) == {<<c[1] * gr.splits[l + 1][1] + u, c[2] * gr.splits[l + 1][2] + v>> : u \in 0..(gr.splits[l + 1][1] - 1), v \in 0..(gr.splits[l + 1][2] - 1)}
Serial(gr, l, c) == c[1] * ShapeAt(gr, l)[2] + c[2]
RECURSIVE Nest(_, _, _)
Nest(gr, l, c) == IF l = 0 THEN Serial(gr, 0, c)
                  ELSE Nest(gr, l - 1, ParentOf(gr, l, c)) * S(gr, l) + (c[1] % gr.splits[l][1]) * gr.splits[l][2] + (c[2] % gr.splits[l][2])
NCells(gr, l) == ShapeAt(gr, l)[1] * ShapeAt(gr, l)[2]
\* ---- sparse selection: level 0 everything; level l + 1 = the children of every second modelled voxel of level l (by position) ----
RECURSIVE Mapping(_, _)
Sorted(T) == LET n == Cardinality(T) IN [k \in 1..n |-> CHOOSE x \in T : Cardinality({y \in T : y < x}) = k - 1]
Mapping(gr, l) == IF l = 0 THEN Sorted({Nest(gr, 0, c) : c \in Cells(gr, 0)})
                  ELSE LET m == Mapping(gr, l - 1)
                           keep == {m[k] : k \in {k \in 1..Len(m) : k % 2 = 1}} IN
                       Sorted(UNION {{f * S(gr, l) + d : d \in 0..(S(gr, l) - 1)} : f \in keep})
Pos(m, f) == CHOOSE k \in 1..Len(m) : m[k] = f                          \* array index + 1
InMap(m, f) == \E k \in 1..Len(m) : m[k] = f
Compute(gr) ==
  LET lv == 0..Depth(gr)
      ok == /\ \A l \in lv : {Serial(gr, l, c) : c \in Cells(gr, l)} = 0..(NCells(gr, l) - 1)                      \* serial is a bijection
            /\ \A l \in lv : {Nest(gr, l, c) : c \in Cells(gr, l)} = 0..(NCells(gr, l) - 1)                        \* nest is a bijection
            /\ \A l \in lv : \A c, d \in Cells(gr, l) : c # d => Nest(gr, l, c) # Nest(gr, l, d)
            /\ \A l \in 0..(Depth(gr) - 1) : \A c \in Cells(gr, l) :                                               \* children are the next digit
                 {Nest(gr, l + 1, k) : k \in ChildrenOf(gr, l, c)} = (Nest(gr, l, c) * S(gr, l + 1))..(Nest(gr, l, c) * S(gr, l + 1) + S(gr, l + 1) - 1)
            /\ \A l \in 1..Depth(gr) : \A c \in Cells(gr, l) : Nest(gr, l - 1, ParentOf(gr, l, c)) = Nest(gr, l, c) \div S(gr, l)
            /\ \A l \in 1..Depth(gr) : \A k \in 1..Len(Mapping(gr, l)) : InMap(Mapping(gr, l - 1), Mapping(gr, l)[k] \div S(gr, l))   \* every modelled voxel has a modelled parent
  IN [ok |-> ok,
      levels |-> [l1 \in 1..(Depth(gr) + 1) |-> LET l == l1 - 1 IN
                   [shape |-> ShapeAt(gr, l),
                    cells |-> {[i |-> c[1], j |-> c[2], serial |-> Serial(gr, l, c), nest |-> Nest(gr, l, c)] : c \in Cells(gr, l)},
                    mapping |-> Mapping(gr, l),
                    \* per array index of the sparse grid: nest index, refined?, children (array indices on the next level), parent (array index)
                    sparse |-> LET m == Mapping(gr, l) IN
                               [k \in 1..Len(m) |->
                                  LET f == m[k]
                                      kids == IF l < Depth(gr) THEN [d \in 1..S(gr, l + 1) |-> f * S(gr, l + 1) + d - 1] ELSE <<>>
                                      refined == l < Depth(gr) /\ \A d \in 1..Len(kids) : InMap(Mapping(gr, l + 1), kids[d]) IN
                                  [flat |-> f, refined |-> refined,
                                   children |-> IF refined THEN [d \in 1..Len(kids) |-> Pos(Mapping(gr, l + 1), kids[d]) - 1] ELSE <<>>,
                                   parent |-> IF l = 0 THEN -1 ELSE Pos(Mapping(gr, l - 1), f \div S(gr, l)) - 1]]]]]
Init == g = [shape0 |-> <<>>, splits |-> <<>>] /\ res = [ok |-> TRUE]
Choose == /\ g.shape0 = <<>>
          /\ \E s0 \in Shapes0, d \in 1..2 : \E sp \in [1..d -> SplitSet] :
               LET gr == [shape0 |-> s0, splits |-> sp] IN NCells(gr, d) <= 72 /\ g' = gr /\ res' = Compute(gr)
Next == Choose \/ (g.shape0 # <<>> /\ UNCHANGED <<g, res>>)
Spec == Init /\ [][Next]_<<g, res>>
Laws == res.ok
\* vacuity witness (expected to be violated): serial and nest orderings differ somewhere
SameOrderings == g.shape0 = <<>> \/ \A l1 \in 1..Len(res.levels) : \A c \in res.levels[l1].cells : c.serial = c.nest
Emit == g.shape0 = <<>> \/ PrintT(ToJson([g |-> g, levels |-> res.levels]))
=============================================================================
