---------------------------- MODULE AllReduce ----------------------------
(* Design-level specification of nifty.cl.utilities.allreduce_sum (C23, used by C22).

   NObj summands are distributed *in order* over NTask tasks (who: a monotone map, empty tasks allowed).
   Every task runs the same doubly nested loop  "step = 1,2,4,..; j = 0, 2*step, .."; the owner of v[j]
   adds v[j+step] to it, locally or after receiving it from the owner of v[j+step].  Point-to-point sends are
   SYNCHRONOUS here: a send is enabled only together with its matching receive (Rendezvous), which is the
   strongest blocking semantics an MPI implementation may have.  At the end v[0] is broadcast from who[0].

   Values are expression trees, so "same fixed pairwise summation tree" is an equality of trees.
   prog[t] is a history variable: the sequence of communication operations task t performed; it is a function
   of (who, j[t], step[t]) and therefore does not enlarge the state space.  It is emitted at the end of every
   behaviour so that the harness can compare it with the operations the real code performs. *)
EXTENDS Naturals, Sequences, FiniteSets, TLC, Json
CONSTANTS MaxObj, NTask, EmitProgs
VARIABLES NObj, who, pc, vals, step, j, bres, prog     \* NObj is chosen in Init (1..MaxObj) and never changes
vars == <<NObj, who, pc, vals, step, j, bres, prog>>
Tasks == 0..(NTask-1)
Idx == 0..(NObj-1)
IdxOf(n) == 0..(n-1)
Leaf(i) == <<"L", i>>
Node(a,b) == <<"N", a, b>>
NoneV == <<"none">>
Monotone(w, n) == \A a, b \in IdxOf(n) : a <= b => w[a] <= w[b]

Init == /\ NObj \in 1..MaxObj
        /\ who \in {w \in [IdxOf(NObj) -> Tasks] : Monotone(w, NObj)}
        /\ pc = [t \in Tasks |-> "loop"]
        /\ vals = [t \in Tasks |-> [i \in Idx |-> IF who[i] = t THEN Leaf(i) ELSE NoneV]]
        /\ step = [t \in Tasks |-> 1]
        /\ j = [t \in Tasks |-> 0]
        /\ bres = [t \in Tasks |-> NoneV]
        /\ prog = [t \in Tasks |-> <<>>]

\* the canonical pairwise tree of the single-process algorithm
RECURSIVE Canon(_,_)
Canon(lo, st) == IF st = 1 THEN Leaf(lo)
                 ELSE IF lo + st \div 2 < NObj THEN Node(Canon(lo, st \div 2), Canon(lo + st \div 2, st \div 2))
                 ELSE Canon(lo, st \div 2)
RECURSIVE TopStep(_)
TopStep(s) == IF s >= NObj THEN s ELSE TopStep(2*s)
Expected == Canon(0, TopStep(1))

NextJ(t) == IF j[t] + 2*step[t] < NObj THEN j[t] + 2*step[t] ELSE 0
NextS(t) == IF j[t] + 2*step[t] < NObj THEN step[t] ELSE 2*step[t]

\* a loop iteration of task t that needs no partner task
Local(t) == /\ pc[t] = "loop" /\ step[t] < NObj
            /\ LET a == j[t]  b == j[t] + step[t] IN
               \/ /\ b >= NObj /\ UNCHANGED vals
               \/ /\ b < NObj /\ who[a] # t /\ who[b] # t /\ UNCHANGED vals
               \/ /\ b < NObj /\ who[a] = t /\ who[b] = t
                  /\ vals' = [vals EXCEPT ![t][a] = Node(vals[t][a], vals[t][b]), ![t][b] = NoneV]
            /\ j' = [j EXCEPT ![t] = NextJ(t)] /\ step' = [step EXCEPT ![t] = NextS(t)]
            /\ UNCHANGED <<NObj, who, pc, bres, prog>>

\* synchronous send/receive: s owns v[j+step] and sends it, r owns v[j] and receives; both are at the same pair
\* MPI matches messages by (source, destination) only - not by loop position - so the guard does not ask
\* for equal positions; that the two tasks ARE at the same pair is the invariant InSync below.
CanMeet(s, r) ==
  /\ s # r /\ pc[s] = "loop" /\ pc[r] = "loop"
  /\ step[s] < NObj /\ step[r] < NObj
  /\ j[s] + step[s] < NObj /\ j[r] + step[r] < NObj
  /\ who[j[s] + step[s]] = s /\ who[j[s]] = r          \* s is about to send to r
  /\ who[j[r]] = r /\ who[j[r] + step[r]] = s          \* r is about to receive from s
Rendezvous(s, r) ==
  /\ CanMeet(s, r)
  /\ LET a == j[r]  b == j[s] + step[s] IN
       /\ vals' = [vals EXCEPT ![r][a] = Node(vals[r][a], vals[s][b]), ![s][b] = NoneV]
       /\ prog' = [prog EXCEPT ![s] = Append(@, [op |-> "send", peer |-> r, idx |-> b]),
                               ![r] = Append(@, [op |-> "recv", peer |-> s, idx |-> a])]
  /\ j' = [j EXCEPT ![s] = NextJ(s), ![r] = NextJ(r)]
  /\ step' = [step EXCEPT ![s] = NextS(s), ![r] = NextS(r)]
  /\ UNCHANGED <<NObj, who, pc, bres>>

Finish(t) == /\ pc[t] = "loop" /\ step[t] >= NObj /\ pc' = [pc EXCEPT ![t] = "bcast"]
             /\ UNCHANGED <<NObj, who, vals, step, j, bres, prog>>
Bcast == /\ \A t \in Tasks : pc[t] = "bcast"
         /\ bres' = [t \in Tasks |-> vals[who[0]][0]]
         /\ pc' = [t \in Tasks |-> "done"]
         /\ UNCHANGED <<NObj, who, vals, step, j, prog>>
Done == /\ \A t \in Tasks : pc[t] = "done" /\ UNCHANGED vars
Next == (\E t \in Tasks : Local(t) \/ Finish(t)) \/ (\E s, r \in Tasks : Rendezvous(s, r)) \/ Bcast \/ Done
Spec == Init /\ [][Next]_vars

AllDone == \A t \in Tasks : pc[t] = "done"
\* every task returns the canonical tree (= the comm=None result)
Correct == AllDone => \A t \in Tasks : bres[t] = Expected
\* a value is never duplicated or lost: each leaf is held by exactly one task while the reduction runs
RECURSIVE Leaves(_)
Leaves(v) == IF v[1] = "L" THEN {v[2]} ELSE IF v[1] = "N" THEN Leaves(v[2]) \cup Leaves(v[3]) ELSE {}
Conservation == (\E t \in Tasks : pc[t] = "loop") =>
                  \A i \in Idx : Cardinality({<<t, k>> \in Tasks \X Idx : i \in Leaves(vals[t][k])}) = 1
\* a send is only ever paired with the receive of the same pair (by construction of Rendezvous) and the
\* two tasks agree on the loop position
InSync == \A s, r \in Tasks : CanMeet(s, r) => (j[s] = j[r] /\ step[s] = step[r])
\* emission of the per-task communication programs of finished behaviours (spec -> code binding)
Emit == (EmitProgs /\ AllDone) =>
           PrintT(ToJson([n |-> NObj, who |-> [i \in Idx |-> who[i]], expected |-> Expected,
                          progs |-> [t \in Tasks |-> [rank |-> t, ops |-> prog[t]]]]))
\* witness for vacuity control: some behaviour really communicates
NoComm == ~(AllDone /\ \E t \in Tasks : Len(prog[t]) > 0)
=============================================================================
