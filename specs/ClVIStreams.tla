---------------------------- MODULE ClVIStreams ----------------------------
(* C25 (random streams across a resume).  The classic VI driver stores the random state of the process in the output directory when a
   run starts from scratch (pickle/nifty_random_state), spawns one child seed sequence per iteration from it, lets an iteration without
   fresh stochasticity re-use the sequence of its predecessor, and pushes sequence i around iteration i.  A resumed run restores the stored
   state before it spawns, so that iteration i draws from the same stream whoever executes it - whatever random state the restarted
   process happens to be in.  The file protocol itself is ClVIResume.tla; here the marker is written atomically.

     rfile      the stored random state (None | "S0" | "X")           marker   last finished iteration (-1: none)
     base       the state the current process spawned its sequences from
     chain[i]   index of the spawned child iteration i uses in the current process
     drew[i]    <<state, child index>> of the stream iteration i was (last) computed with
   LoadRule / ChainRule select the code ("always", "from0") or two plausible mistakes, refuted on the model. *)
EXTENDS Integers, Sequences, TLC
CONSTANTS NIter, FreshName, SchedName, LoadRule, ChainRule, OtherProc, MaxCrashes
Digits(s) == CASE s = "1111" -> <<1, 1, 1, 1>> [] s = "1100" -> <<1, 1, 0, 0>> [] s = "1011" -> <<1, 0, 1, 1>> [] s = "1001" -> <<1, 0, 0, 1>>
               [] s = "1000" -> <<1, 0, 0, 0>> [] s = "0011" -> <<0, 0, 1, 1>> [] s = "0101" -> <<0, 1, 0, 1>> [] s = "0000" -> <<0, 0, 0, 0>>
               [] s = "1010" -> <<1, 0, 1, 0>> [] s = "0111" -> <<0, 1, 1, 1>>
Iters == 0..(NIter - 1)
Fresh(i) == Digits(FreshName)[i + 1] = 1
Sampled(i) == Digits(SchedName)[i + 1] = 1
None == <<"none", -1>>
Procs == IF OtherProc THEN {"S0", "X"} ELSE {"S0"}
VARIABLES marker, rfile, base, chain, drew, status, it, crashes, drawn
vars == <<marker, rfile, base, chain, drew, status, it, crashes, drawn>>
RECURSIVE LastFresh(_)
LastFresh(i) == IF i = 0 \/ Fresh(i) THEN i ELSE LastFresh(i - 1)
\* the duplication loop of the driver: from iteration 0 (the code), or only from the first iteration that is still to be done
RECURSIVE ChainFrom(_, _)
ChainFrom(init, i) == IF i < init THEN i                                     \* untouched raw child
                      ELSE IF Fresh(i) \/ i = 0 THEN i ELSE ChainFrom(init, i - 1)
Chain(init) == [i \in Iters |-> IF ChainRule = "from0" THEN ChainFrom(0, i) ELSE ChainFrom(init, i)]
Init == /\ marker = -1 /\ rfile = "S0" /\ base = "S0" /\ chain = Chain(0) /\ drew = [i \in Iters |-> None]
        /\ status = "run" /\ it = 0 /\ crashes = 0 /\ drawn = FALSE
\* push_sseq(sseqs[it]) and the computation of iteration it
Draw == /\ status = "run" /\ ~drawn /\ it < NIter
        /\ drew' = [drew EXCEPT ![it] = <<base, chain[it]>>] /\ drawn' = TRUE
        /\ UNCHANGED <<marker, rfile, base, chain, status, it, crashes>>
\* samples and marker of iteration it are on disk
Finish == /\ status = "run" /\ drawn
          /\ marker' = it /\ drawn' = FALSE
          /\ IF it + 1 < NIter THEN it' = it + 1 /\ status' = "run" ELSE it' = it /\ status' = "done"
          /\ UNCHANGED <<rfile, base, chain, drew, crashes>>
Crash == /\ status = "run" /\ crashes < MaxCrashes /\ status' = "crashed" /\ crashes' = crashes + 1
         /\ UNCHANGED <<marker, rfile, base, chain, drew, it, drawn>>
Restart(p) ==
  /\ status = "crashed" /\ drawn' = FALSE /\ UNCHANGED <<marker, crashes>>
  /\ IF marker = -1
     THEN /\ rfile' = p /\ base' = p /\ chain' = Chain(0) /\ it' = 0 /\ status' = "run"     \* nothing finished: a run from scratch
          /\ drew' = [i \in Iters |-> None]
     ELSE /\ base' = IF LoadRule = "always" \/ Sampled(marker) THEN rfile ELSE p
          /\ chain' = Chain(marker + 1) /\ it' = IF marker + 1 < NIter THEN marker + 1 ELSE marker
          /\ status' = IF marker + 1 < NIter THEN "run" ELSE "done"
          /\ UNCHANGED <<rfile, drew>>
Next == Draw \/ Finish \/ Crash \/ (\E p \in Procs : Restart(p)) \/ (status = "done" /\ UNCHANGED vars)
Spec == Init /\ [][Next]_vars
\* every iteration is computed with the stream an uninterrupted run of the process that started the run would have used
StreamsConsistent == \A i \in Iters : drew[i] # None => drew[i] = <<rfile, LastFresh(i)>>
\* vacuity witnesses (expected to be violated)
NeverResumesInOtherState == ~(status = "run" /\ crashes > 0 /\ marker >= 0 /\ OtherProc /\ base = "S0" /\ rfile = "S0" /\ it > 0 /\ drawn)
NeverReuses == \A i \in Iters : drew[i] # None => drew[i][2] = i
=============================================================================
