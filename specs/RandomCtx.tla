----------------------------- MODULE RandomCtx -----------------------------
(* C21 (classic part).  nifty.cl.random: the stacks of seed sequences / generators, spawning, draws,
   Context enter / exit (normal and by exception), getState / setState.

   stack   Seq of [seed, spawned, drawn]: seed = entropy followed by the spawn path (the identity of a
           SeedSequence), spawned = children handed out so far, drawn = draw calls made on ITS generator
   ctx     open Context blocks: the depth at entry, the entry they must restore, and whether the body has been
           balanced so far (a body that pops down to the entry depth has misused the API, see DESIGN C21)
   saved   result of getState()
   err     "none" | "inconsistent" (RuntimeError of Context.__exit__)
   robjs   one re-usable Context OBJECT per seed (created by the first Reenter): the children its seed sequence has handed out so far (-1:
           no object yet).  Re-entering the same Context object pushes a FRESH generator of the same seed sequence (the draws repeat
           from the start - "draws depend only on the seed") while the seed sequence itself, an object, keeps counting its children.
   hist    the behaviour, for replay (KeepHist) *)
EXTENDS Integers, Sequences, TLC, Json
CONSTANTS Seeds, MaxDepth, MaxOps, MaxSpawn, KeepHist, EmitHist
VARIABLES stack, ctx, saved, err, nops, hist, robjs
vars == <<stack, ctx, saved, err, nops, hist, robjs>>
Entry(s) == [seed |-> s, spawned |-> 0, drawn |-> 0, robj |-> 0]
Init == /\ stack = <<Entry(<<42>>)>> /\ ctx = <<>> /\ saved = <<>> /\ err = "none" /\ nops = 0 /\ hist = <<>> /\ robjs = [s \in Seeds |-> -1]
\* entries leaving the stack: a re-usable Context object keeps the child count of its seed sequence
Recorded(removed) == [s \in Seeds |-> IF \E j \in 1..Len(removed) : removed[j].robj = s
                                      THEN (LET j == CHOOSE i \in 1..Len(removed) : removed[i].robj = s IN removed[j].spawned) ELSE robjs[s]]
Top == stack[Len(stack)]
SetTop(st, e) == [st EXCEPT ![Len(st)] = e]
\* Log must be the LAST conjunct of an action: it reads the primed stack to record the projection after the call
Guard == nops < MaxOps /\ err = "none"
Log(op, arg, n, ok) == /\ nops' = nops + 1
                       /\ hist' = IF KeepHist
                                  THEN Append(hist, [op |-> op, arg |-> arg, n |-> n, ok |-> ok, depth |-> Len(stack'),
                                                     seed |-> stack'[Len(stack')].seed, spawned |-> stack'[Len(stack')].spawned,
                                                     drawn |-> stack'[Len(stack')].drawn, err |-> err'])
                                  ELSE hist

PushSeed(s) == /\ Guard /\ Len(stack) < MaxDepth /\ stack' = Append(stack, Entry(<<s>>))
               /\ UNCHANGED <<ctx, saved, err, robjs>> /\ Log("push_seed", s, 0, TRUE)
\* spawn_sseq(n) advances the parent's child counter; child i of this spawn is pushed
SpawnPush(n, i) == /\ Guard /\ Len(stack) < MaxDepth /\ i < n /\ Top.spawned + n <= 2 * MaxSpawn
                   /\ stack' = Append(SetTop(stack, [Top EXCEPT !.spawned = @ + n]), Entry(Append(Top.seed, Top.spawned + i)))
                   /\ UNCHANGED <<ctx, saved, err, robjs>> /\ Log("spawn_push", i, n, TRUE)
\* spawning without pushing still advances the parent's counter
Spawn(n) == /\ Guard /\ Top.spawned + n <= 2 * MaxSpawn /\ stack' = SetTop(stack, [Top EXCEPT !.spawned = @ + n])
            /\ UNCHANGED <<ctx, saved, err, robjs>> /\ Log("spawn", 0, n, TRUE)
Pop == /\ Guard /\ Len(stack) > 1 /\ stack' = SubSeq(stack, 1, Len(stack) - 1)
       /\ ctx' = [j \in 1..Len(ctx) |-> IF Len(stack) - 1 <= ctx[j].depth THEN [ctx[j] EXCEPT !.ok = FALSE] ELSE ctx[j]]
       /\ robjs' = Recorded(<<Top>>)
       /\ UNCHANGED <<saved, err>> /\ Log("pop", 0, 0, TRUE)
Draw(k) == /\ Guard /\ stack' = SetTop(stack, [Top EXCEPT !.drawn = @ + 1])
           /\ UNCHANGED <<ctx, saved, err, robjs>> /\ Log("draw", k, 0, TRUE)
Enter(s) == /\ Guard /\ Len(stack) < MaxDepth
            /\ ctx' = Append(ctx, [depth |-> Len(stack), top |-> Top, ok |-> TRUE])
            /\ stack' = Append(stack, Entry(<<s>>)) /\ UNCHANGED <<saved, err, robjs>> /\ Log("enter", s, 0, TRUE)
\* `with c:` for the SAME Context object c = Context(s) as in an earlier `with c:` (not while it is still open)
Reenter(s) == /\ Guard /\ Len(stack) < MaxDepth /\ \A j \in 1..Len(stack) : stack[j].robj # s
              /\ ctx' = Append(ctx, [depth |-> Len(stack), top |-> Top, ok |-> TRUE])
              /\ stack' = Append(stack, [seed |-> <<s>>, spawned |-> (IF robjs[s] = -1 THEN 0 ELSE robjs[s]), drawn |-> 0, robj |-> s])
              /\ robjs' = [robjs EXCEPT ![s] = IF @ = -1 THEN 0 ELSE @]
              /\ UNCHANGED <<saved, err>> /\ Log("reenter", s, 0, TRUE)
\* Context(spawn_sseq(n)[i])
EnterSpawned(n, i) ==
            /\ Guard /\ Len(stack) < MaxDepth /\ i < n /\ Top.spawned + n <= 2 * MaxSpawn
            /\ LET par == [Top EXCEPT !.spawned = @ + n] IN
                 /\ ctx' = Append(ctx, [depth |-> Len(stack), top |-> par, ok |-> TRUE])
                 /\ stack' = Append(SetTop(stack, par), Entry(Append(Top.seed, Top.spawned + i)))
            /\ UNCHANGED <<saved, err, robjs>> /\ Log("enter_spawned", i, n, TRUE)
\* __exit__: pop once, then compare depth; the same code path serves normal exit and exceptions
ExitOne(st, cx) == [stack |-> SubSeq(st, 1, Len(st) - 1), ctx |-> SubSeq(cx, 1, Len(cx) - 1),
                    bad |-> Len(st) - 1 # cx[Len(cx)].depth]
Exit == /\ Guard /\ Len(ctx) > 0 /\ Len(stack) > 1
        /\ LET r == ExitOne(stack, ctx) IN
             /\ stack' = r.stack /\ ctx' = r.ctx /\ err' = IF r.bad THEN "inconsistent" ELSE err
        /\ robjs' = Recorded(<<Top>>)
        /\ UNCHANGED saved /\ Log("exit", 0, 0, ctx[Len(ctx)].ok)
\* an exception raised in the body unwinds ALL open contexts, innermost first (defined for bodies sitting on their depth)
Raise == /\ Guard /\ Len(ctx) > 0
         /\ LET n == Len(ctx)  base == ctx[1].depth IN
              /\ \A j \in 1..n : ctx[j].depth = base + j - 1
              /\ Len(stack) = base + n
              /\ stack' = SubSeq(stack, 1, base) /\ ctx' = <<>>
              /\ robjs' = Recorded(SubSeq(stack, base + 1, Len(stack)))
         /\ UNCHANGED <<saved, err>> /\ Log("raise", 0, 0, \A j \in 1..Len(ctx) : ctx[j].ok)
GetState == /\ Guard /\ saved' = <<stack>> /\ UNCHANGED <<stack, ctx, err, robjs>> /\ Log("get_state", 0, 0, TRUE)
\* the restored levels are unpickled COPIES: none of them is the re-usable Context object any more
SetState == /\ Guard /\ saved # <<>> /\ Len(ctx) = 0 /\ stack' = [j \in 1..Len(saved[1]) |-> [saved[1][j] EXCEPT !.robj = 0]]
            /\ UNCHANGED <<ctx, saved, err, robjs>> /\ Log("set_state", 0, 0, TRUE)
Next == \/ \E s \in Seeds : PushSeed(s) \/ Enter(s) \/ Reenter(s)
        \/ \E n \in 1..MaxSpawn : \/ Spawn(n) \/ \E i \in 0..(n - 1) : SpawnPush(n, i) \/ EnterSpawned(n, i)
        \/ Pop \/ Exit \/ Raise \/ GetState \/ SetState
        \/ \E k \in 1..6 : Draw(k)     \* normal/uniform/pm1, real and complex/integer element types
Spec == Init /\ [][Next]_vars
\* ---- properties ---------------------------------------------------------------------------------------
\* leaving a context whose body was balanced restores the previous generator exactly (identity, children, position)
Restores == [][ (Exit /\ err' = "none" /\ ctx[Len(ctx)].ok) => stack'[Len(stack')] = ctx[Len(ctx)].top ]_vars
RestoresOnRaise == [][ (Raise /\ \A j \in 1..Len(ctx) : ctx[j].ok) => stack'[Len(stack')] = ctx[1].top ]_vars
\* an unbalanced body is reported, never silently accepted with the wrong depth
DepthChecked == [][ Exit => (err' = "inconsistent" <=> Len(stack) - 1 # ctx[Len(ctx)].depth) ]_vars
SetGetIdentity == [][ (SetState /\ stack = saved[1] /\ \A j \in 1..Len(stack) : stack[j].robj = 0) => stack' = stack ]_vars
\* re-entering a Context object starts its generator from the beginning again and continues the numbering of its children
ReenterRepeats == [][ (nops' = nops + 1 /\ Len(stack') = Len(stack) + 1 /\ stack'[Len(stack')].robj # 0) =>
                        /\ stack'[Len(stack')].drawn = 0
                        /\ stack'[Len(stack')].spawned = (IF robjs[stack'[Len(stack')].robj] = -1 THEN 0 ELSE robjs[stack'[Len(stack')].robj]) ]_vars
TypeOK == /\ Len(stack) >= 1 /\ Len(stack) <= MaxDepth /\ err \in {"none", "inconsistent"}
\* draws inside a context depend only on its seed: the identity of a draw is <<seed path, index>> by construction;
\* for the code it is a conformance obligation (every real draw equals the reference generator's draw).
\* vacuity witnesses (expected to be violated)
NeverInconsistent == err = "none"
NeverNested == Len(ctx) < 2
\* restriction for a targeted emission: only re-usable Context objects, their exits, spawns and two kinds of draws
ReenterOnly == \A i \in 1..Len(hist) : hist[i].op \in {"reenter", "exit", "raise", "spawn"} \/ (hist[i].op = "draw" /\ hist[i].arg \in {1, 2})
Emit == (EmitHist /\ (nops = MaxOps \/ err # "none")) => PrintT(ToJson([hist |-> hist, depth |-> Len(stack), err |-> err]))
=============================================================================
