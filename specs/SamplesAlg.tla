----------------------------- MODULE SamplesAlg -----------------------------
(* C19 ("moving the expansion point keeps the residuals").  The sample container of the JAX VI code, nifty.re.evi.Samples, as a state
   machine.  A container holds an expansion point `pos` (or none) and residuals `res` (one per sample; with a position the samples
   themselves are pos + res[i], without one they are the residuals).  Values are vectors of two integers.
     Make(p, r)        a new container
     At(p)             move the expansion point: only allowed when a position exists; residuals are kept
     AtOld(p, o)       re-base: the samples (pos + res, or res) minus o become the residuals, p the position
     Squeeze           merge the two leading axes of batched residuals (batch-major order)
   hist records the operations for the replay; the laws are action properties over (pos, res). *)
EXTENDS Integers, Sequences, TLC, Json
CONSTANTS MaxOps
VARIABLES pos, res, batched, nops, hist
vars == <<pos, res, batched, nops, hist>>
None == <<>>                                     \* "no position"
Vecs == {<<0, 1>>, <<2, -1>>, <<-3, 0>>}
VAdd(a, b) == <<a[1] + b[1], a[2] + b[2]>>
VSub(a, b) == <<a[1] - b[1], a[2] - b[2]>>
ResLists == {<<a>> : a \in Vecs} \cup {<<a, b>> : a \in Vecs, b \in Vecs}
\* batched residuals: two batches of residual lists of equal length
Batches == {<<x, y>> : x \in {<<a>> : a \in Vecs}, y \in {<<a>> : a \in Vecs}} \cup {<<<<<<0, 1>>, <<2, -1>>>>, <<<<-3, 0>>, <<0, 1>>>>>>}
Abs(p, r) == IF p = None THEN r ELSE [i \in 1..Len(r) |-> VAdd(p, r[i])]
Samples == Abs(pos, res)
Init == pos = None /\ res = <<>> /\ batched = FALSE /\ nops = 0 /\ hist = <<>>
Log(rec) == nops < MaxOps /\ nops' = nops + 1 /\ hist' = Append(hist, rec)
Make(p, r) == /\ nops = 0 /\ pos' = p /\ res' = r /\ batched' = FALSE
              /\ Log([op |-> "make", p |-> p, o |-> None, r |-> r, rb |-> <<>>])
MakeBatched(p, rb) == /\ nops = 0 /\ pos' = p /\ res' = rb[1] \o rb[2] /\ batched' = TRUE          \* abstractly: the merged list
                      /\ Log([op |-> "makebatched", p |-> p, o |-> None, r |-> <<>>, rb |-> rb])
At(p) == /\ nops > 0 /\ ~batched /\ pos # None
         /\ pos' = p /\ res' = res /\ UNCHANGED batched
         /\ Log([op |-> "at", p |-> p, o |-> None, r |-> <<>>, rb |-> <<>>])
AtOld(p, o) == /\ nops > 0 /\ ~batched
               /\ pos' = p /\ res' = [i \in 1..Len(res) |-> VSub(Samples[i], o)] /\ UNCHANGED batched
               /\ Log([op |-> "atold", p |-> p, o |-> o, r |-> <<>>, rb |-> <<>>])
Squeeze == /\ nops > 0 /\ batched
           /\ batched' = FALSE /\ UNCHANGED <<pos, res>>
           /\ Log([op |-> "squeeze", p |-> None, o |-> None, r |-> <<>>, rb |-> <<>>])
Next == \/ \E p \in Vecs \cup {None}, r \in ResLists : Make(p, r)
        \/ \E p \in Vecs \cup {None}, rb \in Batches : MakeBatched(p, rb)
        \/ \E p \in Vecs : At(p)
        \/ \E p \in Vecs, o \in Vecs : AtOld(p, o)
        \/ Squeeze
        \/ (nops = MaxOps /\ UNCHANGED vars)
Spec == Init /\ [][Next]_vars
\* ---- laws -------------------------------------------------------------------------------------------------------------------
Last == hist[Len(hist)]
\* moving the expansion point keeps the residuals, and every sample moves by the same amount
AtKeepsResiduals == [][(nops' = nops + 1 /\ hist'[nops'].op = "at") =>
                          /\ res' = res
                          /\ \A i \in 1..Len(res) : VSub(Abs(pos', res')[i], Samples[i]) = VSub(pos', pos)]_vars
\* re-basing keeps the number of samples and turns (sample - o) into the residuals: the new samples are the old ones shifted by p - o
AtOldRebases == [][(nops' = nops + 1 /\ hist'[nops'].op = "atold") =>
                      /\ Len(res') = Len(res)
                      /\ \A i \in 1..Len(res) : Abs(pos', res')[i] = VAdd(Samples[i], VSub(hist'[nops'].p, hist'[nops'].o))]_vars
SqueezeKeeps == [][(nops' = nops + 1 /\ hist'[nops'].op = "squeeze") => Abs(pos', res') = Samples]_vars
\* vacuity witnesses (expected to be violated)
NeverRebasedWithoutPos == ~(nops > 1 /\ Last.op = "atold" /\ hist[1].p = None)
NeverSqueezed == ~(nops > 1 /\ Last.op = "squeeze")
Emit == nops < MaxOps \/ PrintT(ToJson([hist |-> hist, pos |-> pos, res |-> res, samples |-> Samples, haspos |-> pos # None]))
=============================================================================
