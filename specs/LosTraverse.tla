----------------------------- MODULE LosTraverse -----------------------------
(* C35 (first part).  A straight segment through a 2-d regular grid in pixel coordinates (pixel i covers [i, i+1) along each axis:
   physical position / distance + 1/2, pixel centres on the grid points, as LOSResponse documents).  The walk is a transition system:
   from the current parameter t, cross the nearer of the next grid lines; the weight of a pixel is the parameter length spent in it
   (times the physical length of the segment: Len2 is its square, exact).  TLC checks on every walk: each pixel is visited at most
   once, the weights of a segment that lies inside the grid add up to 1, and the walk ends.
   For the sampling integrator of nifty.re the same segment is sampled at NSamp mid-points in *index* coordinates
   (physical position (N-1)/(N dist)): SamplePts. *)
EXTENDS Rat, FiniteSets, Json
CONSTANTS NX, NY, NSamp
VARIABLES seg, t, cell, acc, done
vars == <<seg, t, cell, acc, done>>
\* rational pixel-coordinate end points (inside, on a grid line, outside the grid); directions may be zero along an axis
Pts == {<<R(1,2), R(1,2)>>, <<R(7,2), R(5,2)>>, <<R(1,2), R(5,2)>>, <<R(5,4), R(1,4)>>, <<R(13,4), R(11,4)>>, <<R(3,1), R(1,2)>>,
        <<R(-1,2), R(3,2)>>, <<R(9,2), R(7,4)>>}
DistSets == {<<Z(1), Z(1)>>, <<R(1,2), R(1,4)>>, <<Z(3), Z(4)>>}
Floor(a) == a[1] \div a[2]
Dir(s, ax) == RSub(s.q[ax], s.p[ax])
InGrid(c) == c[1] >= 0 /\ c[1] < NX /\ c[2] >= 0 /\ c[2] < NY
\* parameter at which the segment leaves the current cell along axis ax (or "never": 2)
NextCross(s, c, ax) == LET d == Dir(s, ax) IN
   IF d[1] = 0 THEN Z(2)
   ELSE LET line == IF d[1] > 0 THEN Z(c[ax] + 1) ELSE Z(c[ax]) IN RDiv(RSub(line, s.p[ax]), d)
Min2(a, b) == IF RLt(b, a) THEN b ELSE a
Init == /\ seg \in {[p |-> p, q |-> q, dist |-> ds] : p \in Pts, q \in Pts, ds \in DistSets} /\ seg.p # seg.q
        /\ t = Z(0) /\ cell = <<Floor(seg.p[1]), Floor(seg.p[2])>> /\ acc = {} /\ done = FALSE
Step == /\ ~done
        /\ LET tx == NextCross(seg, cell, 1)  ty == NextCross(seg, cell, 2)
               tn == Min2(Min2(tx, ty), Z(1))
               w == RSub(tn, t) IN
           /\ acc' = IF InGrid(cell) /\ RLt(Z(0), w) THEN acc \cup {[cell |-> cell, w |-> w]} ELSE acc
           /\ t' = tn
           /\ done' = (tn = Z(1))
           /\ cell' = <<cell[1] + (IF tx = tn /\ tn # Z(1) THEN (IF Dir(seg,1)[1] > 0 THEN 1 ELSE -1) ELSE 0),
                        cell[2] + (IF ty = tn /\ tn # Z(1) THEN (IF Dir(seg,2)[1] > 0 THEN 1 ELSE -1) ELSE 0)>>
        /\ UNCHANGED seg
Next == Step \/ (done /\ UNCHANGED vars)
Spec == Init /\ [][Next]_vars
FairSpec == Spec /\ WF_vars(Step)
RECURSIVE SumW(_)
SumW(S) == IF S = {} THEN Z(0) ELSE LET x == CHOOSE y \in S : TRUE IN RAdd(x.w, SumW(S \ {x}))
Once == \A a, b \in acc : a.cell = b.cell => a = b
Inside(s) == /\ \A ax \in 1..2 : ~RLt(s.p[ax], Z(0)) /\ ~RLt(s.q[ax], Z(0))
             /\ RLt(s.p[1], Z(NX)) /\ RLt(s.q[1], Z(NX)) /\ RLt(s.p[2], Z(NY)) /\ RLt(s.q[2], Z(NY))
Total == (done /\ Inside(seg)) => SumW(acc) = Z(1)
AtMostOne == ~RLt(Z(1), SumW(acc))
Ends == <>done
\* vacuity witness (expected to be violated): a segment that leaves the grid is walked
NeverPartial == ~(done /\ acc # {} /\ SumW(acc) # Z(1))
\* squared physical length, physical = (pixel - 1/2) dist
Len2 == LET a == RMul(Dir(seg, 1), seg.dist[1])  b == RMul(Dir(seg, 2), seg.dist[2]) IN RAdd(RMul(a, a), RMul(b, b))
\* sample points of the sampling integrator in index coordinates: start_i + (end_i - start_i) (k - 1/2) / NSamp, index = (pixel - 1/2) (N-1)/N
IdxOf(p, ax) == RMul(RSub(p[ax], R(1, 2)), R((IF ax = 1 THEN NX ELSE NY) - 1, IF ax = 1 THEN NX ELSE NY))
SamplePts == [k \in 1..NSamp |-> [ax \in 1..2 |-> RAdd(IdxOf(seg.p, ax), RMul(RSub(IdxOf(seg.q, ax), IdxOf(seg.p, ax)), R(2 * k - 1, 2 * NSamp)))]]
RJ(x) == [n |-> x[1], d |-> x[2]]
Emit == ~done \/ PrintT(ToJson([p |-> <<RJ(seg.p[1]), RJ(seg.p[2])>>, q |-> <<RJ(seg.q[1]), RJ(seg.q[2])>>, dist |-> <<RJ(seg.dist[1]), RJ(seg.dist[2])>>,
                                 len2 |-> RJ(Len2), cells |-> {<<c.cell[1], c.cell[2], c.w[1], c.w[2]>> : c \in acc},
                                 samples |-> [k \in 1..NSamp |-> <<RJ(SamplePts[k][1]), RJ(SamplePts[k][2])>>]]))
=============================================================================
