--------------------------- MODULE RandomCtxTrace ---------------------------
(* Code -> spec: events recorded from nifty.cl.random (seeded drivers with real `with` blocks and exceptions, and
   the classic VI driver's own use of the module).  Every event carries the projection of the module state AFTER
   the call: depth, identity of the top seed sequence (entropy + spawn key), children spawned, draw calls made on
   the top generator, and for draws whether the values equal those of a reference generator built from the
   identity alone.  The first line of a trace is the projection of the state the trace starts from. *)
EXTENDS Integers, Sequences, TLC, TraceLib
VARIABLES tid, l, stack, ctx
tvars == <<tid, l, stack, ctx>>
Ent(e) == [seed |-> e.seed, spawned |-> e.spawned, drawn |-> e.drawn]
TInit == /\ tid \in 1..NTraces /\ l = 2 /\ ctx = <<>> /\ stack = <<Ent(Traces[tid][1])>>
Ev == Traces[tid][l]
Top(st) == st[Len(st)]
SetTop(st, e) == [st EXCEPT ![Len(st)] = e]
Entry(s) == [seed |-> s, spawned |-> 0, drawn |-> 0]
\* the model only knows the levels pushed since the start of the trace; depth is relative to the first line
Base == Traces[tid][1].depth
Matches(st) == /\ Ev.depth = Base + Len(st) - 1 /\ Ev.seed = Top(st).seed /\ Ev.spawned = Top(st).spawned /\ Ev.drawn = Top(st).drawn
Check(c, name) == IF c THEN TRUE ELSE PropFail(tid, l, name)
TNext ==
  /\ l <= Len(Traces[tid])
  /\ \/ /\ Ev.op = "push_seed" /\ stack' = Append(stack, Entry(<<Ev.arg>>)) /\ ctx' = ctx
     \/ /\ Ev.op = "push_sseq"       \* a child of the current top handed out earlier by spawn
        /\ stack' = Append(stack, [seed |-> Ev.seed, spawned |-> Ev.spawned, drawn |-> 0]) /\ ctx' = ctx
     \/ /\ Ev.op = "spawn" /\ stack' = SetTop(stack, [Top(stack) EXCEPT !.spawned = @ + Ev.n]) /\ ctx' = ctx
     \/ /\ Ev.op = "spawn_push"
        /\ stack' = Append(SetTop(stack, [Top(stack) EXCEPT !.spawned = @ + Ev.n]), Entry(Append(Top(stack).seed, Top(stack).spawned + Ev.arg)))
        /\ ctx' = ctx
     \/ /\ Ev.op = "set_state"      \* setState(): the module state is replaced by a pickled one (resume); the top is what was logged
        /\ stack' = SetTop(stack, Ent(Ev)) /\ ctx' = ctx
     \/ /\ Ev.op = "pop" /\ Len(stack) > 1 /\ stack' = SubSeq(stack, 1, Len(stack) - 1) /\ ctx' = ctx
     \/ /\ Ev.op = "draw" /\ stack' = SetTop(stack, [Top(stack) EXCEPT !.drawn = @ + Ev.n]) /\ ctx' = ctx
     \/ /\ Ev.op = "enter" /\ ctx' = Append(ctx, [depth |-> Len(stack), top |-> Top(stack)]) /\ stack' = Append(stack, Entry(<<Ev.arg>>))
     \/ /\ Ev.op = "enter_sseq" /\ ctx' = Append(ctx, [depth |-> Len(stack), top |-> Top(stack)])
        /\ stack' = Append(stack, [seed |-> Ev.seed, spawned |-> Ev.spawned, drawn |-> 0])
     \/ /\ Ev.op \in {"exit", "exit_exc"} /\ Len(ctx) > 0 /\ Len(stack) > 1
        /\ stack' = SubSeq(stack, 1, Len(stack) - 1) /\ ctx' = SubSeq(ctx, 1, Len(ctx) - 1)
        \* property clause: the previous generator is restored exactly
        /\ Check(Top(stack') = ctx[Len(ctx)].top /\ Matches(stack'), "leaving a context did not restore the previous generator")
  /\ (Ev.op \notin {"exit", "exit_exc"} => Matches(stack'))       \* fidelity: logged projection equals the model
  /\ (Ev.op = "draw" => Check(Ev.same_as_reference, "a draw differs from the reference generator of its seed identity"))
  /\ l' = l + 1 /\ tid' = tid
TSpec == TInit /\ [][TNext]_tvars
Progress == Reached(tid, l - 1)
\* at the end of a complete trace the module is back where it started
Balanced == (l = Len(Traces[tid]) + 1 /\ Traces[tid][Len(Traces[tid])].final) => Len(stack) = 1
=============================================================================
