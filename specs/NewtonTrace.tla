---------------------------- MODULE NewtonTrace ----------------------------
(* Code -> spec for C17: real runs of the eager and the compiled Newton-CG.  Every evaluation of the objective is recorded
   through a wrapped fun_and_grad; per iteration the trace carries the outcome of each evaluated trial ("T"/"F"; trials
   that were not evaluated are "F"), whether the direction was zero, the two convergence predicates as far as the
   solver reported them ("T"/"F"/"?") and at the end the solver's status and iteration count plus ground truth computed
   by the harness from the returned point. *)
EXTENDS NewtonPair, TraceLib
VARIABLES tid, l, m
tvars == <<tid, l, m, vars>>
Tr == Traces[tid]
TInit == /\ tid \in 1..NTraces /\ l = 1 /\ m = M0
         /\ i = 0 /\ trials = [k \in 1..9 |-> FALSE] /\ dirZero = FALSE /\ smallStep = FALSE /\ smallDiff = FALSE /\ e = M0 /\ s = M0
Running == IF Tr.variant = "eager" THEN m.run ELSE m.status < -1
Fits(b, f) == f = "?" \/ (b <=> f = "T")
TStep == /\ l <= Len(Tr.events) /\ Running
         /\ LET ev == Tr.events[l]
                t == [k \in 1..9 |-> ev.trials[k] = "T"] IN
            \E ss \in BOOLEAN, sd \in BOOLEAN :
               /\ Fits(ss, ev.smallStep) /\ Fits(sd, ev.smallDiff)
               /\ m' = IF Tr.variant = "eager" THEN EagerIter(m, t, ev.dz, ss, sd, ev.it) ELSE StaticIter(m, t, ev.dz, ss, sd, ev.it)
               /\ m'.lastTrial = ev.accepted
         /\ l' = l + 1 /\ UNCHANGED <<tid, vars>>
Ck(c, name) == IF c THEN TRUE ELSE PropFail(tid, l, name)
TFinal == /\ l = Len(Tr.events) + 1 /\ ~Running
          /\ m.nit = Tr.final.nit
          /\ (IF Tr.variant = "eager" /\ m.status = -2 THEN m.nit ELSE m.status) = Tr.final.status
          /\ Ck(~m.uphill /\ Tr.truth.notuphill, "the returned point has a higher energy than the start")
          /\ Ck(Tr.truth.alonggrad, "negative curvature along the gradient but the first trial step is not along the negative gradient")
          /\ Ck(Tr.truth.progress, "a trial step length lowers the energy but the iteration stopped or reported convergence without moving")
          /\ Ck(Tr.truth.agree, "eager and compiled Newton-CG differ in result or convergence")
          /\ l' = l + 1 /\ UNCHANGED <<tid, m, vars>>
TNext == TStep \/ TFinal
TSpec == TInit /\ [][TNext]_tvars
Progress == Reached(tid, l - 1)
=============================================================================
