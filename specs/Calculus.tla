------------------------------ MODULE Calculus ------------------------------
(* C03 / C04 / C05.  Operator expressions of nifty.cl over a multi-domain with keys "a", "b" (two pixels each) as SSA programs; the
   denotation of a slot is a vector of symbolic expressions (one per output entry) in the atoms x[k,j]; the Jacobian is obtained by
   the symbolic derivative D (chain, product, power rules and a table of derivatives of the point-wise functions written from
   mathematics, not from the library).  For programs inside the rational sub-language TLC checks D against forward-mode
   differentiation with dual numbers evaluated exactly at rational points (DualLaw): two independent definitions of the derivative.
   Every complete program is emitted with value and Jacobian expressions and replayed:
     C03  value on a field = value on a linearization = Eval(val); Jacobian (and its adjoint) = Eval(D val); metric of an energy
     C04  fixing key K: value unchanged, Jacobian = the columns of the free key
     C05  the operator-tree optimiser returns an operator with the same value and Jacobian (slots may be re-used: shared sub-trees) *)
EXTENDS Rat, FiniteSets, Json
CONSTANTS MaxSlots, FnSet,
          Preload       \* "none" | "ab": the program starts with the slots a, b (all programs over BOTH keys with few further slots; C04); "tagged": a, b, a.ducktape_left(s), b.ducktape_left(s)
VARIABLES slots
Const(c) == [t |-> "c", v |-> c]
X(k, j) == [t |-> "x", k |-> k, j |-> j]
Add(a, b) == [t |-> "+", a |-> a, b |-> b]
Mul(a, b) == [t |-> "*", a |-> a, b |-> b]
Neg(a) == [t |-> "neg", a |-> a]
Fn(f, a, p) == [t |-> "f", f |-> f, a |-> a, p |-> p]          \* p: parameters (sequence of Rat)
Pow(a, n) == [t |-> "pow", a |-> a, n |-> n]                   \* rational exponent
One == Const(Z(1))   Zero == Const(Z(0))   Half == Const(R(1, 2))
NoP == <<>>
F0(f, a) == Fn(f, a, NoP)
\* derivative of f(u) with respect to u, as an expression in u
DFn(f, u, p) ==
  CASE f = "exp" -> F0("exp", u)
    [] f = "log" -> Pow(u, Z(-1))
    [] f = "log10" -> Mul(Pow(F0("log", Const(Z(10))), Z(-1)), Pow(u, Z(-1)))
    [] f = "log1p" -> Pow(Add(One, u), Z(-1))
    [] f = "expm1" -> F0("exp", u)
    [] f = "sin" -> F0("cos", u)
    [] f = "cos" -> Neg(F0("sin", u))
    [] f = "tan" -> Pow(F0("cos", u), Z(-2))
    [] f = "sinh" -> F0("cosh", u)
    [] f = "cosh" -> F0("sinh", u)
    [] f = "tanh" -> Add(One, Neg(Pow(F0("tanh", u), Z(2))))
    [] f = "sigmoid" -> Mul(Half, Add(One, Neg(Pow(F0("tanh", u), Z(2)))))          \* sigmoid(u) = 1/2 + 1/2 tanh(u)
    [] f = "arctan" -> Pow(Add(One, Pow(u, Z(2))), Z(-1))
    [] f = "sqrt" -> Mul(Half, Pow(u, R(-1, 2)))
    [] f = "reciprocal" -> Neg(Pow(u, Z(-2)))
    [] f = "softplus" -> Pow(Add(One, F0("exp", Neg(u))), Z(-1))                     \* log(1 + e^u)
    [] f = "sinc" -> Mul(Add(F0("cos", Mul(F0("pi", Zero), u)), Neg(F0("sinc", u))), Pow(u, Z(-1)))     \* sin(pi u)/(pi u)
    [] f = "abs" -> F0("sign", u)
    [] f = "sign" -> Zero
    [] f = "unitstep" -> Zero
    [] f = "power" -> Mul(Const(p[1]), Pow(u, RSub(p[1], Z(1))))
    [] f = "exponentiate" -> Mul(F0("log", Const(p[1])), Fn("exponentiate", u, p))      \* base^u
    [] f = "clip" -> Fn("inside", u, p)                                               \* 1 strictly inside (lo, hi), 0 outside
RECURSIVE D(_, _, _)
D(e, k, j) ==
  CASE e.t = "c" -> Zero
    [] e.t = "x" -> IF e.k = k /\ e.j = j THEN One ELSE Zero
    [] e.t = "+" -> Add(D(e.a, k, j), D(e.b, k, j))
    [] e.t = "*" -> Add(Mul(D(e.a, k, j), e.b), Mul(e.a, D(e.b, k, j)))
    [] e.t = "neg" -> Neg(D(e.a, k, j))
    [] e.t = "f" -> Mul(DFn(e.f, e.a, e.p), D(e.a, k, j))
    [] e.t = "pow" -> Mul(Mul(Const(e.n), Pow(e.a, RSub(e.n, Z(1)))), D(e.a, k, j))
\* light simplification keeps the emitted trees small
RECURSIVE S(_)
S(e) == CASE e.t = "+" -> LET a == S(e.a)  b == S(e.b) IN IF a = Zero THEN b ELSE IF b = Zero THEN a ELSE Add(a, b)
          [] e.t = "*" -> LET a == S(e.a)  b == S(e.b) IN IF a = Zero \/ b = Zero THEN Zero ELSE IF a = One THEN b ELSE IF b = One THEN a ELSE Mul(a, b)
          [] e.t = "neg" -> LET a == S(e.a) IN IF a = Zero THEN Zero ELSE Neg(a)
          [] e.t = "f" -> Fn(e.f, S(e.a), e.p)
          [] e.t = "pow" -> Pow(S(e.a), e.n)
          [] OTHER -> e
\* ---- the rational sub-language: exact evaluation and dual numbers -------------------------------------------------------
RECURSIVE RatClosed(_)
RatClosed(e) == CASE e.t \in {"c", "x"} -> TRUE
                  [] e.t \in {"+", "*"} -> RatClosed(e.a) /\ RatClosed(e.b)
                  [] e.t = "neg" -> RatClosed(e.a)
                  [] e.t = "pow" -> e.n[2] = 1 /\ RatClosed(e.a)
                  [] e.t = "f" -> e.f \in {"reciprocal"} /\ RatClosed(e.a)
RECURSIVE RPow(_, _)
RPow(a, n) == IF n = 0 THEN Z(1) ELSE IF n < 0 THEN RInv(RPow(a, -n)) ELSE RMul(a, RPow(a, n - 1))
Pt == [k \in {"a", "b"} |-> IF k = "a" THEN <<R(1, 2), Z(3)>> ELSE <<Z(2), R(-1, 2)>>]
RECURSIVE EvalR(_)
EvalR(e) == CASE e.t = "c" -> e.v
              [] e.t = "x" -> Pt[e.k][e.j]
              [] e.t = "+" -> RAdd(EvalR(e.a), EvalR(e.b))
              [] e.t = "*" -> RMul(EvalR(e.a), EvalR(e.b))
              [] e.t = "neg" -> RNeg(EvalR(e.a))
              [] e.t = "pow" -> RPow(EvalR(e.a), e.n[1])
              [] e.t = "f" -> RInv(EvalR(e.a))
\* dual numbers <<value, derivative>> for the direction x[k,j]
RECURSIVE DualPow(_, _)
DMul(a, b) == <<RMul(a[1], b[1]), RAdd(RMul(a[1], b[2]), RMul(a[2], b[1]))>>
DInv(a) == <<RInv(a[1]), RNeg(RDiv(a[2], RMul(a[1], a[1])))>>
DualPow(a, n) == IF n = 0 THEN <<Z(1), Z(0)>> ELSE IF n < 0 THEN DInv(DualPow(a, -n)) ELSE DMul(a, DualPow(a, n - 1))
RECURSIVE EvalD(_, _, _)
EvalD(e, k, j) == CASE e.t = "c" -> <<e.v, Z(0)>>
                    [] e.t = "x" -> <<Pt[e.k][e.j], IF e.k = k /\ e.j = j THEN Z(1) ELSE Z(0)>>
                    [] e.t = "+" -> LET a == EvalD(e.a, k, j)  b == EvalD(e.b, k, j) IN <<RAdd(a[1], b[1]), RAdd(a[2], b[2])>>
                    [] e.t = "*" -> DMul(EvalD(e.a, k, j), EvalD(e.b, k, j))
                    [] e.t = "neg" -> LET a == EvalD(e.a, k, j) IN <<RNeg(a[1]), RNeg(a[2])>>
                    [] e.t = "pow" -> DualPow(EvalD(e.a, k, j), e.n[1])
                    [] e.t = "f" -> DInv(EvalD(e.a, k, j))
RECURSIVE NoZeroDiv(_)
NoZeroDiv(e) == CASE e.t \in {"c", "x"} -> TRUE
                  [] e.t \in {"+", "*"} -> NoZeroDiv(e.a) /\ NoZeroDiv(e.b)
                  [] e.t = "neg" -> NoZeroDiv(e.a)
                  [] e.t = "pow" -> NoZeroDiv(e.a) /\ (e.n[1] >= 0 \/ EvalR(e.a) # Z(0))
                  [] e.t = "f" -> NoZeroDiv(e.a) /\ EvalR(e.a) # Z(0)
\* TLC's integers are 32 bit: the exact check is restricted to expressions of small degree
RECURSIVE Deg(_)
Deg(e) == CASE e.t = "c" -> 0
            [] e.t = "x" -> 1
            [] e.t = "+" -> IF Deg(e.a) > Deg(e.b) THEN Deg(e.a) ELSE Deg(e.b)
            [] e.t = "*" -> Deg(e.a) + Deg(e.b)
            [] e.t = "neg" -> Deg(e.a)
            [] e.t = "pow" -> (IF e.n[1] < 0 THEN -e.n[1] ELSE e.n[1]) * Deg(e.a)
            [] e.t = "f" -> Deg(e.a) + 1
\* ---- programs ----------------------------------------------------------------------------------------------------------
\* slot: [op, x, y, f, p, shape ("vec": 2 entries | "scal": 1), val: Seq(expr), keys: set of keys used]
Slot(op, x, y, f, p, shape, val, keys) == [op |-> op, x |-> x, y |-> y, f |-> f, p |-> p, shape |-> shape, val |-> val, keys |-> keys]
N(s) == IF s.shape \in {"vec", "tvec"} THEN 2 ELSE 1          \* "tvec": a multi-field valued slot with the single key "s" (ducktape_left)
SI == 1..Len(slots)
Push(s) == Len(slots) < MaxSlots /\ slots' = Append(slots, s)
LinM == <<<<Z(1), Z(2)>>, <<Z(0), R(-1, 2)>>>>                     \* the matrix of the linear leaf operator
Fns1 == {"exp", "log", "log10", "log1p", "expm1", "sin", "cos", "tan", "sinh", "cosh", "tanh", "sigmoid", "arctan", "sqrt", "reciprocal",
         "softplus", "sinc", "abs", "sign", "unitstep"}
FnsP == {<<"power", <<Z(3)>>>>, <<"power", <<R(1, 2)>>>>, <<"exponentiate", <<Z(2)>>>>, <<"clip", <<R(1, 3), Z(1)>>>>, <<"clip", <<Z(-1), Z(4)>>>>}
UseFns1 == IF FnSet = "all" THEN Fns1 ELSE IF FnSet = "few" THEN {"exp", "tanh", "reciprocal", "sqrt"} ELSE IF FnSet = "share" THEN {"exp", "tanh", "sin"} ELSE {"reciprocal"}
UseFnsP == IF FnSet = "all" THEN FnsP ELSE IF FnSet = "few" THEN {<<"power", <<Z(3)>>>>, <<"clip", <<R(1, 3), Z(1)>>>>} ELSE IF FnSet = "share" THEN {<<"power", <<Z(2)>>>>} ELSE {<<"power", <<Z(3)>>>>}
MkVar == \E k \in {"a", "b"} : Push(Slot("var", 0, 0, k, NoP, "vec", <<X(k, 1), X(k, 2)>>, {k}))
\* FnSet "share" / "few" keep the original three binary operations (their enumerations are sized for them)
BinOps == IF FnSet \in {"share", "few"} THEN {"add", "sub", "mul"} ELSE IF FnSet = "rat" THEN {"add", "sub", "mul", "div"} ELSE {"add", "sub", "mul", "div", "powops"}
MkBin == \E i, j \in SI : \E op \in BinOps :
           /\ slots[i].shape = slots[j].shape
           /\ Push(Slot(op, i, j, "", NoP, slots[i].shape,
                        [n \in 1..N(slots[i]) |-> CASE op = "add" -> Add(slots[i].val[n], slots[j].val[n])
                                                   [] op = "sub" -> Add(slots[i].val[n], Neg(slots[j].val[n]))
                                                   [] op = "mul" -> Mul(slots[i].val[n], slots[j].val[n])
                                                   [] op = "div" -> Mul(slots[i].val[n], Pow(slots[j].val[n], Z(-1)))                    \* x / y
                                                   [] op = "powops" -> F0("exp", Mul(slots[j].val[n], F0("log", slots[i].val[n])))],     \* x ** y = exp(y log x)
                        slots[i].keys \cup slots[j].keys))
\* the arithmetic of an operator with numbers and the unary operator methods (python operators of nifty.cl.Operator):
\*   c / x, x / c, c - x, c + x, x ** n, base ** x, abs(x), x.real, x.conjugate()   (real fields; .imag refuses real input by design;
\*   .real / .conjugate() are defined for operators whose target is a single domain tuple only)
OpsRat == {"rdivc", "divc", "rsubc", "raddc", "powop", "real", "conj"}
OpsAll == OpsRat \cup {"rpow", "absop"}
OpVal(o, a) == CASE o = "rdivc" -> Mul(Const(R(3, 2)), Pow(a, Z(-1)))
                 [] o = "divc" -> Mul(Const(R(-1, 4)), a)                       \* x / (-4)
                 [] o = "rsubc" -> Add(Const(R(1, 2)), Neg(a))
                 [] o = "raddc" -> Add(Const(R(1, 2)), a)
                 [] o = "powop" -> Pow(a, Z(3))
                 [] o = "rpow" -> Fn("exponentiate", a, <<Z(2)>>)
                 [] o = "absop" -> F0("abs", a)
                 [] o \in {"real", "conj"} -> a
OpPar(o) == CASE o = "rdivc" -> <<R(3, 2)>> [] o = "divc" -> <<Z(-4)>> [] o \in {"rsubc", "raddc"} -> <<R(1, 2)>> [] o = "powop" -> <<Z(3)>> [] o = "rpow" -> <<Z(2)>> [] OTHER -> NoP
MkOps == \E i \in SI, o \in (IF FnSet = "rat" THEN OpsRat ELSE OpsAll) : (o \in {"real", "conj"} => slots[i].shape # "tvec") /\
           Push(Slot(o, i, 0, "", OpPar(o), slots[i].shape, [n \in 1..N(slots[i]) |-> OpVal(o, slots[i].val[n])], slots[i].keys))
\* x.ptw_pre(f): the function is applied to the operator's INPUT: every atom x[k,j] of the expression becomes f(x[k,j])
RECURSIVE Subst(_, _)
Subst(e, f) == CASE e.t = "c" -> e
                 [] e.t = "x" -> F0(f, e)
                 [] e.t = "+" -> Add(Subst(e.a, f), Subst(e.b, f))
                 [] e.t = "*" -> Mul(Subst(e.a, f), Subst(e.b, f))
                 [] e.t = "neg" -> Neg(Subst(e.a, f))
                 [] e.t = "f" -> Fn(e.f, Subst(e.a, f), e.p)
                 [] e.t = "pow" -> Pow(Subst(e.a, f), e.n)
MkPtwPre == \E i \in SI, f \in {"exp", "tanh", "reciprocal"} : slots[i].shape # "tvec" /\ slots[i].op # "var" /\
              Push(Slot("ptwpre", i, 0, f, NoP, slots[i].shape, [n \in 1..N(slots[i]) |-> Subst(slots[i].val[n], f)], slots[i].keys))
MkPtw == \E i \in SI : \/ \E f \in UseFns1 : Push(Slot("ptw", i, 0, f, NoP, slots[i].shape, [n \in 1..N(slots[i]) |-> F0(f, slots[i].val[n])], slots[i].keys))
                       \/ \E fp \in UseFnsP : Push(Slot("ptw", i, 0, fp[1], fp[2], slots[i].shape,
                                                          [n \in 1..N(slots[i]) |-> IF fp[1] = "power" THEN Pow(slots[i].val[n], fp[2][1]) ELSE Fn(fp[1], slots[i].val[n], fp[2])], slots[i].keys))
MkScale == \E i \in SI, c \in {R(-3, 2), Z(2)} : Push(Slot("scale", i, 0, "", <<c>>, slots[i].shape, [n \in 1..N(slots[i]) |-> Mul(Const(c), slots[i].val[n])], slots[i].keys))
MkAddC == \E i \in SI : slots[i].shape = "vec" /\ Push(Slot("addc", i, 0, "", <<R(1, 2), Z(-1)>>, "vec", <<Add(slots[i].val[1], Const(R(1, 2))), Add(slots[i].val[2], Const(Z(-1)))>>, slots[i].keys))
MkLin == \E i \in SI : slots[i].shape = "vec" /\
           Push(Slot("lin", i, 0, "", NoP, "vec", [r \in 1..2 |-> Add(Mul(Const(LinM[r][1]), slots[i].val[1]), Mul(Const(LinM[r][2]), slots[i].val[2]))], slots[i].keys))
MkSum == \E i \in SI : slots[i].shape = "vec" /\ Push(Slot("sum", i, 0, "", NoP, "scal", <<Add(slots[i].val[1], slots[i].val[2])>>, slots[i].keys))
MkVdot == \E i, j \in SI : slots[i].shape = "vec" /\ slots[j].shape = "vec" /\
            Push(Slot("vdot", i, j, "", NoP, "scal", <<Add(Mul(slots[i].val[1], slots[j].val[1]), Mul(slots[i].val[2], slots[j].val[2]))>>, slots[i].keys \cup slots[j].keys))
\* key insertion / extraction on the output side: x.ducktape_left("s") and its inverse
MkTag == \E i \in SI : slots[i].shape = "vec" /\ Push(Slot("tag", i, 0, "", NoP, "tvec", slots[i].val, slots[i].keys))
MkUntag == \E i \in SI, o \in {"untag", "getitem"} : slots[i].shape = "tvec" /\ Push(Slot(o, i, 0, "", NoP, "vec", slots[i].val, slots[i].keys))    \* FieldAdapter / op["s"]
\* VariableCovarianceGaussianEnergy(residual = slot i, inverse variance = slot j): sum 1/2 r^2 v - 1/2 log v (real residuals)
MkVcg == \E i, j \in SI : i # j /\ slots[i].shape = "vec" /\ slots[j].shape = "vec" /\
           Push(Slot("vcg", i, j, "", NoP, "scal",
                     <<Add(Add(Mul(Half, Mul(Pow(slots[i].val[1], Z(2)), slots[j].val[1])), Neg(Mul(Half, F0("log", slots[j].val[1])))),
                           Add(Mul(Half, Mul(Pow(slots[i].val[2], Z(2)), slots[j].val[2])), Neg(Mul(Half, F0("log", slots[j].val[2])))))>>, slots[i].keys \cup slots[j].keys))
\* GaussianEnergy with unit covariance: 1/2 x.x (an energy: a metric can be requested)
MkGauss == \E i \in SI : slots[i].shape = "vec" /\
            Push(Slot("gauss", i, 0, "", NoP, "scal", <<Mul(Half, Add(Pow(slots[i].val[1], Z(2)), Pow(slots[i].val[2], Z(2))))>>, slots[i].keys))
VarSlot(k) == Slot("var", 0, 0, k, NoP, "vec", <<X(k, 1), X(k, 2)>>, {k})
\* scripted deep programs (sharing patterns that the bounded enumerations do not reach)
PtwS(i, f, src) == Slot("ptw", i, 0, f, NoP, src.shape, [n \in 1..N(src) |-> F0(f, src.val[n])], src.keys)
PowS(i, src) == Slot("ptw", i, 0, "power", <<Z(2)>>, src.shape, [n \in 1..N(src) |-> Pow(src.val[n], Z(2))], src.keys)
AddS(i, j, si, sj) == Slot("add", i, j, "", NoP, si.shape, [n \in 1..N(si) |-> Add(si.val[n], sj.val[n])], si.keys \cup sj.keys)
MulS(i, j, si, sj) == Slot("mul", i, j, "", NoP, si.shape, [n \in 1..N(si) |-> Mul(si.val[n], sj.val[n])], si.keys \cup sj.keys)
\* u = tanh(sin a), w = exp(u):  sin(w) + tanh(w) + u^2   (leaf sharing that is discovered in two rounds)
MultiRound == LET s1 == VarSlot("a")  s2 == PtwS(1, "sin", s1)  s3 == PtwS(2, "tanh", s2)  s4 == PtwS(3, "exp", s3)  s5 == PtwS(4, "sin", s4)
                  s6 == PtwS(4, "tanh", s4)  s7 == AddS(5, 6, s5, s6)  s8 == PowS(3, s3)  s9 == AddS(7, 8, s7, s8) IN <<s1, s2, s3, s4, s5, s6, s7, s8, s9>>
\* n = exp(a) b:  (n + a) (n + exp(a))   (one product node below two different parents)
TwoParents == LET s1 == VarSlot("a")  s2 == VarSlot("b")  s3 == PtwS(1, "exp", s1)  s4 == MulS(3, 2, s3, s2)  s5 == AddS(4, 1, s4, s1)
                  s6 == AddS(4, 3, s4, s3)  s7 == MulS(5, 6, s5, s6) IN <<s1, s2, s3, s4, s5, s6, s7>>
TagSlot(i, k) == Slot("tag", i, 0, "", NoP, "tvec", <<X(k, 1), X(k, 2)>>, {k})
Init == slots = CASE Preload = "ab" -> <<VarSlot("a"), VarSlot("b")>>
                  [] Preload = "multiround" -> MultiRound
                  [] Preload = "twoparents" -> TwoParents
                  [] Preload = "tagged" -> <<VarSlot("a"), VarSlot("b"), TagSlot(1, "a"), TagSlot(2, "b")>>
                  [] OTHER -> <<>>
\* FnSet = "share": only keys, sums, products and three point-wise functions - deep programs whose slots are re-used many times (C05)
Next == IF FnSet = "share" THEN MkVar \/ MkBin \/ MkPtw
        ELSE MkVar \/ MkBin \/ MkPtw \/ MkScale \/ MkAddC \/ MkLin \/ MkSum \/ MkVdot \/ MkGauss \/ MkTag \/ MkUntag \/ (FnSet # "few" /\ MkVcg)
             \/ (FnSet # "few" /\ (MkOps \/ MkPtwPre))
Spec == Init /\ [][Next]_slots
Last == slots[Len(slots)]
\* ---- the law: symbolic derivative = dual-number derivative on the rational sub-language --------------------------------------
DualLaw == \A i \in SI : \A n \in 1..N(slots[i]) : LET e == slots[i].val[n] IN
              (RatClosed(e) /\ Deg(e) <= 4 /\ NoZeroDiv(e)) => \A k \in {"a", "b"}, j \in {1, 2} : (NoZeroDiv(D(e, k, j)) => EvalR(D(e, k, j)) = EvalD(e, k, j)[2])
\* the simplifier does not change values
SimplifyLaw == \A i \in SI : \A n \in 1..N(slots[i]) : LET e == slots[i].val[n] IN
              (RatClosed(e) /\ Deg(e) <= 4 /\ NoZeroDiv(e)) => \A k \in {"a", "b"}, j \in {1, 2} : (NoZeroDiv(D(e, k, j)) => EvalR(S(D(e, k, j))) = EvalR(D(e, k, j)))
\* vacuity witnesses (expected to be violated)
NeverShared == ~(\E i \in SI : slots[i].op \in {"add", "sub", "mul", "vdot"} /\ slots[i].x = slots[i].y)
NeverBothKeys == ~(\E i \in SI : slots[i].keys = {"a", "b"})
\* ---- emission -----------------------------------------------------------------------------------------------------------------
RJ(x) == <<x[1], x[2]>>
RECURSIVE EJ(_)
EJ(e) == CASE e.t = "c" -> [t |-> "c", v |-> RJ(e.v)]
           [] e.t = "x" -> [t |-> "x", k |-> e.k, j |-> e.j]
           [] e.t \in {"+", "*"} -> [t |-> e.t, a |-> EJ(e.a), b |-> EJ(e.b)]
           [] e.t = "neg" -> [t |-> "neg", a |-> EJ(e.a)]
           [] e.t = "f" -> [t |-> "f", f |-> e.f, a |-> EJ(e.a), p |-> [q \in 1..Len(e.p) |-> RJ(e.p[q])]]
           [] e.t = "pow" -> [t |-> "pow", a |-> EJ(e.a), n |-> RJ(e.n)]
Emit == Len(slots) < MaxSlots \/
        PrintT(ToJson([prog |-> [i \in SI |-> [op |-> slots[i].op, x |-> slots[i].x, y |-> slots[i].y, f |-> slots[i].f, p |-> [q \in 1..Len(slots[i].p) |-> RJ(slots[i].p[q])]]],
                       shape |-> Last.shape, keys |-> Last.keys, val |-> [n \in 1..N(Last) |-> EJ(Last.val[n])],
                       mterms |-> IF Last.op = "vcg" THEN
                                    [n \in 1..4 |-> LET pix == IF n <= 2 THEN n ELSE n - 2  src == IF n <= 2 THEN slots[Last.x] ELSE slots[Last.y] IN
                                       [g |-> [kj \in 1..4 |-> EJ(S(D(src.val[pix], IF kj <= 2 THEN "a" ELSE "b", IF kj <= 2 THEN kj ELSE kj - 2)))],
                                        w |-> EJ(IF n <= 2 THEN slots[Last.y].val[pix] ELSE Mul(Half, Pow(slots[Last.y].val[pix], Z(-2))))]]
                                  ELSE <<>>,
                       inner |-> IF Last.op = "gauss" THEN [n \in 1..2 |-> [kj \in 1..4 |-> EJ(S(D(slots[Last.x].val[n], IF kj <= 2 THEN "a" ELSE "b", IF kj <= 2 THEN kj ELSE kj - 2)))]] ELSE <<>>,
                       jac |-> [n \in 1..N(Last) |-> [kj \in 1..4 |-> EJ(S(D(Last.val[n], IF kj <= 2 THEN "a" ELSE "b", IF kj <= 2 THEN kj ELSE kj - 2)))]]]))
=============================================================================
