------------------------- MODULE JaxVIResumeTrace -------------------------
(* Code -> spec for C24: file-system events of real runs of nifty.re.optimize_kl (recorded by the interposer in the
   child process), including histories with kills: the harness concatenates the events of the killed run, a "crash"
   line, a "restart" line and the events of the resumed run, and ends with a "done" line carrying the resumed run's
   iteration count and whether its result hash equals the uninterrupted run's. *)
EXTENDS JaxVIResume, TraceLib
VARIABLES tid, l
tvars == <<vars, tid, l>>
E == Traces[tid][l]
TInit == Init /\ tid \in 1..NTraces /\ l = 1
Is(ev, cls) == E.ev = ev /\ E.cls = cls
Consume == l' = l + 1 /\ UNCHANGED tid
Silent == (Update /\ status' = "run") \/ Callback           \* steps without a file-system effect
TStep ==
  \/ Is("makedirs", "dir") /\ Makedirs
  \/ Is("open:w", "sanity") /\ SanTrunc
  \/ Is("close", "sanity") /\ pc = "santruncclose" /\ SanTruncClose
  \/ Is("open:a", "sanity") /\ SanOpen
  \/ Is("write", "sanity") /\ SanWrite
  \/ Is("close", "sanity") /\ pc = "sanclose" /\ SanClose
  \/ Is("open:wb", "tmp") /\ TmpOpen
  \/ Is("write", "tmp") /\ TmpWrite /\ pc' = "tmpwrite"
  \/ Is("close", "tmp") /\ TmpClose
  \/ Is("replace", "last") /\ Replace
  \/ Is("crash", "-") /\ Crash
  \/ Is("restart", "-") /\ Restart
  \* the resumed run skips makedirs when the directory exists: the interposer logs no event then
  \/ Is("done", "-") /\ Update /\ status' = "done"
       /\ (IF E.same THEN TRUE ELSE PropFail(tid, l, "the completed run differs from the uninterrupted run"))
       /\ (IF E.nit = nit THEN TRUE ELSE PropFail(tid, l, "the completed run reports a different iteration count"))
  \/ Is("resumefail", "-") /\ PropFail(tid, l, "resume=True failed after the crash") /\ UNCHANGED vars
TNext == \/ (l <= Len(Traces[tid]) /\ TStep /\ Consume)
         \/ (l <= Len(Traces[tid]) /\ Silent /\ UNCHANGED <<tid, l>>)
         \/ (l <= Len(Traces[tid]) /\ pc = "makedirs" /\ resumed /\ ~Is("makedirs", "dir") /\ Makedirs /\ UNCHANGED <<tid, l>>)
TSpec == TInit /\ [][TNext]_tvars
Progress == Reached(tid, l - 1)
=============================================================================
