--------------------------- MODULE DistributeTrace ---------------------------
(* Code -> spec for C22: per run (n_samples, mirrored, T) the harness records on every rank, from outside through the RNG
   recorder, the sequence of contexts entered by draw_samples: the seed-sequence child index and whether random numbers
   were really drawn inside.  A trace is [n, mirror, T, events: <<[r, seed, fresh]>>] with the ranks' events concatenated. *)
EXTENDS Distribute, TraceLib
VARIABLES tid, l
tvars == <<vars, tid, l>>
Tr == Traces[tid]
TInit == /\ tid \in 1..NTraces /\ l = 1
         /\ n = Tr.n /\ mirror = Tr.mirror /\ T = Tr.T
         /\ pos = [r \in 0..(MaxT - 1) |-> -1] /\ y = [r \in 0..(MaxT - 1) |-> -1] /\ out = [r \in 0..(MaxT - 1) |-> <<>>]
E == Tr.events[l]
TNext == /\ l <= Len(Tr.events)
         /\ Step(E.r)
         /\ LET rec == out'[E.r][Len(out'[E.r])] IN
              /\ (IF rec[1] = E.seed THEN TRUE ELSE PropFail(tid, l, "a sample is drawn from another seed sequence than in the single-task run"))
              /\ rec[3] = E.fresh
         /\ l' = l + 1 /\ UNCHANGED tid
TSpec == TInit /\ [][TNext]_tvars
Progress == Reached(tid, l - 1)
\* a complete trace covers every index exactly once
Complete == (l = Len(Tr.events) + 1) => Finished
=============================================================================
