----------------------------- MODULE SampleModes -----------------------------
(* C18 (sampling-mode logic of the JAX VI driver).  OptimizeVI.draw_samples as a state machine: per iteration the configuration names a
   sample mode and a number of samples n; the driver keeps one random key per (mirrored) pair of samples.
     keys    the keys of the current samples (ids in order of creation; fresh ids come from `next`)
     smp     the samples: <<key id, sign, number of non-linear updates applied>>, the mirrored partner directly after the original
   Effective mode (the code's own rewriting): n = 0 -> nothing is done (MAP); n # number of keys turns "*_sample" into "*_resample" and
   "nonlinear_update" into "nonlinear_resample".  "*_resample" draws fresh keys, "*_sample" re-uses the keys (the same excitations at
   the new position), "nonlinear_update" keeps the samples and updates them once more. *)
EXTENDS Integers, Sequences, FiniteSets, TLC, Json
CONSTANTS MaxN, MaxIter
VARIABLES keys, smp, next, it, hist
vars == <<keys, smp, next, it, hist>>
Modes == {"linear_sample", "linear_resample", "nonlinear_sample", "nonlinear_resample", "nonlinear_update"}
Eff(mode, n) == IF n = 0 THEN "none"
                ELSE IF n # Len(keys) /\ mode = "nonlinear_update" THEN "nonlinear_resample"
                ELSE IF n # Len(keys) /\ mode = "linear_sample" THEN "linear_resample"
                ELSE IF n # Len(keys) /\ mode = "nonlinear_sample" THEN "nonlinear_resample"
                ELSE mode
Fresh(n) == [i \in 1..n |-> next + i - 1]
Pairs(ks, nl) == [i \in 1..(2 * Len(ks)) |-> <<ks[(i + 1) \div 2], IF i % 2 = 1 THEN 1 ELSE -1, nl>>]
Init == keys = <<>> /\ smp = <<>> /\ next = 1 /\ it = 0 /\ hist = <<>>
Iter(mode, n) ==
  /\ it < MaxIter
  /\ LET e == Eff(mode, n)
         ks == IF e \in {"linear_resample", "nonlinear_resample"} THEN Fresh(n) ELSE keys IN
       /\ keys' = IF e = "none" THEN keys ELSE ks
       /\ next' = IF e \in {"linear_resample", "nonlinear_resample"} THEN next + n ELSE next
       /\ smp' = CASE e = "none" -> smp
                   [] e \in {"linear_sample", "linear_resample"} -> Pairs(ks, 0)
                   [] e \in {"nonlinear_sample", "nonlinear_resample"} -> Pairs(ks, 1)
                   [] e = "nonlinear_update" -> [i \in 1..Len(smp) |-> <<smp[i][1], smp[i][2], smp[i][3] + 1>>]
       /\ hist' = Append(hist, [mode |-> mode, n |-> n, eff |-> e, keys |-> keys', smp |-> smp'])
  /\ it' = it + 1
Next == (\E m \in Modes, n \in 0..MaxN : Iter(m, n)) \/ (it = MaxIter /\ UNCHANGED vars)
Spec == Init /\ [][Next]_vars
\* ---- laws ---------------------------------------------------------------------------------------------------------------
Aligned == Len(smp) = 2 * Len(keys) /\ \A i \in 1..Len(keys) : smp[2 * i - 1][1] = keys[i] /\ smp[2 * i][1] = keys[i] /\ smp[2 * i - 1][2] = 1 /\ smp[2 * i][2] = -1
              /\ smp[2 * i - 1][3] = smp[2 * i][3]
DistinctKeys == \A i, j \in 1..Len(keys) : i # j => keys[i] # keys[j]
\* action properties: re-sampling uses keys never seen before, sampling re-uses the keys, MAP does nothing
ResampleFresh == [][(it' = it + 1 /\ hist'[it'].eff \in {"linear_resample", "nonlinear_resample"}) => \A i \in 1..Len(keys') : keys'[i] >= next]_vars
SampleReuses == [][(it' = it + 1 /\ hist'[it'].eff \in {"linear_sample", "nonlinear_sample", "nonlinear_update", "none"}) => keys' = keys]_vars
MapNoop == [][(it' = it + 1 /\ hist'[it'].n = 0) => smp' = smp /\ keys' = keys]_vars
\* a changed number of samples always re-samples
ChangedNResamples == [][(it' = it + 1 /\ hist'[it'].n # 0 /\ hist'[it'].n # Len(keys)) => Len(keys') = hist'[it'].n /\ \A i \in 1..Len(keys') : keys'[i] >= next]_vars
\* vacuity witnesses (expected to be violated)
NeverUpdatesTwice == \A i \in 1..Len(smp) : smp[i][3] < 2
NeverReuses == ~(it > 1 /\ hist[it].eff = "linear_sample")
View == <<keys, smp, next, it>>
Emit == it < MaxIter \/ PrintT(ToJson([hist |-> hist]))
=============================================================================
