----------------------------- MODULE Minisanity -----------------------------
(* C36.  The fit-quality diagnostics: for every sample of normalised residuals r (one key, Size entries <<re, im>>; NaN is the marker
   <<99, 0>>, Tiny = <<97, 0>> stands for a tiny non-zero number (2^-40 in the replay: it counts, its contribution is below the comparison
   tolerance), exact zeros and NaNs are ignored) the number of degrees of freedom is the number of entries that are neither NaN nor
   exactly zero, the reduced chi-square is sum |r|^2 / ndof and the mean is sum r / ndof over those entries (0 if everything
   is ignored); the reported values are the sample average and the unbiased sample variance of these per-sample numbers, and the
   ignored entries are counted separately.  The placement of NaNs and zeros is the same in every sample (they come from the data /
   from masks).  Everything is exact in Rat.  Cplx = TRUE: Gaussian-integer residuals (the mean is complex). *)
EXTENDS Rat, FiniteSets, Json
CONSTANTS Size, NSamples, NVals, Cplx
VARIABLES inst, res
vars == <<inst, res>>
NaN == <<99, 0>>
Tiny == <<97, 0>>
Vals == IF Cplx THEN (IF NVals = 2 THEN {<<1, 1>>, <<0, -3>>} ELSE {<<1, 1>>, <<-2, 0>>, <<0, 3>>, <<1, -1>>})
        ELSE (IF NVals = 2 THEN {<<-1, 0>>, <<3, 0>>} ELSE {<<-2, 0>>, <<-1, 0>>, <<1, 0>>, <<3, 0>>})
Marks == IF Cplx THEN {"v", "nan", "zero"} ELSE {"v", "nan", "zero", "tiny"}          \* per entry: a value, a NaN, an exact zero, a tiny value
Patterns == [1..Size -> Marks]
Build(p, vs) == [i \in 1..Size |-> CASE p[i] = "nan" -> NaN [] p[i] = "zero" -> <<0, 0>> [] p[i] = "tiny" -> Tiny [] OTHER -> vs[i]]
Used(s) == {i \in 1..Size : s[i] # NaN /\ s[i] # <<0, 0>>}
Contrib(x) == IF x = Tiny THEN <<0, 0>> ELSE x
SumOver(s, f(_)) == LET RECURSIVE S(_) S(T) == IF T = {} THEN 0 ELSE LET i == CHOOSE j \in T : TRUE IN f(Contrib(s[i])) + S(T \ {i}) IN S(Used(s))
Chi(s) == IF Used(s) = {} THEN Z(0) ELSE R(SumOver(s, LAMBDA x : x[1] * x[1] + x[2] * x[2]), Cardinality(Used(s)))
MeanRe(s) == IF Used(s) = {} THEN Z(0) ELSE R(SumOver(s, LAMBDA x : x[1]), Cardinality(Used(s)))
MeanIm(s) == IF Used(s) = {} THEN Z(0) ELSE R(SumOver(s, LAMBDA x : x[2]), Cardinality(Used(s)))
Avg(q) == RDiv(RSum(q, 1, Len(q)), Z(Len(q)))
UVar(q) == IF Len(q) < 2 THEN Z(0)
           ELSE LET m == Avg(q) IN RDiv(RSum([k \in 1..Len(q) |-> RMul(RSub(q[k], m), RSub(q[k], m))], 1, Len(q)), Z(Len(q) - 1))
Compute(samples) ==
  LET chis == [k \in 1..Len(samples) |-> Chi(samples[k])]
      means == [k \in 1..Len(samples) |-> MeanRe(samples[k])]
      meansi == [k \in 1..Len(samples) |-> MeanIm(samples[k])]
      last == samples[Len(samples)]
  IN [redchi |-> Avg(chis), redchivar |-> UVar(chis), mean |-> Avg(means), meanim |-> Avg(meansi), meanvar |-> UVar(means),
      ndof |-> Cardinality(Used(last)), nign |-> Size - Cardinality(Used(last)),
      ok |-> /\ RLt(Z(-1), Avg(chis))                                           \* a mean of squares is not negative
             /\ Cardinality(Used(last)) + (Size - Cardinality(Used(last))) = Size]
Init == inst = [stage |-> "none"] /\ res = [ok |-> TRUE]
Choose == /\ inst.stage = "none"
          /\ \E p \in Patterns : \E vs \in [1..NSamples -> [1..Size -> Vals]] :
               LET samples == [k \in 1..NSamples |-> Build(p, vs[k])] IN
               inst' = [stage |-> "done", samples |-> samples] /\ res' = Compute(samples)
Next == Choose \/ (inst.stage # "none" /\ UNCHANGED vars)
Spec == Init /\ [][Next]_vars
Law == res.ok
RatJ(x) == [n |-> x[1], d |-> x[2]]
Emit == inst.stage = "none" \/ PrintT(ToJson([cplx |-> Cplx, samples |-> inst.samples, redchi |-> RatJ(res.redchi), redchivar |-> RatJ(res.redchivar), mean |-> RatJ(res.mean),
                                               meanim |-> RatJ(res.meanim), meanvar |-> RatJ(res.meanvar), ndof |-> res.ndof, nign |-> res.nign]))
=============================================================================
