---------------------------- MODULE JaxVIResume ----------------------------
(* C24.  Persistence protocol of the JAX VI driver nifty.re.optimize_kl, one action per file-system effect.

   mem       nit: number of finished iterations held in memory (the samples/state after iteration i are a function
             of i: the key is split deterministically), 
   disk      last, tmp: content of last.pkl / last.pkl.tmp:  None (absent) | Part (truncated or partially written)
             | n >= 0 (complete pickle of the state after n iterations);  san: complete status messages in minisanity.txt
   pc        next step of the driver;  status: run | crashed | done | resumefail;  crashes: kills so far

   Atomic = TRUE  : the protocol of the repaired driver (write last.pkl.tmp, close, os.replace onto last.pkl)
   Atomic = FALSE : the pinned snapshot (open last.pkl with "wb", write in place) - refuted by TLC (defect D9)
   Crash is enabled in every running state; it loses the memory and everything not yet closed/flushed. *)
EXTENDS Integers, TLC
CONSTANTS NIter, Atomic, MaxCrashes
None == -1   Part == -2
VARIABLES pc, nit, last, tmp, san, status, crashes, resumed
vars == <<pc, nit, last, tmp, san, status, crashes, resumed>>
Init == pc = "makedirs" /\ nit = 0 /\ last = None /\ tmp = None /\ san = 0 /\ status = "run" /\ crashes = 0 /\ resumed = FALSE
Run == status = "run"
Go(p) == pc' = p
K(vs) == UNCHANGED vs
Makedirs  == Run /\ pc = "makedirs" /\ Go(IF resumed THEN "update" ELSE "santrunc") /\ K(<<nit, last, tmp, san, status, crashes, resumed>>)
\* "if not resume: open(sanity, 'w')": truncate the report file of an earlier run
SanTrunc  == Run /\ pc = "santrunc" /\ san' = 0 /\ Go("santruncclose") /\ K(<<nit, last, tmp, status, crashes, resumed>>)
SanTruncClose == Run /\ pc = "santruncclose" /\ Go("update") /\ K(<<nit, last, tmp, san, status, crashes, resumed>>)
\* one VI iteration in memory (no file-system effect)
Update == /\ Run /\ pc = "update"
          /\ IF nit < NIter THEN nit' = nit + 1 /\ Go("sanopen") /\ K(status) ELSE status' = "done" /\ K(<<pc, nit>>)
          /\ K(<<last, tmp, san, crashes, resumed>>)
SanOpen  == Run /\ pc = "sanopen"  /\ Go("sanwrite") /\ K(<<nit, last, tmp, san, status, crashes, resumed>>)
SanWrite == Run /\ pc = "sanwrite" /\ Go("sanclose") /\ K(<<nit, last, tmp, san, status, crashes, resumed>>)      \* buffered
SanClose == Run /\ pc = "sanclose" /\ san' = san + 1 /\ Go(IF Atomic THEN "tmpopen" ELSE "open") /\ K(<<nit, last, tmp, status, crashes, resumed>>)
\* pinned protocol: truncate and write in place
Open  == Run /\ pc = "open"  /\ last' = Part /\ Go("write") /\ K(<<nit, tmp, san, status, crashes, resumed>>)
Write == Run /\ pc = "write" /\ Go("close") /\ K(<<nit, last, tmp, san, status, crashes, resumed>>)
Close == Run /\ pc = "close" /\ last' = nit /\ Go("cb") /\ K(<<nit, tmp, san, status, crashes, resumed>>)
\* repaired protocol
TmpOpen  == Run /\ pc = "tmpopen"  /\ tmp' = Part /\ Go("tmpwrite") /\ K(<<nit, last, san, status, crashes, resumed>>)
TmpWrite == Run /\ pc = "tmpwrite" /\ pc' \in {"tmpwrite", "tmpclose"} /\ K(<<nit, last, tmp, san, status, crashes, resumed>>)  \* one or more chunks
TmpClose == Run /\ pc \in {"tmpwrite", "tmpclose"} /\ tmp' = nit /\ Go("replace") /\ K(<<nit, last, san, status, crashes, resumed>>)
Replace  == Run /\ pc = "replace" /\ last' = tmp /\ tmp' = None /\ Go("cb") /\ K(<<nit, san, status, crashes, resumed>>)
Callback == Run /\ pc = "cb" /\ Go("update") /\ K(<<nit, last, tmp, san, status, crashes, resumed>>)
Crash == Run /\ crashes < MaxCrashes /\ status' = "crashed" /\ crashes' = crashes + 1 /\ K(<<pc, nit, last, tmp, san, resumed>>)
\* restart with resume=True: "if resume and isfile(last.pkl): load"
Restart == /\ status = "crashed" /\ resumed' = TRUE
           /\ IF last = None THEN nit' = 0 /\ status' = "run" /\ Go("makedirs")
              ELSE IF last = Part THEN status' = "resumefail" /\ K(<<nit, pc>>)
              ELSE nit' = last /\ status' = "run" /\ Go("makedirs")
           /\ K(<<last, tmp, san, crashes>>)
Stutter == status \in {"done", "resumefail"} /\ K(vars)
Next == Makedirs \/ SanTrunc \/ SanTruncClose \/ Update \/ SanOpen \/ SanWrite \/ SanClose \/ Open \/ Write \/ Close
        \/ TmpOpen \/ TmpWrite \/ TmpClose \/ Replace \/ Callback \/ Crash \/ Restart \/ Stutter
Spec == Init /\ [][Next]_vars
\* ---- properties (C24) ---------------------------------------------------------------------------------
Resumable == status # "resumefail"                      \* a crash never leaves a state from which resuming is impossible
SameResult == status = "done" => nit = NIter            \* a completed run holds the state after NIter iterations
AtMostOneLost == (status = "crashed" /\ last >= 0) => nit - last <= 1
LastComplete == (Atomic /\ last # None) => last >= 0    \* last.pkl is never partial under the repaired protocol
\* vacuity witnesses (expected to be violated)
NeverCrashes == crashes = 0
NeverResumesMidway == ~(status = "run" /\ resumed /\ nit > 0 /\ nit < NIter)
=============================================================================
