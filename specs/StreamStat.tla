----------------------------- MODULE StreamStat -----------------------------
(* C26 (statistics part).  Sample mean and unbiased sample variance of a stream of integer-valued samples, as exact
   rationals <<numerator, denominator>> (denominator > 0, not reduced):
       mean = S1 / n          var = (n * S2 - S1^2) / (n (n - 1))
   The stream is built one sample at a time from a small value set, so TLC's states are all streams up to MaxLen;
   the streaming (Welford) recurrence that StatCalculator uses is transcribed as well and must agree with the closed
   form in every state (scaled integers: m_n = S1, M2_n * n = n S2 - S1^2). *)
EXTENDS Integers, Sequences, TLC, Json
CONSTANTS MaxLen, EmitAll
Values == {-2, 0, 1, 3}      \* configuration files cannot hold negative literals
VARIABLES xs, s1, s2, wM, wN     \* wM = n * n * M2 (Welford, scaled), wN = n
vars == <<xs, s1, s2, wM, wN>>
Init == xs = <<>> /\ s1 = 0 /\ s2 = 0 /\ wM = 0 /\ wN = 0
\* Welford: delta = x - mean_{n-1}; mean_n = mean_{n-1} + delta/n; M2_n = M2_{n-1} + delta (x - mean_n)
\* with integers: (n-1) n M2_n = (n-1) n M2_{n-1} + ((n-1) x - S1_{n-1})^2   =>   Q_n := n * M2_n satisfies
\*   Q_n = (n / (n-1)) Q_{n-1}' ... kept simple: we carry D_n = n S2 - S1^2 through the recurrence
\*   D_n = D_{n-1} * n/(n-1) + ((n-1) x - S1_{n-1})^2 / (n-1)      (exact integer identity for n >= 2)
Add(x) == /\ Len(xs) < MaxLen
          /\ xs' = Append(xs, x) /\ s1' = s1 + x /\ s2' = s2 + x * x /\ wN' = wN + 1
          /\ wM' = IF wN = 0 THEN 0 ELSE (wM * (wN + 1) + (wN * x - s1) * (wN * x - s1)) \div wN
Next == \E x \in Values : Add(x)
Spec == Init /\ [][Next]_vars
N == Len(xs)
MeanR == <<s1, N>>
VarR == <<N * s2 - s1 * s1, N * (N - 1)>>
\* the streaming recurrence equals the closed form, and the division above is exact
WelfordExact == wN = N /\ wM = N * s2 - s1 * s1
VarNonNeg == N >= 2 => VarR[1] >= 0
\* adding a constant to every sample shifts the mean by it and leaves the variance alone (what makes the statistic usable for samples
\* with a large common offset; replayed into the code with an offset of 1e8, where a sum-of-squares formula loses every digit)
Shifted(c) == [i \in 1..N |-> xs[i] + c]
SumOf(f) == LET RECURSIVE S(_) S(i) == IF i = 0 THEN 0 ELSE f[i] + S(i - 1) IN S(N)
ShiftInvariant == \A c \in {7, 1000} : LET ys == Shifted(c)  t1 == SumOf(ys)  t2 == SumOf([i \in 1..N |-> ys[i] * ys[i]]) IN
                     /\ t1 = s1 + N * c
                     /\ N * t2 - t1 * t1 = N * s2 - s1 * s1
Emit == (EmitAll /\ N >= 1) => PrintT(ToJson([xs |-> xs, mean |-> [num |-> s1, den |-> N],
                                               var |-> [num |-> N * s2 - s1 * s1, den |-> IF N >= 2 THEN N * (N - 1) ELSE 1]]))
=============================================================================
