----------------------------- MODULE Distribute -----------------------------
(* C22.  Distribution of (mirrored) samples over MPI tasks in nifty.cl (kl_energies.draw_samples):
   the global sample indices 0..Total-1 are split by shareRange over T tasks (T may exceed Total), there is one seed
   sequence per UNMIRRORED sample (used twice when mirrored), index i is "negative" iff mirrored and odd, and a task
   really draws iff the index is not negative or it is the first index of the task (otherwise it reuses the previous
   draw with a flipped sign).  The distributed list iterates in rank order.  *)
EXTENDS Integers, Sequences, TLC
CONSTANTS MaxN, MaxT
VARIABLES n, mirror, T, pos, y, out
vars == <<n, mirror, T, pos, y, out>>
Total == IF mirror THEN 2 * n ELSE n
Lo(w, s, r) == r * (w \div s) + (IF r < w % s THEN r ELSE w % s)
Hi(w, s, r) == Lo(w, s, r) + (w \div s) + (IF r < w % s THEN 1 ELSE 0)
SeedOf(i) == IF mirror THEN i \div 2 ELSE i
Init == /\ n \in 1..MaxN /\ mirror \in BOOLEAN /\ T \in 1..MaxT
        /\ pos = [r \in 0..(MaxT - 1) |-> -1]          \* next local index per task (-1: not started)
        /\ y = [r \in 0..(MaxT - 1) |-> -1]            \* seed of the draw currently held by the task (-1 = none yet)
        /\ out = [r \in 0..(MaxT - 1) |-> <<>>]        \* local records <<seed used, negative?, fresh draw?>>
Step(r) == /\ r < T
           /\ LET lo == Lo(Total, T, r)  hi == Hi(Total, T, r)
                  i == IF pos[r] = -1 THEN lo ELSE pos[r] IN
              /\ i < hi
              /\ LET neg == mirror /\ (i % 2 # 0)
                     fresh == ~neg \/ y[r] = -1 IN
                 /\ y' = [y EXCEPT ![r] = IF fresh THEN SeedOf(i) ELSE @]
                 /\ out' = [out EXCEPT ![r] = Append(@, <<(IF fresh THEN SeedOf(i) ELSE y[r]), neg, fresh>>)]
                 /\ pos' = [pos EXCEPT ![r] = i + 1]
           /\ UNCHANGED <<n, mirror, T>>
Finished == \A r \in 0..(T - 1) : (IF pos[r] = -1 THEN Lo(Total, T, r) ELSE pos[r]) = Hi(Total, T, r)
Next == (\E r \in 0..(MaxT - 1) : Step(r)) \/ (Finished /\ UNCHANGED vars)
Spec == Init /\ [][Next]_vars
RECURSIVE Concat(_, _)
Concat(f, r) == IF r = T THEN <<>> ELSE f[r] \o Concat(f, r + 1)
Global == Concat(out, 0)      \* iteration order of the distributed sample list = rank order
\* the global list of (seed used, sign) is what a single task produces; every index is drawn exactly once
Same == Finished => /\ Len(Global) = Total
                    /\ \A i \in 1..Total : Global[i][1] = SeedOf(i - 1) /\ Global[i][2] = (mirror /\ ((i - 1) % 2 # 0))
\* the shares partition the indices in order
Partition == /\ Lo(Total, T, 0) = 0 /\ Hi(Total, T, T - 1) = Total
             /\ \A r \in 0..(T - 2) : Hi(Total, T, r) = Lo(Total, T, r + 1)
\* vacuity witnesses (expected to be violated)
NeverRedraws == \A r \in 0..(MaxT - 1) : \A j \in 1..Len(out[r]) : ~(out[r][j][2] /\ out[r][j][3])
NeverEmptyTask == T <= Total
=============================================================================
