------------------------------ MODULE MultiGrid ------------------------------
(* C31.  Index maps of the multi-resolution grids of nifty.re.multi_grid, one axis at a time (product grids act axis by axis):
     Grid      periodic: level l+1 has splits[l+1] * shape_l pixels; children of i are i*f .. i*f+f-1; neighbourhoods wrap
     OpenGrid  padded:   only the pixels padding .. shape-padding-1 of a level are refined, their children are counted from 0 on
                         the next level; the parent of a child adds the padding back; neighbourhoods are clipped
     HEALPix   nested scheme: 12 nside0^2 4^l pixels at level l, children of p are 4p .. 4p+3
   An instance is chosen in one step; TLC's states are the grids, each carrying shapes, children, parents, neighbourhoods of
   every index of every level, and coordinates / volumes of the periodic grid as rationals <<num, den>>. *)
EXTENDS Integers, Sequences, FiniteSets, TLC, Json
VARIABLES g, res
Shapes0 == 2..5   Splits == {2, 3}   Pads == {0, 1}
RECURSIVE ShapeAt(_, _)        \* g = [kind, shape0, splits, padding]
ShapeAt(gr, lvl) == IF lvl = 0 THEN gr.shape0
                    ELSE LET s == ShapeAt(gr, lvl - 1) IN
                         IF gr.kind = "open" THEN gr.splits[lvl] * (s - 2 * gr.padding[lvl]) ELSE gr.splits[lvl] * s
Depth(gr) == Len(gr.splits)
Pad(gr, lvl) == IF gr.kind = "open" THEN gr.padding[lvl] ELSE 0
Refined(gr, lvl) == Pad(gr, lvl + 1)..(ShapeAt(gr, lvl) - Pad(gr, lvl + 1) - 1)
Children(gr, lvl, i) == LET f == gr.splits[lvl + 1] IN {(i - Pad(gr, lvl + 1)) * f + c : c \in 0..(f - 1)}
Parent(gr, lvl, j) == (j \div gr.splits[lvl]) + Pad(gr, lvl)                           \* index at level lvl -> level lvl-1
\* window of 3 around i: periodic wrap for the periodic grids.  For the open grid a neighbourhood is only specified where the
\* refinement uses it: around refined indices of a level whose padding covers half the window (then it never leaves the grid)
Nbr(gr, lvl, i) == LET n == ShapeAt(gr, lvl) IN
                   [d \in 1..3 |-> IF gr.kind = "open" THEN i + d - 2 ELSE (i + d - 2 + n) % n]
NbrDefined(gr, lvl) == IF gr.kind # "open" THEN 0..(ShapeAt(gr, lvl) - 1)
                       ELSE IF lvl < Depth(gr) /\ Pad(gr, lvl + 1) >= 1 THEN Refined(gr, lvl) ELSE {}
Compute(gr) ==
  LET lv == 0..(Depth(gr) - 1)
      all == 0..Depth(gr)
      ch == [l \in lv |-> [i \in Refined(gr, l) |-> Children(gr, l, i)]]
      ok == \A l \in lv :
              /\ ShapeAt(gr, l + 1) > 0
              /\ \A i \in Refined(gr, l) : \A c \in ch[l][i] : Parent(gr, l + 1, c) = i                      \* parent(child) = index
              /\ \A i, k \in Refined(gr, l) : i # k => ch[l][i] \cap ch[l][k] = {}                           \* children are disjoint ...
              /\ UNION {ch[l][i] : i \in Refined(gr, l)} = 0..(ShapeAt(gr, l + 1) - 1)                       \* ... and cover the next level
              \* refinement never creates volume: f children of volume 1/(f n) make up a parent of volume 1/n (periodic, HEALPix)
              /\ (gr.kind # "open" => gr.splits[l + 1] * ShapeAt(gr, l) = ShapeAt(gr, l + 1))
              /\ \A i \in NbrDefined(gr, l) : \A d \in 1..3 : Nbr(gr, l, i)[d] \in 0..(ShapeAt(gr, l) - 1)    \* neighbourhoods stay inside
  IN [shapes |-> [l \in 1..(Depth(gr) + 1) |-> ShapeAt(gr, l - 1)],
      children |-> UNION {{[l |-> l, i |-> i, cs |-> ch[l][i]] : i \in Refined(gr, l)} : l \in lv},
      nbrs |-> UNION {{[l |-> l, i |-> i, nb |-> Nbr(gr, l, i)] : i \in NbrDefined(gr, l)} : l \in all},
      \* periodic grid on the unit interval: centre (2 i + 1) / (2 n), volume 1 / n
      coords |-> IF gr.kind = "periodic" THEN UNION {{[l |-> l, i |-> i, num |-> 2 * i + 1, den |-> 2 * ShapeAt(gr, l)] : i \in 0..(ShapeAt(gr, l) - 1)} : l \in all} ELSE {},
      ok |-> ok]
Valid(gr) == \A l \in 1..Depth(gr) : ShapeAt(gr, l) > 0 /\ (gr.kind = "open" => ShapeAt(gr, l - 1) - 2 * gr.padding[l] > 0)
Init == g = [kind |-> "none", shape0 |-> 0, splits |-> <<>>, padding |-> <<>>] /\ res = [ok |-> TRUE]
Choose == /\ g.shape0 = 0
          /\ \/ \E o \in {"periodic", "open"}, s0 \in Shapes0, d \in 1..2 : \E sp \in [1..d -> Splits], pd \in [1..d -> Pads] :
                   LET gr == [kind |-> o, shape0 |-> s0, splits |-> sp, padding |-> (IF o = "open" THEN pd ELSE [k \in 1..d |-> 0])] IN
                   /\ Valid(gr) /\ g' = gr /\ res' = Compute(gr)
             \/ \E nside0 \in {1, 2}, d \in 1..2 :
                   LET gr == [kind |-> "healpix", shape0 |-> 12 * nside0 * nside0, splits |-> [k \in 1..d |-> 4], padding |-> [k \in 1..d |-> 0]] IN
                   g' = gr /\ res' = Compute(gr)
Next == Choose \/ (g.shape0 # 0 /\ UNCHANGED <<g, res>>)
Spec == Init /\ [][Next]_<<g, res>>
Laws == res.ok
Emit == g.shape0 = 0 \/ PrintT(ToJson([g |-> g, shapes |-> res.shapes, children |-> res.children, nbrs |-> res.nbrs, coords |-> res.coords]))
=============================================================================
