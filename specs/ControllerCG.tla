---------------------------- MODULE ControllerCG ----------------------------
(* C14.  The classic conjugate-gradient minimiser nifty.cl.ConjugateGradient together with the counter logic shared by the
   five iteration controllers.

   Controller:  start() is check number 0; a hit of the controller's own criterion increments the convergence counter, a miss
   decrements it (not below 0); itcount >= iteration_limit reports CONVERGED; ccount >= convergence_level reports CONVERGED.
   The energy-difference controllers cannot hit at check 0 (FirstCanHit = FALSE).
   CG:  the controller is asked first; a zero initial gamma returns CONVERGED, NaN returns ERROR.  Every iteration applies the
   operator once; the residual is updated recursively except at every NReset-th step, where it is recomputed (a second
   application); non-positive or NaN curvature, negative or NaN gamma return ERROR; gamma = 0 returns CONVERGED without
   asking the controller; otherwise the controller decides.  The environment supplies the floating-point facts. *)
EXTENDS Integers, Sequences, TLC, Json
CONSTANTS Level, Limit, NReset, FirstCanHit, MaxSteps, EmitHist      \* Limit = NoLimit: no iteration limit
NoLimit == 0 - 1
VARIABLES pc, itcount, ccount, ii, status, why, steps, hist
vars == <<pc, itcount, ccount, ii, status, why, steps, hist>>
Sign == {"pos", "zero", "neg", "nan"}
Init == pc = "start" /\ itcount = -1 /\ ccount = 0 /\ ii = 0 /\ status = "none" /\ why = "none" /\ steps = 0 /\ hist = <<>>
\* the controller's check: returns <<itcount', ccount', verdict>>
Ctl(hit) == LET it2 == itcount + 1
                cc2 == IF hit THEN ccount + 1 ELSE (IF ccount > 0 THEN ccount - 1 ELSE 0)
                v == IF Limit # NoLimit /\ it2 >= Limit THEN "limit" ELSE IF cc2 >= Level THEN "hits" ELSE "continue"
            IN <<it2, cc2, v>>
Ret(st, w) == pc' = "done" /\ status' = st /\ why' = w
Start(hit, g0) ==
  /\ pc = "start" /\ (hit => FirstCanHit)
  /\ LET c == Ctl(hit) IN
       /\ itcount' = c[1] /\ ccount' = c[2]
       /\ IF c[3] # "continue" THEN Ret("CONVERGED", c[3])
          ELSE IF g0 = "nan" THEN Ret("ERROR", "gamma-nan")
          ELSE IF g0 = "zero" THEN Ret("CONVERGED", "gamma-zero")
          ELSE pc' = "loop" /\ UNCHANGED <<status, why>>
       /\ hist' = Append(hist, [ev |-> "check", hit |-> hit, verdict |-> c[3], reset |-> FALSE])
  /\ UNCHANGED <<ii, steps>>
Step(curv, gamma, hit) ==
  /\ pc = "loop" /\ steps < MaxSteps /\ steps' = steps + 1
  /\ IF curv # "pos"
     THEN /\ Ret("ERROR", "curvature") /\ UNCHANGED <<itcount, ccount, ii>>
          /\ hist' = Append(hist, [ev |-> "abort", hit |-> FALSE, verdict |-> "error", reset |-> FALSE])
     ELSE LET reset == ii + 1 >= NReset IN
          /\ ii' = IF reset THEN 0 ELSE ii + 1
          /\ IF gamma \in {"nan", "neg"}
             THEN /\ Ret("ERROR", "gamma") /\ UNCHANGED <<itcount, ccount>>
                  /\ hist' = Append(hist, [ev |-> "abort", hit |-> FALSE, verdict |-> "error", reset |-> reset])
             ELSE IF gamma = "zero"
             THEN /\ Ret("CONVERGED", "gamma-zero") /\ UNCHANGED <<itcount, ccount>>
                  /\ hist' = Append(hist, [ev |-> "abort", hit |-> FALSE, verdict |-> "gamma-zero", reset |-> reset])
             ELSE LET c == Ctl(hit) IN
                  /\ itcount' = c[1] /\ ccount' = c[2]
                  /\ (IF c[3] # "continue" THEN Ret("CONVERGED", c[3]) ELSE UNCHANGED <<pc, status, why>>)
                  /\ hist' = Append(hist, [ev |-> "check", hit |-> hit, verdict |-> c[3], reset |-> reset])
Next == \/ \E h \in BOOLEAN, g \in {"pos", "zero", "nan"} : Start(h, g)
        \/ \E c \in Sign, g \in Sign, h \in BOOLEAN : Step(c, g, h)
        \/ (pc = "done" \/ steps = MaxSteps) /\ UNCHANGED vars
Spec == Init /\ [][Next]_vars
\* ---- properties (C14) -----------------------------------------------------------------------------------
\* convergence is reported only with enough hits of the criterion, at the iteration limit, or for an exactly vanishing residual
ConvergedLaw == (pc = "done" /\ status = "CONVERGED") =>
                   \/ (why = "hits" /\ ccount >= Level)
                   \/ (why = "limit" /\ Limit # NoLimit /\ itcount >= Limit)
                   \/ why = "gamma-zero"
\* an error is reported only after a non-positive-definite observation; CONTINUE is never returned
ErrorLaw == (pc = "done" /\ status = "ERROR") => why \in {"curvature", "gamma", "gamma-nan"}
Returns == pc = "done" => status \in {"CONVERGED", "ERROR"}
\* the residual is recomputed exactly at every NReset-th update since the last recomputation
RECURSIVE Since(_)
Since(k) == IF k <= 1 \/ hist[k].reset THEN 0 ELSE 1 + Since(k - 1)        \* recursive updates since the last recomputation
ResetLaw == \A k \in 2..Len(hist) : (hist[k].ev = "check" \/ hist[k].verdict # "error" \/ hist[k].reset) =>
               (hist[k].reset <=> Since(k - 1) = NReset - 1)
CounterBounds == ccount >= 0 /\ itcount >= -1 /\ ii >= 0 /\ ii < (IF NReset > 1 THEN NReset ELSE 1)
\* vacuity witnesses (expected to be violated)
NeverByHits == ~(pc = "done" /\ why = "hits")
NeverError == ~(pc = "done" /\ status = "ERROR")
Emit == (EmitHist /\ (pc = "done" \/ steps = MaxSteps)) => PrintT(ToJson([hist |-> hist, status |-> status, why |-> why]))
=============================================================================
