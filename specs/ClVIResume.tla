---------------------------- MODULE ClVIResume ----------------------------
(* C25.  Persistence protocol of the classic VI driver nifty.cl.optimize_kl, one action per file-system effect, in the
   order of the code; Crash anywhere; Restart with resume=True.

   Files (content tags; None = absent, Part = truncated / partially written):
     samp[name][k]   sample file k of list `name`: <<iteration, index, residual?>>     (pickle/<name>.<k>.pickle)
     mean[name]      mean file of a residual list: iteration                           (pickle/<name>.mean.pickle)
     marker, mtmp    last_finished_iteration and its temporary file: iteration
     ehist, mhist    energy / minisanity history pickles per name: iteration they were written in
   name = <<"it", i>> for save strategy "all", "latest" for strategy "latest".
   Sampled[i] says whether iteration i draws samples (residual list: two sample files + mean) or is a MAP
   iteration (plain list: one sample file, no mean).

   Proto = "fixed"  : the repaired driver (histories first and atomically, then samples, then the marker atomically;
                      a plain list removes a stale mean file)
   Proto = "pinned" : the snapshot (samples, marker in place, then the histories in place; stale mean kept) *)
EXTENDS Integers, Sequences, FiniteSets, TLC
CONSTANTS NIter, Strategy, SchedName, Proto, MaxCrashes
None == -1
Part == -2
SNone == <<-1, -1, FALSE>>
SPart == <<-2, -2, FALSE>>
\* the schedule is named by its digits (1 = sampled iteration, 0 = MAP iteration); configuration files cannot hold tuples
Sched == CASE SchedName = "111" -> <<1, 1, 1>> [] SchedName = "101" -> <<1, 0, 1>> [] SchedName = "110" -> <<1, 1, 0>>
           [] SchedName = "011" -> <<0, 1, 1>> [] SchedName = "010" -> <<0, 1, 0>> [] SchedName = "100" -> <<1, 0, 0>>
           [] SchedName = "001" -> <<0, 0, 1>> [] SchedName = "000" -> <<0, 0, 0>>
           [] SchedName = "1111" -> <<1, 1, 1, 1>> [] SchedName = "1010" -> <<1, 0, 1, 0>> [] SchedName = "0110" -> <<0, 1, 1, 0>>
Iters == 0..(NIter - 1)
Sampled(i) == Sched[i + 1] = 1
Name(i) == IF Strategy = "latest" THEN "latest" ELSE <<"it", i>>
Names == {Name(i) : i \in Iters}
NS(i) == IF Sampled(i) THEN 2 ELSE 1         \* sample files written by iteration i (one unmirrored residual pair / the MAP point)
Idx == 0..2
Fixed == Proto = "fixed"
VARIABLES pc, it, k, samp, mean, marker, mtmp, ehist, mhist, status, crashes
vars == <<pc, it, k, samp, mean, marker, mtmp, ehist, mhist, status, crashes>>
disk == <<samp, mean, marker, mtmp, ehist, mhist>>
Init == /\ pc = "compute" /\ it = 0 /\ k = 0 /\ status = "run" /\ crashes = 0
        /\ samp = [n \in Names |-> [j \in Idx |-> SNone]]
        /\ mean = [n \in Names |-> None]
        /\ marker = None /\ mtmp = None
        /\ ehist = [n \in Names |-> None] /\ mhist = [n \in Names |-> None]
Go(p) == pc' = p
Run == status = "run"
K(vs) == UNCHANGED vs
\* ---- one iteration ------------------------------------------------------------------------------------
Compute == Run /\ pc = "compute" /\ Go(IF Fixed THEN "ehwrite" ELSE "unlinknext") /\ K(<<it, k, samp, mean, marker, mtmp, ehist, mhist, status, crashes>>)
\* histories: in place for the pinned protocol (truncate, then complete at close), atomically (temporary file + replace) for the fixed one
EhTrunc == Run /\ pc = "ehtrunc" /\ ~Fixed /\ ehist' = [ehist EXCEPT ![Name(it)] = Part] /\ Go("ehwrite")
           /\ K(<<it, k, samp, mean, marker, mtmp, mhist, status, crashes>>)
EhWrite == Run /\ pc = "ehwrite" /\ ehist' = [ehist EXCEPT ![Name(it)] = it] /\ Go("mhload")
           /\ K(<<it, k, samp, mean, marker, mtmp, mhist, status, crashes>>)
\* the minisanity history of the previous iteration is loaded and extended
MhLoad == /\ Run /\ pc = "mhload"
          /\ IF it > 0 /\ mhist[Name(it - 1)] \in {None, Part}
             THEN status' = "resumefail" /\ K(pc)
             ELSE Go(IF Fixed THEN "mhwrite" ELSE "mhtrunc") /\ K(status)
          /\ K(<<it, k, samp, mean, marker, mtmp, ehist, mhist, crashes>>)
MhTrunc == Run /\ pc = "mhtrunc" /\ mhist' = [mhist EXCEPT ![Name(it)] = Part] /\ Go("mhwrite")
           /\ K(<<it, k, samp, mean, marker, mtmp, ehist, status, crashes>>)
NextIter == IF it + 1 < NIter THEN it' = it + 1 /\ Go("compute") /\ K(status) ELSE it' = it /\ status' = "done" /\ K(pc)
MhWrite == /\ Run /\ pc = "mhwrite" /\ mhist' = [mhist EXCEPT ![Name(it)] = it]
           /\ IF Fixed THEN Go("unlinknext") /\ K(<<it, status>>) ELSE NextIter
           /\ K(<<k, samp, mean, marker, mtmp, ehist, crashes>>)
\* samples: "unlink the file after the last one", then remove / open / write+close every sample file
UnlinkNext == Run /\ pc = "unlinknext"
              /\ samp' = [samp EXCEPT ![Name(it)][NS(it)] = SNone]
              /\ k' = 0 /\ Go(IF Fixed /\ ~Sampled(it) THEN "stalemean" ELSE "rm") /\ K(<<it, mean, marker, mtmp, ehist, mhist, status, crashes>>)
\* repaired driver: a plain list removes the mean file of a residual list saved under the same name
StaleMean == Run /\ pc = "stalemean" /\ mean' = [mean EXCEPT ![Name(it)] = None] /\ Go("rm")
             /\ K(<<it, k, samp, marker, mtmp, ehist, mhist, status, crashes>>)
Rm == Run /\ pc = "rm" /\ samp' = [samp EXCEPT ![Name(it)][k] = SNone] /\ Go("open")
      /\ K(<<it, k, mean, marker, mtmp, ehist, mhist, status, crashes>>)
Open == Run /\ pc = "open" /\ samp' = [samp EXCEPT ![Name(it)][k] = SPart] /\ Go("write")
      /\ K(<<it, k, mean, marker, mtmp, ehist, mhist, status, crashes>>)
Write == /\ Run /\ pc = "write" /\ samp' = [samp EXCEPT ![Name(it)][k] = <<it, k, Sampled(it)>>]
         /\ IF k + 1 < NS(it) THEN k' = k + 1 /\ Go("rm")
            ELSE k' = k /\ Go(IF Sampled(it) THEN "meanrm" ELSE "mark")
         /\ K(<<it, mean, marker, mtmp, ehist, mhist, status, crashes>>)
MeanRm == Run /\ pc = "meanrm" /\ mean' = [mean EXCEPT ![Name(it)] = None] /\ Go("meanopen")
      /\ K(<<it, k, samp, marker, mtmp, ehist, mhist, status, crashes>>)
MeanOpen == Run /\ pc = "meanopen" /\ mean' = [mean EXCEPT ![Name(it)] = Part] /\ Go("meanwrite")
      /\ K(<<it, k, samp, marker, mtmp, ehist, mhist, status, crashes>>)
MeanWrite == Run /\ pc = "meanwrite" /\ mean' = [mean EXCEPT ![Name(it)] = it] /\ Go("mark")
      /\ K(<<it, k, samp, marker, mtmp, ehist, mhist, status, crashes>>)
\* marker: in place (pinned) or temporary file + replace (fixed)
Mark == /\ Run /\ pc = "mark"
        /\ IF Fixed THEN mtmp' = Part /\ K(marker) ELSE marker' = Part /\ K(mtmp)
        /\ Go("markwrite") /\ K(<<it, k, samp, mean, ehist, mhist, status, crashes>>)
MarkWrite == /\ Run /\ pc = "markwrite"
             /\ IF Fixed THEN mtmp' = it /\ K(marker) /\ Go("markreplace")
                ELSE marker' = it /\ K(mtmp) /\ Go("ehtrunc")
             /\ K(<<it, k, samp, mean, ehist, mhist, status, crashes>>)
MarkReplace == /\ Run /\ pc = "markreplace" /\ marker' = mtmp /\ mtmp' = None
               /\ NextIter /\ K(<<k, samp, mean, ehist, mhist, crashes>>)
Crash == Run /\ crashes < MaxCrashes /\ status' = "crashed" /\ crashes' = crashes + 1 /\ K(<<pc, it, k, samp, mean, marker, mtmp, ehist, mhist>>)
\* ---- restart with resume=True ------------------------------------------------------------------------------
NFiles(n) == IF samp[n][0] = SNone THEN 0 ELSE IF samp[n][1] = SNone THEN 1 ELSE IF samp[n][2] = SNone THEN 2 ELSE 3
Loaded(n) == {samp[n][j] : j \in 0..(NFiles(n) - 1)}
\* the resumed run continues with iteration m+1 after loading the energy history stored under the marker's name
\* (with strategy "latest" that file may already be the next iteration's: harmless for the samples)
Continue(m) ==
  IF m + 1 = NIter THEN status' = "done" /\ K(<<pc, it, k>>)
  ELSE IF ehist[Name(m)] \in {None, Part} THEN status' = "resumefail" /\ K(<<pc, it, k>>)
  ELSE status' = "run" /\ it' = m + 1 /\ k' = 0 /\ Go("compute")
Restart ==
  /\ status = "crashed"
  /\ IF marker = None THEN status' = "run" /\ it' = 0 /\ k' = 0 /\ Go("compute")       \* no marker: start from scratch
     ELSE IF marker = Part THEN status' = "resumefail" /\ K(<<pc, it, k>>)
     ELSE LET m == marker  n == Name(marker) IN
        IF mean[n] # None THEN      \* the residual loader is chosen by the existence of the mean file
             IF mean[n] = Part \/ NFiles(n) = 0 \/ SPart \in Loaded(n)
                \/ (\E t \in Loaded(n) : t[3] = FALSE)        \* a plain field where [residual, neg] is expected
             THEN status' = "resumefail" /\ K(<<pc, it, k>>)
             ELSE IF mean[n] # m \/ (\E t \in Loaded(n) : t[1] # m) \/ NFiles(n) # NS(m)
             THEN status' = "wrong" /\ K(<<pc, it, k>>)
             ELSE Continue(m)
        ELSE IF NFiles(n) = 0 \/ SPart \in Loaded(n) \/ NFiles(n) # 1 THEN status' = "resumefail" /\ K(<<pc, it, k>>)
             ELSE IF (\E t \in Loaded(n) : t[1] # m \/ t[3]) THEN status' = "wrong" /\ K(<<pc, it, k>>)
             ELSE Continue(m)
  /\ K(<<samp, mean, marker, mtmp, ehist, mhist, crashes>>)
Stutter == status \in {"done", "resumefail", "wrong"} /\ K(vars)
Next == Compute \/ EhTrunc \/ EhWrite \/ MhLoad \/ MhTrunc \/ MhWrite \/ UnlinkNext \/ StaleMean \/ Rm \/ Open \/ Write
        \/ MeanRm \/ MeanOpen \/ MeanWrite \/ Mark \/ MarkWrite \/ MarkReplace \/ Crash \/ Restart \/ Stutter
Spec == Init /\ [][Next]_vars
\* ---- properties (C25) ---------------------------------------------------------------------------------------
Resumable == status # "resumefail"             \* a crash never leaves a state from which resuming is impossible ...
NotSilentlyWrong == status # "wrong"           \* ... or silently wrong (a mixture of iterations, a stale mean)
MarkerComplete == Fixed => marker # Part
\* vacuity witnesses (expected to be violated)
NeverCrashes == crashes = 0
NeverResumesMidway == ~(status = "run" /\ crashes > 0 /\ it > 0)
=============================================================================
