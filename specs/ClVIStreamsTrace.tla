------------------------- MODULE ClVIStreamsTrace -------------------------
(* Code -> spec: the seed sequences the real classic driver pushes per iteration (identity = entropy + spawn key, logged by a wrapper
   around push_sseq in the child process), merged with the marker replacements of the file-system log, for killed and resumed runs. *)
EXTENDS ClVIStreams, TraceLib
VARIABLES tid, l
tvars == <<vars, tid, l>>
E == Traces[tid][l]
TInit == Init /\ tid \in 1..NTraces /\ l = 1
TNext ==
  /\ l <= Len(Traces[tid])
  /\ \/ /\ E.ev = "stream" /\ Draw /\ it = E.it
        \* property clause first (reported even if the fidelity conjunct below rejects the trace)
        /\ ((<<E.state, E.idx>> # <<rfile, LastFresh(E.it)>>) =>
               PropFail(tid, l, "iteration draws from a stream an uninterrupted run would not have used"))
        /\ drew'[E.it] = <<E.state, E.idx>>
     \/ E.ev = "marker" /\ Finish /\ marker' = E.it
     \/ E.ev = "crash" /\ Crash
     \/ E.ev = "restart" /\ Restart(E.proc)
     \/ E.ev = "done" /\ status = "done" /\ UNCHANGED vars
  /\ l' = l + 1 /\ UNCHANGED tid
TSpec == TInit /\ [][TNext]_tvars
Progress == Reached(tid, l - 1)
=============================================================================
