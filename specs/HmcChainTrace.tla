---------------------------- MODULE HmcChainTrace ----------------------------
(* Code -> spec for HmcChain: events recorded from the real HMCChain / NUTSChain (wrappers installed from outside around random.split,
   sample_momentum_from_diagonal, generate_hmc_acc_rej / generate_nuts_tree, sample_next_state and update_chain; the chain's loop
   runs as a Python loop so that every key and position is concrete).  One trace = several consecutive calls of generate_n_samples,
   each continuing from the core state the previous one returned.
     begin      n, key (path), pos (id)                 arguments of the call
     split      parent, children (paths)
     momentum   key
     transition key, from (position id the trajectory started at), to (id of the position handed on), acc (micro units), depth, div
     carry      key, pos                                 the core state returned by sample_next_state
     update     idx, row (id of samples[idx] after the update), mean (micro units), depth, div   (the chain after update_chain)
     end        key, pos (returned core state), rows (ids of all rows of the returned chain), mean
   Positions are ids given by the recorder in order of first appearance of the array contents; keys are paths below the root key of
   the trace ("foreign" paths start with 9: a key that was not obtained by splitting).
   The spec adopts what was logged (so that matching continues) and reports every deviation from HmcChain's rules by PropFail. *)
EXTENDS HmcChain, TraceLib
VARIABLES tid, l, tpos, tsum, tdepth, tdiv, trows
tvars == <<vars, tid, l, tpos, tsum, tdepth, tdiv, trows>>
E == Traces[tid][l]
P(clause) == PropFail(tid, l, clause)
TInit == /\ tid \in 1..NTraces /\ l = 1 /\ Init /\ tpos = -1 /\ tsum = 0 /\ tdepth = 0 /\ tdiv = FALSE /\ trows = <<>>
Keep == UNCHANGED <<allsamples, cuts, accs, accmean, lastacc>>
AbsI(x) == IF x < 0 THEN -x ELSE x
TBegin == /\ E.ev = "begin" /\ pc = "idle"
          /\ ((seg > 0 /\ E.key # key) => P("a later call does not continue with the key of the returned core state"))
          /\ ((seg > 0 /\ E.pos # tpos) => P("a later call does not continue at the returned position"))
          /\ key' = E.key /\ tpos' = E.pos /\ seg' = seg + 1 /\ n' = E.n /\ idx' = 0 /\ tsum' = 0 /\ trows' = [i \in 1..E.n |-> -1]
          /\ pc' = "split" /\ UNCHANGED <<avail, drawn, splitk, pos, gstep, samples, tdepth, tdiv>> /\ Keep
TSplit == /\ E.ev = "split" /\ pc = "split"
          /\ ((E.parent # key) => P("the key that is split is not the chain's current key"))
          /\ ((E.parent \in splitk) => P("a key is split twice: the same random numbers are used again"))
          /\ ((\E i \in 1..Len(drawn) : drawn[i] = E.parent) => P("a key is split after a draw was made with it"))
          /\ avail' = {E.children[i] : i \in 1..Len(E.children)} /\ splitk' = splitk \cup {E.parent} /\ pc' = "momentum"
          /\ UNCHANGED <<key, drawn, pos, gstep, seg, idx, n, samples, tpos, tsum, tdepth, tdiv, trows>> /\ Keep
UseKey(k, what) == /\ ((\E i \in 1..Len(drawn) : drawn[i] = k) => P("the key of " \o what \o " was already used for another draw"))
                   /\ ((k \in splitk) => P("the key of " \o what \o " was also split"))
                   /\ ((k \notin avail /\ k \notin splitk /\ ~\E i \in 1..Len(drawn) : drawn[i] = k) => P("the key of " \o what \o " is not a child of the chain's key"))
                   /\ drawn' = Append(drawn, k)
TMomentum == /\ E.ev = "momentum" /\ pc = "momentum"
             /\ UseKey(E.key, "the momentum refreshment")
             /\ avail' = avail \ {E.key} /\ pc' = "build"
             /\ UNCHANGED <<key, splitk, pos, gstep, seg, idx, n, samples, tpos, tsum, tdepth, tdiv, trows>> /\ Keep
TTransition == /\ E.ev = "transition" /\ pc = "build"
               /\ UseKey(E.key, "the transition")
               /\ ((E.from # tpos) => P("the transition does not start at the chain's current position"))
               /\ avail' = avail \ {E.key} /\ gstep' = gstep + 1 /\ tpos' = E.to /\ tdepth' = E.depth /\ tdiv' = E.div
               /\ tsum' = tsum + E.acc /\ pc' = "carry"
               /\ UNCHANGED <<key, splitk, pos, seg, idx, n, samples, trows>> /\ Keep
TCarry == /\ E.ev = "carry" /\ pc = "carry"
          /\ ((E.key = key) => P("the chain's key is not advanced: the next transition repeats the random numbers"))
          /\ ((\E i \in 1..Len(drawn) : drawn[i] = E.key) => P("the key that is carried on was used for a draw"))
          /\ ((E.key \notin avail /\ E.key # key /\ ~\E i \in 1..Len(drawn) : drawn[i] = E.key) => P("the key that is carried on is not a child of the chain's key"))
          /\ ((E.pos # tpos) => P("the position carried on is not the outcome of the transition"))
          /\ key' = E.key /\ avail' = {} /\ pc' = "update"
          /\ UNCHANGED <<drawn, splitk, pos, gstep, seg, idx, n, samples, tpos, tsum, tdepth, tdiv, trows>> /\ Keep
TUpdate == /\ E.ev = "update" /\ pc = "update"
           /\ ((E.idx # idx) => P("update_chain is called with the wrong index"))
           /\ ((E.row # tpos) => P("the stored sample is not the state after the transition"))
           /\ ((AbsI(E.mean * (idx + 1) - tsum) > 2 * (idx + 1)) => P("the acceptance is not the running mean of the per-transition statistics"))
           /\ ((E.depth # tdepth) => P("the stored tree depth is not the depth of this transition's tree"))
           /\ ((E.div # tdiv) => P("the stored divergence flag is not this transition's"))
           /\ trows' = [trows EXCEPT ![idx + 1] = tpos]
           /\ idx' = idx + 1 /\ pc' = (IF idx + 1 = n THEN "end" ELSE "split")
           /\ UNCHANGED <<key, avail, drawn, splitk, pos, gstep, seg, n, samples, tpos, tsum, tdepth, tdiv>> /\ Keep
TEnd == /\ E.ev = "end" /\ pc = "end"
        /\ ((E.key # key) => P("the returned key is not the chain's key"))
        /\ ((E.pos # tpos) => P("the returned position is not the chain's last state"))
        /\ ((E.rows # trows) => P("the rows of the returned samples are not the states after the transitions, in order"))
        /\ ((AbsI(E.mean * n - tsum) > 2 * n) => P("the returned acceptance is not the mean of the per-transition statistics"))
        /\ pc' = "idle"
        /\ UNCHANGED <<key, avail, drawn, splitk, pos, gstep, seg, idx, n, samples, tpos, tsum, tdepth, tdiv, trows>> /\ Keep
TNext == /\ l <= Len(Traces[tid])
         /\ (TBegin \/ TSplit \/ TMomentum \/ TTransition \/ TCarry \/ TUpdate \/ TEnd)
         /\ l' = l + 1 /\ UNCHANGED tid
TSpec == TInit /\ [][TNext]_tvars
Progress == Reached(tid, l - 1)
=============================================================================
