------------------------------- MODULE LMBins -------------------------------
(* C08 (spherical-harmonic part).  The coefficients of a spherical-harmonic space with cut-offs lmax, mmax (mmax <= lmax) are the pairs
   (l, m), 0 <= m <= min(l, mmax): m = 0 once (real), m > 0 twice (real and imaginary part).  The k-length of a coefficient is l, so
   the unique k-lengths are 0..lmax whatever mmax is, the natural power space has lmax+1 non-empty bins, and bin l holds
   1 + 2 min(l, mmax) coefficients (volume 1 each).  One TLC state per (lmax, mmax). *)
EXTENDS Integers, FiniteSets, Sequences, TLC, Json
CONSTANTS MaxL
VARIABLES inst
Coeffs(lmax, mmax) == {<<l, m, part>> \in (0..lmax) \X (0..mmax) \X {"re", "im"} : m <= l /\ (m = 0 => part = "re")}
Min(a, b) == IF a < b THEN a ELSE b
Count(lmax, mmax, l) == Cardinality({c \in Coeffs(lmax, mmax) : c[1] = l})
Init == inst \in {[lmax |-> l, mmax |-> m] : l \in 0..MaxL, m \in 0..MaxL} /\ inst.mmax <= inst.lmax
Next == UNCHANGED inst
Spec == Init /\ [][Next]_inst
Size == Cardinality(Coeffs(inst.lmax, inst.mmax))
Unique == {c[1] : c \in Coeffs(inst.lmax, inst.mmax)}
\* laws: closed forms of the size and of the bin populations; every l up to lmax occurs (m = 0 always exists)
SizeLaw == Size = (inst.lmax + 1) + 2 * ((inst.mmax * (2 * inst.lmax - inst.mmax + 1)) \div 2)
BinLaw == \A l \in 0..inst.lmax : Count(inst.lmax, inst.mmax, l) = 1 + 2 * Min(l, inst.mmax)
UniqueLaw == Unique = 0..inst.lmax
Emit == PrintT(ToJson([lmax |-> inst.lmax, mmax |-> inst.mmax, size |-> Size, counts |-> [l \in 1..(inst.lmax + 1) |-> Count(inst.lmax, inst.mmax, l - 1)]]))
=============================================================================
