--------------------------- MODULE ClVIResumeTrace ---------------------------
(* Code -> spec for C25: file-system events of real classic VI runs (recorded by the interposer in the child process).
   A history is the event list of an uninterrupted run, or the events of a killed run followed by "crash", "restart"
   and an "outcome" line saying what the resumed real run did (ok | resume-fails | different-result).
   Effects without a counterpart in the model (report files, the random state, plots, the bytes of a write) stutter. *)
EXTENDS ClVIResume, TraceLib
VARIABLES tid, l
tvars == <<vars, tid, l>>
E == Traces[tid][l]
TInit == Init /\ tid \in 1..NTraces /\ l = 1
Is(ev, cls) == E.ev = ev /\ E.cls = cls
Consume == l' = l + 1 /\ UNCHANGED tid
\* steps that have no event of their own (or only when the file existed)
Silent == Compute \/ (MhLoad /\ status' = "run") \/ UnlinkNext \/ Rm \/ MeanRm \/ StaleMean
Stut == UNCHANGED vars
Outcome(o) == CASE status' \in {"run", "done"} -> o = "ok" [] status' = "resumefail" -> o = "resume-fails" [] status' = "wrong" -> o = "different-result" [] OTHER -> FALSE
TStep ==
  \/ E.cls \in {"rstate", "report", "plot", "dir", "ehist.tmp", "mhist.tmp"} /\ Stut
  \/ E.ev = "write" /\ Stut
  \/ Is("replace", "ehist") /\ EhWrite
  \/ Is("replace", "mhist") /\ MhWrite
  \/ Is("remove", "sample") /\ (Rm \/ UnlinkNext)
  \/ Is("open:wb", "sample") /\ Open
  \/ Is("close", "sample") /\ Write
  \/ Is("remove", "mean") /\ (MeanRm \/ StaleMean)
  \/ Is("open:wb", "mean") /\ MeanOpen
  \/ Is("close", "mean") /\ MeanWrite
  \/ Is("open:w", "marker.tmp") /\ Mark
  \/ Is("close", "marker.tmp") /\ MarkWrite
  \/ Is("replace", "marker") /\ MarkReplace
  \/ Is("crash", "-") /\ Crash
  \/ Is("restart", "-") /\ Restart /\ Outcome(Traces[tid][l + 1].outcome)
  \/ Is("outcome", "-") /\ Stut
       /\ (IF E.outcome = "ok" THEN TRUE ELSE PropFail(tid, l, E.outcome))
  \/ Is("done", "-") /\ status = "done" /\ Stut
TNext == \/ (l <= Len(Traces[tid]) /\ TStep /\ Consume)
         \/ (l <= Len(Traces[tid]) /\ E.ev \notin {"crash", "restart", "outcome", "done"} /\ Silent /\ UNCHANGED <<tid, l>>)
TSpec == TInit /\ [][TNext]_tvars
Progress == Reached(tid, l - 1)
=============================================================================
