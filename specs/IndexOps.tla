------------------------------ MODULE IndexOps ------------------------------
(* C35 (second part).  Response-type operators that are index maps with rational weights, as sparse matrices
        entries = set of <<output index, input index, weight, corner tag>>      (flat C-order indices, weights in Rat)
   one TLC state per instance:
     interp    multilinear interpolation at rational positions of a periodic regular grid (1-d and 2-d): the 2^d surrounding pixels
               with weights prod |1 - corner - excess|, indices wrapped (positions outside the grid, negative positions)
     regrid    linear interpolation of an axis of N pixels onto M <= N pixels covering the same length: new pixel j sits at j N/M old
               pixels; base pixel min(N-2, floor), weight (1-frac, frac)
     zeropad   zero padding of an axis n -> m at the end or in the middle (central: entries 0..n/2 stay, the last n/2 move to the end;
               for even n the middle entry is copied to both places, as documented)
     mask      the unflagged entries in storage order
     nufft     non-uniform Fourier sum: the entry for pixel x (index -N/2 .. N/2-1) and point u is exp(2 pi i x dst u); emitted as the
               fraction of a turn in [0, 1)
   TLC checks the laws each kind must obey (weights of a row sum to 1, padding and mask are partial permutations, ...). *)
EXTENDS Rat, FiniteSets, Json
CONSTANTS Kind
VARIABLES inst
vars == <<inst>>
Floor(a) == a[1] \div a[2]                      \* \div rounds towards minus infinity in TLA+
Frac(a) == RSub(a, Z(Floor(a)))
Mod(i, n) == ((i % n) + n) % n
\* ---- interpolation -------------------------------------------------------------------------------------------
Pos1 == {Z(0), R(1, 4), R(1, 2), R(5, 4), R(7, 2), R(-1, 4), R(-3, 2)}
Interp1(N, dist, ps) ==   \* ps: sequence of positions
  UNION {LET x == RDiv(ps[p], dist)  b == Floor(x)  ex == Frac(x) IN
           {<<p - 1, Mod(b, N), RSub(Z(1), ex), 0>>, <<p - 1, Mod(b + 1, N), ex, 1>>} : p \in 1..Len(ps)}
Interp2(N1, N2, d1, d2, ps) ==   \* ps: sequence of <<x, y>>
  UNION {LET x == RDiv(ps[p][1], d1)  y == RDiv(ps[p][2], d2)  bx == Floor(x)  by == Floor(y)  ex == Frac(x)  ey == Frac(y) IN
           {<<p - 1, Mod(bx + cx, N1) * N2 + Mod(by + cy, N2),
              RMul(IF cx = 0 THEN RSub(Z(1), ex) ELSE ex, IF cy = 0 THEN RSub(Z(1), ey) ELSE ey), 2 * cx + cy>> : cx \in {0, 1}, cy \in {0, 1}} : p \in 1..Len(ps)}
\* ---- regridding ------------------------------------------------------------------------------------------------
Regrid(N, M) == UNION {LET t == R(j * N, M)  b == IF Floor(t) > N - 2 THEN N - 2 ELSE Floor(t)  fr == RSub(t, Z(b)) IN
                         {<<j, b, RSub(Z(1), fr), 0>>, <<j, b + 1, fr, 1>>} : j \in 0..(M - 1)}
\* ---- zero padding ----------------------------------------------------------------------------------------------
ZeroPad(n, m, central) ==
  IF n = m THEN {<<i, i, Z(1), 0>> : i \in 0..(n - 1)}
  ELSE IF ~central THEN {<<i, i, Z(1), 0>> : i \in 0..(n - 1)}
  ELSE LET ny == n \div 2 IN {<<i, i, Z(1), 0>> : i \in 0..ny} \cup {<<m - k, n - k, Z(1), 0>> : k \in 1..ny}
\* ---- mask ------------------------------------------------------------------------------------------------------
RECURSIVE CountFalse(_, _)
CountFalse(fl, i) == IF i = 0 THEN 0 ELSE CountFalse(fl, i - 1) + (IF fl[i] THEN 0 ELSE 1)
Mask(fl) == {<<CountFalse(fl, i) - 1, i - 1, Z(1), 0>> : i \in {k \in 1..Len(fl) : ~fl[k]}}
\* ---- non-uniform Fourier sum --------------------------------------------------------------------------------------
NuPos == {Z(0), R(1, 4), R(1, 3), R(-1, 2), R(3, 4), R(5, 2)}
Nufft1(N, dst, us) == {<<i, p - 1, Frac(RMul(RMul(Z(i - (N \div 2)), dst), us[p])), 0>> : i \in 0..(N - 1), p \in 1..Len(us)}
Nufft2(N1, N2, d1, d2, us) == {<<i * N2 + j, p - 1, Frac(RAdd(RMul(RMul(Z(i - (N1 \div 2)), d1), us[p][1]), RMul(RMul(Z(j - (N2 \div 2)), d2), us[p][2]))), 0>> :
                                 i \in 0..(N1 - 1), j \in 0..(N2 - 1), p \in 1..Len(us)}
\* ---- C02: further linear operators that are index maps -------------------------------------------------------------------------
\* contraction of an array of shape (2, 3) [grid with volume 1/2 per pixel, grid with volume 2 per pixel] over a set of its axes,
\* weighted with volume^power; the output keeps the remaining axes (C order)
Vol2 == <<R(1, 2), Z(2)>>
Contract(S, pw) == {<<IF S = {1} THEN j ELSE IF S = {2} THEN i ELSE 0, i * 3 + j,
                      Z(1), 0>> : i \in 0..1, j \in 0..2}
ContractW(S, pw) == {<<e[1], e[2], IF pw = 0 THEN Z(1) ELSE RMul(IF 1 \in S THEN Vol2[1] ELSE Z(1), IF 2 \in S THEN Vol2[2] ELSE Z(1)), 0>> : e \in Contract(S, pw)}
\* transposition of the sub-domains of a field of shape (2, 3, 2): output axis a is input axis perm[a]
Perms3 == {<<1, 2, 3>>, <<1, 3, 2>>, <<2, 1, 3>>, <<2, 3, 1>>, <<3, 1, 2>>, <<3, 2, 1>>}
Sh3 == <<2, 3, 2>>
FlatOf(ix, sh) == (ix[1] * sh[2] + ix[2]) * sh[3] + ix[3]
Transpose(pm) == LET osh == [a \in 1..3 |-> Sh3[pm[a]]] IN
                 {<<FlatOf([a \in 1..3 |-> ix[pm[a]]], osh), FlatOf(ix, Sh3), Z(1), 0>> : ix \in {<<i, j, k>> : i \in 0..1, j \in 0..2, k \in 0..1}}
\* ValueInserter into a (2, 3) target at (i, j); DomainTupleFieldInserter: a field on 2 pixels written at position k of a new 3-pixel space (before / after)
ValIns(i, j) == {<<i * 3 + j, 0, Z(1), 0>>}
DtIns(space, k) == IF space = 1 THEN {<<k * 2 + a, a, Z(1), 0>> : a \in 0..1}           \* target (3, 2)
                   ELSE {<<a * 3 + k, a, Z(1), 0>> : a \in 0..1}                        \* target (2, 3)
\* SliceOperator on one axis of n pixels to m <= n pixels, from the start or centred: start = floor((n - m) / 2)
SliceAx(n, m, center) == LET st == IF center THEN (n - m) \div 2 ELSE 0 IN {<<o, st + o, Z(1), 0>> : o \in 0..(m - 1)}
\* Python slice(start, stop, step) with positive step on an axis of n pixels: start, start + step, ... < stop  (SplitOperator)
PySlice(n, start, stop, step) == LET sel == {i \in 0..(n - 1) : i >= start /\ i < stop /\ (i - start) % step = 0} IN
                                 {<<Cardinality({j \in sel : j < i}), i, Z(1), 0>> : i \in sel}
\* FFTShiftOperator (numpy.fft.fftshift) on an array of shape (n1, n2) along the flagged axes: entry i of an axis of n pixels moves to (i + n div 2) mod n
FftShift(n1, n2, a1, a2) == {<<(IF a1 = 1 THEN Mod(i + (n1 \div 2), n1) ELSE i) * n2 + (IF a2 = 1 THEN Mod(j + (n2 \div 2), n2) ELSE j), i * n2 + j, Z(1), 0>> : i \in 0..(n1 - 1), j \in 0..(n2 - 1)}
\* Multifield2Vector: the entries of the keys in key order, each in C order (keys "a" with na pixels, "b" with shape (nb1, nb2))
Mf2Vec(na, nb1, nb2) == {<<i, i, Z(1), 0>> : i \in 0..(na + nb1 * nb2 - 1)}
\* ---- instances ---------------------------------------------------------------------------------------------------
Dists == {Z(1), R(1, 2)}
Instances ==
  CASE Kind = "interp1" -> {[op |-> "interp1", shape |-> <<N>>, dist |-> <<d>>, pts |-> <<<<a>>, <<b>>>>, nout |-> 2, nin |-> N, ent |-> Interp1(N, d, <<a, b>>)] :
                              N \in {2, 3, 4}, d \in Dists, a \in Pos1, b \in Pos1}
    [] Kind = "interp2" -> {[op |-> "interp2", shape |-> <<N1, N2>>, dist |-> <<d1, d2>>, pts |-> <<<<a, b>>>>, nout |-> 1, nin |-> N1 * N2, ent |-> Interp2(N1, N2, d1, d2, <<<<a, b>>>>)] :
                              N1 \in {2, 3}, N2 \in {3}, d1 \in Dists, d2 \in {R(1, 2)}, a \in Pos1, b \in Pos1}
    [] Kind = "regrid" -> {[op |-> "regrid", shape |-> <<N, M>>, dist |-> <<Z(1)>>, pts |-> <<>>, nout |-> M, nin |-> N, ent |-> Regrid(N, M)] : N \in 2..6, M \in 1..6}
    [] Kind = "zeropad" -> {[op |-> "zeropad", shape |-> <<n, m, IF c THEN 1 ELSE 0>>, dist |-> <<Z(1)>>, pts |-> <<>>, nout |-> m, nin |-> n, ent |-> ZeroPad(n, m, c)] :
                              n \in 1..5, m \in 1..8, c \in BOOLEAN}
    [] Kind = "mask" -> {[op |-> "mask", shape |-> <<Len(fl)>>, dist |-> <<Z(1)>>, pts |-> <<[i \in 1..Len(fl) |-> Z(IF fl[i] THEN 1 ELSE 0)]>>, nout |-> CountFalse(fl, Len(fl)), nin |-> Len(fl), ent |-> Mask(fl)] :
                              fl \in UNION {[1..L -> BOOLEAN] : L \in 1..6}}
    [] Kind = "nufft1" -> {[op |-> "nufft1", shape |-> <<N>>, dist |-> <<d>>, pts |-> <<<<a>>, <<b>>>>, nout |-> N, nin |-> 2, ent |-> Nufft1(N, d, <<a, b>>)] :
                              N \in {2, 4, 6}, d \in Dists, a \in NuPos, b \in NuPos}
    [] Kind = "nufft2" -> {[op |-> "nufft2", shape |-> <<N1, N2>>, dist |-> <<d1, d2>>, pts |-> <<<<a, b>>>>, nout |-> N1 * N2, nin |-> 1, ent |-> Nufft2(N1, N2, d1, d2, <<<<a, b>>>>)] :
                              N1 \in {2, 4}, N2 \in {2}, d1 \in Dists, d2 \in {R(1, 2)}, a \in NuPos, b \in NuPos}
    [] OTHER -> {}
Instances2 ==
  CASE Kind = "contract" -> {[op |-> "contract", shape |-> <<IF 1 \in S THEN 1 ELSE 0, IF 2 \in S THEN 1 ELSE 0, pw>>, dist |-> <<Z(1)>>, pts |-> <<>>,
                               nout |-> IF S = {1} THEN 3 ELSE IF S = {2} THEN 2 ELSE 1, nin |-> 6, ent |-> ContractW(S, pw)] : S \in {{1}, {2}, {1, 2}}, pw \in {0, 1}}
    [] Kind = "transpose" -> {[op |-> "transpose", shape |-> pm, dist |-> <<Z(1)>>, pts |-> <<>>, nout |-> 12, nin |-> 12, ent |-> Transpose(pm)] : pm \in Perms3}
    [] Kind = "valins" -> {[op |-> "valins", shape |-> <<i, j>>, dist |-> <<Z(1)>>, pts |-> <<>>, nout |-> 6, nin |-> 1, ent |-> ValIns(i, j)] : i \in 0..1, j \in 0..2}
    [] Kind = "dtins" -> {[op |-> "dtins", shape |-> <<sp, k>>, dist |-> <<Z(1)>>, pts |-> <<>>, nout |-> 6, nin |-> 2, ent |-> DtIns(sp, k)] : sp \in {1, 2}, k \in 0..2}
    [] Kind = "slice" -> {[op |-> "slice", shape |-> <<n, m, IF c THEN 1 ELSE 0>>, dist |-> <<Z(1)>>, pts |-> <<>>, nout |-> m, nin |-> n, ent |-> SliceAx(n, m, c)] :
                            n \in 2..6, m \in 1..6, c \in BOOLEAN}
    [] Kind = "pyslice" -> {[op |-> "pyslice", shape |-> <<n, a, b, st>>, dist |-> <<Z(1)>>, pts |-> <<>>, nout |-> Cardinality(PySlice(n, a, b, st)), nin |-> n, ent |-> PySlice(n, a, b, st)] :
                            n \in 3..6, a \in 0..2, b \in 2..6, st \in 1..3}
    [] Kind = "fftshift" -> {[op |-> "fftshift", shape |-> <<n1, n2, a1, a2>>, dist |-> <<Z(1)>>, pts |-> <<>>, nout |-> n1 * n2, nin |-> n1 * n2, ent |-> FftShift(n1, n2, a1, a2)] :
                               n1 \in 2..5, n2 \in 1..4, a1 \in {0, 1}, a2 \in {0, 1}}
    [] Kind = "mf2vec" -> {[op |-> "mf2vec", shape |-> <<na, nb1, nb2>>, dist |-> <<Z(1)>>, pts |-> <<>>, nout |-> na + nb1 * nb2, nin |-> na + nb1 * nb2, ent |-> Mf2Vec(na, nb1, nb2)] :
                             na \in 1..3, nb1 \in 1..2, nb2 \in 1..3}
    [] OTHER -> {}
Valid(i) == CASE i.op = "regrid" -> i.shape[2] <= i.shape[1]
              [] i.op = "zeropad" -> i.shape[2] >= i.shape[1]
              [] i.op = "slice" -> i.shape[2] <= i.shape[1]
              [] i.op = "pyslice" -> i.shape[3] <= i.shape[1] /\ i.shape[2] < i.shape[3]
              [] i.op = "fftshift" -> i.shape[3] + i.shape[4] >= 1 /\ (i.shape[2] = 1 => i.shape[4] = 0)
              [] OTHER -> TRUE
Init == inst \in {i \in Instances \cup Instances2 : Valid(i)}
Next == UNCHANGED inst
Spec == Init /\ [][Next]_vars
\* ---- laws ---------------------------------------------------------------------------------------------------------
RECURSIVE SumW(_)
SumW(S) == IF S = {} THEN Z(0) ELSE LET x == CHOOSE y \in S : TRUE IN RAdd(x[3], SumW(S \ {x}))
Row(o) == {e \in inst.ent : e[1] = o}
\* (the 4th component of an entry tells the corners of a cell apart: two corners may wrap onto the same pixel and are then added up)
RowSumsOne == inst.op \in {"interp1", "interp2", "regrid"} => \A o \in 0..(inst.nout - 1) : SumW(Row(o)) = Z(1)
InRange == \A e \in inst.ent : e[1] \in 0..(inst.nout - 1) /\ e[2] \in 0..(inst.nin - 1)
PartialPermutation == inst.op \in {"mask", "zeropad", "transpose", "valins", "dtins", "slice", "pyslice", "fftshift", "mf2vec"} =>
                        /\ \A e \in inst.ent : e[3] = Z(1)
                        /\ \A a, b \in inst.ent : a[1] = b[1] => a = b                      \* every output entry has one source
                        /\ (inst.op \in {"mask", "transpose", "slice", "pyslice", "valins", "dtins", "fftshift", "mf2vec"} => \A a, b \in inst.ent : a[2] = b[2] => a = b)
\* a transposition is a permutation: every input and every output index occurs exactly once
IsPermutation == inst.op \in {"transpose", "fftshift", "mf2vec"} => {e[1] : e \in inst.ent} = 0..(inst.nout - 1) /\ {e[2] : e \in inst.ent} = 0..(inst.nin - 1)
\* a python slice selects ceil((stop - start) / step) pixels (clipped to the axis)
SliceLength == inst.op = "pyslice" => LET n == inst.shape[1]  a == inst.shape[2]  b == inst.shape[3]  st == inst.shape[4] IN
                                      inst.nout = ((b - a) + st - 1) \div st
\* shifting twice along an axis of even length is the identity; along an odd axis it is a rotation by n - 1 (fftshift is not its own inverse)
ShiftTwice == inst.op = "fftshift" =>
                LET n1 == inst.shape[1]  n2 == inst.shape[2]  a1 == inst.shape[3]  a2 == inst.shape[4]
                    img(k) == (CHOOSE e \in inst.ent : e[2] = k)[1] IN
                \A k \in 0..(inst.nin - 1) :
                    LET i == k \div n2  j == k % n2 IN
                    img(img(k)) = (IF a1 = 1 THEN Mod(i + 2 * (n1 \div 2), n1) ELSE i) * n2 + (IF a2 = 1 THEN Mod(j + 2 * (n2 \div 2), n2) ELSE j)
MaskOrder == inst.op = "mask" => \A a, b \in inst.ent : a[2] < b[2] => a[1] < b[1]
NonNegWeights == inst.op \in {"interp1", "interp2"} => \A e \in inst.ent : ~RLt(e[3], Z(0))
TurnsInRange == inst.op \in {"nufft1", "nufft2"} => \A e \in inst.ent : ~RLt(e[3], Z(0)) /\ RLt(e[3], Z(1))
RJ(x) == [n |-> x[1], d |-> x[2]]
Emit == PrintT(ToJson([op |-> inst.op, shape |-> inst.shape, dist |-> [i \in 1..Len(inst.dist) |-> RJ(inst.dist[i])],
                       pts |-> [p \in 1..Len(inst.pts) |-> [c \in 1..Len(inst.pts[p]) |-> RJ(inst.pts[p][c])]],
                       nout |-> inst.nout, nin |-> inst.nin, ent |-> {<<e[1], e[2], e[3][1], e[3][2], e[4]>> : e \in inst.ent}]))
=============================================================================
