----------------------------- MODULE LineSearch -----------------------------
(* C16 (line search).  Control skeleton of nifty.cl LineSearch.perform_line_search (bracketing phase) and _zoom, driven by the
   floating-point facts of every trial step length alpha:
     armijoFail   phi(alpha) > phi(0) + c1 alpha phi'(0)          (sufficient decrease violated)
     notLower     phi(alpha) >= phi(previous alpha / alpha_lo)
     curvOK       |phi'(alpha)| <= -c2 phi'(0)                    (strong curvature condition)
     derivNonNeg  phi'(alpha) >= 0   (bracket)  /  phi'(alpha) (alpha_hi - alpha_lo) >= 0   (zoom)
     atMax        the doubled step reached the maximal step size
   `success = TRUE` is returned at exactly two places, both after the sufficient-decrease test failed to fire and the
   curvature test fired at the same alpha: a successful search returns a strong-Wolfe point. *)
EXTENDS Integers, Sequences, TLC
CONSTANTS MaxBracket, MaxZoom
VARIABLES pc, n, z, result, last
vars == <<pc, n, z, result, last>>
Facts == [armijoFail : BOOLEAN, notLower : BOOLEAN, curvOK : BOOLEAN, derivNonNeg : BOOLEAN, atMax : BOOLEAN]
NoFacts == [armijoFail |-> FALSE, notLower |-> FALSE, curvOK |-> FALSE, derivNonNeg |-> FALSE, atMax |-> FALSE]
Init == pc = "entry" /\ n = 0 /\ z = 0 /\ result = "none" /\ last = [f |-> NoFacts, deriv |-> FALSE]
Ret(r) == pc' = "done" /\ result' = r
\* phi'(0) = 0 or > 0: no search, (energy, False)
Entry(desc) == /\ pc = "entry"
               /\ (IF desc THEN pc' = "bracket" /\ UNCHANGED result ELSE Ret("fail-nodescent"))
               /\ UNCHANGED <<n, z, last>>
\* one trial of the bracketing loop; `deriv` records whether phi'(alpha) is evaluated at this trial
Bracket(f) ==
  /\ pc = "bracket" /\ n < MaxBracket /\ n' = n + 1
  /\ IF f.armijoFail \/ (f.notLower /\ n + 1 > 1)
     THEN pc' = "zoom" /\ last' = [f |-> f, deriv |-> FALSE] /\ UNCHANGED result
     ELSE /\ last' = [f |-> f, deriv |-> TRUE]
          /\ IF f.curvOK THEN Ret("success")
             ELSE IF f.derivNonNeg THEN pc' = "zoom" /\ UNCHANGED result
             ELSE IF f.atMax THEN Ret("fail-maxstep")
             ELSE IF n + 1 = MaxBracket THEN Ret("fail-iterations")
             ELSE UNCHANGED <<pc, result>>
  /\ UNCHANGED z
Zoom(f) ==
  /\ pc = "zoom" /\ z < MaxZoom /\ z' = z + 1
  /\ IF f.armijoFail \/ f.notLower
     THEN /\ last' = [f |-> f, deriv |-> FALSE]
          /\ (IF z + 1 = MaxZoom THEN Ret("fail-zoom") ELSE UNCHANGED <<pc, result>>)
     ELSE /\ last' = [f |-> f, deriv |-> TRUE]
          /\ IF f.curvOK THEN Ret("success")
             ELSE IF z + 1 = MaxZoom THEN Ret("fail-zoom") ELSE UNCHANGED <<pc, result>>
  /\ UNCHANGED n
Next == \/ \E d \in BOOLEAN : Entry(d)
        \/ \E f \in Facts : Bracket(f) \/ Zoom(f)
        \/ pc = "done" /\ UNCHANGED vars
Spec == Init /\ [][Next]_vars
\* ---- properties (C16) -------------------------------------------------------------------------------------
\* success is reported only at a trial where sufficient decrease holds and the strong curvature condition holds
SuccessIsWolfe == (pc = "done" /\ result = "success") => (last.deriv /\ ~last.f.armijoFail /\ last.f.curvOK)
Terminates == pc = "done" => result \in {"success", "fail-nodescent", "fail-maxstep", "fail-iterations", "fail-zoom"}
NeverSucceedsInZoom == ~(pc = "done" /\ result = "success" /\ z > 0)      \* vacuity witness (expected to be violated)
=============================================================================
