------------------------------ MODULE Harmonic ------------------------------
(* C09.  Matrix entries of FFTOperator / HartleyOperator on a regular grid, kept exact:
     TIMES  (position -> harmonic)   entry(k, j) = volPos  * w(-sum_a j_a k_a / n_a)
     INVERSE (harmonic -> position)  entry(j, k) = volHarm * w(+sum_a j_a k_a / n_a)        volHarm = 1 / (N volPos)
   with w(t) = exp(2 pi i t) for the Fourier transform and cos(2 pi t) + sin(2 pi t) / cos(2 pi t) - sin(2 pi t) for the two
   Hartley conventions; the argument t is kept as a rational "fraction of a turn" in [0, 1) and evaluated by the harness.
   ADJOINT = conjugate transpose of TIMES, ADJOINT_INVERSE = conjugate transpose of INVERSE.
   For axis lengths in {1, 2, 4} every w is one of 1, i, -1, -i and TLC checks INVERSE . TIMES = identity exactly. *)
EXTENDS Rat, FiniteSets, Json
VARIABLES cfg, res
Shapes == {<<2>>, <<3>>, <<4>>, <<5>>, <<2, 3>>, <<4, 2>>, <<3, 3>>, <<2, 2, 2>>}
Dists == {R(1, 2), Z(1), Z(2)}            \* position-space distances
RECURSIVE Idx(_)
Idx(shape) == IF Len(shape) = 0 THEN {<<>>} ELSE {<<i>> \o rest : i \in 0..(shape[1] - 1), rest \in Idx(Tail(shape))}
Frac(a) == LET qq == a[1] \div a[2] IN Norm(a[1] - qq * a[2], a[2])          \* a mod 1 in [0,1) (\div floors)
Phase(k, j, shape) == RSum([a \in 1..Len(shape) |-> R(j[a] * k[a], shape[a])], 1, Len(shape))
RECURSIVE Prod(_, _, _)
Prod(f, lo, hi) == IF lo > hi THEN Z(1) ELSE RMul(f[lo], Prod(f, lo + 1, hi))
\* exact roots of unity for quarter turns: <<re, im>>
W4(t) == CASE t = Z(0) -> <<1, 0>> [] t = R(1, 4) -> <<0, 1>> [] t = R(1, 2) -> <<-1, 0>> [] t = R(3, 4) -> <<0, -1>>
Quarter(shape) == \A a \in 1..Len(shape) : shape[a] \in {1, 2, 4}
Compute(c) ==
  LET I == Idx(c.shape)
      nd == Len(c.shape)
      volPos == Prod(c.d, 1, nd)
      size == Prod([a \in 1..nd |-> Z(c.shape[a])], 1, nd)
      volHarm == RInv(RMul(size, volPos))
      tt(k, j) == Frac(RNeg(Phase(k, j, c.shape)))
      ti(j, k) == Frac(Phase(k, j, c.shape))
      \* exact check of INVERSE . TIMES = 1 for quarter-turn grids:  sum_k volHarm w(ti(j,k)) volPos w(tt(k,j2)) = delta(j, j2)
      exact == IF ~Quarter(c.shape) THEN TRUE ELSE
               \A j \in I, j2 \in I :
                 LET terms == {<<k, W4(ti(j, k)), W4(tt(k, j2))>> : k \in I}
                     sumre == LET RECURSIVE S(_) S(T) == IF T = {} THEN 0 ELSE LET x == CHOOSE y \in T : TRUE IN (x[2][1] * x[3][1] - x[2][2] * x[3][2]) + S(T \ {x}) IN S(terms)
                     sumim == LET RECURSIVE S(_) S(T) == IF T = {} THEN 0 ELSE LET x == CHOOSE y \in T : TRUE IN (x[2][1] * x[3][2] + x[2][2] * x[3][1]) + S(T \ {x}) IN S(terms)
                 IN sumim = 0 /\ RMul(RMul(volHarm, volPos), Z(sumre)) = (IF j = j2 THEN Z(1) ELSE Z(0))
  IN [times |-> {[k |-> k, j |-> j, turn |-> tt(k, j)] : k \in I, j \in I},
      inv |-> {[j |-> j, k |-> k, turn |-> ti(j, k)] : k \in I, j \in I},
      volPos |-> volPos, volHarm |-> volHarm,
      ok |-> RMul(RMul(volPos, volHarm), size) = Z(1) /\ exact]
Init == cfg = [shape |-> <<>>, d |-> <<>>] /\ res = [ok |-> TRUE]
Choose == /\ cfg.shape = <<>>
          /\ \E sh \in Shapes : \E dd \in [1..Len(sh) -> Dists] : cfg' = [shape |-> sh, d |-> dd] /\ res' = Compute(cfg')
Next == Choose \/ (cfg.shape # <<>> /\ UNCHANGED <<cfg, res>>)
Spec == Init /\ [][Next]_<<cfg, res>>
Law == res.ok
RatJ(x) == [n |-> x[1], d |-> x[2]]
Emit == cfg.shape = <<>> \/ PrintT(ToJson([shape |-> cfg.shape, d |-> [a \in 1..Len(cfg.d) |-> RatJ(cfg.d[a])],
          times |-> {[k |-> e.k, j |-> e.j, turn |-> RatJ(e.turn)] : e \in res.times},
          inv |-> {[k |-> e.k, j |-> e.j, turn |-> RatJ(e.turn)] : e \in res.inv},
          volPos |-> RatJ(res.volPos), volHarm |-> RatJ(res.volHarm)]))
=============================================================================
