------------------------------- MODULE AxisMap -------------------------------
(* C33 (second part).  Mapping a function over array axes (jax.vmap semantics, which nifty.re's sequential maps smap / lmap promise
   to reproduce): for input axes ia, ib (an axis, counted from the front or - negative - from the back, or "none" = the argument is
   passed whole to every call) and an output axis oa, the result is
        Stack([ f(Take(a, ia, m), Take(b, ib, m) or b) : m = 0 .. n-1 ], oa).
   Arrays are [shape, val] with val a function on 0-based index sequences.  The direct definition (Mapped) is compared by TLC with the
   algorithm the library uses - move the mapped axes to the front, scan, move the new front axis to its place (ViaFront) - on every
   instance; instances with the expected results are emitted and replayed into smap, lmap and jax.vmap.
   f: "add" (a + b), "sumlast" (sum over the last axis of a; b ignored), "pair" (two outputs (2a, b + 1) with separate output axes),
      "const" (two outputs (2a, 2b) where b is unmapped and the second output is declared batch-constant: output axis "none"). *)
EXTENDS Integers, Sequences, FiniteSets, TLC, Json
CONSTANTS Fn
VARIABLES inst
None == 99
RECURSIVE Idx(_)
Idx(shape) == IF Len(shape) = 0 THEN {<<>>} ELSE {<<i>> \o rest : i \in 0..(shape[1] - 1), rest \in Idx(Tail(shape))}
Arr(shape, f(_)) == [shape |-> shape, val |-> [ix \in Idx(shape) |-> f(ix)]]
NA(ax, rank) == IF ax < 0 THEN ax + rank ELSE ax                       \* normalise an axis (0-based)
Without(s, p) == [i \in 1..(Len(s) - 1) |-> IF i < p THEN s[i] ELSE s[i + 1]]        \* p 1-based
Insert(s, p, x) == [i \in 1..(Len(s) + 1) |-> IF i < p THEN s[i] ELSE IF i = p THEN x ELSE s[i - 1]]
Take(a, ax, m) == LET p == NA(ax, Len(a.shape)) + 1 IN Arr(Without(a.shape, p), LAMBDA ix : a.val[Insert(ix, p, m)])
Stack(arrs, ax) == LET n == Len(arrs)  sh == arrs[1].shape  p == NA(ax, Len(sh) + 1) + 1 IN
                   Arr(Insert(sh, p, n), LAMBDA ix : arrs[ix[p] + 1].val[Without(ix, p)])
MoveAxis(a, src, dst) == LET r == Len(a.shape)  s == NA(src, r) + 1  d == NA(dst, r) + 1 IN
                         Arr(Insert(Without(a.shape, s), d, a.shape[s]), LAMBDA ix : a.val[Insert(Without(ix, d), s, ix[d])])
\* ---- the functions ----------------------------------------------------------------------------------------------------
AddA(x, y) == Arr(x.shape, LAMBDA ix : x.val[ix] + y.val[ix])
Scale2(x) == Arr(x.shape, LAMBDA ix : 2 * x.val[ix])
Plus1(x) == Arr(x.shape, LAMBDA ix : x.val[ix] + 1)
RECURSIVE SumTo(_, _, _)
SumTo(x, ix, j) == IF j < 0 THEN 0 ELSE x.val[Append(ix, j)] + SumTo(x, ix, j - 1)
SumLast(x) == LET r == Len(x.shape) IN Arr(SubSeq(x.shape, 1, r - 1), LAMBDA ix : SumTo(x, ix, x.shape[r] - 1))
F(x, y) == CASE Fn = "add" -> <<AddA(x, y)>> [] Fn = "sumlast" -> <<SumLast(x)>> [] Fn = "pair" -> <<Scale2(x), Plus1(y)>> [] Fn = "const" -> <<Scale2(x), Scale2(y)>>
NOut == IF Fn \in {"pair", "const"} THEN 2 ELSE 1
\* ---- instances ----------------------------------------------------------------------------------------------------------
A0 == Arr(<<2, 3, 2>>, LAMBDA ix : 100 * ix[1] + 10 * ix[2] + ix[3] + 1)
B0 == Arr(<<2, 3, 2>>, LAMBDA ix : 7 * ix[1] - 3 * ix[2] + 5 * ix[3] - 4)
Axes3 == {0, 1, 2, -1, -3}
OutAxes == {0, 1, 2, -1}
\* b has the mapped axis at position ib (or is a single slice when it is not mapped)
BFor(ia, ib) == IF ib = None THEN Take(B0, ia, 1) ELSE MoveAxis(B0, ia, ib)
Init == inst \in {[ia |-> ia, ib |-> ib, oa |-> oa, ob |-> ob] : ia \in Axes3, ib \in Axes3 \cup {None}, oa \in OutAxes, ob \in OutAxes \cup {None}}
        /\ (Fn = "sumlast" => inst.oa \in {0, 1, -1} /\ inst.ib = None /\ inst.ob = 0)
        /\ (Fn = "add" => inst.ob = 0)
        /\ (Fn = "const" => inst.ib = None /\ inst.ob = None)
        /\ (Fn # "const" => inst.ob # None)
        /\ (Fn = "pair" => inst.ib # None)
Next == UNCHANGED inst
Spec == Init /\ [][Next]_inst
A == A0
B == BFor(inst.ia, inst.ib)
N == A.shape[NA(inst.ia, 3) + 1]
Calls == [m \in 1..N |-> F(Take(A, inst.ia, m - 1), IF inst.ib = None THEN B ELSE Take(B, inst.ib, m - 1))]
OutAxis(o) == IF o = 1 THEN inst.oa ELSE inst.ob
Mapped == [o \in 1..NOut |-> IF OutAxis(o) = None THEN Calls[1][o] ELSE Stack([m \in 1..N |-> Calls[m][o]], OutAxis(o))]
\* the library's algorithm: mapped inputs moved to the front, one call per leading index, outputs stacked in front and moved
ViaFront == LET a0 == MoveAxis(A, inst.ia, 0)
                b0 == IF inst.ib = None THEN B ELSE MoveAxis(B, inst.ib, 0)
                calls == [m \in 1..N |-> F(Take(a0, 0, m - 1), IF inst.ib = None THEN b0 ELSE Take(b0, 0, m - 1))]
            IN [o \in 1..NOut |-> IF OutAxis(o) = None THEN calls[1][o] ELSE MoveAxis(Stack([m \in 1..N |-> calls[m][o]], 0), 0, OutAxis(o))]
AlgorithmLaw == \A o \in 1..NOut : Mapped[o] = ViaFront[o]
\* a batch-constant output really is the same for every call
ConstLaw == \A o \in 1..NOut : OutAxis(o) = None => \A m \in 1..N : Calls[m][o] = Calls[1][o]
\* ---- emission ---------------------------------------------------------------------------------------------------------------
RECURSIVE Unravel(_, _)
Unravel(k, shape) == IF Len(shape) = 0 THEN <<>> ELSE
   LET RECURSIVE P(_) P(i) == IF i > Len(shape) THEN 1 ELSE shape[i] * P(i + 1)  rest == P(2) IN <<k \div rest>> \o Unravel(k % rest, Tail(shape))
RECURSIVE Size(_)
Size(shape) == IF Len(shape) = 0 THEN 1 ELSE shape[1] * Size(Tail(shape))
AJ(a) == [shape |-> a.shape, flat |-> [k \in 1..Size(a.shape) |-> a.val[Unravel(k - 1, a.shape)]]]
Emit == PrintT(ToJson([fn |-> Fn, ia |-> inst.ia, ib |-> inst.ib, oa |-> inst.oa, ob |-> inst.ob, a |-> AJ(A), b |-> AJ(B), out |-> [o \in 1..NOut |-> AJ(Mapped[o])]]))
=============================================================================
