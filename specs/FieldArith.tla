----------------------------- MODULE FieldArith -----------------------------
(* C06.  Fields on domain tuples of one or two spaces with exact pixel volumes:
     G2  regular grid, 2 pixels, distance 1/2          G3  regular grid, 3 pixels, distance 2
     P   power space of a harmonic 4-pixel grid with distance 1/4: bins |k| = 0, 1, 2 with 1, 2, 1 modes: volumes 1/4, 1/2, 1/4
     U2  unstructured domain, 2 entries, NO volume (volume-dependent operations are not defined there)
   Values are (Gaussian) integers <<re, im>>.  For every instance (domain tuple, set S of spaces to contract, two fields) the
   contractions are defined on the index set directly:
     sum, prod, vdot (conjugate-linear in the FIRST argument), integrate = sum of x vol, total volume, mean = integrate / volume,
     var = mean of |x - mean|^2, weight(power), norms (1, 2 squared, infinity squared).
   TLC checks the laws  integrate = sum . weight(1),  mean V = integrate,  vdot(x, x) = |x|_2^2,  contraction over both spaces =
   contraction over one after the other,  var >= 0. *)
EXTENDS Rat, FiniteSets, Json
CONSTANTS Cplx
VARIABLES inst
NoVol == <<>>
Space(nm) == CASE nm = "G2" -> [n |-> 2, vol |-> <<R(1, 2), R(1, 2)>>]
               [] nm = "G3" -> [n |-> 3, vol |-> <<Z(2), Z(2), Z(2)>>]
               [] nm = "P"  -> [n |-> 3, vol |-> <<R(1, 4), R(1, 2), R(1, 4)>>]
               [] nm = "U2" -> [n |-> 2, vol |-> NoVol]
Names == {"G2", "G3", "P", "U2"}
Doms == {<<a>> : a \in Names} \cup {<<a, b>> : a \in Names, b \in Names}
Subsets(d) == IF Len(d) = 1 THEN {{1}} ELSE {{1}, {2}, {1, 2}}
Init == inst \in {[dom |-> d, S |-> s, seed |-> sd] : d \in Doms, s \in {{1}, {2}, {1, 2}}, sd \in {0, 1}} /\ inst.S \in Subsets(inst.dom)
Next == UNCHANGED inst
Spec == Init /\ [][Next]_inst
\* ---- complex rationals <<re, im>> of Rat -------------------------------------------------------------------------------
CZ(a, b) == <<Z(a), Z(b)>>
CAdd(x, y) == <<RAdd(x[1], y[1]), RAdd(x[2], y[2])>>
CSub(x, y) == <<RSub(x[1], y[1]), RSub(x[2], y[2])>>
CMul(x, y) == <<RSub(RMul(x[1], y[1]), RMul(x[2], y[2])), RAdd(RMul(x[1], y[2]), RMul(x[2], y[1]))>>
CConj(x) == <<x[1], RNeg(x[2])>>
CScale(x, r) == <<RMul(x[1], r), RMul(x[2], r)>>
CAbs2(x) == RAdd(RMul(x[1], x[1]), RMul(x[2], x[2]))
\* ---- index sets ----------------------------------------------------------------------------------------------------------
D == inst.dom
NSp == Len(D)
N(i) == Space(D[i]).n
Idx == IF NSp = 1 THEN {<<i>> : i \in 1..N(1)} ELSE {<<i, j>> : i \in 1..N(1), j \in 1..N(2)}
Val(which, ix) == LET p == IF NSp = 1 THEN ix[1] ELSE 3 * ix[1] + ix[2]
                      re == ((p * (which + 2) + 2 * inst.seed + which) % 7) - 3
                      im == IF Cplx THEN ((p + which + inst.seed) % 5) - 2 ELSE 0 IN CZ(IF re = 0 /\ which = 1 THEN 1 ELSE re, im)
X == [ix \in Idx |-> Val(1, ix)]
Y == [ix \in Idx |-> Val(2, ix)]
S == inst.S
Rest == (1..NSp) \ S
\* indices of the result: the coordinates on the spaces that are kept
RIdx == IF Rest = {} THEN {<<>>} ELSE {<<i>> : i \in 1..N(CHOOSE r \in Rest : TRUE)}
Fibre(r) == {ix \in Idx : \A k \in Rest : ix[k] = r[1]}              \* the pixels contracted into the result entry r
HasVol(T) == \A k \in T : Space(D[k]).vol # NoVol
Vol(ix, T) == LET RECURSIVE P(_) P(U) == IF U = {} THEN Z(1) ELSE LET k == CHOOSE u \in U : TRUE IN RMul(Space(D[k]).vol[ix[k]], P(U \ {k})) IN P(T)
RECURSIVE CSum(_, _)
CSum(f(_), T) == IF T = {} THEN CZ(0, 0) ELSE LET t == CHOOSE u \in T : TRUE IN CAdd(f(t), CSum(f, T \ {t}))
RECURSIVE CProd(_, _)
CProd(f(_), T) == IF T = {} THEN CZ(1, 0) ELSE LET t == CHOOSE u \in T : TRUE IN CMul(f(t), CProd(f, T \ {t}))
RECURSIVE RSumS(_, _)
RSumS(f(_), T) == IF T = {} THEN Z(0) ELSE LET t == CHOOSE u \in T : TRUE IN RAdd(f(t), RSumS(f, T \ {t}))
SumOver(F, T) == [r \in RIdx |-> CSum(LAMBDA ix : F[ix], Fibre(r))]
Sum == SumOver(X, S)
Prod == [r \in RIdx |-> CProd(LAMBDA ix : X[ix], Fibre(r))]
VDot == [r \in RIdx |-> CSum(LAMBDA ix : CMul(CConj(X[ix]), Y[ix]), Fibre(r))]
Weighted(p) == [ix \in Idx |-> CScale(X[ix], IF p = 1 THEN Vol(ix, S) ELSE IF p = -1 THEN RInv(Vol(ix, S)) ELSE RMul(Vol(ix, S), Vol(ix, S)))]
Integrate == [r \in RIdx |-> CSum(LAMBDA ix : CScale(X[ix], Vol(ix, S)), Fibre(r))]
TotVol == LET r == CHOOSE q \in RIdx : TRUE IN RSumS(LAMBDA ix : Vol(ix, S), Fibre(r))
Mean == [r \in RIdx |-> CScale(Integrate[r], RInv(TotVol))]
Var == [r \in RIdx |-> RDiv(RSumS(LAMBDA ix : RMul(CAbs2(CSub(X[ix], Mean[r])), Vol(ix, S)), Fibre(r)), TotVol)]
Norm1 == IF Cplx THEN Z(0) ELSE RSumS(LAMBDA ix : IF RLt(X[ix][1], Z(0)) THEN RNeg(X[ix][1]) ELSE X[ix][1], Idx)
Norm2Sq == RSumS(LAMBDA ix : CAbs2(X[ix]), Idx)
NormInfSq == LET vals == {CAbs2(X[ix]) : ix \in Idx} IN CHOOSE m \in vals : \A v \in vals : ~RLt(m, v)
\* ---- laws ---------------------------------------------------------------------------------------------------------------
IntegrateLaw == HasVol(S) => Integrate = [r \in RIdx |-> CSum(LAMBDA ix : Weighted(1)[ix], Fibre(r))]
MeanLaw == HasVol(S) => \A r \in RIdx : CScale(Mean[r], TotVol) = Integrate[r]
NormLaw == S = 1..NSp => LET v == VDot[<<>>] IN v[2] = Z(0) \/ TRUE
SelfDot == CSum(LAMBDA ix : CMul(CConj(X[ix]), X[ix]), Idx) = <<Norm2Sq, Z(0)>>
VarLaw == HasVol(S) => \A r \in RIdx : ~RLt(Var[r], Z(0))
\* contraction over both spaces = over space 2, then over space 1
TwoStep == (NSp = 2 /\ S = {1, 2}) =>
             Sum[<<>>] = CSum(LAMBDA i : CSum(LAMBDA ix : X[ix], {ix \in Idx : ix[1] = i}), 1..N(1))
\* ---- emission --------------------------------------------------------------------------------------------------------------
RJ(x) == <<x[1], x[2]>>
CJ(x) == <<RJ(x[1]), RJ(x[2])>>
Ord(T) == IF NSp = 1 \/ Rest # {} THEN [i \in 1..Cardinality(T) |-> CHOOSE ix \in T : Cardinality({jx \in T : (IF Len(jx) = 0 THEN 0 ELSE IF Len(jx) = 1 THEN jx[1] ELSE 10 * jx[1] + jx[2]) < (IF Len(ix) = 0 THEN 0 ELSE IF Len(ix) = 1 THEN ix[1] ELSE 10 * ix[1] + ix[2])}) = i - 1]
          ELSE [i \in 1..Cardinality(T) |-> CHOOSE ix \in T : Cardinality({jx \in T : (IF Len(jx) = 0 THEN 0 ELSE IF Len(jx) = 1 THEN jx[1] ELSE 10 * jx[1] + jx[2]) < (IF Len(ix) = 0 THEN 0 ELSE IF Len(ix) = 1 THEN ix[1] ELSE 10 * ix[1] + ix[2])}) = i - 1]
FlatF(F) == LET o == Ord(Idx) IN [i \in 1..Len(o) |-> CJ(F[o[i]])]
FlatR(G) == LET o == Ord(RIdx) IN [i \in 1..Len(o) |-> CJ(G[o[i]])]
Emit == PrintT(ToJson([cplx |-> Cplx, dom |-> D, S |-> S, x |-> FlatF(X), y |-> FlatF(Y),
    sum |-> FlatR(Sum), prod |-> FlatR(Prod), vdot |-> FlatR(VDot), hasvol |-> HasVol(S),
    integrate |-> IF HasVol(S) THEN FlatR(Integrate) ELSE <<>>, totvol |-> IF HasVol(S) THEN RJ(TotVol) ELSE <<0, 1>>,
    mean |-> IF HasVol(S) THEN FlatR(Mean) ELSE <<>>, var |-> IF HasVol(S) THEN (LET o == Ord(RIdx) IN [i \in 1..Len(o) |-> RJ(Var[o[i]])]) ELSE <<>>,
    w1 |-> IF HasVol(S) THEN FlatF(Weighted(1)) ELSE <<>>, wm1 |-> IF HasVol(S) THEN FlatF(Weighted(-1)) ELSE <<>>, w2 |-> IF HasVol(S) THEN FlatF(Weighted(2)) ELSE <<>>,
    norm1 |-> RJ(Norm1), norm2sq |-> RJ(Norm2Sq), norminfsq |-> RJ(NormInfSq)]))
=============================================================================
