---------------------------- MODULE LikelihoodRe ----------------------------
(* C12.  Fisher-information oracle for the likelihoods of nifty.re at rational parameter points, exact in Rat.
   An instance is built in two steps (base likelihood and point, then a composition), so TLC's states are the instances;
   each carries the expected metric as a rational matrix over the flattened parameter vector.

   base kinds (documented distributions and their Fisher information):
     gaussian      data ~ N(y, N)              N^-1 = diag(icov)            F = diag(icov)
     studentt      Student-t, dof nu           scale^-2 = diag(icov)        F = (nu+1)/(nu+3) diag(icov)
     poisson       data ~ Poisson(y)                                        F = diag(1/y)
     categorical   one row of logits log(y)    p = y / sum(y)               F = diag(p) - p p^T      (per row)
     vcgauss       data ~ N(m, 1/s^2), parameters (m, s = inverse std)      F = diag(s^2, 2/s^2)
     vcstudent     Student-t location m, scale sigma, dof nu                F = diag((nu+1)/((nu+3) sigma^2), 2 nu/((nu+3) sigma^2))
     ndvcg         data ~ N(mu, Sigma) in 2 dimensions, parameters (mu, Sigma) resp. (mu, P = Sigma^-1)
                                                 F = blockdiag(Sigma^-1, K),  K[(a,b),(c,d)] = 1/2 Sigma^-1[a][c] Sigma^-1[b][d]
                                                 (precision: blockdiag(P, K) with K built from P^-1)
     cvcgauss      vcgauss with complex data (real and imaginary part each N(., 1/s^2)), parameters (m complex, s)   F = diag(s^2, 4/s^2)
     cgaussian     complex data, complex model C = A + i B, N^-1 = diag(icov):   M = C^H N^-1 C = (A^T F A + B^T F B) + i (A^T F B - B^T F A)
                   (on real parameters the Fisher information is the real part)
   compositions:
     plain         the likelihood on its own parameter space
     amend         y = A x with an integer matrix A:           M = A^T F(A x) A
     sum           two amended copies sharing x:               M = A1^T F(A1 x) A1 + A2^T F(A2 x) A2
     freeze        y = A (x_a, x_b), x_b frozen:               M = (A^T F A)[a, a] *)
EXTENDS Rat, Json
VARIABLES inst, res
vars == <<inst, res>>
Pts == {<<R(1, 2), Z(2)>>, <<Z(1), R(3, 2)>>, <<R(5, 4), R(1, 4)>>}        \* positive: valid for every kind
Models == {<<<<Z(1), Z(0)>>, <<Z(0), Z(1)>>>>, <<<<Z(1), Z(2)>>, <<Z(0), Z(1)>>>>, <<<<Z(2), Z(1)>>, <<Z(1), Z(1)>>>>}
Icov == <<Z(4), R(1, 4)>>
Dof == R(3, 5)
Sigmas == {<<<<Z(2), Z(1)>>, <<Z(1), Z(1)>>>>, <<<<R(1, 2), Z(0)>>, <<Z(0), Z(4)>>>>}     \* symmetric positive definite
Diag2(a, b) == <<<<a, Z(0)>>, <<Z(0), b>>>>
\* Fisher matrix of the two-parameter kinds at parameter y
Fisher(kind, y) ==
  CASE kind = "gaussian" -> Diag2(Icov[1], Icov[2])
    [] kind = "poisson"  -> Diag2(RInv(y[1]), RInv(y[2]))
    [] kind = "studentt" -> LET c == RDiv(RAdd(Dof, Z(1)), RAdd(Dof, Z(3))) IN Diag2(RMul(c, Icov[1]), RMul(c, Icov[2]))
    [] kind = "categorical" ->
         LET sm == RAdd(y[1], y[2])  p1 == RDiv(y[1], sm)  p2 == RDiv(y[2], sm) IN
         <<<<RSub(p1, RMul(p1, p1)), RNeg(RMul(p1, p2))>>, <<RNeg(RMul(p1, p2)), RSub(p2, RMul(p2, p2))>>>>
    [] kind = "vcgauss" -> Diag2(RMul(y[2], y[2]), RDiv(Z(2), RMul(y[2], y[2])))
    [] kind = "vcstudent" -> Diag2(RDiv(RAdd(Dof, Z(1)), RMul(RAdd(Dof, Z(3)), RMul(y[2], y[2]))),
                                   RDiv(RMul(Z(2), Dof), RMul(RAdd(Dof, Z(3)), RMul(y[2], y[2]))))
\* ---- the energies themselves: gradient of the negative log-likelihood (the Fisher information is the data average of its outer product) ----
DataG == <<Z(1), Z(-2)>>   DataP == <<Z(1), Z(4)>>   DataV == R(3, 4)          \* the data the replay uses
Sq(a) == RMul(a, a)
\* two-parameter kinds: gradient with respect to (y_1, y_2) at y
Score(kind, y) ==
  CASE kind = "gaussian" -> <<RMul(Icov[1], RSub(y[1], DataG[1])), RMul(Icov[2], RSub(y[2], DataG[2]))>>
    [] kind = "poisson"  -> <<RSub(Z(1), RDiv(DataP[1], y[1])), RSub(Z(1), RDiv(DataP[2], y[2]))>>
    [] kind = "studentt" -> [i \in 1..2 |-> LET r == RSub(y[i], DataG[i]) IN RDiv(RMul(RMul(RAdd(Dof, Z(1)), Icov[i]), r), RAdd(Dof, RMul(Icov[i], Sq(r))))]
    [] kind = "categorical" -> LET sm == RAdd(y[1], y[2]) IN <<RSub(RDiv(y[1], sm), Z(1)), RDiv(y[2], sm)>>        \* with respect to the logits log y; data: class 0
    [] kind = "vcgauss" -> LET r == RSub(y[1], DataV) IN <<RMul(Sq(y[2]), r), RSub(RMul(y[2], Sq(r)), RInv(y[2]))>>
    [] kind = "vcstudent" -> LET t == RDiv(RSub(DataV, y[1]), y[2])  den == RAdd(Dof, Sq(t)) IN
                             <<RNeg(RDiv(RMul(RAdd(Dof, Z(1)), t), RMul(y[2], den))), RAdd(RNeg(RDiv(RMul(RAdd(Dof, Z(1)), Sq(t)), RMul(y[2], den))), RInv(y[2]))>>
ApplyT(A, gg) == [c \in 1..2 |-> RAdd(RMul(A[1][c], gg[1]), RMul(A[2][c], gg[2]))]
Pull(A, F) == MMul(MT(A, 2, 2), MMul(F, A, 2, 2, 2), 2, 2, 2)
Apply(A, x) == [r \in 1..2 |-> RAdd(RMul(A[r][1], x[1]), RMul(A[r][2], x[2]))]
\* the 6 x 6 Fisher matrix of the 2-d variable-covariance Gaussian: parameters (mu_1, mu_2, S_11, S_12, S_21, S_22)
\* covariance parametrisation: the matrix parameter is Sigma = S;  precision parametrisation: the matrix parameter is P = S
NdFisher(S, prec) == LET Si == Inv2(S)
                   Mean == IF prec THEN S ELSE Si
                   ix(a, b) == 2 + 2 * (a - 1) + b IN
               [i \in 1..6 |-> [j \in 1..6 |->
                  IF i <= 2 /\ j <= 2 THEN Mean[i][j]
                  ELSE IF i > 2 /\ j > 2 THEN
                       LET a == (i - 3) \div 2 + 1  b == ((i - 3) % 2) + 1  c == (j - 3) \div 2 + 1  d == ((j - 3) % 2) + 1 IN
                       RMul(R(1, 2), RMul(Si[a][c], Si[b][d]))
                  ELSE Z(0)]]
Init == inst = [stage |-> "none"] /\ res = [dim |-> 0]
Choose ==
  /\ inst.stage = "none"
  /\ \/ \E k \in {"gaussian", "poisson", "studentt", "categorical", "vcgauss", "vcstudent"}, x \in Pts :
          /\ inst' = [stage |-> "done", comp |-> "plain", kind |-> k, x |-> x, A |-> Id(2), B |-> Id(2), S |-> Id(2)]
          /\ res' = [dim |-> 2, M |-> Fisher(k, x), G |-> Score(k, x)]
     \/ \E k \in {"gaussian", "poisson", "studentt", "vcgauss", "vcstudent"}, x \in Pts, A \in Models :
          /\ inst' = [stage |-> "done", comp |-> "amend", kind |-> k, x |-> x, A |-> A, B |-> Id(2), S |-> Id(2)]
          /\ res' = [dim |-> 2, M |-> Pull(A, Fisher(k, Apply(A, x))), G |-> ApplyT(A, Score(k, Apply(A, x)))]
     \/ \E k \in {"gaussian", "poisson", "studentt"}, x \in Pts, A \in Models, B \in Models :
          /\ A # B
          /\ inst' = [stage |-> "done", comp |-> "sum", kind |-> k, x |-> x, A |-> A, B |-> B, S |-> Id(2)]
          /\ res' = [dim |-> 2, M |-> MAdd(Pull(A, Fisher(k, Apply(A, x))), Pull(B, Fisher(k, Apply(B, x))), 2, 2),
                      G |-> LET a == ApplyT(A, Score(k, Apply(A, x)))  b == ApplyT(B, Score(k, Apply(B, x))) IN <<RAdd(a[1], b[1]), RAdd(a[2], b[2])>>]
     \/ \E k \in {"gaussian", "poisson", "studentt"}, x \in Pts, A \in Models :
          /\ inst' = [stage |-> "done", comp |-> "freeze", kind |-> k, x |-> x, A |-> A, B |-> Id(2), S |-> Id(2)]
          /\ res' = [dim |-> 1, M |-> <<<<Pull(A, Fisher(k, Apply(A, x)))[1][1]>>>>, G |-> <<ApplyT(A, Score(k, Apply(A, x)))[1]>>]
     \/ \E x \in Pts :
          /\ inst' = [stage |-> "done", comp |-> "plain", kind |-> "cvcgauss", x |-> x, A |-> Id(2), B |-> Id(2), S |-> Id(2)]
          /\ res' = [dim |-> 2, M |-> Diag2(RMul(x[2], x[2]), RDiv(Z(4), RMul(x[2], x[2])))]
     \/ \E x \in Pts, A \in Models, B \in Models, cp \in BOOLEAN :
          LET F == Fisher("gaussian", x)  AtFB == MMul(MT(A, 2, 2), MMul(F, B, 2, 2, 2), 2, 2, 2)  BtFA == MMul(MT(B, 2, 2), MMul(F, A, 2, 2, 2), 2, 2, 2) IN
          /\ inst' = [stage |-> "done", comp |-> IF cp THEN "camend-complex" ELSE "camend-real", kind |-> "cgaussian", x |-> x, A |-> A, B |-> B, S |-> Id(2)]
          /\ res' = [dim |-> 2, M |-> MAdd(Pull(A, F), Pull(B, F), 2, 2), Mim |-> [i \in 1..2 |-> [j \in 1..2 |-> RSub(AtFB[i][j], BtFA[i][j])]]]
     \/ \E S \in Sigmas, prec \in BOOLEAN :
          /\ inst' = [stage |-> "done", comp |-> IF prec THEN "precision" ELSE "covariance", kind |-> "ndvcg", x |-> <<Z(1), Z(2)>>, A |-> Id(2), B |-> Id(2), S |-> S]
          /\ res' = [dim |-> 6, M |-> NdFisher(S, prec)]
Next == Choose \/ (inst.stage # "none" /\ UNCHANGED vars)
Spec == Init /\ [][Next]_vars
\* ---- laws on the oracle itself -------------------------------------------------------------------------------
Symmetric == inst.stage = "done" => \A i, j \in 1..res.dim : res.M[i][j] = res.M[j][i]
PositiveDiagonal == inst.stage = "done" => \A i \in 1..res.dim : RLt(Z(0), res.M[i][i]) \/ res.M[i][i] = Z(0)
\* the score of a model-composed likelihood vanishes where the model reproduces the data (Gaussian): A x = d => G = 0
ScoreLaw == (inst.stage = "done" /\ inst.kind = "gaussian" /\ inst.comp = "plain" /\ inst.x = DataG) => res.G = <<Z(0), Z(0)>>
\* complex instances: the metric is Hermitian
Hermitian == (inst.stage = "done" /\ "Mim" \in DOMAIN res) => \A i, j \in 1..res.dim : res.Mim[i][j] = RNeg(res.Mim[j][i])
RatJ(q) == [n |-> q[1], d |-> q[2]]
MatJ(M, n) == [i \in 1..n |-> [j \in 1..n |-> RatJ(M[i][j])]]
Emit == inst.stage = "none" \/ PrintT(ToJson([comp |-> inst.comp, kind |-> inst.kind, x |-> [i \in 1..2 |-> RatJ(inst.x[i])], A |-> MatJ(inst.A, 2), B |-> MatJ(inst.B, 2),
                                               S |-> MatJ(inst.S, 2), dim |-> res.dim, M |-> MatJ(res.M, res.dim),
                                               Mim |-> IF "Mim" \in DOMAIN res THEN MatJ(res.Mim, res.dim) ELSE <<>>,
                                               G |-> IF "G" \in DOMAIN res THEN [i \in 1..Len(res.G) |-> RatJ(res.G[i])] ELSE <<>>]))
=============================================================================
