-------------------------- MODULE EigBatchesTrace --------------------------
(* Code -> spec: the batch sizes the real _eigsh asked the sparse eigensolver for (recorded by wrapping scipy's eigsh inside the module)
   and the number of eigenpairs that were deflated at each request, for runs with n, nb, pre given in the first line. *)
EXTENDS EigBatches, TraceLib
VARIABLES tid, l
tvars == <<vars, tid, l>>
E == Traces[tid][l]
H == Traces[tid][1]
TInit == /\ tid \in 1..NTraces /\ l = 2
         /\ n = H.n /\ nb = H.nb /\ pre = H.pre /\ todo = Skip(Full(H.n, H.nb), Kept(H.n, H.pre)) /\ done = Kept(H.n, H.pre) /\ requested = <<>>
TNext == /\ l <= Len(Traces[tid])
         /\ \/ /\ E.ev = "request" /\ Batch
               /\ ((E.deflated # done) => PropFail(tid, l, "the eigenpairs found so far are not all deflated before the next request"))
               /\ E.k = Head(todo)
            \/ /\ E.ev = "end" /\ UNCHANGED vars
               /\ ((todo # <<>> \/ E.found # n) => PropFail(tid, l, "the run ended without all requested eigenvalues"))
         /\ l' = l + 1 /\ UNCHANGED tid
TSpec == TInit /\ [][TNext]_tvars
Progress == Reached(tid, l - 1)
=============================================================================
