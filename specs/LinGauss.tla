------------------------------ MODULE LinGauss ------------------------------
(* C18 / C20 (and the quadratic Hamiltonians of C19).  Linear Gaussian model  d = R s + n  with standard-normal prior on s = (a1, a2, b)
   (key a: two pixels, key b: one pixel), two data points, diagonal noise with inverse variances ninv:
        Dinv = 1 + R^T N^-1 R,   D = Dinv^-1 (posterior covariance),   m = D R^T N^-1 d (posterior mean),
   all exact in Rat (adjugate / determinant).  With the keys in P point-estimated the samples are drawn for the remaining keys only:
   their covariance is the inverse of the corresponding diagonal block of Dinv, the residual of a point-estimated key is zero.
   TLC checks  D Dinv = 1,  D symmetric with positive diagonal,  Dinv m = j,  the data-space form of the Wiener filter
   m = R^T (R R^T + N)^-1 d,  and that the block inverses are consistent, on every model (incl. rank-deficient R). *)
EXTENDS Rat, FiniteSets, Json
VARIABLES model, res
Rs == {<<<<1, 0, 0>>, <<0, 1, 0>>>>, <<<<1, 2, -1>>, <<0, 1, 1>>>>, <<<<1, 1, 1>>, <<1, 1, 1>>>>, <<<<0, 0, 0>>, <<0, 0, 0>>>>,
       <<<<2, 0, 1>>, <<-1, 1, 0>>>>, <<<<1, -1, 0>>, <<2, -2, 0>>>>}
NoiseInv == {<<Z(4), Z(1)>>, <<Z(1), R(1, 4)>>}
Data == {<<1, -2>>, <<3, 1>>}
Compute(md) ==
  LET Rm == [i \in 1..2 |-> [j \in 1..3 |-> Z(md.R[i][j])]]
      Ni == [i \in 1..2 |-> [j \in 1..2 |-> IF i = j THEN md.ninv[i] ELSE Z(0)]]
      Nc == [i \in 1..2 |-> [j \in 1..2 |-> IF i = j THEN RInv(md.ninv[i]) ELSE Z(0)]]
      Rt == MT(Rm, 2, 3)
      RtN == MMul(Rt, Ni, 3, 2, 2)
      Dinv == MAdd(Id(3), MMul(RtN, Rm, 3, 2, 3), 3, 3)
      D == Inv3(Dinv)
      dv == [i \in 1..2 |-> <<Z(md.d[i])>>]
      jj == MMul(RtN, dv, 3, 2, 1)
      mm == MMul(D, jj, 3, 3, 1)
      \* data space: m = R^T (R R^T + N)^-1 d
      G == MAdd(MMul(Rm, Rt, 2, 3, 2), Nc, 2, 2)
      md2 == MMul(Rt, MMul(Inv2(G), dv, 2, 2, 1), 3, 2, 1)
      Dab == Inv2(<<<<Dinv[1][1], Dinv[1][2]>>, <<Dinv[2][1], Dinv[2][2]>>>>)           \* b point-estimated: covariance of a
      Db == RInv(Dinv[3][3])                                                           \* a point-estimated: variance of b
      \* the same model with a non-standard prior covariance S = diag(4, 1/4, 1): DS = (S^-1 + R^T N^-1 R)^-1, mS = DS j
      Sinv == <<<<R(1, 4), Z(0), Z(0)>>, <<Z(0), Z(4), Z(0)>>, <<Z(0), Z(0), Z(1)>>>>
      DSinv == MAdd(Sinv, MMul(RtN, Rm, 3, 2, 3), 3, 3)
      DS == Inv3(DSinv)
      mS == MMul(DS, jj, 3, 3, 1)
      qq == MMul(MT(dv, 2, 1), MMul(Inv2(G), dv, 2, 2, 1), 1, 2, 1)[1][1]                \* d^T (R R^T + N)^-1 d
      detN == RMul(Nc[1][1], Nc[2][2])
  IN [Dinv |-> Dinv, D |-> D, m |-> mm, j |-> jj, Da |-> Dab, Db |-> Db, DS |-> DS, mS |-> mS, okS |-> MMul(DS, DSinv, 3, 3, 3) = Id(3) /\ MT(DS, 3, 3) = DS /\ MMul(DSinv, mS, 3, 3, 1) = jj, detDinv |-> Det3(Dinv), q |-> qq, detG |-> Det2(G),
      okdet |-> Det2(G) = RMul(detN, Det3(Dinv)),                                          \* matrix determinant lemma: |R R^T + N| = |N| |1 + R^T N^-1 R|
      ok |-> /\ MMul(D, Dinv, 3, 3, 3) = Id(3) /\ MT(D, 3, 3) = D
             /\ \A i \in 1..3 : RLt(Z(0), D[i][i]) /\ ~RLt(Z(1), D[i][i])               \* data can only reduce the prior variance 1
             /\ MMul(Dinv, mm, 3, 3, 1) = jj
             /\ md2 = mm
             /\ ~RLt(D[1][1], Dab[1][1]) /\ ~RLt(D[3][3], Db)]                            \* fixing a key cannot increase the variance of the others (conditional <= marginal)
\* ---- C19: the sampled KL energy of the quadratic Hamiltonian H(x) = 1/2 (R x - d)^T N^-1 (R x - d) + 1/2 x^T x -------------------------
M0 == <<R(1, 2), Z(-1), R(1, 4)>>         M1 == <<Z(-1), R(1, 2), Z(2)>>                      \* two expansion points
Res == <<<<R(1, 2), Z(-1), R(1, 4)>>, <<R(-1, 4), R(1, 2), Z(1)>>>>                            \* two residuals
VAdd(x, y) == [i \in 1..3 |-> RAdd(x[i], y[i])]
VNeg(x) == [i \in 1..3 |-> RNeg(x[i])]
Dot(x, y, n) == RSum([i \in 1..n |-> RMul(x[i], y[i])], 1, n)
HVal(md, x) == LET r == [i \in 1..2 |-> RSub(Dot([j \in 1..3 |-> Z(md.R[i][j])], x, 3), Z(md.d[i]))] IN
               RAdd(RMul(R(1, 2), RSum([i \in 1..2 |-> RMul(md.ninv[i], RMul(r[i], r[i]))], 1, 2)), RMul(R(1, 2), Dot(x, x, 3)))
HGrad(md, x) == LET r == [i \in 1..2 |-> RSub(Dot([j \in 1..3 |-> Z(md.R[i][j])], x, 3), Z(md.d[i]))] IN
                [j \in 1..3 |-> RAdd(RSum([i \in 1..2 |-> RMul(Z(md.R[i][j]), RMul(md.ninv[i], r[i]))], 1, 2), x[j])]
Samples(m, mirror) == IF mirror THEN <<VAdd(m, Res[1]), VAdd(m, VNeg(Res[1])), VAdd(m, Res[2]), VAdd(m, VNeg(Res[2]))>> ELSE <<VAdd(m, Res[1]), VAdd(m, Res[2])>>
KLVal(md, m, mirror) == LET ss == Samples(m, mirror) IN RDiv(RSum([k \in 1..Len(ss) |-> HVal(md, ss[k])], 1, Len(ss)), Z(Len(ss)))
KLGrad(md, m, mirror) == LET ss == Samples(m, mirror) IN [j \in 1..3 |-> RDiv(RSum([k \in 1..Len(ss) |-> HGrad(md, ss[k])[j]], 1, Len(ss)), Z(Len(ss)))]
\* for mirrored samples of a quadratic Hamiltonian the odd terms cancel: KL(m) = H(m) + 1/2 mean_j r_j^T Dinv r_j and grad KL = grad H
QuadForm(Dinv, r) == Dot(r, [i \in 1..3 |-> Dot(Dinv[i], r, 3)], 3)
KLLaw(md, Dinv) == /\ KLVal(md, M0, TRUE) = RAdd(HVal(md, M0), RMul(R(1, 4), RAdd(QuadForm(Dinv, Res[1]), QuadForm(Dinv, Res[2]))))
                   /\ KLGrad(md, M0, TRUE) = HGrad(md, M0)
                   /\ HGrad(md, M0) = [i \in 1..3 |-> RSub(Dot(Dinv[i], M0, 3), RSum([q \in 1..2 |-> RMul(Z(md.R[q][i]), RMul(md.ninv[q], Z(md.d[q])))], 1, 2))]
Init == /\ model \in [R : Rs, ninv : NoiseInv, d : Data]
        /\ res = Compute(model)
Next == UNCHANGED <<model, res>>
Spec == Init /\ [][Next]_<<model, res>>
\* C34: the Hamiltonian at the posterior mean is 1/2 d^T (R R^T + N)^-1 d, and no point has a smaller one: with all eigenvalues the
\* ELBO of the exact posterior, 1/2 log|D| - H(m), equals the log-evidence (up to the data normalisation the library drops) and the ELBO
\* of any other Gaussian with covariance D centred elsewhere is below it
ElboLaw == /\ HVal(model, [i \in 1..3 |-> res.m[i][1]]) = RMul(R(1, 2), res.q)
           /\ ~RLt(HVal(model, M0), RMul(R(1, 2), res.q)) /\ ~RLt(HVal(model, M1), RMul(R(1, 2), res.q))
           /\ res.okdet
Law == res.ok /\ res.okS /\ KLLaw(model, res.Dinv) /\ ElboLaw
RJ(x) == <<x[1], x[2]>>
MJ(M, n, k) == [i \in 1..n |-> [c \in 1..k |-> RJ(M[i][c])]]
Emit == PrintT(ToJson([R |-> model.R, ninv |-> <<RJ(model.ninv[1]), RJ(model.ninv[2])>>, d |-> model.d, Dinv |-> MJ(res.Dinv, 3, 3), D |-> MJ(res.D, 3, 3),
                       m |-> MJ(res.m, 3, 1), DS |-> MJ(res.DS, 3, 3), mS |-> MJ(res.mS, 3, 1), Da |-> MJ(res.Da, 2, 2), Db |-> RJ(res.Db), detDinv |-> RJ(res.detDinv), q |-> RJ(res.q),
                       m0 |-> [i \in 1..3 |-> RJ(M0[i])], m1 |-> [i \in 1..3 |-> RJ(M1[i])], resid |-> [k \in 1..2 |-> [i \in 1..3 |-> RJ(Res[k][i])]],
                       kl |-> [c \in 1..4 |-> LET mm == IF c <= 2 THEN M0 ELSE M1  mir == (c % 2 = 1) IN
                                 [mirror |-> mir, at |-> IF c <= 2 THEN 0 ELSE 1, val |-> RJ(KLVal(model, mm, mir)), grad |-> [i \in 1..3 |-> RJ(KLGrad(model, mm, mir)[i])]]]]))
=============================================================================
