------------------------------ MODULE CGTrace ------------------------------
(* Code -> spec for C15: per-iteration events recorded from real runs of the eager and of the compiled JAX CG solver
   (the solvers' own per-iteration report routed to a recorder, and the wrapped matrix giving the sign of every
   curvature).  A trace is  [variant, events : <<[i, curv, gammaTiny, normOK, eInc, absOK]>>, final : [info, nit, raised],
   truth : [...]]  with "T" / "F" / "?" for the predicates ("?": not observable or within rounding of its threshold; TLC then
   chooses).  The stopping parameters are the constants of CGPair (one TLC run per parameter tuple). *)
EXTENDS CGPair, TraceLib
VARIABLES tid, l, m
tvars == <<tid, l, m, vars>>
Tr == Traces[tid]
TInit == /\ tid \in 1..NTraces /\ l = 1 /\ m = (IF Tr.variant = "eager" THEN M0 ELSE [M0 EXCEPT !.info = -2])
         /\ it = 0 /\ env = (CHOOSE v \in EnvAll : TRUE) /\ e = M0 /\ s = M0 /\ hist = <<>>      \* the pair machine is not used here
Fits(b, f) == f = "?" \/ (b <=> f = "T")
Consistent(v, ev) == /\ (ev.curv = "?" \/ v.curv = ev.curv) /\ Fits(v.gammaTiny, ev.gammaTiny) /\ Fits(v.normOK, ev.normOK)
                     /\ Fits(v.eInc, ev.eInc) /\ Fits(v.absOK, ev.absOK)
Running == IF Tr.variant = "eager" THEN m.run ELSE m.info < -1
TStep == /\ l <= Len(Tr.events) /\ Running
         /\ \E v \in EnvAll : /\ Consistent(v, Tr.events[l])
                              /\ m' = IF Tr.variant = "eager" THEN EagerStep(m, v, Tr.events[l].i) ELSE StaticStep(m, v, Tr.events[l].i)
         /\ l' = l + 1 /\ UNCHANGED <<tid, vars>>
\* after the last event the machine must have stopped with the verdict the solver reported
Ck(c, name) == IF c THEN TRUE ELSE PropFail(tid, l, name)
TFinal == /\ l = Len(Tr.events) + 1 /\ ~Running
          /\ m.nit = Tr.final.nit /\ m.raised = Tr.final.raised /\ (m.raised \/ m.info = Tr.final.info)
          /\ Ck(Tr.truth.criterion, "success reported although the requested criterion is not met by the returned solution")
          /\ Ck(Tr.truth.agree, "eager and compiled solver differ in solution or verdict on a positive definite system")
          /\ Ck(Tr.truth.nonposdef, "a system that is not positive definite is not reported as failure although asked to")
          /\ Ck(Tr.truth.notabove, "the returned point has a higher quadratic energy than the start")
          /\ Ck(Tr.truth.sd, "no steepest-descent step although the first direction has negative curvature")
          /\ l' = l + 1 /\ UNCHANGED <<tid, m, vars>>
TNext == TStep \/ TFinal
TSpec == TInit /\ [][TNext]_tvars
Progress == Reached(tid, l - 1)
=============================================================================
