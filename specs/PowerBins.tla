----------------------------- MODULE PowerBins -----------------------------
(* C08 / C10.  Geometry of a harmonic regular grid and its power space, exact in Rat.
   cfg: shape (1-2 axes), harmonic distances per axis, binning: "natural" (one bin per distinct k-length) or custom bin bounds
   (k-lengths given as rationals; a pixel with length k belongs to bin #{bounds b : b < k}).
   res: squared k-length of every pixel, unique squared lengths, bin index of every pixel, pixel count and volume of every bin;
        `valid` = every bin has at least one pixel (the constructor is specified to refuse otherwise).
   A second family of configurations fixes the size formulas of the sphere pixelisations. *)
EXTENDS Rat, FiniteSets, Json
VARIABLES cfg, res
Shapes == {<<4>>, <<5>>, <<3>>, <<3, 4>>, <<4, 4>>, <<2, 3>>, <<5, 2>>}
Dists == {R(1, 4), R(1, 2), Z(1), Z(3)}            \* harmonic distances per axis
Bounds == {<<R(1, 2)>>, <<Z(1), Z(2)>>, <<R(1, 2), R(3, 2), Z(4)>>, <<Z(1)>>, <<R(1, 4), Z(6)>>}
RECURSIVE Idx(_)                                    \* all multi-indices of a shape, as sequences
Idx(shape) == IF Len(shape) = 0 THEN {<<>>}
              ELSE {<<i>> \o rest : i \in 0..(shape[1] - 1), rest \in Idx(Tail(shape))}
MinI(i, n) == IF i < n - i THEN i ELSE n - i
Sq(a) == RMul(a, a)
K2(ix, shape, d) == RSum([a \in 1..Len(shape) |-> Sq(RMul(Z(MinI(ix[a], shape[a])), d[a]))], 1, Len(shape))
RECURSIVE Prod(_, _)
Prod(d, n) == IF n = 0 THEN Z(1) ELSE RMul(d[n], Prod(d, n - 1))
Flat(ix, shape) == IF Len(shape) = 1 THEN ix[1] ELSE ix[1] * shape[2] + ix[2]          \* C order
Compute(c) ==
  LET I == Idx(c.shape)
      k2 == [ix \in I |-> K2(ix, c.shape, c.d)]
      vals == {k2[ix] : ix \in I}
      rank(v) == Cardinality({w \in vals : RLt(w, v)})
      nb == IF c.binning = "natural" THEN Cardinality(vals) ELSE Len(c.bounds) + 1
      pin(ix) == IF c.binning = "natural" THEN rank(k2[ix])
                 ELSE Cardinality({j \in 1..Len(c.bounds) : RLt(Sq(c.bounds[j]), k2[ix])})
      count == [b \in 0..(nb - 1) |-> Cardinality({ix \in I : pin(ix) = b})]
      pdvol == Prod(c.d, Len(c.shape))
      valid == \A b \in 0..(nb - 1) : count[b] > 0
      \* variance of a field with the power spectrum p(k) = 1 + k^2: sum over the modes of p(k) pdvol^2  (get_signal_variance)
      sigvar == RSum([n \in 1..Cardinality(I) |-> RMul(RAdd(Z(1), k2[CHOOSE ix \in I : Flat(ix, c.shape) = n - 1]), Sq(pdvol))], 1, Cardinality(I))
      bink2(b) == (CHOOSE ix \in I : pin(ix) = b)
      sigbins == RSum([b \in 1..nb |-> RMul(RMul(Z(count[b - 1]), RAdd(Z(1), k2[bink2(b - 1)])), Sq(pdvol))], 1, nb)
  IN [nbin |-> nb, valid |-> valid, pdvol |-> pdvol, sigvar |-> sigvar,
      pix |-> {[flat |-> Flat(ix, c.shape), k2 |-> k2[ix], bin |-> pin(ix)] : ix \in I},
      uniq |-> {[rank |-> rank(v), k2 |-> v] : v \in vals},
      bins |-> {[bin |-> b, count |-> count[b], dvol |-> RMul(Z(count[b]), pdvol)] : b \in 0..(nb - 1)},
      ok |-> /\ RSum([b \in 1..nb |-> Z(count[b - 1])], 1, nb) = Z(Cardinality(I))              \* the bins partition the grid
             /\ RSum([b \in 1..nb |-> RMul(Z(count[b - 1]), pdvol)], 1, nb) = RMul(Z(Cardinality(I)), pdvol)   \* sum of bin volumes = partner volume
             /\ (c.binning = "natural" => valid)
             /\ (c.binning = "natural" => sigvar = sigbins)]                                                   \* per mode = per bin (count x spectrum)
Init == cfg = [shape |-> <<>>, d |-> <<>>, binning |-> "none", bounds |-> <<>>] /\ res = [ok |-> TRUE]
Choose == /\ cfg.shape = <<>>
          /\ \E sh \in Shapes : \E dd \in [1..Len(sh) -> Dists] :
               \/ cfg' = [shape |-> sh, d |-> dd, binning |-> "natural", bounds |-> <<>>] /\ res' = Compute(cfg')
               \/ \E b \in Bounds : cfg' = [shape |-> sh, d |-> dd, binning |-> "custom", bounds |-> b] /\ res' = Compute(cfg')
Next == Choose \/ (cfg.shape # <<>> /\ UNCHANGED <<cfg, res>>)
Spec == Init /\ [][Next]_<<cfg, res>>
\* linear bin bounds: nbin - 1 bounds from first to last, equidistant (PowerSpace.linear_binbounds)
LinFirst == R(1, 2)   LinLast == Z(3)
LinBound(nb, i) == RAdd(LinFirst, RMul(Z(i - 1), RDiv(RSub(LinLast, LinFirst), Z(nb - 2))))
ASSUME \A nb \in 3..6 : LinBound(nb, 1) = LinFirst /\ LinBound(nb, nb - 1) = LinLast /\ \A i \in 1..(nb - 2) : RSub(LinBound(nb, i + 1), LinBound(nb, i)) = RDiv(RSub(LinLast, LinFirst), Z(nb - 2))
Law == res.ok
RatJ(q) == [n |-> q[1], d |-> q[2]]
Emit == cfg.shape = <<>> \/ PrintT(ToJson([shape |-> cfg.shape, d |-> [a \in 1..Len(cfg.d) |-> RatJ(cfg.d[a])], binning |-> cfg.binning,
           bounds |-> [a \in 1..Len(cfg.bounds) |-> RatJ(cfg.bounds[a])], nbin |-> res.nbin, valid |-> res.valid, pdvol |-> RatJ(res.pdvol), sigvar |-> RatJ(res.sigvar),
           lin |-> [nb \in 3..6 |-> [i \in 1..(nb - 1) |-> RatJ(LinBound(nb, i))]],
           pix |-> {[flat |-> p.flat, k2 |-> RatJ(p.k2), bin |-> p.bin] : p \in res.pix},
           uniq |-> {[rank |-> u.rank, k2 |-> RatJ(u.k2)] : u \in res.uniq},
           bins |-> {[bin |-> b.bin, count |-> b.count, dvol |-> RatJ(b.dvol)] : b \in res.bins}]))
\* ---- size formulas of the sphere pixelisations and the spherical-harmonic space (checked by TLC as closed forms) -------------
LMSize(lmax, mmax) == (lmax + 1) + 2 * ((mmax * (2 * lmax - mmax + 1)) \div 2)          \* m = 0 once, m > 0 with real and imaginary part
LMCount(lmax, mmax) == Cardinality({<<l, m>> \in (0..lmax) \X (0..mmax) : m <= l /\ m = 0}) + 2 * Cardinality({<<l, m>> \in (0..lmax) \X (0..mmax) : m <= l /\ m > 0})
ASSUME \A lmax \in 0..5 : \A mmax \in 0..lmax : LMSize(lmax, mmax) = LMCount(lmax, mmax)
\* default partner domains: LMSpace(lmax, mmax) -> GLSpace(nlat = lmax + 1, nlon = 2 mmax + 1); GLSpace(nlat, nlon) -> LMSpace(max(nlon div 2, nlat - 1), nlon div 2);
\* going there and back returns the spherical-harmonic space one started from (the grid can hold every band-limited function)
GLofLM(l, m) == <<l + 1, 2 * m + 1>>
LMofGL(nlat, nlon) == LET mm == nlon \div 2 IN <<IF mm > nlat - 1 THEN mm ELSE nlat - 1, mm>>
ASSUME \A lmax \in 0..6 : \A mmax \in 0..lmax : LMofGL(GLofLM(lmax, mmax)[1], GLofLM(lmax, mmax)[2]) = <<lmax, mmax>>
\* regular grids: the partner of a grid with n pixels of size d has pixels of size 1 / (n d); the partner of the partner is the grid itself
ASSUME \A n \in 1..6 : \A d \in Dists : RInv(RMul(Z(n), RInv(RMul(Z(n), d)))) = d
=============================================================================
