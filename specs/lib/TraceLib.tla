------------------------------ MODULE TraceLib ------------------------------
(* Batch trace validation helpers (code -> spec direction).
   The harness writes a JSON file  [ trace_1, trace_2, ... ]  (each trace a sequence of event records) and passes
   its name in the environment variable TRACE_FILE.  A trace module declares  VARIABLES tid, l  (trace index and
   position of the next event), starts every trace from  tid \in 1..NTraces, and uses
       CONSTRAINT  Progress      (records in TLC register tid the longest matched prefix)
       POSTCONDITION Report      (prints <<"MAXL", [tid |-> longest matched prefix]>>)
   run with -workers 1 and deadlock checking off.  A trace is accepted iff its register reaches its length.
   Property clauses that must not stop the matching print a line <<"PROPFAIL", tid, l, clause>> via PropFail. *)
EXTENDS Naturals, Sequences, TLC, Json, IOUtils
Traces == JsonDeserialize(IOEnv.TRACE_FILE)
NTraces == Len(Traces)
ASSUME \A t \in 1..NTraces : TLCSet(t, 0)
Reached(tid, n) == IF TLCGet(tid) < n THEN TLCSet(tid, n) ELSE TRUE
Report == PrintT(<<"MAXL", [t \in 1..NTraces |-> TLCGet(t)]>>)
PropFail(tid, l, clause) == PrintT(<<"PROPFAIL", tid, l, clause>>)
=============================================================================
