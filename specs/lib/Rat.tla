-------------------------------- MODULE Rat --------------------------------
(* Exact rationals <<num, den>> (den > 0, lowest terms) for TLC oracles. *)
EXTENDS Integers, Sequences, TLC
Abs(x) == IF x < 0 THEN -x ELSE x
RECURSIVE Gcd(_,_)
Gcd(a, b) == IF b = 0 THEN a ELSE Gcd(b, a % b)
Norm(n, d) == LET g == Gcd(Abs(n), Abs(d))  s == IF d < 0 THEN -1 ELSE 1 IN
              IF n = 0 THEN <<0, 1>> ELSE <<s * (n \div g), s * (d \div g)>>
R(n, d) == Norm(n, d)
Z(n) == <<n, 1>>
\* (least common denominator and cross-cancellation keep the intermediate products inside TLC's 32-bit integers)
RAdd(a, b) == LET g == Gcd(a[2], b[2])  l == (a[2] \div g) * b[2] IN Norm(a[1] * (l \div a[2]) + b[1] * (l \div b[2]), l)
RNeg(a) == <<-a[1], a[2]>>
RSub(a, b) == RAdd(a, RNeg(b))
RMul(a, b) == LET g1 == Gcd(Abs(a[1]), b[2])  g2 == Gcd(Abs(b[1]), a[2])
                  h1 == IF g1 = 0 THEN 1 ELSE g1  h2 == IF g2 = 0 THEN 1 ELSE g2 IN
              Norm((a[1] \div h1) * (b[1] \div h2), (a[2] \div h2) * (b[2] \div h1))
RInv(a) == Norm(a[2], a[1])
RDiv(a, b) == RMul(a, RInv(b))
RLt(a, b) == a[1]*b[2] < b[1]*a[2]
RECURSIVE RSum(_,_,_)
RSum(f, lo, hi) == IF lo > hi THEN Z(0) ELSE RAdd(f[lo], RSum(f, lo+1, hi))
\* matrices: functions 1..n -> 1..m -> Rat
MMul(A, B, n, k, m) == [i \in 1..n |-> [j \in 1..m |-> RSum([t \in 1..k |-> RMul(A[i][t], B[t][j])], 1, k)]]
MAdd(A, B, n, m) == [i \in 1..n |-> [j \in 1..m |-> RAdd(A[i][j], B[i][j])]]
MT(A, n, m) == [j \in 1..m |-> [i \in 1..n |-> A[i][j]]]
Id(n) == [i \in 1..n |-> [j \in 1..n |-> IF i = j THEN Z(1) ELSE Z(0)]]
Det2(A) == RSub(RMul(A[1][1], A[2][2]), RMul(A[1][2], A[2][1]))
Inv2(A) == LET d == Det2(A) IN
   <<<<RDiv(A[2][2], d), RDiv(RNeg(A[1][2]), d)>>, <<RDiv(RNeg(A[2][1]), d), RDiv(A[1][1], d)>>>>
Minor3(A, i, j) == LET rows == <<{2,3},{1,3},{1,2}>>  r == rows[i]  c == rows[j]
                       r1 == CHOOSE x \in r : \A y \in r : x <= y  r2 == CHOOSE x \in r : x # r1
                       c1 == CHOOSE x \in c : \A y \in c : x <= y  c2 == CHOOSE x \in c : x # c1 IN
                   RSub(RMul(A[r1][c1], A[r2][c2]), RMul(A[r1][c2], A[r2][c1]))
Sgn(i, j) == IF (i + j) % 2 = 0 THEN Z(1) ELSE Z(-1)
Det3(A) == RSum([j \in 1..3 |-> RMul(RMul(Sgn(1, j), A[1][j]), Minor3(A, 1, j))], 1, 3)
Inv3(A) == LET d == Det3(A) IN [i \in 1..3 |-> [j \in 1..3 |-> RDiv(RMul(Sgn(i, j), Minor3(A, j, i)), d)]]
=============================================================================
