----------------------------- MODULE EigBatches -----------------------------
(* C34 (resumable eigenvalue computation).  Batch schedule of nifty.re.evidence_lower_bound._eigsh: n eigenvalues are requested from the
   sparse eigensolver in nb batches (sizes differ by at most one, empty batches dropped); a resumed run starts with `pre` eigenpairs
   computed earlier and requests only what is missing, continuing the SAME schedule (whole batches already covered are skipped, a
   partly covered batch is shortened); after every batch the eigenpairs found so far are deflated (projected out) before the next request.
   done counts the eigenpairs known; requested is the history of batch sizes asked from the solver. *)
EXTENDS Integers, Sequences, TLC
CONSTANTS MaxN, MaxB
VARIABLES n, nb, pre, todo, done, requested
vars == <<n, nb, pre, todo, done, requested>>
RECURSIVE Rep(_, _)
Rep(x, k) == IF k = 0 THEN <<>> ELSE <<x>> \o Rep(x, k - 1)
Full(nn, b) == LET base == nn \div b  rem == nn % b  l == Rep(base + 1, rem) \o Rep(base, b - rem) IN SelectSeq(l, LAMBDA x : x > 0)
RECURSIVE Skip(_, _)
Skip(l, s) == IF l = <<>> THEN <<>>
              ELSE IF s >= Head(l) THEN Skip(Tail(l), s - Head(l))
              ELSE IF s > 0 THEN <<Head(l) - s>> \o Tail(l)
              ELSE l
\* a resumed run that is handed MORE eigenpairs than it is asked for keeps the n largest of them (Kept) and requests nothing
Kept(nn, p) == IF p > nn THEN nn ELSE p
Init == /\ n \in 1..MaxN /\ nb \in 1..MaxB /\ pre \in 0..(MaxN + 2) /\ pre <= n + 2
        /\ todo = Skip(Full(n, nb), Kept(n, pre)) /\ done = Kept(n, pre) /\ requested = <<>>
Batch == /\ todo # <<>>
         /\ requested' = Append(requested, Head(todo)) /\ done' = done + Head(todo) /\ todo' = Tail(todo)
         /\ UNCHANGED <<n, nb, pre>>
Next == Batch \/ (todo = <<>> /\ UNCHANGED vars)
Spec == Init /\ [][Next]_vars
FairSpec == Spec /\ WF_vars(Batch)
RECURSIVE Sum(_)
Sum(l) == IF l = <<>> THEN 0 ELSE Head(l) + Sum(Tail(l))
\* exactly the missing eigenvalues are requested, in non-empty batches, never more than wanted
Exact == todo = <<>> => (done = n /\ Sum(requested) = n - Kept(n, pre))
Positive == \A i \in 1..Len(requested) : requested[i] > 0
NeverTooMany == done <= n
\* a run resumed after any number of complete batches of an uninterrupted run asks for exactly the remaining batches of that run
ResumeIsSuffix == \A k \in 0..Len(Full(n, nb)) : LET cut == Sum(SubSeq(Full(n, nb), 1, k)) IN Skip(Full(n, nb), cut) = SubSeq(Full(n, nb), k + 1, Len(Full(n, nb)))
Terminates == <>(todo = <<>>)
\* vacuity witness (expected to be violated): a partly covered batch is shortened
NeverShortened == ~(pre > 0 /\ todo # <<>> /\ requested = <<>> /\ \E k \in 1..Len(Full(n, nb)) : Sum(SubSeq(Full(n, nb), 1, k)) > pre /\ Sum(SubSeq(Full(n, nb), 1, k)) - pre = Head(todo) /\ Head(todo) < Full(n, nb)[k])
=============================================================================
