------------------------------- MODULE Descent -------------------------------
(* C16 (minimiser loop).  nifty.cl DescentMinimizer.__call__ for all descent minimisers (steepest descent, relaxed Newton,
   Newton-CG, L-BFGS, VL-BFGS): controller.start, then repeatedly  zero gradient? -> CONVERGED;  line search (success or
   not; an unsuccessful search resets the minimiser's memory);  new energy higher -> ERROR with the OLD energy;  equal ->
   CONVERGED;  lower -> accept and ask the controller.   Energies are abstract levels (smaller = lower).
   The second part specifies the ring-buffer addressing of the two L-BFGS variants. *)
EXTENDS Integers, Sequences, TLC
CONSTANTS MaxIter, Levels
VARIABLES pc, level, status, accepted, resets, it
vars == <<pc, level, status, accepted, resets, it>>
Init == pc = "start" /\ level = Levels /\ status = "none" /\ accepted = <<Levels>> /\ resets = 0 /\ it = 0
Ret(s) == pc' = "done" /\ status' = s
Start(v) == /\ pc = "start"
            /\ (IF v = "continue" THEN pc' = "loop" /\ UNCHANGED status ELSE Ret("CONVERGED"))
            /\ UNCHANGED <<level, accepted, resets, it>>
GradZero == pc = "loop" /\ Ret("CONVERGED") /\ UNCHANGED <<level, accepted, resets, it>>
\* one iteration: line search outcome (success flag, level of the returned energy), then the minimiser's comparison
Iterate(success, new, v) ==
  /\ pc = "loop" /\ it < MaxIter /\ new \in 0..(Levels + 1)
  /\ it' = it + 1
  /\ resets' = IF success THEN resets ELSE resets + 1
  /\ IF new > level THEN Ret("ERROR") /\ UNCHANGED <<level, accepted>>
     ELSE IF new = level THEN Ret("CONVERGED") /\ UNCHANGED <<level, accepted>>
     ELSE /\ level' = new /\ accepted' = Append(accepted, new)
          /\ (IF v = "continue" THEN UNCHANGED <<pc, status>> ELSE Ret("CONVERGED"))
Next == \/ \E v \in {"continue", "converged"} : Start(v)
        \/ GradZero
        \/ \E s \in BOOLEAN, n \in 0..(Levels + 1), v \in {"continue", "converged"} : Iterate(s, n, v)
        \/ (pc = "done" \/ it = MaxIter) /\ UNCHANGED vars
Spec == Init /\ [][Next]_vars
\* ---- properties (C16) -------------------------------------------------------------------------------------
Monotone == \A k \in 1..(Len(accepted) - 1) : accepted[k + 1] < accepted[k]     \* no accepted step increases the energy
ReturnsLevel == level = accepted[Len(accepted)]                                  \* the returned energy is the last accepted one
OnlyTwoVerdicts == pc = "done" => status \in {"CONVERGED", "ERROR"}
NeverErrorWitness == ~(pc = "done" /\ status = "ERROR")                          \* vacuity witness (expected to be violated)
\* ---- ring buffers of the two L-BFGS variants ---------------------------------------------------------------------
\* After k points have been added, both variants hold min(k, m) pairs (s_j, y_j) with logical indices j = k-nh .. k-1
\* (j counts the differences between consecutive points).  L_BFGS stores pair j in slot j % m and walks j = k-1 .. k-nh
\* downwards then upwards; VL_BFGS stores pair j in slot j % m as well and lists its basis as j = k-nh .. k-1.
Nh(k, m) == IF k < m THEN k ELSE m
LSlotsDown(k, m) == [n \in 1..Nh(k, m) |-> (k - n) % m]                   \* first loop of L_BFGS: i = k-1 .. k-nhist
LSlotsUp(k, m) == [n \in 1..Nh(k, m) |-> (k - Nh(k, m) + n - 1) % m]      \* second loop: i = k-nhist .. k-1
VSlots(k, m) == [n \in 1..Nh(k, m) |-> (k - Nh(k, m) + n - 1) % m]        \* _InformationStore.b: (k - m' + i) % mmax
StoredAt(j, m) == j % m                                                    \* slot of logical pair j in both variants
\* both variants address exactly the newest min(k, m) logical pairs, oldest to newest in the upward pass
SamePairs == \A m \in 1..3 : \A k \in 0..(2 * m + 2) :
               /\ LSlotsUp(k, m) = VSlots(k, m)
               /\ \A n \in 1..Nh(k, m) : LSlotsUp(k, m)[n] = StoredAt(k - Nh(k, m) + n - 1, m)
               /\ \A n \in 1..Nh(k, m) : LSlotsDown(k, m)[n] = StoredAt(k - n, m)
               /\ \A a, b \in 1..Nh(k, m) : a # b => LSlotsUp(k, m)[a] # LSlotsUp(k, m)[b]      \* no live pair is overwritten
ASSUME SamePairs
=============================================================================
