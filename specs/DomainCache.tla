----------------------------- MODULE DomainCache -----------------------------
(* C08 (identity part).  Canonical domain objects of nifty.cl: equal descriptions yield the identical DomainTuple / MultiDomain
   object through every entry point, also after pickling.  Descriptions are abstract names; the state is the cache
   description -> object id (0 = not created yet) and the history of calls with the id each call returned.
     entries:  "tuple_make" DomainTuple.make(spaces)      "tuple_remake" DomainTuple.make(existing DomainTuple)
               "make_domain" makeDomain(spaces)           "multi_make" / "multi_make_rev" MultiDomain.make(dict, keys in either order)
               "multi_union" MultiDomain.union of the single-key parts
               "pickle" pickle round trip of the object of that description in the same process
               "power" PowerSpace(harmonic partner) constructed again (its cached power index must be shared) *)
EXTENDS Integers, Sequences, TLC, Json
CONSTANTS MaxOps, EmitHist
TupleDescs == {"T_rg", "T_rgh", "T_rg_un", "T_un_rg", "T_power"}
MultiDescs == {"M_ab", "M_a", "M_b"}
Descs == TupleDescs \cup MultiDescs
TupleEntries == {"tuple_make", "tuple_remake", "make_domain", "pickle"}
MultiEntries == {"multi_make", "multi_make_rev", "multi_union", "make_domain", "pickle"}
VARIABLES cache, nobj, hist
vars == <<cache, nobj, hist>>
Init == cache = [d \in Descs |-> 0] /\ nobj = 0 /\ hist = <<>>
Make(d, e) ==
  /\ Len(hist) < MaxOps
  /\ (e \in {"tuple_remake", "pickle"} => cache[d] # 0)             \* needs an existing object
  /\ (d \in TupleDescs => e \in TupleEntries) /\ (d \in MultiDescs => e \in MultiEntries)
  /\ (e = "multi_union" => d = "M_ab")
  /\ IF cache[d] = 0
     THEN cache' = [cache EXCEPT ![d] = nobj + 1] /\ nobj' = nobj + 1
     ELSE UNCHANGED <<cache, nobj>>
  /\ hist' = Append(hist, [desc |-> d, entry |-> e, id |-> cache'[d]])
Next == \E d \in Descs, e \in TupleEntries \cup MultiEntries : Make(d, e)
Spec == Init /\ [][Next]_vars
\* equal descriptions <=> identical object, in every state and along every history
Canonical == \A i, j \in 1..Len(hist) : (hist[i].desc = hist[j].desc) <=> (hist[i].id = hist[j].id)
Emit == (EmitHist /\ Len(hist) = MaxOps) => PrintT(ToJson([hist |-> hist]))
=============================================================================
