---------------------------- MODULE LikelihoodCl ----------------------------
(* C11.  The likelihood energies of the classic API nifty.cl as negative log-probabilities: value (as a list (not a set: equal terms of two summands both count) of terms
   c * fn(arg), fn in {"id", "log", "log1p"}, evaluated by the harness), exact gradient and Fisher metric in Rat, at rational
   parameter points x = (x_1, x_2) with two data pixels.
     gaussian   d ~ N(x, N), N^-1 = diag(icov)      E = 1/2 (x-d)^T N^-1 (x-d)        g = N^-1 (x-d)          F = N^-1
     poisson    d ~ Poisson(x)                       E = sum x - d log x               g = 1 - d/x             F = 1/x
     bernoulli  d ~ Bernoulli(x)                     E = -d log x - (1-d) log(1-x)     g = (x-d)/(x(1-x))      F = 1/(x(1-x))
     studentt   x ~ Student-t(theta)                 E = (theta+1)/2 log1p(x^2/theta)  g = (theta+1) x/(theta+x^2)   F = (theta+1)/(theta+3)
     invgamma   x ~ InvGamma(alpha, beta)            E = (alpha+1) log x + beta/x      g = (alpha+1)/x - beta/x^2    F = (alpha+1)/x^2
     categorical  one-hot d, probabilities x         E = -sum d log x                  g = -d/x                F = diag(1/x)
   compositions:  plain;  chain: E(A y) with an integer matrix A:  g = A^T g(Ay), M = A^T F(Ay) A;
                  ham: standard Hamiltonian = E + 1/2 |x|^2: g + x, M + 1;  scale: c E: c g, c M;
                  sum: E1(x) + E2(x) (two kinds on the same parameters);
                  avg: AveragedEnergy over the mirrored residual samples +v, -v:  1/2 (E(x+v) + E(x-v)), gradient and metric averaged alike *)
EXTENDS Rat, Json
VARIABLES inst, res
vars == <<inst, res>>
Pts == {<<R(1, 2), R(1, 4)>>, <<R(1, 4), R(3, 4)>>, <<R(3, 4), R(1, 2)>>}          \* inside (0,1): valid for every kind
ChainPts == {<<R(1, 8), R(1, 8)>>, <<R(1, 4), R(1, 8)>>}                           \* A y stays inside (0,1) for the models below
Models == {<<<<Z(1), Z(0)>>, <<Z(0), Z(1)>>>>, <<<<Z(1), Z(2)>>, <<Z(0), Z(1)>>>>, <<<<Z(2), Z(1)>>, <<Z(1), Z(1)>>>>}
Icov == <<Z(4), R(1, 4)>>
DataG == <<Z(1), Z(-2)>>      DataP == <<Z(1), Z(4)>>      DataB == <<Z(1), Z(0)>>
Theta == R(3, 5)    Alpha == R(1, 2)    Beta == <<Z(2), R(1, 2)>>
Kinds == {"gaussian", "poisson", "bernoulli", "studentt", "invgamma", "categorical"}
T(c, fn, arg) == [c |-> c, fn |-> fn, arg |-> arg]
Sq(a) == RMul(a, a)
\* per pixel i: terms of the value, gradient entry, Fisher entry
Terms(k, y, i) ==
  CASE k = "gaussian"  -> <<T(RMul(R(1, 2), Icov[i]), "id", Sq(RSub(y[i], DataG[i])))>>
    [] k = "poisson"   -> <<T(Z(1), "id", y[i]), T(RNeg(DataP[i]), "log", y[i])>>
    [] k = "bernoulli" -> <<T(RNeg(DataB[i]), "log", y[i]), T(RNeg(RSub(Z(1), DataB[i])), "log", RSub(Z(1), y[i]))>>
    [] k = "studentt"  -> <<T(RDiv(RAdd(Theta, Z(1)), Z(2)), "log1p", RDiv(Sq(y[i]), Theta))>>
    [] k = "invgamma"  -> <<T(RAdd(Alpha, Z(1)), "log", y[i]), T(Beta[i], "id", RInv(y[i]))>>
    [] k = "categorical" -> <<T(RNeg(DataB[i]), "log", y[i])>>
Grad(k, y, i) ==
  CASE k = "gaussian"  -> RMul(Icov[i], RSub(y[i], DataG[i]))
    [] k = "poisson"   -> RSub(Z(1), RDiv(DataP[i], y[i]))
    [] k = "bernoulli" -> RDiv(RSub(y[i], DataB[i]), RMul(y[i], RSub(Z(1), y[i])))
    [] k = "studentt"  -> RDiv(RMul(RAdd(Theta, Z(1)), y[i]), RAdd(Theta, Sq(y[i])))
    [] k = "invgamma"  -> RSub(RDiv(RAdd(Alpha, Z(1)), y[i]), RDiv(Beta[i], Sq(y[i])))
    [] k = "categorical" -> RNeg(RDiv(DataB[i], y[i]))
Fish(k, y, i) ==
  CASE k = "gaussian"  -> Icov[i]
    [] k = "poisson"   -> RInv(y[i])
    [] k = "bernoulli" -> RInv(RMul(y[i], RSub(Z(1), y[i])))
    [] k = "studentt"  -> RDiv(RAdd(Theta, Z(1)), RAdd(Theta, Z(3)))
    [] k = "invgamma"  -> RDiv(RAdd(Alpha, Z(1)), Sq(y[i]))
    [] k = "categorical" -> RInv(y[i])
Diag2(a, b) == <<<<a, Z(0)>>, <<Z(0), b>>>>
F2(k, y) == Diag2(Fish(k, y, 1), Fish(k, y, 2))
G2(k, y) == <<Grad(k, y, 1), Grad(k, y, 2)>>
Apply(A, x) == [r \in 1..2 |-> RAdd(RMul(A[r][1], x[1]), RMul(A[r][2], x[2]))]
ApplyT(A, g) == [c \in 1..2 |-> RAdd(RMul(A[1][c], g[1]), RMul(A[2][c], g[2]))]
Pull(A, F) == MMul(MT(A, 2, 2), MMul(F, A, 2, 2, 2), 2, 2, 2)
TermsAll(k, y) == [i \in 1..2 |-> Terms(k, y, i)]
Init == inst = [stage |-> "none"] /\ res = [ok |-> TRUE]
Rec(comp, k, k2, x, A, c, terms, g, M) ==
  /\ inst' = [stage |-> "done", comp |-> comp, kind |-> k, kind2 |-> k2, x |-> x, A |-> A, c |-> c]
  /\ res' = [ok |-> TRUE, terms |-> terms, g |-> g, M |-> M]
Choose ==
  /\ inst.stage = "none"
  /\ \/ \E k \in Kinds, x \in Pts : Rec("plain", k, k, x, Id(2), Z(1), TermsAll(k, x), G2(k, x), F2(k, x))
     \/ \E k \in Kinds \ {"categorical"}, x \in ChainPts, A \in Models :
          LET y == Apply(A, x) IN Rec("chain", k, k, x, A, Z(1), TermsAll(k, y), ApplyT(A, G2(k, y)), Pull(A, F2(k, y)))
     \/ \E k \in Kinds, x \in Pts :
          Rec("ham", k, k, x, Id(2), Z(1), [i \in 1..2 |-> Append(Terms(k, x, i), T(R(1, 2), "id", Sq(x[i])))],
              <<RAdd(Grad(k, x, 1), x[1]), RAdd(Grad(k, x, 2), x[2])>>, MAdd(F2(k, x), Id(2), 2, 2))
     \/ \E k \in Kinds, x \in Pts, c \in {Z(2), R(1, 2)} :
          Rec("scale", k, k, x, Id(2), c, [i \in 1..2 |-> [n \in 1..Len(Terms(k, x, i)) |-> T(RMul(c, Terms(k, x, i)[n].c), Terms(k, x, i)[n].fn, Terms(k, x, i)[n].arg)]],
              <<RMul(c, Grad(k, x, 1)), RMul(c, Grad(k, x, 2))>>, Diag2(RMul(c, Fish(k, x, 1)), RMul(c, Fish(k, x, 2))))
     \/ \E k \in {"gaussian", "poisson"}, k2 \in {"studentt", "invgamma", "bernoulli"}, x \in Pts :
          Rec("sum", k, k2, x, Id(2), Z(1), [i \in 1..2 |-> Terms(k, x, i) \o Terms(k2, x, i)],
              <<RAdd(Grad(k, x, 1), Grad(k2, x, 1)), RAdd(Grad(k, x, 2), Grad(k2, x, 2))>>, MAdd(F2(k, x), F2(k2, x), 2, 2))
Shift == <<R(1, 8), R(-1, 8)>>
Plus(x) == <<RAdd(x[1], Shift[1]), RAdd(x[2], Shift[2])>>
Minus(x) == <<RSub(x[1], Shift[1]), RSub(x[2], Shift[2])>>
Half(ts) == [n \in 1..Len(ts) |-> T(RMul(R(1, 2), ts[n].c), ts[n].fn, ts[n].arg)]
ChooseAvg ==
  /\ inst.stage = "none"
  /\ \E k \in Kinds, x \in Pts :
        LET xp == Plus(x)  xm == Minus(x) IN
        Rec("avg", k, k, x, Id(2), Z(1), [i \in 1..2 |-> Half(Terms(k, xp, i)) \o Half(Terms(k, xm, i))],
            <<RMul(R(1, 2), RAdd(Grad(k, xp, 1), Grad(k, xm, 1))), RMul(R(1, 2), RAdd(Grad(k, xp, 2), Grad(k, xm, 2)))>>,
            Diag2(RMul(R(1, 2), RAdd(Fish(k, xp, 1), Fish(k, xm, 1))), RMul(R(1, 2), RAdd(Fish(k, xp, 2), Fish(k, xm, 2)))))
Next == Choose \/ ChooseAvg \/ (inst.stage # "none" /\ UNCHANGED vars)
Spec == Init /\ [][Next]_vars
\* ---- laws on the oracle -----------------------------------------------------------------------------------
Symmetric == inst.stage = "done" => res.M[1][2] = res.M[2][1]
Positive == inst.stage = "done" => RLt(Z(0), res.M[1][1]) /\ RLt(Z(0), res.M[2][2])
RatJ(q) == [n |-> q[1], d |-> q[2]]
Emit == inst.stage = "none" \/ PrintT(ToJson([comp |-> inst.comp, kind |-> inst.kind, kind2 |-> inst.kind2, x |-> [i \in 1..2 |-> RatJ(inst.x[i])],
            A |-> [i \in 1..2 |-> [j \in 1..2 |-> RatJ(inst.A[i][j])]], c |-> RatJ(inst.c),
            terms |-> [i \in 1..2 |-> [t \in 1..Len(res.terms[i]) |-> [c |-> RatJ(res.terms[i][t].c), fn |-> res.terms[i][t].fn, arg |-> RatJ(res.terms[i][t].arg)]]],
            g |-> [i \in 1..2 |-> RatJ(res.g[i])], M |-> [i \in 1..2 |-> [j \in 1..2 |-> RatJ(res.M[i][j])]]]))
=============================================================================
