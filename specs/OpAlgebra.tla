------------------------------ MODULE OpAlgebra ------------------------------
(* C01 (and the covariance part of C13).  Linear-operator expressions of nifty.cl as SSA programs: every action appends
   one slot whose operands are earlier slots, so TLC's reachable states up to MaxSlots are exactly the expression DAGs up
   to that size, each slot carrying its exact denotation.

   Numbers: dyadic Gaussian rationals.  A matrix is [n, m, k, e] with entries e[<<i,j>>] = <<re, im>> (integers) and the
   common exponent k: value = e / 2^k.  The leaf library only uses factors whose inverses are again dyadic
   (1, -1, i, 2, 1/2, 1+i), so exact inverses stay in the domain.
   Spaces:  "U" = RGSpace(2) (2 pixels, distance 1/2),  "H" = its harmonic partner,  "UU" = (RGSpace(2), RGSpace(2)) (4 pixels,
   C order),  "MD" = the multi-domain {a: U, b: U} (4 entries, a first).

   Every slot:  dom, tgt, M (TIMES matrix), Mi (matrix of the inverse), hM / hMi (denotation defined), cap (the capability
   rule of the statement: leaf table; chain = AND; sum = AND restricted to TIMES|ADJOINT; adjoint / inverse = bit swaps),
   psd (may act as a covariance: real non-negative diagonal scalings / diagonals, sandwiches and block diagonals thereof). *)
EXTENDS Integers, Sequences, FiniteSets, TLC, Json
CONSTANTS MaxSlots, EmitAll,
          Focus       \* "all": every leaf | "diag": a small family (two diagonals, two scalings on U, one on H, Hartley, one matrix) so that ALL programs of 3-4 slots can be enumerated
VARIABLES slots
Dim(s) == IF s \in {"U", "H"} THEN 2 ELSE 4
\* ---- dyadic Gaussian arithmetic ---------------------------------------------------------------------------------
C(re, im) == <<re, im>>
CAdd(a, b) == <<a[1] + b[1], a[2] + b[2]>>
CNeg(a) == <<0 - a[1], 0 - a[2]>>
CMul(a, b) == <<a[1] * b[1] - a[2] * b[2], a[1] * b[2] + a[2] * b[1]>>
CConj(a) == <<a[1], 0 - a[2]>>
CScale(a, f) == <<a[1] * f, a[2] * f>>
Pow2(k) == 2 ^ k
Ix(n) == 1..n
Mk(n, m, k, f(_, _)) == [n |-> n, m |-> m, k |-> k, e |-> [p \in Ix(n) \X Ix(m) |-> f(p[1], p[2])]]
Ent(A, i, j) == A.e[<<i, j>>]
MId(n) == Mk(n, n, 0, LAMBDA i, j : IF i = j THEN C(1, 0) ELSE C(0, 0))
MZero(n, m) == Mk(n, m, 0, LAMBDA i, j : C(0, 0))
\* bring two matrices to the larger exponent, then add
Lift(A, k) == Mk(A.n, A.m, k, LAMBDA i, j : CScale(Ent(A, i, j), Pow2(k - A.k)))
MaxK(A, B) == IF A.k > B.k THEN A.k ELSE B.k
MAdd(A, B) == LET k == MaxK(A, B)  X == Lift(A, k)  Y == Lift(B, k) IN Mk(A.n, A.m, k, LAMBDA i, j : CAdd(Ent(X, i, j), Ent(Y, i, j)))
MNeg(A) == Mk(A.n, A.m, A.k, LAMBDA i, j : CNeg(Ent(A, i, j)))
RECURSIVE DotRow(_, _, _, _, _)
DotRow(A, B, i, j, l) == IF l = 0 THEN C(0, 0) ELSE CAdd(DotRow(A, B, i, j, l - 1), CMul(Ent(A, i, l), Ent(B, l, j)))
MMul(A, B) == Mk(A.n, B.m, A.k + B.k, LAMBDA i, j : DotRow(A, B, i, j, A.m))
MH(A) == Mk(A.m, A.n, A.k, LAMBDA i, j : CConj(Ent(A, j, i)))
\* multiplication by a scalar c / 2^kc
MScale(A, c, kc) == Mk(A.n, A.m, A.k + kc, LAMBDA i, j : CMul(c, Ent(A, i, j)))
\* equality of values (exponents may differ)
MEq(A, B) == A.n = B.n /\ A.m = B.m /\ LET k == MaxK(A, B) IN Lift(A, k).e = Lift(B, k).e
\* Kronecker products for partial-space diagonals on UU (C order: index = 2 (i0 - 1) + i1)
KronLeft(D) == Mk(4, 4, D.k, LAMBDA i, j : IF (i - 1) % 2 = (j - 1) % 2 THEN Ent(D, (i - 1) \div 2 + 1, (j - 1) \div 2 + 1) ELSE C(0, 0))   \* D (x) I
KronRight(D) == Mk(4, 4, D.k, LAMBDA i, j : IF (i - 1) \div 2 = (j - 1) \div 2 THEN Ent(D, ((i - 1) % 2) + 1, ((j - 1) % 2) + 1) ELSE C(0, 0))  \* I (x) D
\* block diagonal of two 2x2 blocks
Block(A, B) == LET k == MaxK(A, B)  X == Lift(A, k)  Y == Lift(B, k) IN
               Mk(4, 4, k, LAMBDA i, j : IF i <= 2 /\ j <= 2 THEN Ent(X, i, j) ELSE IF i > 2 /\ j > 2 THEN Ent(Y, i - 2, j - 2) ELSE C(0, 0))
\* ---- scalars with dyadic inverses: <<numerator, exponent>>, inverse <<numerator, exponent>> -----------------------
Scalars == { [nm |-> "1",    c |-> C(1, 0),  k |-> 0, ic |-> C(1, 0),  ik |-> 0, realpos |-> TRUE],
             [nm |-> "2",    c |-> C(2, 0),  k |-> 0, ic |-> C(1, 0),  ik |-> 1, realpos |-> TRUE],
             [nm |-> "-1",   c |-> C(-1, 0), k |-> 0, ic |-> C(-1, 0), ik |-> 0, realpos |-> FALSE],
             [nm |-> "1/2",  c |-> C(1, 0),  k |-> 1, ic |-> C(2, 0),  ik |-> 0, realpos |-> TRUE],
             [nm |-> "i",    c |-> C(0, 1),  k |-> 0, ic |-> C(0, -1), ik |-> 0, realpos |-> FALSE],
             [nm |-> "1+i",  c |-> C(1, 1),  k |-> 0, ic |-> C(1, -1), ik |-> 1, realpos |-> FALSE] }
Sc(nm) == CHOOSE s \in Scalars : s.nm = nm
Diag2(a, b) == LET k == IF a.k > b.k THEN a.k ELSE b.k IN
               Mk(2, 2, k, LAMBDA i, j : IF i # j THEN C(0, 0) ELSE IF i = 1 THEN CScale(a.c, Pow2(k - a.k)) ELSE CScale(b.c, Pow2(k - b.k)))
Diag2Inv(a, b) == LET k == IF a.ik > b.ik THEN a.ik ELSE b.ik IN
               Mk(2, 2, k, LAMBDA i, j : IF i # j THEN C(0, 0) ELSE IF i = 1 THEN CScale(a.ic, Pow2(k - a.ik)) ELSE CScale(b.ic, Pow2(k - b.ik)))
\* ---- leaves -------------------------------------------------------------------------------------------------------
ALL == 15   TA == 3
\* sf / si (C13): the operator MUST be able to draw a Gaussian sample with covariance M / with covariance Mi (given a sampling
\* dtype): scalings, diagonals and block diagonals with strictly positive real entries and no left-out key
Leaf(kind, args, dom, tgt, M, Mi, hMi, cap, psd) ==
  [e |-> [op |-> "leaf", k |-> kind, a |-> args, x |-> 0, y |-> 0], dom |-> dom, tgt |-> tgt, M |-> M, Mi |-> Mi, hM |-> TRUE, hMi |-> hMi, cap |-> cap, psd |-> psd,
   sf |-> psd /\ kind \in {"scaling", "diag", "diag0", "diag1", "block"} /\ args[2] # "id",
   si |-> psd /\ kind \in {"scaling", "diag", "diag0", "diag1", "block"} /\ args[2] # "id"]
DiagPairs == {<<"1", "2">>, <<"i", "-1">>, <<"1/2", "1+i">>, <<"2", "1/2">>}
Leaves ==
     {Leaf("scaling", <<s.nm, sp>>, sp, sp, MScale(MId(Dim(sp)), s.c, s.k), MScale(MId(Dim(sp)), s.ic, s.ik), TRUE, ALL, s.realpos) : s \in Scalars, sp \in {"U", "H", "UU", "MD"}}
\cup {Leaf("diag", <<p[1], p[2]>>, "U", "U", Diag2(Sc(p[1]), Sc(p[2])), Diag2Inv(Sc(p[1]), Sc(p[2])), TRUE, ALL, Sc(p[1]).realpos /\ Sc(p[2]).realpos) : p \in DiagPairs}
\cup {Leaf("diag0", <<p[1], p[2]>>, "UU", "UU", KronLeft(Diag2(Sc(p[1]), Sc(p[2]))), KronLeft(Diag2Inv(Sc(p[1]), Sc(p[2]))), TRUE, ALL, Sc(p[1]).realpos /\ Sc(p[2]).realpos) : p \in DiagPairs}
\cup {Leaf("diag1", <<p[1], p[2]>>, "UU", "UU", KronRight(Diag2(Sc(p[1]), Sc(p[2]))), KronRight(Diag2Inv(Sc(p[1]), Sc(p[2]))), TRUE, ALL, Sc(p[1]).realpos /\ Sc(p[2]).realpos) : p \in DiagPairs}
\cup {Leaf("matrix", <<"A", "">>, "U", "U", Mk(2, 2, 0, LAMBDA i, j : IF i = 1 /\ j = 1 THEN C(1, 0) ELSE IF i = 1 THEN C(2, 0) ELSE IF j = 1 THEN C(0, 1) ELSE C(1, 0)), MZero(2, 2), FALSE, TA, FALSE),
      Leaf("matrix", <<"B", "">>, "U", "U", Mk(2, 2, 0, LAMBDA i, j : IF i = 2 /\ j = 1 THEN C(0, 0) ELSE C(1, 0)), MZero(2, 2), FALSE, TA, FALSE)}
\cup {Leaf("null", <<"", "">>, "U", "U", MZero(2, 2), MZero(2, 2), FALSE, TA, FALSE)}
\* Hartley / FFT of a 2-pixel grid with distance 1/2: TIMES = (1/2) [[1,1],[1,-1]] (volume of the position space);
\* its inverse is [[1,1],[1,-1]]
\cup {Leaf(kd, <<"", "">>, "U", "H", Mk(2, 2, 1, LAMBDA i, j : IF i = 2 /\ j = 2 THEN C(-1, 0) ELSE C(1, 0)),
           Mk(2, 2, 0, LAMBDA i, j : IF i = 2 /\ j = 2 THEN C(-1, 0) ELSE C(1, 0)), TRUE, ALL, FALSE) : kd \in {"hartley", "fft"}}
\* block diagonals on MD from two diagonal pairs; "id" = the key is left out (identity block)
\cup {Leaf("block", <<p[1] \o "," \o p[2], q[1] \o "," \o q[2]>>, "MD", "MD", Block(Diag2(Sc(p[1]), Sc(p[2])), Diag2(Sc(q[1]), Sc(q[2]))),
           Block(Diag2Inv(Sc(p[1]), Sc(p[2])), Diag2Inv(Sc(q[1]), Sc(q[2]))), TRUE, ALL,
           Sc(p[1]).realpos /\ Sc(p[2]).realpos /\ Sc(q[1]).realpos /\ Sc(q[2]).realpos) : p \in {<<"1", "2">>, <<"i", "-1">>}, q \in {<<"2", "1/2">>}}
\cup {Leaf("block", <<p[1] \o "," \o p[2], "id">>, "MD", "MD", Block(Diag2(Sc(p[1]), Sc(p[2])), MId(2)), Block(Diag2Inv(Sc(p[1]), Sc(p[2])), MId(2)), TRUE, ALL,
           Sc(p[1]).realpos /\ Sc(p[2]).realpos) : p \in {<<"1", "2">>, <<"1/2", "1+i">>}}
\* ---- capability bit algebra (modes 1, 2, 4, 8 = TIMES, ADJOINT, INVERSE, ADJOINT_INVERSE) ---------------------------------
Bit(x, k) == (x \div (2 ^ k)) % 2
And(a, b) == Bit(a, 0) * Bit(b, 0) + 2 * Bit(a, 1) * Bit(b, 1) + 4 * Bit(a, 2) * Bit(b, 2) + 8 * Bit(a, 3) * Bit(b, 3)
SwapAdj(c) == Bit(c, 1) + 2 * Bit(c, 0) + 4 * Bit(c, 3) + 8 * Bit(c, 2)
SwapInv(c) == Bit(c, 2) + 2 * Bit(c, 3) + 4 * Bit(c, 0) + 8 * Bit(c, 1)
\* ---- the program ---------------------------------------------------------------------------------------------------
Init == slots = <<>>
Push(x) == Len(slots) < MaxSlots /\ slots' = Append(slots, x)
SI == 1..Len(slots)
E2(op, a, b) == [op |-> op, k |-> "", a |-> <<"", "">>, x |-> a, y |-> b]
FocusLeaves == {l \in Leaves : \/ (l.e.k = "diag" /\ l.e.a \in {<<"1", "2">>, <<"1/2", "1+i">>})
                               \/ l.e.k = "hartley"
                               \/ (l.e.k = "scaling" /\ l.e.a \in {<<"2", "U">>, <<"1+i", "U">>, <<"2", "H">>})
                               \/ (l.e.k = "matrix" /\ l.e.a[1] = "A")}
MkLeaf == \E l \in (IF Focus = "diag" THEN FocusLeaves ELSE Leaves) : Push(l)
MkSum == \E a, b \in SI, neg \in BOOLEAN :
           /\ slots[a].dom = slots[b].dom /\ slots[a].tgt = slots[b].tgt
           /\ Push([e |-> E2(IF neg THEN "sub" ELSE "add", a, b), dom |-> slots[a].dom, tgt |-> slots[a].tgt,
                    M |-> MAdd(slots[a].M, IF neg THEN MNeg(slots[b].M) ELSE slots[b].M), Mi |-> MZero(Dim(slots[a].dom), Dim(slots[a].tgt)),
                    hM |-> slots[a].hM /\ slots[b].hM, hMi |-> FALSE, cap |-> And(TA, And(slots[a].cap, slots[b].cap)),
                    psd |-> ~neg /\ slots[a].psd /\ slots[b].psd,
                    sf |-> ~neg /\ slots[a].sf /\ slots[b].sf, si |-> FALSE])      \* a sum draws forward as the sum of independent draws
MkChain == \E a, b \in SI :
           /\ slots[a].dom = slots[b].tgt
           /\ Push([e |-> E2("chain", a, b), dom |-> slots[b].dom, tgt |-> slots[a].tgt, M |-> MMul(slots[a].M, slots[b].M), Mi |-> MMul(slots[b].Mi, slots[a].Mi),
                    hM |-> slots[a].hM /\ slots[b].hM, hMi |-> slots[a].hMi /\ slots[b].hMi, cap |-> And(slots[a].cap, slots[b].cap), psd |-> FALSE, sf |-> FALSE, si |-> FALSE])
MkAdj == \E a \in SI : Push([e |-> E2("adjoint", a, 0), dom |-> slots[a].tgt, tgt |-> slots[a].dom, M |-> MH(slots[a].M), Mi |-> MH(slots[a].Mi),
                             hM |-> slots[a].hM, hMi |-> slots[a].hMi, cap |-> SwapAdj(slots[a].cap), psd |-> slots[a].psd, sf |-> slots[a].sf, si |-> slots[a].si])
MkInv == \E a \in SI : Push([e |-> E2("inverse", a, 0), dom |-> slots[a].tgt, tgt |-> slots[a].dom, M |-> slots[a].Mi, Mi |-> slots[a].M,
                             hM |-> slots[a].hMi, hMi |-> slots[a].hM, cap |-> SwapInv(slots[a].cap), psd |-> slots[a].psd, sf |-> slots[a].si, si |-> slots[a].sf])
MkNeg == \E a \in SI : Push([e |-> E2("neg", a, 0), dom |-> slots[a].dom, tgt |-> slots[a].tgt, M |-> MNeg(slots[a].M), Mi |-> MNeg(slots[a].Mi),
                             hM |-> slots[a].hM, hMi |-> slots[a].hMi, cap |-> slots[a].cap, psd |-> FALSE, sf |-> FALSE, si |-> FALSE])
MkScale == \E a \in SI, s \in Scalars :
             Push([e |-> [op |-> "scale", k |-> s.nm, a |-> <<"", "">>, x |-> a, y |-> 0], dom |-> slots[a].dom, tgt |-> slots[a].tgt,
                   M |-> MScale(slots[a].M, s.c, s.k), Mi |-> MScale(slots[a].Mi, s.ic, s.ik), hM |-> slots[a].hM, hMi |-> slots[a].hMi, cap |-> slots[a].cap,
                   psd |-> slots[a].psd /\ s.realpos, sf |-> FALSE, si |-> FALSE])
\* SandwichOperator.make(bun, cheese) = bun^H cheese bun
MkSandwich == \E a, b \in SI :
             /\ slots[b].dom = slots[b].tgt /\ slots[a].tgt = slots[b].dom
             /\ Push([e |-> E2("sandwich", a, b), dom |-> slots[a].dom, tgt |-> slots[a].dom,
                      M |-> MMul(MH(slots[a].M), MMul(slots[b].M, slots[a].M)), Mi |-> MMul(slots[a].Mi, MMul(slots[b].Mi, MH(slots[a].Mi))),
                      hM |-> slots[a].hM /\ slots[b].hM, hMi |-> slots[a].hMi /\ slots[b].hMi,
                      cap |-> And(And(SwapAdj(slots[a].cap), slots[b].cap), slots[a].cap), psd |-> slots[b].psd,
                      \* bun^H cheese bun draws forward as bun^H(draw cheese); from the inverse as bun^-1(draw cheese^-1) if bun is invertible
                      sf |-> slots[b].sf, si |-> slots[b].si /\ Bit(slots[a].cap, 2) = 1])
Next == MkLeaf \/ MkSum \/ MkChain \/ MkAdj \/ MkInv \/ MkNeg \/ MkScale \/ MkSandwich
Spec == Init /\ [][Next]_slots
Last == slots[Len(slots)]
\* ---- design-level laws on the denotations (every state) ----------------------------------------------------------------
InvLaw == \A i \in SI : (slots[i].hM /\ slots[i].hMi) => MEq(MMul(slots[i].Mi, slots[i].M), MId(Dim(slots[i].dom)))
CapLaw == \A i \in SI : (Bit(slots[i].cap, 0) = 1 => slots[i].hM) /\ (Bit(slots[i].cap, 2) = 1 => slots[i].hMi)
Shapes == \A i \in SI : slots[i].M.n = Dim(slots[i].tgt) /\ slots[i].M.m = Dim(slots[i].dom)
\* the four tables of linear_operator.py form an action of Z2 x Z2 on capability sets
TableLaw == \A c \in 0..15 : SwapAdj(SwapAdj(c)) = c /\ SwapInv(SwapInv(c)) = c /\ SwapAdj(SwapInv(c)) = SwapInv(SwapAdj(c))
ASSUME TableLaw
\* a positive semi-definite slot is Hermitian with non-negative real diagonal
\* whatever must be samplable is a covariance: Hermitian PSD, and for inverse draws the inverse is defined
SampLaw == \A i \in SI : (slots[i].sf => slots[i].psd /\ slots[i].hM) /\ (slots[i].si => slots[i].hMi)
PsdLaw == \A i \in SI : slots[i].psd => (slots[i].dom = slots[i].tgt /\ MEq(slots[i].M, MH(slots[i].M)) /\ \A d \in Ix(slots[i].M.n) : Ent(slots[i].M, d, d)[1] >= 0 /\ Ent(slots[i].M, d, d)[2] = 0)
MatJ(A) == [n |-> A.n, m |-> A.m, k |-> A.k, rows |-> [i \in Ix(A.n) |-> [j \in Ix(A.m) |-> [re |-> Ent(A, i, j)[1], im |-> Ent(A, i, j)[2]]]]]
Emit == (EmitAll /\ Len(slots) = MaxSlots) =>
           PrintT(ToJson([prog |-> [i \in SI |-> slots[i].e], invdef |-> [i \in SI |-> slots[i].hMi], dom |-> Last.dom, tgt |-> Last.tgt, M |-> MatJ(Last.M), Mi |-> MatJ(Last.Mi),
                          hM |-> Last.hM, hMi |-> Last.hMi, rcap |-> Last.cap, psd |-> Last.psd, sf |-> Last.sf, si |-> Last.si]))
=============================================================================
