----------------------------- MODULE NewtonPair -----------------------------
(* C17.  Bookkeeping of one Newton-CG minimisation in nifty.re.optimize: the eager `_newton_cg` (for/else over 9 trial
   step lengths, reset of the direction after the 6th failure, abort after the 9th) and the compiled
   `_static_newton_cg` + `_line_search_successive_halving` (every jnp.where in source order), driven by the same
   environment per iteration:
     trials[k]   the k-th trial point has an energy <= the current energy
     dirZero     the CG sub-solver returned a zero step
     smallStep   descent_norm <= xtol          smallDiff   0 <= energy decrease < absdelta
   moved counts the iterations that accepted a point different from the current one. *)
EXTENDS Integers, Sequences, TLC
CONSTANTS MaxIter, MinIter, HasAbsdelta
VARIABLES i, trials, dirZero, smallStep, smallDiff, e, s
vars == <<i, trials, dirZero, smallStep, smallDiff, e, s>>
Trials9 == [1..9 -> BOOLEAN]
\* both machines depend on a trial vector only through its first TRUE entry: the environment chooses among the ten
\* vectors with a single TRUE (or none) and the all-TRUE vector; recorded runs may carry any vector (NewtonTrace)
TrialEnv == {[k \in 1..9 |-> k = j] : j \in 0..9} \cup {[k \in 1..9 |-> TRUE]}
M0 == [run |-> TRUE, status |-> -2, nit |-> 0, moved |-> 0, lastTrial |-> 0, uphill |-> FALSE, stuck |-> FALSE]
Init == /\ i = 0 /\ trials \in TrialEnv /\ dirZero \in BOOLEAN /\ smallStep \in BOOLEAN /\ smallDiff \in BOOLEAN
        /\ e = M0 /\ s = M0
FirstOK(t) == IF \E k \in 1..9 : t[k] THEN CHOOSE k \in 1..9 : t[k] /\ \A j \in 1..(k - 1) : ~t[j] ELSE 0
\* ---- eager: for naive_ls_it in range(9): ... else: abort (status -1) --------------------------------------
EagerIter(m, t, dz, sstep, sdiff, it) ==
  IF ~m.run THEN m ELSE
  LET k == IF dz THEN 1 ELSE FirstOK(t) IN          \* a zero direction reproduces the energy: accepted at trial 1
  IF k = 0 THEN [m EXCEPT !.run = FALSE, !.status = -1, !.nit = it, !.lastTrial = 0]
  ELSE LET naive == k - 1
           minCond == naive < 2 /\ it > MinIter
           m1 == [m EXCEPT !.nit = it, !.moved = IF dz THEN @ ELSE @ + 1, !.lastTrial = k, !.uphill = @ \/ (~dz /\ ~t[k])] IN
       IF HasAbsdelta /\ sdiff /\ minCond THEN [m1 EXCEPT !.run = FALSE, !.status = 0]
       ELSE IF (sstep \/ dz) /\ it > MinIter THEN [m1 EXCEPT !.run = FALSE, !.status = 0]    \* descent_norm <= xtol
       ELSE IF it = MaxIter THEN [m1 EXCEPT !.run = FALSE, !.status = it]
       ELSE m1
\* ---- compiled: while_loop over the trials with do_abort at index 8, then the jnp.where chain -------------------
StaticIter(m, t, dz, sstep, sdiff, it) ==
  IF ~(m.status < -1) THEN m ELSE
  LET k == IF dz THEN 1 ELSE FirstOK(t)
      lsFail == k = 0
      st1 == IF lsFail THEN -1 ELSE m.status
      moved1 == IF st1 < -1 /\ ~dz THEN m.moved + 1 ELSE m.moved
      minCond == (k - 1 < 2) /\ it > MinIter
      st2 == IF HasAbsdelta /\ sdiff /\ minCond /\ st1 # -1 THEN 0 ELSE st1
      st3 == IF (sstep \/ dz \/ lsFail) /\ it > MinIter /\ st2 # -1 THEN 0 ELSE st2   \* grad_scaling = 0 when the search failed
      st4 == IF it = MaxIter /\ st3 < -1 THEN it ELSE st3
  IN [m EXCEPT !.status = st4, !.nit = it, !.moved = moved1, !.lastTrial = k, !.run = st4 < -1,
               !.uphill = @ \/ (k > 0 /\ ~dz /\ ~t[k])]
Step == /\ i < MaxIter /\ (e.run \/ s.status < -1)
        /\ e' = EagerIter(e, trials, dirZero, smallStep, smallDiff, i + 1)
        /\ s' = StaticIter(s, trials, dirZero, smallStep, smallDiff, i + 1)
        /\ i' = i + 1
        /\ trials' \in TrialEnv /\ dirZero' \in BOOLEAN /\ smallStep' \in BOOLEAN /\ smallDiff' \in BOOLEAN
Done == ~(i < MaxIter /\ (e.run \/ s.status < -1)) /\ UNCHANGED vars
Next == Step \/ Done
Spec == Init /\ [][Next]_vars
Finished == ~e.run /\ ~(s.status < -1)
\* ---- properties (C17) -------------------------------------------------------------------------------------
EStatus == IF e.status = -2 THEN e.nit ELSE e.status
SameStatus == Finished => EStatus = s.status               \* eager and compiled agree on convergence ...
SameMoves == Finished => e.moved = s.moved /\ e.nit = s.nit   \* ... and on the accepted steps
NeverUphill == ~e.uphill /\ ~s.uphill                        \* only trial points that do not raise the energy are accepted
\* an iteration one of whose trial lengths lowers the energy does not end the run with the abort status
ProgressE == [][ (e.run /\ ~e'.run /\ e'.status = -1) => (~dirZero /\ \A k \in 1..9 : ~trials[k]) ]_vars
ProgressS == [][ (s.status < -1 /\ s'.status = -1) => (~dirZero /\ \A k \in 1..9 : ~trials[k]) ]_vars
\* vacuity witnesses (expected to be violated)
NeverAborts == ~(Finished /\ e.status = -1)
NeverResets == ~(Finished /\ e.lastTrial > 6)
=============================================================================
