----------------------------- MODULE KLSchedule -----------------------------
(* Beyond the listed properties (DESIGN section 8, item 2).  The schedule normalisation of nifty.cl.minimization.config.OptimizeKLConfig:
   a configuration file has sections  optimization.<id>  each with `total iterations` and comma separated per-iteration entries; the
   documented rules are
     1. repetitions  k*v  expand to k copies of v                                   ("2*5,3*2" -> 5,5,2,2,2)
     2. a list shorter than `total iterations` is filled up with its last value; a longer one is an error
     3. the stages are joined in the order of their integer ids (optimization.-1 before optimization.02 before optimization.10)
     4. the value for global iteration i is the i-th entry of the joined list
   A configuration is a sequence of stages in FILE order: [id, total, items] with items a sequence of <<k, v>> (k = 0: plain entry v).
   `Quirk` = TRUE transcribes what the pinned code does where it deviates from rule 1: an entry list WITHOUT a comma is not expanded
   (its only entry k*v is kept verbatim, reported here as the value -1 = "not an integer"). *)
EXTENDS Integers, Sequences, FiniteSets, TLC, Json
CONSTANTS Quirk
VARIABLES cfg
Ids == {-1, 0, 2, 10}
Items == {<<0, 1>>, <<0, 5>>, <<2, 5>>, <<3, 2>>, <<1, 7>>}
RECURSIVE Rep(_, _)
Rep(v, k) == IF k = 0 THEN <<>> ELSE <<v>> \o Rep(v, k - 1)
RECURSIVE Expand(_)
Expand(items) == IF items = <<>> THEN <<>> ELSE LET h == Head(items) IN (IF h[1] = 0 THEN <<h[2]>> ELSE Rep(h[2], h[1])) \o Expand(Tail(items))
ExpandStage(items) == IF Quirk /\ Len(items) = 1 /\ items[1][1] # 0 THEN <<-1>> ELSE Expand(items)
Fill(l, total) == l \o Rep(l[Len(l)], total - Len(l))
StageOk(st) == Len(ExpandStage(st.items)) <= st.total
StageList(st) == Fill(ExpandStage(st.items), st.total)
\* stages sorted by id
Sorted(stages) == LET n == Len(stages) IN [k \in 1..n |-> stages[CHOOSE i \in 1..n : Cardinality({j \in 1..n : stages[j].id < stages[i].id}) = k - 1]]
RECURSIVE Concat(_)
Concat(ls) == IF ls = <<>> THEN <<>> ELSE Head(ls) \o Concat(Tail(ls))
Joined(stages) == LET s == Sorted(stages) IN Concat([k \in 1..Len(s) |-> StageList(s[k])])
RECURSIVE SumTot(_)
SumTot(stages) == IF stages = <<>> THEN 0 ELSE Head(stages).total + SumTot(Tail(stages))
Valid(stages) == \A k \in 1..Len(stages) : StageOk(stages[k])
ItemSeqs == {<<a>> : a \in Items} \cup {<<a, b>> : a \in Items, b \in Items}
StageSet == [id : Ids, total : 1..5, items : ItemSeqs]
Small == {s \in StageSet : s.total <= 3 /\ (Len(s.items) = 1 \/ s.items = <<<<2, 5>>, <<0, 1>>>>)}
Init == cfg \in {<<a>> : a \in StageSet} \cup {<<a, b>> : a \in {s \in Small : s.id \in {2, 10}}, b \in {s \in Small : s.id \in {-1, 0}}}     \* two stages: file order opposite to id order
Next == UNCHANGED cfg
Spec == Init /\ [][Next]_cfg
\* ---- laws ------------------------------------------------------------------------------------------------------------------
\* the joined schedule has one entry per global iteration, and every stage owns exactly its own range of iterations
LengthLaw == Valid(cfg) => Len(Joined(cfg)) = SumTot(cfg)
RangeLaw == Valid(cfg) => LET s == Sorted(cfg) IN \A k \in 1..Len(s) :
               SubSeq(Joined(cfg), SumTot(SubSeq(s, 1, k - 1)) + 1, SumTot(SubSeq(s, 1, k))) = StageList(s[k])
\* normalising a normalised configuration changes nothing (the driver writes the normalised file next to its output)
Normal(stages) == <<[id |-> 0, total |-> SumTot(stages), items |-> [i \in 1..Len(Joined(stages)) |-> <<0, Joined(stages)[i]>>]]>>
Idempotent == (Valid(cfg) /\ ~Quirk) => Joined(Normal(cfg)) = Joined(cfg)
\* without the quirk every value of the schedule is one of the written values
ValuesLaw == (Valid(cfg) /\ ~Quirk) => \A i \in 1..Len(Joined(cfg)) : Joined(cfg)[i] \in {1, 2, 5, 7}
Emit == PrintT(ToJson([stages |-> cfg, valid |-> Valid(cfg), joined |-> IF Valid(cfg) THEN Joined(cfg) ELSE <<>>, total |-> SumTot(cfg)]))
=============================================================================
