------------------------------- MODULE CGPair -------------------------------
(* C15.  Control skeletons of the two JAX conjugate-gradient solvers of nifty.re.conjugate_gradient:
     Eager   _cg          a Python loop with `break`s, transcribed in source order
     Static  _static_cg   one lax.while_loop body in which every `jnp.where` is applied in source order
   Both are driven by the same sequence of environment valuations: the floating-point facts the control depends on
   in iteration i (sign of the curvature d.Ad, gamma tiny, norm < resnorm, energy increased, energy decrease < absdelta).
   Positions are abstract tags <<base, k>>: k regular CG updates applied to the start ("x0"/"zero"), or "sd": the
   steepest-descent step from the start that both solvers take when the very first direction has negative curvature.

   Pinned = TRUE transcribes two defects of the pinned snapshot (D3: the compiled fallback step used another scale,
   tag "sdE"; D4: the compiled solver overwrote info = 0 at i = maxiter) so that they are refuted on the model. *)
EXTENDS Integers, Sequences, TLC
CONSTANTS HPD,                \* environment restricted to Hermitian positive definite behaviour (curvature > 0, no energy increase)
          MaxIter, MinIter, HasResnorm, HasAbsdelta, RaiseNonPosDef, HasX0, Pinned
VARIABLES it, env, e, s, hist
vars == <<it, env, e, s, hist>>
Curv == {"pos", "zero", "neg"}
EnvAll == [curv : Curv, gammaTiny : BOOLEAN, normOK : BOOLEAN, eInc : BOOLEAN, absOK : BOOLEAN]
\* an energy increase is a negative decrease, hence below any positive absdelta
Phys == {v \in EnvAll : v.eInc => v.absOK}
Env == IF HPD THEN {v \in Phys : v.curv = "pos" /\ ~v.eInc} ELSE Phys
StartPos == IF HasX0 THEN "x0" ELSE "zero"
M0 == [run |-> TRUE, info |-> -1, nit |-> 0, pos |-> <<StartPos, 0>>, raised |-> FALSE, why |-> "none"]
Init == /\ it = 0 /\ env \in Env /\ hist = <<>>
        /\ e = M0 /\ s = [M0 EXCEPT !.info = -2]
Upd(p) == <<p[1], p[2] + 1>>
Stop(m, i, info, pos, why) == [m EXCEPT !.run = FALSE, !.info = info, !.nit = i, !.pos = pos, !.why = why]
Raise(m, i, pos, why) == [m EXCEPT !.run = FALSE, !.raised = TRUE, !.nit = i, !.pos = pos, !.why = why]
\* ---------- eager: one loop iteration i, in source order ---------------------------------------------------
EagerStep(m, v, i) ==
  IF ~m.run THEN m ELSE
  IF v.curv = "zero" THEN
     IF RaiseNonPosDef THEN Raise(m, i, m.pos, "zero-curvature") ELSE Stop(m, i, 0, m.pos, "zero-curvature")
  ELSE IF v.curv = "neg" THEN
     IF RaiseNonPosDef THEN Raise(m, i, m.pos, "negative-curvature")
     ELSE IF i > 1 THEN Stop(m, i, 0, m.pos, "negative-curvature")
     ELSE Stop(m, i, 0, <<"sd", 0>>, "negative-curvature")
  ELSE LET p == Upd(m.pos) IN
     IF v.gammaTiny THEN Stop(m, i, 0, p, "gamma")
     ELSE IF HasResnorm /\ v.normOK /\ i >= MinIter THEN Stop(m, i, 0, p, "resnorm")
     ELSE IF v.eInc THEN (IF RaiseNonPosDef THEN Raise(m, i, p, "energy-increase") ELSE Stop(m, i, i, p, "energy-increase"))
     ELSE IF HasAbsdelta /\ v.absOK /\ i >= MinIter THEN Stop(m, i, 0, p, "absdelta")
     ELSE IF i = MaxIter THEN Stop(m, i, i, p, "maxiter")          \* loop exhausted: info = i
     ELSE [m EXCEPT !.nit = i, !.pos = p]
\* ---------- static: one while_loop body, every jnp.where in source order -----------------------------------
StaticStep(m, v, i) ==
  IF ~(m.info < -1) THEN m ELSE
  LET nonpos == v.curv # "pos"
      info1 == IF nonpos THEN (IF RaiseNonPosDef THEN -1 ELSE 0) ELSE m.info
      alphaZero == nonpos /\ ~RaiseNonPosDef
      pos1 == IF alphaZero THEN m.pos ELSE Upd(m.pos)      \* with raise and curv <= 0 the update is garbage; info = -1 anyway
      pos2 == IF v.curv = "neg" /\ ~RaiseNonPosDef /\ i <= 1 THEN <<(IF Pinned THEN "sdE" ELSE "sd"), 0>> ELSE pos1
      gT == IF alphaZero THEN FALSE ELSE v.gammaTiny       \* the residual is unchanged when alpha = 0
      info2 == IF gT /\ info1 # -1 THEN 0 ELSE info1
      nOK == IF alphaZero THEN FALSE ELSE v.normOK
      info3 == IF HasResnorm /\ nOK /\ i >= MinIter /\ info2 # -1 THEN 0 ELSE info2
      inc == IF alphaZero THEN FALSE ELSE v.eInc
      info4 == IF inc THEN (IF RaiseNonPosDef THEN -1 ELSE i) ELSE info3
      aOK == IF alphaZero THEN TRUE ELSE v.absOK           \* energy_diff = 0 < absdelta when nothing moved
      info5 == IF HasAbsdelta /\ aOK /\ i >= MinIter /\ info4 # -1 THEN 0 ELSE info4
      info6 == IF Pinned THEN (IF i >= MaxIter /\ info5 # -1 THEN i ELSE info5)
               ELSE (IF i >= MaxIter /\ info5 < -1 THEN i ELSE info5)
      why == IF nonpos THEN (IF v.curv = "zero" THEN "zero-curvature" ELSE "negative-curvature")
             ELSE IF inc THEN "energy-increase"
             ELSE IF gT THEN "gamma" ELSE IF HasResnorm /\ nOK /\ i >= MinIter THEN "resnorm"
             ELSE IF HasAbsdelta /\ aOK /\ i >= MinIter THEN "absdelta" ELSE IF i >= MaxIter THEN "maxiter" ELSE "none"
  IN [m EXCEPT !.info = info6, !.nit = i, !.pos = pos2, !.run = info6 < -1, !.raised = (info6 = -1), !.why = IF info6 < -1 THEN "none" ELSE why]
Step == /\ it < MaxIter
        /\ (e.run \/ s.info < -1)
        /\ e' = EagerStep(e, env, it + 1)
        /\ s' = StaticStep(s, env, it + 1)
        /\ hist' = Append(hist, env)
        /\ it' = it + 1
        /\ env' \in Env
Done == /\ ~(it < MaxIter /\ (e.run \/ s.info < -1)) /\ UNCHANGED vars
Next == Step \/ Done
Spec == Init /\ [][Next]_vars
Finished == ~e.run /\ ~(s.info < -1)
\* ---- properties (C15) -----------------------------------------------------------------------------------
\* (1) the two solvers agree on verdict, iteration count and solution
SameVerdict == Finished => (IF e.raised THEN s.info = -1 ELSE e.info = s.info)
SameNit == Finished => e.nit = s.nit
SamePos == (Finished /\ ~e.raised) => e.pos = s.pos
\* (2) verdict law: success only for a legitimate reason; a reason at exactly i = MaxIter still gives success
Legit(m) == m.why \in {"gamma", "resnorm", "absdelta"} \/ (~RaiseNonPosDef /\ m.why \in {"zero-curvature", "negative-curvature"})
VerdictLawE == (~e.run /\ ~e.raised) => (e.info = 0 <=> Legit(e))
VerdictLawS == (~(s.info < -1) /\ s.info # -1) => (s.info = 0 <=> Legit(s))
\* (3) non-HPD law: failure is reported when asked to; otherwise the solver stops at the steepest-descent point iff the
\*     very first direction has negative curvature, else at its last regular iterate
NonHPDLawE == (~e.run /\ e.why \in {"zero-curvature", "negative-curvature"}) =>
                 IF RaiseNonPosDef THEN e.raised
                 ELSE e.info = 0 /\ (e.pos[1] = "sd" <=> (e.why = "negative-curvature" /\ e.nit = 1))
NonHPDLawS == (~(s.info < -1) /\ s.why \in {"zero-curvature", "negative-curvature"}) =>
                 IF RaiseNonPosDef THEN s.info = -1
                 ELSE s.info = 0 /\ (s.pos[1] = "sd" <=> (s.why = "negative-curvature" /\ s.nit = 1))
\* vacuity witnesses (expected to be violated)
NeverConvergesAtLimit == ~(Finished /\ e.info = 0 /\ e.nit = MaxIter /\ e.why \in {"resnorm", "absdelta"})
NeverSD == ~(Finished /\ e.pos[1] = "sd")
=============================================================================
