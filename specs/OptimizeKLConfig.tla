-------------------------- MODULE OptimizeKLConfig --------------------------
(* C27.  Option handling of the classic VI driver nifty.cl.optimize_kl: the driver's phases as a state machine over
   an option vector, for up to two consecutive calls in one process (the driver keeps module-level state).

   opt       the option vector of the running call (record, see OptDom)
   pc        phase of the driver
   it        global iteration index
   depth     depth of the global RNG stack relative to the caller's
   gOut      the module-level output directory: 0 = None, otherwise the number of the call that set it
   files     set of <<call whose directory it is, file class, name>> written so far
   insp      iterations for which inspect_callback has been called
   done      iterations that were executed (minimised)
   nret      number of samples in the list the call will return
   status    "run" | "done" | an error tag

   Fixed = TRUE is the documented behaviour; Fixed = FALSE transcribes three defects of the pinned snapshot
   (D7: dry run / terminate callback skip pop_sseq, D8: unbound iteration variable, D24: stale module globals)
   so that their refutation can be reproduced on the model. *)
EXTENDS Integers, FiniteSets, Sequences, TLC, Json, IOUtils
CONSTANTS NIter, Fixed, TwoCalls, FromFile, EmitPred
VARIABLES call, opt, pc, it, depth, gOut, files, insp, done, nret, status
vars == <<call, opt, pc, it, depth, gOut, files, insp, done, nret, status>>

BOOL == {"0", "1"}
OptDom == [outdir : BOOL, sanity : BOOL, strategy : {"all", "latest"}, eplot : BOOL, mplot : BOOL,
           constants : BOOL, pointest : BOOL, nsamp : {"0", "1", "2", "fn"}, transitions : BOOL,
           inspect : {"none", "1", "2"}, terminate : BOOL, fresh : {"1", "fn"}, dry : BOOL, retpos : BOOL,
           export : BOOL, nonlin : BOOL, initpos : BOOL, initidx : BOOL, resume : BOOL]
\* reduced option space for the two-call configuration (the options that touch module-level / global state)
Small == {o \in OptDom : o.eplot = "0" /\ o.mplot = "0" /\ o.constants = "0" /\ o.pointest = "0" /\ o.nsamp = "1"
                         /\ o.transitions = "0" /\ o.inspect = "none" /\ o.fresh = "1" /\ o.retpos = "0" /\ o.export = "0"
                         /\ o.nonlin = "0" /\ o.initpos = "0" /\ o.initidx = "0" /\ o.resume = "0"}
\* options that do not influence the control skeleton are fixed in the exhaustive configuration (they are part of the
\* vectors that are replayed into the driver)
Core == {o \in OptDom : o.constants = "0" /\ o.pointest = "0" /\ o.transitions = "0" /\ o.nonlin = "0" /\ o.initpos = "0"
                        /\ o.retpos = "0" /\ o.fresh = "1"}
\* documented preconditions
Valid(o) == /\ (o.resume = "1" => o.outdir = "1" /\ o.initidx = "0")
            /\ (o.initidx = "1" => NIter >= 2)
Given == IF FromFile THEN JsonDeserialize(IOEnv.OPT_FILE) ELSE <<>>
GivenSet == {Given[i] : i \in 1..Len(Given)}

NSamp(o, i) == CASE o.nsamp = "0" -> 0 [] o.nsamp = "1" -> 1 [] o.nsamp = "2" -> 2 [] OTHER -> (IF i = 0 THEN 1 ELSE 0)
\* resume = "1": an earlier call with the same options finished iteration 0 (it wrote nothing in a dry run)
First(o) == IF o.initidx = "1" \/ (o.resume = "1" /\ o.dry = "0") THEN 1 ELSE 0
Name(o, i) == IF o.strategy = "all" THEN i ELSE -1          \* -1 stands for "latest"

Init == /\ call = 1 /\ pc = "validate" /\ it = 0 /\ depth = 0 /\ gOut = 0 /\ files = {} /\ insp = <<>> /\ done = <<>>
        /\ nret = 1 /\ status = "run"
        /\ opt \in (IF FromFile THEN GivenSet ELSE IF TwoCalls THEN Small ELSE {o \in Core : Valid(o)})
Run == status = "run"
U(vs) == UNCHANGED vs

Validate == /\ Run /\ pc = "validate" /\ pc' = "dirs" /\ it' = First(opt)
            /\ U(<<call, opt, depth, gOut, files, insp, done, nret, status>>)
\* "if output_directory is not None": module globals, directories, random state; resume without a marker = fresh start
Dirs == /\ Run /\ pc = "dirs"
        /\ IF opt.outdir = "1"
           THEN IF opt.sanity = "0" /\ ~Fixed
                THEN status' = "unbound-local" /\ U(<<pc, gOut, files>>)
                ELSE /\ gOut' = call /\ pc' = "push" /\ U(status)
                     /\ files' = files \cup {<<call, "rstate", -2>>}
           ELSE /\ gOut' = (IF Fixed THEN 0 ELSE gOut) /\ pc' = "push" /\ U(<<status, files>>)
        /\ U(<<call, opt, it, depth, insp, done, nret>>)
Push == /\ Run /\ pc = "push" /\ depth' = depth + 1 /\ pc' = (IF opt.dry = "1" THEN "dryskip" ELSE "work")
        /\ U(<<call, opt, it, gOut, files, insp, done, nret, status>>)
Advance == IF it + 1 < NIter THEN it' = it + 1 /\ pc' = "push" ELSE it' = it /\ pc' = "return"
\* dry_run: everything up to the Hamiltonian is built, nothing is minimised or written
DrySkip == /\ Run /\ pc = "dryskip"
           /\ depth' = (IF Fixed THEN depth - 1 ELSE depth)
           /\ Advance
           /\ U(<<call, opt, gOut, files, insp, done, nret, status>>)
\* minimisation (MAP for 0 samples, sampled KL otherwise), then save / reports / callbacks
Work == /\ Run /\ pc = "work"
        /\ done' = Append(done, it)
        /\ nret' = (IF NSamp(opt, it) = 0 THEN 1 ELSE 2 * NSamp(opt, it))
        /\ LET nm == Name(opt, it)
               own == IF opt.outdir = "1"
                      THEN {<<call, "samples", nm>>, <<call, "marker", -2>>, <<call, "ehist", nm>>}
                           \cup (IF opt.eplot = "1" THEN {<<call, "eplot", nm>>} ELSE {})
                           \cup (IF opt.export = "1" THEN {<<call, "export", nm>>} ELSE {})
                      ELSE {}
               \* minisanity / counting reports follow the module GLOBAL, not the argument
               rep == IF gOut # 0
                      THEN {<<gOut, "minisanity.txt", -2>>, <<gOut, "counting.txt", -2>>, <<gOut, "mhist", Name(opt, it)>>}
                           \cup (IF opt.mplot = "1" THEN {<<gOut, "mplot", Name(opt, it)>>} ELSE {})
                      ELSE {}
           IN files' = files \cup own \cup rep
        /\ pc' = "inspect" /\ U(<<call, opt, it, depth, gOut, insp, status>>)
Inspect == /\ Run /\ pc = "inspect"
           /\ insp' = (IF opt.inspect = "none" THEN insp ELSE Append(insp, it))
           /\ pc' = "terminate" /\ U(<<call, opt, it, depth, gOut, files, done, nret, status>>)
\* terminate_callback (true from the first executed iteration on): leave the loop
Terminate == /\ Run /\ pc = "terminate"
             /\ IF opt.terminate = "1"
                THEN depth' = (IF Fixed THEN depth - 1 ELSE depth) /\ pc' = "return" /\ it' = it
                ELSE depth' = depth - 1 /\ Advance
             /\ U(<<call, opt, gOut, files, insp, done, nret, status>>)
Return == /\ Run /\ pc = "return"
          /\ IF TwoCalls /\ call = 1
             THEN /\ \E o \in Small : opt' = o
                  /\ call' = 2 /\ pc' = "validate" /\ it' = 0 /\ insp' = <<>> /\ done' = <<>> /\ nret' = 1 /\ U(status)
             ELSE status' = "done" /\ U(<<call, opt, pc, it, insp, done, nret>>)
          /\ U(<<depth, gOut, files>>)
Stutter == status # "run" /\ U(vars)
Next == Validate \/ Dirs \/ Push \/ DrySkip \/ Work \/ Inspect \/ Terminate \/ Return \/ Stutter
Spec == Init /\ [][Next]_vars

\* ---- properties (C27) ------------------------------------------------------------------------------------
Completes == status \in {"run", "done"}                         \* every valid option vector runs to completion
RngRestored == pc = "return" => depth = 0                        \* the global RNG stack is left as it was found
OwnFilesOnly == \A f \in files : (f[1] = call) => opt.outdir = "1"      \* nothing is written without an output directory
\* a call writes only into its own directory: no file of another call's directory appears during this call
CallFiles(c) == {f \in files : f[1] = c}
FilesFollowOptions == [][ call' = call => \A c \in {1, 2} : c # call => CallFiles(c)' = CallFiles(c) ]_vars
ReturnConsistent == status = "done" =>
                       /\ nret = (IF Len(done) = 0 THEN 1 ELSE IF NSamp(opt, done[Len(done)]) = 0 THEN 1 ELSE 2 * NSamp(opt, done[Len(done)]))
                       /\ (opt.inspect # "none" => insp = done)
                       /\ (opt.dry = "1" => done = <<>>)
                       /\ (opt.terminate = "1" /\ opt.dry = "0" => Len(done) = 1)
                       /\ (opt.terminate = "0" /\ opt.dry = "0" => Len(done) = NIter - First(opt))
\* vacuity witnesses (expected to be violated)
NeverDry == ~(status = "done" /\ opt.dry = "1")
NeverTerminates == ~(status = "done" /\ opt.terminate = "1" /\ Len(done) = 1)
Pred == [opt |-> opt, status |-> status, depth |-> depth, nret |-> nret, insp |-> insp, done |-> done,
         files |-> {[cls |-> f[2], name |-> f[3]] : f \in CallFiles(call)}]
Emit == (EmitPred /\ status # "run") => PrintT(ToJson(Pred))
=============================================================================
