---------------------------- MODULE SampleListFS ----------------------------
(* C26 (persistence part).  Files written and read by nifty.cl sample lists in ONE directory under base names that
   are prefixes of each other ("s_1", "s_10" - like iteration_1 / iteration_10 of the VI driver).
     <base>.<i>.pickle   one per sample, content tag <<save id, index, residual?>>
     <base>.mean.pickle  for residual lists, content = save id
   save(overwrite): the master unlinks index n ("next sample"; fails without overwrite if it exists), a plain list with
   overwrite removes a stale mean file, every rank (re)writes its own share of the indices in order (without overwrite
   the first existing file aborts that rank: partial effects), the master writes the mean if all ranks succeeded.
   load with T' ranks: n = number of consecutive indices from 0, each rank reads its share; rank order = index order. *)
EXTENDS Integers, Sequences, FiniteSets, TLC, Json
CONSTANTS MaxN, MaxT, MaxOps, KeepHist, EmitHist
Bases == {"s_1", "s_10"}
NoFile == <<-1, -1, FALSE>>
VARIABLES files, mean, last, nsave, nops, hist
vars == <<files, mean, last, nsave, nops, hist>>
Idx == 0..MaxN
NoSave == [n |-> -1, id |-> -1, residual |-> FALSE, valid |-> FALSE]
Init == /\ files = [b \in Bases |-> [i \in Idx |-> NoFile]] /\ mean = [b \in Bases |-> -1]
        /\ last = [b \in Bases |-> NoSave] /\ nsave = 0 /\ nops = 0 /\ hist = <<>>
\* nifty.cl.utilities.shareRange
Lo(w, s, r) == r * (w \div s) + (IF r < w % s THEN r ELSE w % s)
Hi(w, s, r) == Lo(w, s, r) + (w \div s) + (IF r < w % s THEN 1 ELSE 0)
Share(n, T, r) == Lo(n, T, r)..(Hi(n, T, r) - 1)
Log(rec) == /\ nops' = nops + 1 /\ hist' = IF KeepHist THEN Append(hist, rec) ELSE hist
\* what rank r manages to write without overwrite: its indices in order up to the first existing file
Prefix(b, n, T, r) == {i \in Share(n, T, r) : \A j \in Share(n, T, r) : j <= i => files[b][j] = NoFile}
Save(b, n, T, residual, ow) ==
  /\ nops < MaxOps /\ n \in 1..MaxN /\ T \in 1..MaxT
  /\ LET id == nsave + 1
         endExists == n <= MaxN /\ files[b][n] # NoFile
         failEnd == ~ow /\ endExists
         written == IF ow THEN 0..(n - 1) ELSE UNION {Prefix(b, n, T, r) : r \in 0..(T - 1)}
         failWrite == ~failEnd /\ written # 0..(n - 1)
         okAll == ~failEnd /\ ~failWrite
         meanExists == mean[b] # -1
         failMean == okAll /\ residual /\ ~ow /\ meanExists
     IN
     /\ files' = [files EXCEPT ![b] = [i \in Idx |->
                     IF failEnd THEN files[b][i]
                     ELSE IF ow /\ i = n THEN NoFile
                     ELSE IF i \in written THEN <<id, i, residual>> ELSE files[b][i]]]
     /\ mean' = [mean EXCEPT ![b] = IF failEnd THEN @
                                   ELSE IF ~residual /\ ow THEN -1                 \* a plain list removes a stale mean file
                                   ELSE IF residual /\ okAll /\ ~failMean THEN id ELSE @]
     /\ last' = [last EXCEPT ![b] = IF okAll /\ ~failMean THEN [n |-> n, id |-> id, residual |-> residual, valid |-> TRUE]
                                   ELSE IF failEnd THEN @ ELSE [@ EXCEPT !.valid = FALSE]]
     /\ nsave' = id
     /\ Log([op |-> "save", base |-> b, n |-> n, T |-> T, residual |-> residual, ow |-> ow, id |-> id,
             outcome |-> IF okAll /\ ~failMean THEN "ok" ELSE "exists", items |-> <<>>])
NFiles(b) == IF files[b][0] = NoFile THEN 0
             ELSE CHOOSE k \in 1..(MaxN + 1) : (\A i \in 0..(k - 1) : files[b][i] # NoFile) /\ (k = MaxN + 1 \/ files[b][k] = NoFile)
\* load the kind of list that was last saved successfully under this base
Load(b, T) ==
  /\ nops < MaxOps /\ last[b].valid /\ T \in 1..MaxT
  /\ LET residual == last[b].residual
         k == NFiles(b)
         out == IF k = 0 THEN "error-no-files"
                ELSE IF residual /\ mean[b] = -1 THEN "error-no-mean"
                ELSE IF \E i \in 0..(k - 1) : files[b][i][3] # residual THEN "error-wrong-kind"
                ELSE IF k = last[b].n /\ (\A i \in 0..(k - 1) : files[b][i] = <<last[b].id, i, residual>>)
                        /\ (residual => mean[b] = last[b].id) THEN "ok"
                ELSE "stale"
     IN Log([op |-> "load", base |-> b, n |-> last[b].n, T |-> T, residual |-> residual, ow |-> FALSE, id |-> last[b].id,
             outcome |-> out, items |-> [i \in 1..k |-> [id |-> files[b][i - 1][1], idx |-> files[b][i - 1][2]]]])
  /\ UNCHANGED <<files, mean, last, nsave>>
\* MaxN = 12 is the long-list configuration: only the lengths around the step from one-digit to two-digit indices are enumerated
NSet == IF MaxN = 12 THEN {2, 10, 11, 12} ELSE 1..MaxN
Next == \/ \E b \in Bases, n \in NSet, T \in 1..MaxT, r \in BOOLEAN, ow \in BOOLEAN : Save(b, n, T, r, ow)
        \/ \E b \in Bases, T \in 1..MaxT : Load(b, T)
Spec == Init /\ [][Next]_vars
\* ---- properties (C26) -------------------------------------------------------------------------------------
\* loading what was saved last returns exactly that list (same samples, same order, any number of tasks on either side);
\* stale samples of a longer earlier list never leak; bases that are prefixes of each other do not interfere
Faithful == \A i \in 1..Len(hist) : hist[i].op = "load" => hist[i].outcome = "ok"
FaithfulNow == \A b \in Bases : last[b].valid =>
                 /\ NFiles(b) = last[b].n
                 /\ \A i \in 0..(last[b].n - 1) : files[b][i] = <<last[b].id, i, last[b].residual>>
                 /\ (last[b].residual => mean[b] = last[b].id)
NoStaleMean == \A b \in Bases : (last[b].valid /\ ~last[b].residual) => mean[b] = -1
\* vacuity witnesses (expected to be violated)
NeverShorter == ~(\E b \in Bases : last[b].valid /\ \E i \in Idx : i > last[b].n /\ files[b][i] # NoFile)
NeverFails == \A b \in Bases : nsave > 0 => (last[b].valid \/ last[b] = NoSave)
\* restriction used for a targeted exhaustive emission: one base name, every save overwrites
OneBaseOverwrite == \A i \in 1..Len(hist) : hist[i].base = "s_1" /\ (hist[i].op = "save" => hist[i].ow)
\* restriction for lists whose indices need two digits (file names <base>.9.pickle, <base>.10.pickle, ...)
BigLists == OneBaseOverwrite /\ \A i \in 1..Len(hist) : hist[i].op = "save" => hist[i].n \in {2, 10, 11, 12}
Emit == (EmitHist /\ nops = MaxOps) => PrintT(ToJson([hist |-> hist]))
=============================================================================
