--------------------------- MODULE FieldImmutTrace ---------------------------
(* Code -> spec: event traces recorded from random drivers of the real Field/AnyArray/NumPy objects.
   Each event names the spec action, its kind and operand, the id of the object it created, whether the write
   landed (fidelity) and whether any live field's content differs from its construction snapshot (property). *)
EXTENDS FieldImmut, TraceLib
VARIABLES tid, l
tvars == <<vars, tid, l>>
E == Traces[tid][l]
TInit == Init /\ tid \in 1..NTraces /\ l = 1
Act(e) ==
  \/ e.a = "NewArray" /\ NewArray(e.k)
  \/ e.a = "ViewOfArr" /\ ViewOfArr(e.x, e.k)
  \/ e.a = "WrapArr" /\ WrapArr(e.x)
  \/ e.a = "ConstructFromArr" /\ ConstructFromArr(e.x, e.k)
  \/ e.a = "ConstructFromWrap" /\ ConstructFromWrap(e.x, e.k)
  \/ e.a = "ConstructFromField" /\ ConstructFromField(e.x)
  \/ e.a = "ConstructViewField" /\ ConstructViewField(e.x)
  \/ e.a = "CopyField" /\ CopyField(e.x, e.k)
  \/ e.a = "AsNumpy" /\ AsNumpy(e.x)
  \/ e.a = "ViewOfWrap" /\ ViewOfWrap(e.x, e.k)
  \/ e.a = "WriteArr" /\ WriteArr(e.x, e.k)
  \/ e.a = "WriteWrapItem" /\ WriteWrapItem(e.x, e.k)
  \/ e.a = "WriteWrapOut" /\ WriteWrapOut(e.x, e.k)
  \/ e.a = "UseField" /\ UseField(e.x, e.k)
  \/ e.a = "UseOp" /\ UseOp(e.x, e.k)
TNext == /\ l <= Len(Traces[tid])
         /\ Act(E)
         /\ ((E.landed /\ ~hist'[1].landed) => PropFail(tid, l, "a write landed through a handle that is write protected after the construction of a field"))
         /\ hist'[1].r = E.r /\ hist'[1].landed = E.landed            \* fidelity: same object ids, same write outcome
         /\ (E.changed => PropFail(tid, l, "a live field differs from its construction snapshot"))
         /\ l' = l + 1 /\ UNCHANGED tid
TSpec == TInit /\ [][TNext]_tvars
Progress == Reached(tid, l - 1)
=============================================================================
