------------------------------- MODULE PyTree -------------------------------
(* C33 (first part).  Pytree vectors: nested dict / tuple / list containers of 1-d integer (Mode = "int") or Gaussian-integer
   (Mode = "cplx", <<re, im>>) arrays.  Flat(t) is the concatenation of the leaves in JAX's order (dict keys sorted, tuple / list
   entries in order).  Every operation of nifty.re.tree_math is defined twice - by recursion over the tree (what the library does) and
   on the flat array (what the property says) - and TLC checks on every instance that the two agree; the instances with both results
   are emitted and replayed into nifty.re.Vector / nifty.re.tree_math.

   Trees:  [k |-> "leaf", v |-> Seq]  |  [k |-> "dict", keys |-> Seq(STRING), kids |-> Seq(tree)]  |  [k |-> "tuple" / "list", kids |-> Seq(tree)]
   (dict keys are stored in *insertion* order, deliberately not sorted) *)
EXTENDS Integers, Sequences, FiniteSets, TLC, Json, SequencesExt
CONSTANTS Mode
VARIABLES inst
Cplx == Mode = "cplx"
\* ---- scalars ------------------------------------------------------------------------------------------------------
Num(x) == IF Cplx THEN <<x, 0>> ELSE x
Add(a, b) == IF Cplx THEN <<a[1] + b[1], a[2] + b[2]>> ELSE a + b
Sub(a, b) == IF Cplx THEN <<a[1] - b[1], a[2] - b[2]>> ELSE a - b
Mul(a, b) == IF Cplx THEN <<a[1] * b[1] - a[2] * b[2], a[1] * b[2] + a[2] * b[1]>> ELSE a * b
Neg(a) == IF Cplx THEN <<-a[1], -a[2]>> ELSE -a
Conj(a) == IF Cplx THEN <<a[1], -a[2]>> ELSE a
Re(a) == IF Cplx THEN a[1] ELSE a
Im(a) == IF Cplx THEN a[2] ELSE 0
Abs2(a) == IF Cplx THEN a[1] * a[1] + a[2] * a[2] ELSE a * a
AbsI(a) == IF a < 0 THEN -a ELSE a
\* Python's floor division and modulo on integers (TLA+'s \div and % round towards minus infinity for positive divisors only)
FloorDiv(a, b) == IF b > 0 THEN a \div b ELSE (-a) \div (-b)
PyMod(a, b) == a - b * FloorDiv(a, b)
Bool(b) == IF b THEN 1 ELSE 0
\* ---- trees --------------------------------------------------------------------------------------------------------
Leaf(v) == [k |-> "leaf", v |-> v]
Dict(keys, kids) == [k |-> "dict", keys |-> keys, kids |-> kids]
Tup(kids) == [k |-> "tuple", kids |-> kids]
Lst(kids) == [k |-> "list", kids |-> kids]
\* position of the i-th smallest key
SortedIdx(keys) == LET RECURSIVE Build(_, _) Build(done, acc) == IF Len(acc) = Len(keys) THEN acc
                           ELSE LET rest == {i \in 1..Len(keys) : i \notin done}
                                    \* keys are single letters: compare by position in the alphabet string
                                    Alpha == <<"a", "b", "c", "k", "x", "y", "z">>
                                    Rank(s) == CHOOSE r \in 1..Len(Alpha) : Alpha[r] = s
                                    m == CHOOSE i \in rest : \A j \in rest : Rank(keys[i]) <= Rank(keys[j]) IN Build(done \cup {m}, Append(acc, m))
                    IN Build({}, <<>>)
RECURSIVE Flat(_)
Flat(t) == IF t.k = "leaf" THEN t.v
           ELSE LET order == IF t.k = "dict" THEN SortedIdx(t.keys) ELSE [i \in 1..Len(t.kids) |-> i]
                    RECURSIVE Cat(_) Cat(i) == IF i > Len(order) THEN <<>> ELSE Flat(t.kids[order[i]]) \o Cat(i + 1) IN Cat(1)
RECURSIVE Map1(_, _)
Map1(f(_), t) == IF t.k = "leaf" THEN Leaf([i \in 1..Len(t.v) |-> f(t.v[i])]) ELSE [t EXCEPT !.kids = [i \in 1..Len(t.kids) |-> Map1(f, t.kids[i])]]
RECURSIVE Map2(_, _, _)
Map2(f(_, _), t, u) == IF t.k = "leaf" THEN Leaf([i \in 1..Len(t.v) |-> f(t.v[i], u.v[i])]) ELSE [t EXCEPT !.kids = [i \in 1..Len(t.kids) |-> Map2(f, t.kids[i], u.kids[i])]]
RECURSIVE NLeaves(_)
NLeaves(t) == IF t.k = "leaf" THEN 1 ELSE LET RECURSIVE S(_) S(i) == IF i > Len(t.kids) THEN 0 ELSE NLeaves(t.kids[i]) + S(i + 1) IN S(1)
FMap1(f(_), s) == [i \in 1..Len(s) |-> f(s[i])]
FMap2(f(_, _), s, r) == [i \in 1..Len(s) |-> f(s[i], r[i])]
RECURSIVE FSum(_, _)
FSum(s, i) == IF i > Len(s) THEN Num(0) ELSE Add(s[i], FSum(s, i + 1))
RECURSIVE ISum(_, _)
ISum(s, i) == IF i > Len(s) THEN 0 ELSE s[i] + ISum(s, i + 1)
\* reductions by recursion over the tree: reduce every leaf, then combine the leaf results (what tree_reduce does)
RECURSIVE TreeRed(_, _, _)
TreeRed(leafred(_), comb(_, _), t) == LET fl == Flat(t) IN     \* leaves in flattening order
   IF t.k = "leaf" THEN leafred(t.v)
   ELSE LET order == IF t.k = "dict" THEN SortedIdx(t.keys) ELSE [i \in 1..Len(t.kids) |-> i]
            RECURSIVE R(_) R(i) == IF i = Len(order) THEN TreeRed(leafred, comb, t.kids[order[i]]) ELSE comb(TreeRed(leafred, comb, t.kids[order[i]]), R(i + 1)) IN R(1)
MaxS(s) == CHOOSE m \in {s[i] : i \in 1..Len(s)} : \A i \in 1..Len(s) : s[i] <= m
MinS(s) == CHOOSE m \in {s[i] : i \in 1..Len(s)} : \A i \in 1..Len(s) : s[i] >= m
\* ---- instances -----------------------------------------------------------------------------------------------------
Val(seed, j, pos) == LET r == ((seed * (j + 2) + 3 * pos + j) % 5) - 2 IN IF Cplx THEN <<r, ((seed + 2 * j + pos) % 3) - 1>> ELSE r
Arr(seed, j, n) == [pos \in 1..n |-> Val(seed, j, pos)]
Shape(name, s) ==
  CASE name = "S1" -> Leaf(Arr(s, 1, 2))
    [] name = "S2" -> Dict(<<"b", "a">>, <<Leaf(Arr(s, 1, 2)), Leaf(Arr(s, 2, 1))>>)
    [] name = "S3" -> Tup(<<Leaf(Arr(s, 1, 1)), Dict(<<"z", "c">>, <<Leaf(Arr(s, 2, 2)), Leaf(Arr(s, 3, 1))>>)>>)
    [] name = "S4" -> Lst(<<Leaf(Arr(s, 1, 2)), Tup(<<Leaf(Arr(s, 2, 1)), Leaf(Arr(s, 3, 2))>>)>>)
    [] name = "S5" -> Dict(<<"k", "a">>, <<Lst(<<Leaf(Arr(s, 1, 1))>>), Dict(<<"y", "x">>, <<Leaf(Arr(s, 2, 2)), Leaf(Arr(s, 3, 1))>>)>>)
Names == {"S1", "S2", "S3", "S4", "S5"}
Init == inst \in {[name |-> n, s1 |-> a, s2 |-> b, c |-> c] : n \in Names, a \in 0..4, b \in 0..4, c \in {-2, 1, 3}}
Next == UNCHANGED inst
Spec == Init /\ [][Next]_inst
T1 == Shape(inst.name, inst.s1)
T2 == Shape(inst.name, inst.s2)
C == Num(inst.c)
NZ(x) == IF x = 0 THEN 1 ELSE x            \* divisors: zeros replaced by one (applied to the tree before it is used)
T2nz == IF Cplx THEN T2 ELSE Map1(NZ, T2)
\* ---- the property: tree-wise = flat-wise ------------------------------------------------------------------------------
Lt(a, b) == Bool(a < b)   Le(a, b) == Bool(a <= b)   Eq(a, b) == Bool(a = b)   Ne(a, b) == Bool(a # b)
AddC(a) == Add(a, C)   CSub(a) == Sub(C, a)   MulC(a) == Mul(a, C)
FDivC(a) == FloorDiv(a, NZ(inst.c))   CMod(a) == PyMod(inst.c, NZ(a))
ElementwiseLaw ==
  /\ Flat(Map2(Add, T1, T2)) = FMap2(Add, Flat(T1), Flat(T2))
  /\ Flat(Map2(Sub, T1, T2)) = FMap2(Sub, Flat(T1), Flat(T2))
  /\ Flat(Map2(Mul, T1, T2)) = FMap2(Mul, Flat(T1), Flat(T2))
  /\ Flat(Map1(Neg, T1)) = FMap1(Neg, Flat(T1))
  /\ Flat(Map1(AddC, T1)) = FMap1(AddC, Flat(T1)) /\ Flat(Map1(CSub, T1)) = FMap1(CSub, Flat(T1)) /\ Flat(Map1(MulC, T1)) = FMap1(MulC, Flat(T1))
  /\ (~Cplx => /\ Flat(Map2(FloorDiv, T1, T2nz)) = FMap2(FloorDiv, Flat(T1), Flat(T2nz))
               /\ Flat(Map2(PyMod, T1, T2nz)) = FMap2(PyMod, Flat(T1), Flat(T2nz))
               /\ Flat(Map2(Lt, T1, T2)) = FMap2(Lt, Flat(T1), Flat(T2))
               /\ Flat(Map1(AbsI, T1)) = FMap1(AbsI, Flat(T1)))
  /\ Flat(Map2(Eq, T1, T2)) = FMap2(Eq, Flat(T1), Flat(T2))
ConjMul(a, b) == Mul(Conj(a), b)
ReductionLaw ==
  /\ TreeRed(LAMBDA v : FSum(v, 1), Add, T1) = FSum(Flat(T1), 1)
  /\ TreeRed(LAMBDA v : Len(v), LAMBDA a, b : a + b, T1) = Len(Flat(T1))
  /\ TreeRed(LAMBDA v : ISum(FMap1(Abs2, v), 1), LAMBDA a, b : a + b, T1) = ISum(FMap1(Abs2, Flat(T1)), 1)
  /\ (~Cplx => /\ TreeRed(MaxS, LAMBDA a, b : IF a > b THEN a ELSE b, T1) = MaxS(Flat(T1))
               /\ TreeRed(MinS, LAMBDA a, b : IF a < b THEN a ELSE b, T1) = MinS(Flat(T1))
               /\ TreeRed(LAMBDA v : ISum(FMap1(AbsI, v), 1), LAMBDA a, b : a + b, T1) = ISum(FMap1(AbsI, Flat(T1)), 1))
\* ---- forests: tuples of trees of one structure (samples) -------------------------------------------------------------------
\* T3: a third tree of the same structure; the forest (T1, T2, T3).  mean / mean_and_std / stack / unstack / map_forest work leaf-wise over
\* the forest; on the flat arrays: entry-wise sums over the members (the mean is that sum / 3; the unbiased variance
\* (3 * sum of squares - square of the sum) / (3 * 2))
T3 == Shape(inst.name, (inst.s1 + 2 * inst.s2 + 1) % 5)
Forest == <<T1, T2, T3>>
RECURSIVE Map3T(_, _, _, _)
Map3T(f(_, _, _), t, u, w) == IF t.k = "leaf" THEN Leaf([i \in 1..Len(t.v) |-> f(t.v[i], u.v[i], w.v[i])])
                              ELSE [t EXCEPT !.kids = [i \in 1..Len(t.kids) |-> Map3T(f, t.kids[i], u.kids[i], w.kids[i])]]
Sum3(a, b, c) == Add(Add(a, b), c)
SqSum3(a, b, c) == Add(Add(Mul(a, a), Mul(b, b)), Mul(c, c))
VarNum(a, b, c) == 3 * (a * a + b * b + c * c) - (a + b + c) * (a + b + c)              \* integers only
F3 == Flat(T3)
ForestLaw ==
  /\ Flat(Map3T(Sum3, T1, T2, T3)) = [i \in 1..Len(Flat(T1)) |-> Sum3(Flat(T1)[i], Flat(T2)[i], F3[i])]
  /\ Flat(Map3T(SqSum3, T1, T2, T3)) = [i \in 1..Len(Flat(T1)) |-> SqSum3(Flat(T1)[i], Flat(T2)[i], F3[i])]
  /\ (~Cplx => \A i \in 1..Len(Flat(T1)) : VarNum(Flat(T1)[i], Flat(T2)[i], F3[i]) >= 0)
\* unite: dictionaries with the keys {b, a} and {a, c}: entries under a common key are combined, the others taken over
U1 == Dict(<<"b", "a">>, <<Leaf(Arr(inst.s1, 1, 2)), Leaf(Arr(inst.s1, 2, 1))>>)
U2 == Dict(<<"a", "c">>, <<Leaf(Arr(inst.s2, 2, 1)), Leaf(Arr(inst.s2, 3, 2))>>)
United == Dict(<<"a", "b", "c">>, <<Leaf(FMap2(Add, U1.kids[2].v, U2.kids[1].v)), U1.kids[1], U2.kids[2]>>)
UniteLaw == Len(Flat(United)) = Len(Flat(U1)) + Len(Flat(U2)) - 1
\* the flattening order is the sorted key order, whatever the insertion order (vacuity: some instance has unsorted keys)
OrderMatters == inst.name \in {"S2", "S3", "S5"} => Flat(T1) # (LET t == T1 IN IF t.k = "dict" THEN Flat(t.kids[1]) \o Flat(t.kids[2]) ELSE Flat(T1)) \/ inst.name # "S2" \/ Flat(T1.kids[1]) = Flat(T1.kids[2])
\* ---- emission -------------------------------------------------------------------------------------------------------
RECURSIVE TJ(_)
TJ(t) == IF t.k = "leaf" THEN [k |-> "leaf", v |-> t.v, keys |-> <<>>, kids |-> <<>>]
         ELSE [k |-> t.k, v |-> <<>>, keys |-> IF t.k = "dict" THEN t.keys ELSE <<>>, kids |-> [i \in 1..Len(t.kids) |-> TJ(t.kids[i])]]
F1 == Flat(T1)
F2 == Flat(T2)
F2nz == Flat(T2nz)
Emit == PrintT(ToJson([mode |-> Mode, name |-> inst.name, c |-> inst.c, t1 |-> TJ(T1), t2 |-> TJ(T2), t2nz |-> TJ(T2nz),
    flat1 |-> F1, flat2 |-> F2,
    add |-> FMap2(Add, F1, F2), sub |-> FMap2(Sub, F1, F2), mul |-> FMap2(Mul, F1, F2), neg |-> FMap1(Neg, F1),
    addc |-> FMap1(AddC, F1), csub |-> FMap1(CSub, F1), mulc |-> FMap1(MulC, F1),
    floordiv |-> IF Cplx THEN <<>> ELSE FMap2(FloorDiv, F1, F2nz), mod |-> IF Cplx THEN <<>> ELSE FMap2(PyMod, F1, F2nz),
    fdivc |-> IF Cplx THEN <<>> ELSE FMap1(FDivC, F1), cmod |-> IF Cplx THEN <<>> ELSE FMap1(CMod, F1),
    lt |-> IF Cplx THEN <<>> ELSE FMap2(Lt, F1, F2), le |-> IF Cplx THEN <<>> ELSE FMap2(Le, F1, F2),
    eq |-> FMap2(Eq, F1, F2), ne |-> FMap2(Ne, F1, F2), abs |-> IF Cplx THEN <<>> ELSE FMap1(AbsI, F1),
    conj |-> FMap1(Conj, F1), real |-> FMap1(Re, F1), imag |-> FMap1(Im, F1),
    sum |-> FSum(F1, 1), size |-> Len(F1), dot |-> FSum(FMap2(Mul, F1, F2), 1), vdot |-> FSum(FMap2(ConjMul, F1, F2), 1),
    norm2sq |-> ISum(FMap1(Abs2, F1), 1), norm1 |-> IF Cplx THEN 0 ELSE ISum(FMap1(AbsI, F1), 1),
    max |-> IF Cplx THEN 0 ELSE MaxS(F1), min |-> IF Cplx THEN 0 ELSE MinS(F1),
    where |-> [i \in 1..Len(F1) |-> IF Eq(F1[i], F2[i]) = 1 THEN F1[i] ELSE Neg(F2[i])],
    t3 |-> TJ(T3), fsum |-> [i \in 1..Len(F1) |-> Sum3(F1[i], F2[i], F3[i])],
    fvarnum |-> IF Cplx THEN <<>> ELSE [i \in 1..Len(F1) |-> VarNum(F1[i], F2[i], F3[i])],
    u1 |-> TJ(U1), u2 |-> TJ(U2), united |-> Flat(United),
    any |-> Bool(\E i \in 1..Len(F1) : F1[i] = F2[i]), all |-> Bool(\A i \in 1..Len(F1) : F1[i] = F2[i])]))
=============================================================================
