-------------------------- MODULE ControllerCGTrace --------------------------
(* Code -> spec for C14: runs of the real ConjugateGradient recorded through a recording controller (wraps any real controller;
   logs every start/check with the status it returned and the energy it saw) and a recording operator (counts applications
   between two checks: two applications = the residual was recomputed; sign of the first curvature d.Ad).
   check events:  [ev, hit ("T"/"F"/"?": the documented criterion evaluated by the harness on the logged energy), status,
                   napply, curv];   ret event: [ev, status, truth...].  Parameters are the constants of ControllerCG. *)
EXTENDS ControllerCG, TraceLib
VARIABLES tid, l
tvars == <<vars, tid, l>>
Tr == Traces[tid]
E == Tr[l]
TInit == Init /\ tid \in 1..NTraces /\ l = 1
Fits(b, f) == f = "?" \/ (b <=> f = "T")
Verdict(s) == IF s = "CONTINUE" THEN pc' = "loop" ELSE pc' = "done" /\ status' = s
Ck(c, name) == IF c THEN TRUE ELSE PropFail(tid, l, name)
TCheck0 == /\ E.ev = "check" /\ pc = "start"
           /\ \E h \in BOOLEAN : Fits(h, E.hit) /\ Start(h, "pos")
           /\ (IF E.status = "CONTINUE" THEN pc' = "loop" ELSE pc' = "done" /\ status' = E.status)
TCheck == /\ E.ev = "check" /\ pc = "loop"
          /\ \E h \in BOOLEAN : Fits(h, E.hit) /\ Step("pos", "pos", h)
          /\ hist'[Len(hist')].reset = (E.napply = 2)               \* fidelity: the residual-reset period
          /\ (IF E.status = "CONTINUE" THEN pc' = "loop" ELSE pc' = "done" /\ status' = E.status)
\* the solver returned without asking the controller (zero / NaN gamma, non-positive curvature): the environment explains it
TRet == /\ E.ev = "ret"
        /\ \/ (pc = "done" /\ status = E.status /\ UNCHANGED vars)
           \/ (pc = "start" /\ \E g \in {"zero", "nan"} : Start(FALSE, g) /\ status' = E.status)
           \/ (pc = "loop" /\ \E c \in Sign, g \in Sign : Step(c, g, FALSE) /\ pc' = "done" /\ status' = E.status /\ hist'[Len(hist')].ev = "abort")
        /\ Ck(E.status \in {"CONVERGED", "ERROR"}, "the minimiser returned a status other than CONVERGED or ERROR")
        /\ Ck(E.criterion, "convergence reported although the returned solution does not meet the controller's criterion (and the limit was not reached)")
        /\ Ck(E.consistent, "value or gradient of the returned quadratic energy is inconsistent with its position")
        /\ Ck(E.hpd_ok, "ERROR reported for a Hermitian positive definite system")
        /\ Ck(E.exact, "the solver returned CONVERGED on its own (vanishing residual) although the true residual is far from zero")
TNext == l <= Len(Tr) /\ (TCheck0 \/ TCheck \/ TRet) /\ l' = l + 1 /\ UNCHANGED tid
TSpec == TInit /\ [][TNext]_tvars
Progress == Reached(tid, l - 1)
=============================================================================
