----------------------------- MODULE DescentTrace -----------------------------
(* Code -> spec for C16: runs of the real descent minimisers recorded through a recording controller and a recording line
   searcher (a subclass that delegates to the real LineSearch).  Events:
     [ev |-> "start", verdict]                              controller.start
     [ev |-> "iter", success, cmp, verdict]                 line search result; energy of the returned point vs the current one
                                                            ("lower" / "equal" / "higher"); controller verdict ("none" if not asked)
     [ev |-> "ret", status, truth...]                       returned status + ground truth of the harness *)
EXTENDS Descent, TraceLib
VARIABLES tid, l
tvars == <<vars, tid, l>>
Tr == Traces[tid]
E == Tr[l]
TInit == Init /\ tid \in 1..NTraces /\ l = 1
Ck(c, name) == IF c THEN TRUE ELSE PropFail(tid, l, name)
TStep == \/ E.ev = "start" /\ Start(E.verdict)
         \/ /\ E.ev = "iter"
            /\ LET new == CASE E.cmp = "lower" -> level - 1 [] E.cmp = "equal" -> level [] OTHER -> level + 1
                   v == IF E.verdict = "none" THEN "continue" ELSE E.verdict IN
               /\ Iterate(E.success, new, v)
               /\ (E.verdict = "none" => E.cmp # "lower")       \* fidelity: the controller is asked exactly after an accepted step
         \/ /\ E.ev = "iter" /\ pc = "done" /\ UNCHANGED vars
            /\ PropFail(tid, l, "the minimiser went on after a step that did not lower the energy")
         \/ /\ E.ev = "ret"
            /\ \/ (pc = "done" /\ status = E.status /\ UNCHANGED vars)
               \/ (pc = "loop" /\ E.gradzero /\ GradZero /\ status' = E.status)
            /\ Ck(E.status \in {"CONVERGED", "ERROR"}, "the minimiser returned a status other than CONVERGED or ERROR")
            /\ Ck(E.monotone, "an accepted step increased the energy")
            /\ Ck(E.returned_ok, "the returned energy is not the lowest accepted one")
TNext == l <= Len(Tr) /\ TStep /\ l' = l + 1 /\ UNCHANGED tid
TSpec == TInit /\ [][TNext]_tvars
Progress == Reached(tid, l - 1)
=============================================================================
