--------------------------- MODULE LineSearchTrace ---------------------------
(* Code -> spec for C16: every energy evaluation of a real line search is recorded through a recording energy (step length,
   value, whether the gradient was requested); the harness turns each trial into the facts of LineSearch.tla ("T"/"F"/"?").
   Trace: [desc, trials : <<[armijoFail, notLower, curvOK, derivNonNeg, atMax, deriv]>>, success, wolfe] *)
EXTENDS LineSearch, TraceLib
VARIABLES tid, l
tvars == <<vars, tid, l>>
Tr == Traces[tid]
TInit == Init /\ tid \in 1..NTraces /\ l = 0
Fits(b, f) == f = "?" \/ (b <=> f = "T")
\* bracketing: "not lower" refers to the previous trial, the derivative sign is absolute; in the zoom phase both refer to the
\* current bracket ends, which the recorder does not know: TLC chooses them
MatchB(f, t) == /\ Fits(f.armijoFail, t.armijoFail) /\ Fits(f.notLower, t.notLower) /\ Fits(f.curvOK, t.curvOK)
                /\ Fits(f.derivNonNeg, t.derivNonNeg) /\ Fits(f.atMax, t.atMax)
MatchZ(f, t) == Fits(f.armijoFail, t.armijoFail) /\ Fits(f.curvOK, t.curvOK)
TEntry == l = 0 /\ Entry(Tr.desc) /\ l' = 1
TTrial == /\ l >= 1 /\ l <= Len(Tr.trials)
          /\ \E f \in Facts : (MatchB(f, Tr.trials[l]) /\ Bracket(f)) \/ (MatchZ(f, Tr.trials[l]) /\ Zoom(f))
          /\ last'.deriv = Tr.trials[l].deriv              \* fidelity: the gradient is evaluated exactly where the skeleton does
          /\ l' = l + 1
\* after the last recorded trial the search must have returned, with the success flag the model computes
TEnd == /\ l = Len(Tr.trials) + 1 /\ pc = "done"
        /\ (result = "success") = Tr.success
        /\ (IF Tr.wolfe THEN TRUE ELSE PropFail(tid, l, "success reported but the returned point violates the strong Wolfe conditions"))
        /\ l' = l + 1 /\ UNCHANGED vars
TNext == (TEntry \/ TTrial \/ TEnd) /\ UNCHANGED tid
TSpec == TInit /\ [][TNext]_tvars
Progress == Reached(tid, l)
=============================================================================
