---------------------------- MODULE FieldImmut ----------------------------
(* C07.  Aliasing and write protection of nifty.cl Field / AnyArray / NumPy array objects.

   Abstract state
     arrs    NumPy array *objects*: the buffer they look at and their own write flag (a view inherits the
             flag of its parent at the moment it is made and keeps it afterwards)
     wraps   AnyArray objects: the array object they wrap and their own `_writeable` flag
     fields  Field objects: the wrapper they hold and the buffer version seen at construction (snapshot)
     ver     one version counter per buffer; every write that lands bumps it
   A field is immutable iff the version of its buffer never changes after construction.

   The protection rule of the library ("after construction the object is no longer writeable"):
   construction locks the wrapper AND clears the NumPy write flag of the wrapped array object
   (AnyArray.lock).  LockClearsNumpyFlag = FALSE is the behaviour of the pinned snapshot (defect D1),
   kept as a switch so that the refutation can be reproduced on the model.

   hist records the behaviour (one record per action) so that every path can be replayed into the
   real objects; it is hidden from the model-checking runs by the VIEW. *)
EXTENDS Integers, FiniteSets, Sequences, TLC, Json
CONSTANTS MaxArr, MaxWrap, MaxField, MaxOps,
          LockClearsNumpyFlag,
          AllowEarlierViews,        \* writable aliases made BEFORE construction (outside C07's quantifier)
          Flavours,                 \* subset of NewKinds that NewArray may produce (the model state does not depend on it)
          KeepHist,                 \* "none" (model checking) | "last" (trace validation) | "all" (emission of behaviours)
          EmitHist
VARIABLES arrs, wraps, fields, ver, nops, hist
vars == <<arrs, wraps, fields, ver, nops, hist>>
mvars == <<arrs, wraps, fields, ver, nops>>

Null == [buf |-> 0, w |-> FALSE]
NullW == [arr |-> 0, w |-> FALSE]
NullF == [wrap |-> 0, snap |-> 0]
ArrIds == 1..MaxArr   WrapIds == 1..MaxWrap   FieldIds == 1..MaxField
UsedArr == {a \in ArrIds : arrs[a].buf # 0}
UsedWrap == {x \in WrapIds : wraps[x].arr # 0}
UsedField == {f \in FieldIds : fields[f].wrap # 0}
FreeArr == ArrIds \ UsedArr   FreeWrap == WrapIds \ UsedWrap   FreeField == FieldIds \ UsedField
NBuf == Cardinality({arrs[a].buf : a \in UsedArr})
NewBuf == NBuf + 1                              \* buffers are never freed in the model
Pick(S) == CHOOSE x \in S : \A y \in S : x <= y
BufOfWrap(x) == arrs[wraps[x].arr].buf
BufOfField(f) == BufOfWrap(fields[f].wrap)

ConsArrKinds == {"Field", "from_raw", "makeField", "mf_from_raw", "mf_from_dict", "PS_field"}   \* PS_field: the array a user callable returns
NewKinds == {"own", "subclass", "memmap"}     \* plain ndarray, an ndarray subclass, a memory-mapped file: the rule does not depend on the flavour
ConsWrapKinds == {"Field", "from_raw"}
ViewArrKinds == {"slice", "reshape", "real"}
ViewWrapKinds == {"getitem", "view", "real"}
WriteArrHow == {"setitem", "iadd", "ufunc_out", "copyto", "fill"}
WriteWrapItemHow == {"setitem", "iadd"}
WriteWrapOutHow == {"ufunc_out", "copyto"}
CopyKinds == {"val_rw", "asnumpy_rw"}
UseFieldKinds == {"arith", "weight", "contract", "ptw", "conj", "vdot"}
OpKinds == {"diag", "adder", "gauss", "makeOp"}

Init == /\ arrs = [a \in ArrIds |-> Null] /\ wraps = [x \in WrapIds |-> NullW]
        /\ fields = [f \in FieldIds |-> NullF] /\ ver = [b \in 1..MaxArr |-> 0] /\ nops = 0
        /\ hist = <<>>
Log(rec) == /\ nops < MaxOps /\ nops' = nops + 1
            /\ hist' = CASE KeepHist = "all" -> Append(hist, rec) [] KeepHist = "last" -> <<rec>> [] OTHER -> hist
Ev(a, k, x, r, landed) == [a |-> a, k |-> k, x |-> x, r |-> r, landed |-> landed]

\* No other array object that looks at buffer b is writable (the only alias C07 does not promise anything about)
NoOtherWritableAlias(a) == AllowEarlierViews \/ \A b \in UsedArr : (b # a /\ arrs[b].buf = arrs[a].buf) => ~arrs[b].w

NewArray(k) == /\ FreeArr # {} /\ NewBuf <= MaxArr
            /\ arrs' = [arrs EXCEPT ![Pick(FreeArr)] = [buf |-> NewBuf, w |-> TRUE]]
            /\ Log(Ev("NewArray", k, 0, Pick(FreeArr), FALSE))
            /\ UNCHANGED <<wraps, fields, ver>>
\* NumPy view of an array object: shares the buffer, inherits the flag at creation time
ViewOfArr(a, k) == /\ a \in UsedArr /\ FreeArr # {}
                   /\ arrs' = [arrs EXCEPT ![Pick(FreeArr)] = [buf |-> arrs[a].buf, w |-> arrs[a].w]]
                   /\ Log(Ev("ViewOfArr", k, a, Pick(FreeArr), FALSE))
                   /\ UNCHANGED <<wraps, fields, ver>>
\* AnyArray(ndarray): a new, writable wrapper around the SAME array object
WrapArr(a) == /\ a \in UsedArr /\ FreeWrap # {}
              /\ wraps' = [wraps EXCEPT ![Pick(FreeWrap)] = [arr |-> a, w |-> TRUE]]
              /\ Log(Ev("WrapArr", "AnyArray", a, Pick(FreeWrap), FALSE))
              /\ UNCHANGED <<arrs, fields, ver>>
LockedArrs(a) == IF LockClearsNumpyFlag THEN [arrs EXCEPT ![a].w = FALSE] ELSE arrs
\* Field(dom, ndarray) / from_raw / makeField / MultiField.from_raw: new wrapper around the same array object, locked
ConstructFromArr(a, k) ==
  /\ a \in UsedArr /\ FreeWrap # {} /\ FreeField # {} /\ NoOtherWritableAlias(a)
  /\ LET x == Pick(FreeWrap)  f == Pick(FreeField) IN
       /\ wraps' = [wraps EXCEPT ![x] = [arr |-> a, w |-> FALSE]]
       /\ arrs' = LockedArrs(a)
       /\ fields' = [fields EXCEPT ![f] = [wrap |-> x, snap |-> ver[arrs[a].buf]]]
       /\ Log(Ev("ConstructFromArr", k, a, f, FALSE))
  /\ UNCHANGED ver
\* Field(dom, anyarray): the same wrapper object is adopted and locked
ConstructFromWrap(x, k) ==
  /\ x \in UsedWrap /\ FreeField # {} /\ NoOtherWritableAlias(wraps[x].arr)
  /\ wraps' = [wraps EXCEPT ![x].w = FALSE]
  /\ arrs' = LockedArrs(wraps[x].arr)
  /\ fields' = [fields EXCEPT ![Pick(FreeField)] = [wrap |-> x, snap |-> ver[BufOfWrap(x)]]]
  /\ Log(Ev("ConstructFromWrap", k, x, Pick(FreeField), FALSE))
  /\ UNCHANGED ver
\* cast_domain: a second field on the same (already locked) wrapper
ConstructFromField(f) ==
  /\ f \in UsedField /\ FreeField # {}
  /\ fields' = [fields EXCEPT ![Pick(FreeField)] = [wrap |-> fields[f].wrap, snap |-> ver[BufOfField(f)]]]
  /\ Log(Ev("ConstructFromField", "cast_domain", f, Pick(FreeField), FALSE))
  /\ UNCHANGED <<arrs, wraps, ver>>
\* .real/.imag of a (complex) field: a new field on a new wrapper on a new NumPy view of the same buffer
ConstructViewField(f) ==
  /\ f \in UsedField /\ FreeField # {} /\ FreeWrap # {} /\ FreeArr # {}
  /\ LET a == Pick(FreeArr)  x == Pick(FreeWrap)  g == Pick(FreeField)
         pa == wraps[fields[f].wrap].arr IN
       /\ arrs' = [arrs EXCEPT ![a] = [buf |-> arrs[pa].buf, w |-> IF LockClearsNumpyFlag THEN FALSE ELSE arrs[pa].w]]
       /\ wraps' = [wraps EXCEPT ![x] = [arr |-> a, w |-> FALSE]]
       /\ fields' = [fields EXCEPT ![g] = [wrap |-> x, snap |-> ver[arrs[pa].buf]]]
       /\ Log(Ev("ConstructViewField", "real", f, g, FALSE))
  /\ UNCHANGED ver
\* val_rw()/asnumpy_rw(): a fresh buffer; val_rw gives a writable wrapper, asnumpy_rw a writable array
CopyField(f, k) ==
  /\ f \in UsedField /\ FreeArr # {} /\ NewBuf <= MaxArr /\ (k = "val_rw" => FreeWrap # {})
  /\ arrs' = [arrs EXCEPT ![Pick(FreeArr)] = [buf |-> NewBuf, w |-> TRUE]]
  /\ wraps' = IF k = "val_rw" THEN [wraps EXCEPT ![Pick(FreeWrap)] = [arr |-> Pick(FreeArr), w |-> TRUE]] ELSE wraps
  /\ Log(Ev("CopyField", k, f, Pick(FreeArr), FALSE))
  /\ UNCHANGED <<fields, ver>>
\* asnumpy(): returns the wrapped array object itself; clears its NumPy flag for a read-only wrapper
AsNumpy(f) ==
  /\ f \in UsedField
  /\ arrs' = [arrs EXCEPT ![wraps[fields[f].wrap].arr].w = FALSE]
  /\ Log(Ev("AsNumpy", "asnumpy", f, wraps[fields[f].wrap].arr, FALSE))
  /\ UNCHANGED <<wraps, fields, ver>>
\* AnyArray view of a wrapper (x[...], x.view(), x.real): NEW writable wrapper over a NEW NumPy view
ViewOfWrap(x, k) ==
  /\ x \in UsedWrap /\ FreeWrap # {} /\ FreeArr # {}
  /\ LET a == Pick(FreeArr) IN
       /\ arrs' = [arrs EXCEPT ![a] = [buf |-> BufOfWrap(x), w |-> arrs[wraps[x].arr].w]]
       /\ wraps' = [wraps EXCEPT ![Pick(FreeWrap)] = [arr |-> a, w |-> TRUE]]
  /\ Log(Ev("ViewOfWrap", k, x, Pick(FreeWrap), FALSE))
  /\ UNCHANGED <<fields, ver>>
\* writes -------------------------------------------------------------------------------------------------
Bump(b, c) == IF c THEN [ver EXCEPT ![b] = @ + 1] ELSE ver
WriteArr(a, how) == /\ a \in UsedArr
                    /\ ver' = Bump(arrs[a].buf, arrs[a].w)
                    /\ Log(Ev("WriteArr", how, a, 0, arrs[a].w))
                    /\ UNCHANGED <<arrs, wraps, fields>>
\* AnyArray.__setitem__ / __iadd__: wrapper flag first, then NumPy's
WriteWrapItem(x, how) == /\ x \in UsedWrap
                         /\ LET c == wraps[x].w /\ arrs[wraps[x].arr].w IN
                              /\ ver' = Bump(BufOfWrap(x), c)
                              /\ Log(Ev("WriteWrapItem", how, x, 0, c))
                         /\ UNCHANGED <<arrs, wraps, fields>>
\* ufunc / array function with out=wrapper: unwraps without looking at the wrapper flag
WriteWrapOut(x, how) == /\ x \in UsedWrap
                        /\ LET c == arrs[wraps[x].arr].w IN
                             /\ ver' = Bump(BufOfWrap(x), c)
                             /\ Log(Ev("WriteWrapOut", how, x, 0, c))
                        /\ UNCHANGED <<arrs, wraps, fields>>
\* read-only uses of a field (arithmetic, contractions, weights, operators built from it): no effect on the state
UseField(f, k) == /\ f \in UsedField /\ Log(Ev("UseField", k, f, 0, FALSE)) /\ UNCHANGED <<arrs, wraps, fields, ver>>
UseOp(f, k) == /\ f \in UsedField /\ Log(Ev("UseOp", k, f, 0, FALSE)) /\ UNCHANGED <<arrs, wraps, fields, ver>>

Next == \/ \E k \in Flavours : NewArray(k)
        \/ \E a \in ArrIds : \/ \E k \in ViewArrKinds : ViewOfArr(a, k)
                             \/ WrapArr(a)
                             \/ \E k \in ConsArrKinds : ConstructFromArr(a, k)
                             \/ \E h \in WriteArrHow : WriteArr(a, h)
        \/ \E x \in WrapIds : \/ \E k \in ConsWrapKinds : ConstructFromWrap(x, k)
                              \/ \E k \in ViewWrapKinds : ViewOfWrap(x, k)
                              \/ \E h \in WriteWrapItemHow : WriteWrapItem(x, h)
                              \/ \E h \in WriteWrapOutHow : WriteWrapOut(x, h)
        \/ \E f \in FieldIds : \/ AsNumpy(f) \/ ConstructFromField(f) \/ ConstructViewField(f)
                               \/ \E k \in CopyKinds : CopyField(f, k)
                               \/ \E k \in UseFieldKinds : UseField(f, k)
                               \/ \E k \in OpKinds : UseOp(f, k)
Spec == Init /\ [][Next]_vars

\* ---- properties -------------------------------------------------------------------------------------------
Immutable == \A f \in UsedField : ver[BufOfField(f)] = fields[f].snap
\* every alias of a field's buffer is write protected (the inductive reason for Immutable)
Protected == (LockClearsNumpyFlag /\ ~AllowEarlierViews) =>
                \A f \in UsedField : \A a \in UsedArr : arrs[a].buf = BufOfField(f) => ~arrs[a].w
\* whatever aliases existed before: the array object / wrapper a field holds (for Field(dom, arr) that IS the source array) is protected
HandleProtected == \A f \in UsedField : ~wraps[fields[f].wrap].w /\ ~arrs[wraps[fields[f].wrap].arr].w
TypeOK == /\ \A a \in UsedArr : arrs[a].buf \in 1..MaxArr
          /\ \A x \in UsedWrap : wraps[x].arr \in UsedArr
          /\ \A f \in UsedField : fields[f].wrap \in UsedWrap
\* vacuity witnesses (expected to be violated)
NoWriteLands == \A b \in 1..MaxArr : ver[b] = 0
NoWriteRejectedOnField == ~(\E f \in UsedField : nops > 0 /\ ver[BufOfField(f)] = fields[f].snap /\ Len(hist) > 0
                                /\ hist[Len(hist)].a \in {"WriteArr", "WriteWrapItem", "WriteWrapOut"}
                                /\ ~hist[Len(hist)].landed)
View == mvars
Emit == (EmitHist /\ nops = MaxOps) => PrintT(ToJson([hist |-> hist]))
=============================================================================
