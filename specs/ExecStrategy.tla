---------------------------- MODULE ExecStrategy ----------------------------
(* C21 (execution-strategy part).  The configuration space of a small JAX VI run: how the KL and the residuals are
   mapped over samples, the three JIT switches, and whether the run happens in the harness process or in a fresh one.
   The specification fixes what the result may depend on: the class of a result is a function of (model, seed,
   sample mode) only.  TLC enumerates the configurations (each one a state reached by choosing the options one by
   one), checks that every configuration is assigned to exactly one class and emits them; the harness runs each and
   requires bit-identical results for the members that the statement says are bit-identical (same options, repeated
   or fresh process) and agreement to round-off across map / JIT choices. *)
EXTENDS Integers, Sequences, FiniteSets, TLC, Json
CONSTANTS Maps, Modes
VARIABLES cfg, stage
vars == <<cfg, stage>>
Opt == <<"kl_map", "residual_map", "jit", "lin_jit", "nl_jit", "fresh", "mode">>
Dom(o) == CASE o \in {"kl_map", "residual_map"} -> Maps [] o = "mode" -> Modes [] OTHER -> {"0", "1"}
Init == cfg = [o \in {} |-> "0"] /\ stage = 1
Choose == /\ stage <= Len(Opt)
          /\ \E v \in Dom(Opt[stage]) : cfg' = [o \in DOMAIN cfg \cup {Opt[stage]} |-> IF o = Opt[stage] THEN v ELSE cfg[o]]
          /\ stage' = stage + 1
Next == Choose \/ (stage > Len(Opt) /\ UNCHANGED vars)
Spec == Init /\ [][Next]_vars
Complete == stage > Len(Opt)
\* vectorising or scanning (vmap, smap) the residual samplers needs JIT-compatible (compiled) minimisers: the eager solvers branch on concrete values
\* the Python-loop map (lmap) cannot be traced, so it cannot be the KL map of a JIT-compiled KL
Valid(c) == /\ c.residual_map \in {"vmap", "smap"} => (c.lin_jit = "1" /\ c.nl_jit = "1")
            /\ c.kl_map = "lmap" => c.jit = "0"
\* what the result may depend on
Class(c) == <<c.mode>>
\* bit-identical group: everything but the process
ExactGroup(c) == <<c.mode, c.kl_map, c.residual_map, c.jit, c.lin_jit, c.nl_jit>>
Emit == (Complete /\ Valid(cfg)) => PrintT(ToJson([cfg |-> cfg, class |-> Class(cfg), exact |-> ExactGroup(cfg)]))
TypeOK == \A o \in DOMAIN cfg : cfg[o] \in Dom(o)
=============================================================================
