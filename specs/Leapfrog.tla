------------------------------ MODULE Leapfrog ------------------------------
(* C32 (deterministic part).  The leapfrog integrator of nifty.re.hmc as a transition system in exact rationals: one action = one step
   (half kick, drift, half kick) for a potential with polynomial gradient (quadratic with a rational matrix, or quartic), a diagonal
   inverse mass matrix and a dyadic step size (negative = backwards).  TLC checks on every reachable state
     Reversible   flipping the momentum, taking the same number of steps and flipping again returns exactly to the start
     Symplectic   (quadratic potentials: the map is linear)  M^T J M = J for the matrix of the accumulated map, hence |det M| = 1
   Complete trajectories are emitted and replayed into leapfrog_step. *)
EXTENDS Rat, Json
CONSTANTS Pot, MaxSteps
VARIABLES cfg, z, k, traj
vars == <<cfg, z, k, traj>>
A == IF Pot = "quad1" THEN <<<<Z(2), Z(1)>>, <<Z(1), Z(3)>>>> ELSE <<<<Z(1), Z(0)>>, <<Z(0), Z(4)>>>>
Cube(x) == RMul(x, RMul(x, x))
Grad(q) == IF Pot = "quartic" THEN <<RAdd(Cube(q[1]), RMul(R(1, 2), q[2])), RAdd(Cube(q[2]), RMul(R(1, 2), q[1]))>>
           ELSE <<RAdd(RMul(A[1][1], q[1]), RMul(A[1][2], q[2])), RAdd(RMul(A[2][1], q[1]), RMul(A[2][2], q[2]))>>
StepOnce(c, s) ==
  LET g0 == Grad(s.q)
      ph == <<RSub(s.p[1], RMul(RMul(c.eps, R(1, 2)), g0[1])), RSub(s.p[2], RMul(RMul(c.eps, R(1, 2)), g0[2]))>>
      qn == <<RAdd(s.q[1], RMul(c.eps, RMul(c.im[1], ph[1]))), RAdd(s.q[2], RMul(c.eps, RMul(c.im[2], ph[2])))>>
      g1 == Grad(qn)
      pn == <<RSub(ph[1], RMul(RMul(c.eps, R(1, 2)), g1[1])), RSub(ph[2], RMul(RMul(c.eps, R(1, 2)), g1[2]))>>
  IN [q |-> qn, p |-> pn]
RECURSIVE Iter(_, _, _)
Iter(c, s, n) == IF n = 0 THEN s ELSE Iter(c, StepOnce(c, s), n - 1)
Flip(s) == [q |-> s.q, p |-> <<RNeg(s.p[1]), RNeg(s.p[2])>>]
\* (the quartic potential cubes the coordinates: integer starts and half steps keep the numbers inside TLC's 32-bit integers)
Starts == IF Pot = "quartic" THEN {[q |-> <<Z(1), Z(-1)>>, p |-> <<Z(1), Z(0)>>], [q |-> <<Z(0), Z(1)>>, p |-> <<Z(-1), Z(2)>>]}
          ELSE {[q |-> <<R(1, 2), Z(-1)>>, p |-> <<Z(1), R(1, 4)>>], [q |-> <<Z(0), R(3, 4)>>, p |-> <<R(-1, 2), Z(2)>>]}
Cfgs == IF Pot = "quartic" THEN {[eps |-> e, im |-> <<Z(1), Z(1)>>] : e \in {R(1, 2), R(-1, 2)}}
        ELSE {[eps |-> e, im |-> m] : e \in {R(1, 2), R(1, 4), R(-1, 4)}, m \in {<<Z(1), Z(1)>>, <<R(1, 2), Z(2)>>}}
Init == cfg \in Cfgs /\ z \in Starts /\ k = 0 /\ traj = <<z>>
Step == k < MaxSteps /\ z' = StepOnce(cfg, z) /\ k' = k + 1 /\ traj' = Append(traj, z') /\ UNCHANGED cfg
Next == Step \/ (k = MaxSteps /\ UNCHANGED vars)
Spec == Init /\ [][Next]_vars
Reversible == Flip(Iter(cfg, Flip(z), k)) = traj[1]
\* a negative step size undoes a positive one
BackAndForth == Iter([cfg EXCEPT !.eps = RNeg(cfg.eps)], z, k) = traj[1]
\* the accumulated map of a quadratic potential is linear: its matrix from the images of the unit vectors
E4(i) == [q |-> <<IF i = 1 THEN Z(1) ELSE Z(0), IF i = 2 THEN Z(1) ELSE Z(0)>>, p |-> <<IF i = 3 THEN Z(1) ELSE Z(0), IF i = 4 THEN Z(1) ELSE Z(0)>>]
Col(s) == <<s.q[1], s.q[2], s.p[1], s.p[2]>>
Mat == [r \in 1..4 |-> [c \in 1..4 |-> Col(Iter(cfg, E4(c), k))[r]]]
J4 == [r \in 1..4 |-> [c \in 1..4 |-> IF c = r + 2 THEN Z(1) ELSE IF r = c + 2 THEN Z(-1) ELSE Z(0)]]
Symplectic == Pot # "quartic" => MMul(MT(Mat, 4, 4), MMul(J4, Mat, 4, 4, 4), 4, 4, 4) = J4
RJ(x) == <<x[1], x[2]>>
SJ(s) == [q |-> <<RJ(s.q[1]), RJ(s.q[2])>>, p |-> <<RJ(s.p[1]), RJ(s.p[2])>>]
Emit == k < MaxSteps \/ PrintT(ToJson([pot |-> Pot, eps |-> RJ(cfg.eps), im |-> <<RJ(cfg.im[1]), RJ(cfg.im[2])>>, traj |-> [i \in 1..Len(traj) |-> SJ(traj[i])]]))
=============================================================================
