"""Check context: collects TLC statistics, replay/trace counts, violations, drift and writes the evidence file.
Verdict protocol (DESIGN.md sections 3, 4):
  * a violation is a dict describing the failing case (its "key" fields are what known findings match on);
  * violations matching a `known` entry of known_findings.json print KNOWN-FINDING and do not fail;
  * any other violation prints `VIOLATION property=<id> replay=<path>` and the check exits 1;
  * machinery failures exit 2 and are never reported as violations."""
import json
import os
import sys
import time
import traceback

from . import tlc as tlcmod

VERIF = tlcmod.VERIF
EVID = os.environ.get("VF_EVIDENCE_DIR") or os.path.join(VERIF, "evidence")   # VF_EVIDENCE_DIR: development / mutant runs only
REPLAYS = os.path.join(EVID, "replays")
FINDINGS = os.path.join(VERIF, "known_findings.json")


import contextlib
import io
import logging


@contextlib.contextmanager
def quiet():
    """silence the library's own prints / log lines while it is driven (verdict lines come from the check only)"""
    lg = logging.getLogger("NIFTy8")
    lg2 = logging.getLogger("NIFTy")
    old = lg.level, lg2.level
    lg.setLevel(logging.ERROR)
    lg2.setLevel(logging.ERROR)
    buf = io.StringIO()
    try:
        with contextlib.redirect_stdout(buf):
            yield buf
    finally:
        lg.setLevel(old[0])
        lg2.setLevel(old[1])


def load_findings():
    if not os.path.exists(FINDINGS):
        return []
    with open(FINDINGS) as f:
        return json.load(f)["findings"]


def _matches(match, viol):
    for k, v in match.items():
        x = viol.get(k)
        if isinstance(v, list):
            if x not in v:
                return False
        elif x != v:
            return False
    return True


class Ctx:
    def __init__(self, pid, tier, seed):
        self.pid = pid
        self.tier = tier
        self.seed = seed
        self.t0 = time.time()
        self.states = 0
        self.transitions = 0
        self.tlc_runs = []
        self.traces = 0            # traces / behaviours validated against or replayed into the implementation
        self.evaluations = 0
        self.samples = []
        self.violations = []
        self.drift = []
        self.assumptions = []
        self.notes = {}
        self.constants = {}
        self.exhaustive = None
        self.distinct = set()
        self.selftest = None
        self.quiet = False

    # ---- logging ---------------------------------------------------------------------------------------
    def log(self, *a):
        if not self.quiet:
            print("[%s %6.1fs]" % (self.pid, time.time() - self.t0), *a, flush=True)

    @property
    def quick(self):
        return self.tier == "quick"

    # ---- TLC -------------------------------------------------------------------------------------------
    def tlc(self, module, cfg, *, expect_ok=True, label=None, **kw):
        """Run TLC; account its statistics.  With expect_ok a violated invariant on the *model* is reported
        as a violation of the property (the model is the transcription of the design: refuting it means the
        design as specified breaks the property)."""
        r = tlcmod.run(module, cfg, tag=self.pid + "-" + module, **kw)
        self.states += r.distinct
        self.transitions += r.generated
        self.tlc_runs.append(dict(module=module, label=label or module, distinct=r.distinct, generated=r.generated,
                                  depth=r.depth, wall=round(r.wall, 2), violated=r.violated,
                                  simulate=kw.get("simulate"), coverage={k: list(v) for k, v in r.coverage.items()} or None))
        self.log("TLC %-22s %-14s distinct=%d generated=%d depth=%d %.1fs%s" % (
            module, label or "", r.distinct, r.generated, r.depth, r.wall,
            " VIOLATED " + str(r.violated) if r.violated else ""))
        if expect_ok and r.violated:
            self.violation(dict(kind="model", module=module, label=label or module, invariant=r.violated),
                           "TLC refutes %s on %s (%s)" % (r.violated, module, label or ""),
                           replay=dict(trace=r.error_trace))
        return r

    # ---- results ---------------------------------------------------------------------------------------
    def case(self, key=None, n=1):
        """Count an executed implementation case (replayed behaviour / validated trace)."""
        self.evaluations += n
        if key is not None:
            self.distinct.add(key if isinstance(key, (str, int, tuple)) else json.dumps(key, sort_keys=True, default=str))

    def sample(self, s, cap=6):
        if len(self.samples) < cap:
            self.samples.append(s)

    def violation(self, key, what, replay=None):
        v = dict(key)
        v["what"] = what
        v["_replay"] = replay if replay is not None else dict(key)
        self.violations.append(v)

    def add_drift(self, what):
        if len(self.drift) < 50:
            self.drift.append(what)

    def assume(self, *a):
        for x in a:
            if x not in self.assumptions:
                self.assumptions.append(x)

    # ---- finish ----------------------------------------------------------------------------------------
    def finish(self):
        findings = [f for f in load_findings() if f.get("property") == self.pid]
        known = [f for f in findings if f.get("status") == "known"]
        new, seen_known = [], {}
        for v in self.violations:
            hit = None
            for f in known:
                if _matches(f["match"], v):
                    hit = f
                    break
            if hit is not None:
                seen_known.setdefault(hit["id"], (hit, []))[1].append(v)
            else:
                new.append(v)
        for fid, (f, vs) in seen_known.items():
            print("KNOWN-FINDING: property=%s %s [%s, %d case(s)]" % (self.pid, f["what"], fid, len(vs)), flush=True)
        os.makedirs(REPLAYS, exist_ok=True)
        # group new violations by their key (without the free text) to avoid thousands of lines
        printed = 0
        groups = {}
        for v in new:
            k = json.dumps({a: b for a, b in v.items() if not a.startswith("_") and a != "what"}, sort_keys=True, default=str)
            groups.setdefault(k, []).append(v)
        for i, (k, vs) in enumerate(groups.items()):
            if printed >= 25:
                break
            path = os.path.join(REPLAYS, "%s-%s-%d.json" % (self.pid, self.tier, i))
            with open(path, "w") as f:
                json.dump(dict(property=self.pid, seed=self.seed, tier=self.tier, key=json.loads(k),
                               what=vs[0]["what"], case=vs[0]["_replay"], count=len(vs)), f, indent=1, default=str)
            print("VIOLATION property=%s replay=%s   # %s%s" % (self.pid, path, vs[0]["what"][:300],
                                                               " (+%d similar)" % (len(vs) - 1) if len(vs) > 1 else ""), flush=True)
            printed += 1
        wall = time.time() - self.t0
        cov = dict(
            states=int(self.states), transitions=int(self.transitions),
            traces_validated_against_impl=int(self.traces),
            samples=self.samples or [dict(note="no implementation case was executed")],
            evaluations=int(self.evaluations), distinct_nontrivial=len(self.distinct),
            rule="cases are the behaviours/states TLC emitted from the specification (or traces recorded from the "
                 "implementation); distinct = distinct case keys",
            tlc_runs=self.tlc_runs, constants=self.constants, drift=self.drift,
            binding_selftest=self.selftest, known_findings_seen=sorted(seen_known),
            new_violation_groups=len(groups),
        )
        if self.exhaustive is not None:
            cov["exhaustive"] = bool(self.exhaustive)
        cov.update(self.notes)
        ev = dict(property_id=self.pid, tier=self.tier, seed=int(self.seed), level="model_checking", coverage=cov,
                  assumptions=self.assumptions, wall_s=round(wall, 2), violations=len(new))
        evdir = EVID if not self.pid.startswith("X") else os.path.join(EVID, "extra")      # X..: specifications beyond the listed properties
        os.makedirs(evdir, exist_ok=True)
        with open(os.path.join(evdir, self.pid + ".json"), "w") as f:
            json.dump(ev, f, indent=1, default=str)
        self.log("done: states=%d transitions=%d impl-cases=%d traces=%d violations(new)=%d known=%d drift=%d wall=%.1fs" % (
            self.states, self.transitions, self.evaluations, self.traces, len(new), len(seen_known), len(self.drift), wall))
        return 1 if new else 0
