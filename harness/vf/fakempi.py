"""Simulated MPI communicators (libmpi cannot be loaded in this sandbox).

ProcComm      one OS process per rank (fork), pipes between every ordered pair of ranks; implements exactly the
              methods NIFTy calls on a communicator.  Lower-case methods pickle their payload like mpi4py does,
              upper-case methods move raw buffers.  With sync=True a point-to-point send returns only after the
              matching receive was executed (rendezvous), which is the strongest blocking behaviour MPI allows.
              A blocked operation that is not served within `timeout` seconds raises Deadlock.
RecordingComm single process: executes ONE rank of a communication pattern, answers collectives from a script and
              returns placeholders for received values; logs the sequence of communication operations.
run_ranks     fork T ranks running fn(comm, *args); returns per-rank (result, log)."""
import os
import pickle
import select
import signal
import sys
import time
import traceback
from multiprocessing import Pipe, Process

import numpy as np


class Deadlock(RuntimeError):
    pass


class ProcComm:
    def __init__(self, rank, size, p2p_send, p2p_recv, ack_send, ack_recv, coll_send, coll_recv, sync, timeout, record=True):
        self._rank, self._size = rank, size
        self._ps, self._pr, self._as, self._ar = p2p_send, p2p_recv, ack_send, ack_recv
        self._cs, self._cr = coll_send, coll_recv   # collectives use their own channels (separate matching context)
        self._sync, self._timeout = sync, timeout
        self.log = [] if record else None
        self._seq = 0

    # -- helpers -------------------------------------------------------------------------------------------
    def _ev(self, op, **kw):
        if self.log is not None:
            self._seq += 1
            kw.update(op=op, seq=self._seq)
            self.log.append(kw)

    def _wait(self, conn, what):
        if not conn.poll(self._timeout):
            raise Deadlock("rank %d blocked in %s" % (self._rank, what))
        return conn.recv_bytes()

    def _p2p_send(self, payload, dest, tag):
        self._ps[dest].send_bytes(pickle.dumps((tag, payload)))
        if self._sync:
            self._wait(self._ar[dest], "send(dest=%d) waiting for the matching receive" % dest)

    def _p2p_recv(self, source, tag):
        t, payload = pickle.loads(self._wait(self._pr[source], "recv(source=%d)" % source))
        if t != tag:
            raise RuntimeError("rank %d: message kind mismatch from %d: got %s, expected %s" % (self._rank, source, t, tag))
        if self._sync:
            self._as[source].send_bytes(b"k")
        return payload

    # -- API used by NIFTy ---------------------------------------------------------------------------------
    def Get_rank(self):
        return self._rank

    def Get_size(self):
        return self._size

    def send(self, obj, dest):
        self._ev("send", peer=dest, tag="obj")
        self._p2p_send(pickle.dumps(obj), dest, "obj")

    def recv(self, source):
        self._ev("recv", peer=source, tag="obj")
        return pickle.loads(self._p2p_recv(source, "obj"))

    def Send(self, buf, dest):
        self._ev("send", peer=dest, tag="buf")
        a = np.ascontiguousarray(buf)
        self._p2p_send(a.tobytes(), dest, "buf")

    def Recv(self, buf, source):
        self._ev("recv", peer=source, tag="buf")
        raw = self._p2p_recv(source, "buf")
        flat = np.frombuffer(raw, dtype=buf.dtype)
        buf[...] = flat.reshape(buf.shape)

    # collectives go through rank 0 on the same pipes with their own tags (never acknowledged)
    def _gather0(self, obj, tag):
        if self._rank == 0:
            lst = [obj]
            for s in range(1, self._size):
                t, payload = pickle.loads(self._wait(self._cr[s], "collective %s (gather from %d)" % (tag, s)))
                if t != tag:
                    raise RuntimeError("collective mismatch: rank 0 in %s, rank %d sent %s" % (tag, s, t))
                lst.append(pickle.loads(payload))
            return lst
        self._cs[0].send_bytes(pickle.dumps((tag, pickle.dumps(obj))))
        return None

    def _scatter_same(self, obj, tag):
        if self._rank == 0:
            raw = pickle.dumps(obj)
            for d in range(1, self._size):
                self._cs[d].send_bytes(pickle.dumps((tag + ":r", raw)))
            return pickle.loads(raw) if self._size > 1 else obj
        t, payload = pickle.loads(self._wait(self._cr[0], "collective %s (result)" % tag))
        if t != tag + ":r":
            raise RuntimeError("collective mismatch on rank %d: got %s, in %s" % (self._rank, t, tag))
        return pickle.loads(payload)

    def allgather(self, obj):
        self._ev("coll", name="allgather")
        lst = self._gather0(obj, "allgather")
        return self._scatter_same(lst, "allgather")

    def allreduce(self, obj, op=None):
        self._ev("coll", name="allreduce")
        lst = self._gather0(obj, "allreduce")
        if self._rank == 0:
            acc = lst[0]
            for x in lst[1:]:
                acc = acc + x
            lst = acc
        return self._scatter_same(lst, "allreduce")

    def bcast(self, obj, root=0):
        self._ev("coll", name="bcast", root=root)
        if self._size == 1:
            return obj
        tag = "bcast%d" % root
        if self._rank == root:
            raw = pickle.dumps(obj)
            for d in range(self._size):
                if d != root:
                    self._cs[d].send_bytes(pickle.dumps((tag, raw)))
            # like mpi4py (msgpickle: dosend and dorecv are both set on the root of an intracommunicator): the root
            # also returns the object unpickled from the message, not its own object
            return pickle.loads(raw)
        t, payload = pickle.loads(self._wait(self._cr[root], "bcast(root=%d)" % root))
        if t != tag:
            raise RuntimeError("collective mismatch on rank %d: got %s, expected %s" % (self._rank, t, tag))
        return pickle.loads(payload)

    def Bcast(self, buf, root=0):
        self._ev("coll", name="Bcast", root=root)
        if self._size == 1:
            return
        tag = "Bcast%d" % root
        if self._rank == root:
            raw = np.ascontiguousarray(buf).tobytes()
            for d in range(self._size):
                if d != root:
                    self._cs[d].send_bytes(pickle.dumps((tag, raw)))
            return
        t, payload = pickle.loads(self._wait(self._cr[root], "Bcast(root=%d)" % root))
        if t != tag:
            raise RuntimeError("collective mismatch on rank %d: got %s, expected %s" % (self._rank, t, tag))
        buf[...] = np.frombuffer(payload, dtype=buf.dtype).reshape(buf.shape)

    def Barrier(self):
        self._ev("coll", name="Barrier")
        self._gather0(None, "barrier")
        self._scatter_same(None, "barrier")


def _child(rank, size, pipes, acks, cpipes, respipe, fn, args, sync, timeout):
    try:
        ps = {d: pipes[(rank, d)][1] for d in range(size) if d != rank}
        pr = {s: pipes[(s, rank)][0] for s in range(size) if s != rank}
        a_s = {s: acks[(rank, s)][1] for s in range(size) if s != rank}     # ack I send to source s
        a_r = {d: acks[(d, rank)][0] for d in range(size) if d != rank}     # ack I get from dest d
        cs = {d: cpipes[(rank, d)][1] for d in range(size) if d != rank}
        cr = {s: cpipes[(s, rank)][0] for s in range(size) if s != rank}
        comm = ProcComm(rank, size, ps, pr, a_s, a_r, cs, cr, sync, timeout)
        devnull = open(os.devnull, "w")
        old = sys.stdout
        sys.stdout = devnull
        try:
            out = fn(comm, *args)
        finally:
            sys.stdout = old
        respipe.send_bytes(pickle.dumps(("ok", out, comm.log)))
    except Deadlock as e:
        respipe.send_bytes(pickle.dumps(("deadlock", str(e), None)))
    except BaseException as e:
        respipe.send_bytes(pickle.dumps(("error", "%s: %s\n%s" % (type(e).__name__, e, traceback.format_exc()[-1500:]), None)))
    finally:
        os._exit(0)


def run_ranks(size, fn, args=(), sync=False, timeout=20.0, total_timeout=300.0):
    """Run fn(comm, *args) on `size` forked ranks.  Returns list of (status, result, log) per rank."""
    pipes = {(s, d): Pipe(duplex=False) for s in range(size) for d in range(size) if s != d}
    acks = {(r, s): Pipe(duplex=False) for r in range(size) for s in range(size) if r != s}
    cpipes = {(s, d): Pipe(duplex=False) for s in range(size) for d in range(size) if s != d}
    res = [Pipe(duplex=False) for _ in range(size)]
    procs = []
    for r in range(size):
        p = Process(target=_child, args=(r, size, pipes, acks, cpipes, res[r][1], fn, args, sync, timeout))
        p.start()
        procs.append(p)
    out = []
    t_end = time.time() + total_timeout
    for r in range(size):
        left = max(0.1, t_end - time.time())
        if res[r][0].poll(left):
            out.append(pickle.loads(res[r][0].recv_bytes()))
        else:
            out.append(("timeout", "rank %d produced no result" % r, None))
    for p in procs:
        p.join(2)
        if p.is_alive():
            p.kill()
            p.join()
    for a, b in list(pipes.values()) + list(acks.values()) + list(cpipes.values()) + res:
        a.close()
        b.close()
    return out


# ---------------------------------------------------------------------------------------------------------------
class Sym:
    """Symbolic summand: an expression tree with __add__; lets the real allreduce_sum build its summation tree."""
    __slots__ = ("t",)

    def __init__(self, t):
        self.t = t

    def __add__(self, o):
        return Sym(["N", self.t, o.t])

    def __eq__(self, o):
        return isinstance(o, Sym) and self.t == o.t

    def __hash__(self):
        return hash(repr(self.t))

    def __repr__(self):
        return "Sym(%r)" % (self.t,)


class RecordingComm:
    """Executes ONE rank of a communication pattern in a single process and logs its operations.

    counts       number of summands on every rank (the answer to allgather(len(vals)))
    types        list of summand types over all ranks (the answer to the allreduce of the type lists)
    recv_answer  callable(k) -> object returned by the k-th lower-case recv of this rank (k from 1, counting
                 lower- and upper-case receives together, as the model's `got` sequence does)
    bcast_script answers returned to a NON-root rank by successive lower-case bcast calls
    value_bcast  ordinal of the lower-case bcast call that carries the (symbolic) result, or None"""

    def __init__(self, rank, size, counts, types, recv_answer, bcast_script, value_bcast=None):
        self._rank, self._size, self._counts, self._types = rank, size, counts, types
        self._recv_answer = recv_answer
        self._bcast_script = list(bcast_script)
        self._value_bcast = value_bcast
        self.ops = []
        self._nrecv = 0
        self._nbcast = 0

    def Get_rank(self):
        return self._rank

    def Get_size(self):
        return self._size

    def allgather(self, obj):
        self.ops.append(dict(op="coll", name="allgather", root=0, expr=["X"]))
        return list(self._counts)

    def allreduce(self, obj, op=None):
        self.ops.append(dict(op="coll", name="allreduce", root=0, expr=["X"]))
        return list(self._types)

    @staticmethod
    def _expr(obj):
        return obj.t if isinstance(obj, Sym) else ["X"]

    def send(self, obj, dest):
        self.ops.append(dict(op="send", peer=int(dest), tag="obj", expr=self._expr(obj)))

    def Send(self, buf, dest):
        self.ops.append(dict(op="send", peer=int(dest), tag="buf", expr=["X"]))

    def recv(self, source):
        self._nrecv += 1
        self.ops.append(dict(op="recv", peer=int(source), tag="obj"))
        return self._recv_answer(self._nrecv)

    def Recv(self, buf, source):
        self._nrecv += 1
        self.ops.append(dict(op="recv", peer=int(source), tag="buf"))
        buf[...] = 0

    def bcast(self, obj, root=0):
        self._nbcast += 1
        nm = "bcast_value" if self._nbcast == self._value_bcast else "bcast"
        self.ops.append(dict(op="coll", name=nm, root=int(root), expr=self._expr(obj)))
        if self._rank == root:
            return obj
        return self._bcast_script[self._nbcast - 1]

    def Bcast(self, buf, root=0):
        self.ops.append(dict(op="coll", name="Bcast", root=int(root), expr=["X"]))

    def Barrier(self):
        self.ops.append(dict(op="coll", name="Barrier", root=0, expr=["X"]))
