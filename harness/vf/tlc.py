"""Driver for TLC: runs a specification from /verif/specs in a private run directory, parses TLC's own
statistics, the values printed through PrintT(ToJson(..)) (the spec -> harness data channel) and the
coverage report.  Every call is wrapped in a timeout; a TLC crash/timeout is a machinery failure."""
import json
import os
import re
import shutil
import subprocess
import time

VERIF = os.path.dirname(os.path.dirname(os.path.dirname(os.path.abspath(__file__))))
SPECS = os.path.join(VERIF, "specs")
RUNROOT = os.path.join(VERIF, ".run")
JAR = "/opt/veriftools/tla/tla2tools.jar:/opt/veriftools/tla/CommunityModules-deps.jar"


class MachineryError(Exception):
    pass


class TLCResult:
    def __init__(self):
        self.rc = None
        self.out = ""
        self.generated = 0      # "states generated" (= transitions explored + initial states)
        self.distinct = 0
        self.depth = 0
        self.violated = None    # name of a violated invariant / property, or "deadlock", or "postcondition"
        self.emitted = []       # parsed JSON documents printed by the spec
        self.tuples = []        # PrintT'ed TLA+ tuples (raw strings)
        self.coverage = {}      # action name -> (distinct, total) where available
        self.wall = 0.0
        self.cmd = ""
        self.rundir = ""
        self.error_trace = ""

    def ok(self):
        return self.rc == 0 and self.violated is None


def _copy_specs(rundir):
    for root, _dirs, files in os.walk(SPECS):
        for f in files:
            if f.endswith(".tla"):
                shutil.copy(os.path.join(root, f), os.path.join(rundir, f))


def new_rundir(tag):
    os.makedirs(RUNROOT, exist_ok=True)
    d = os.path.join(RUNROOT, "%s-%d-%d" % (tag, os.getpid(), int(time.time() * 1000) % 100000000))
    os.makedirs(d, exist_ok=True)
    _copy_specs(d)
    return d


def cleanup(rundir):
    shutil.rmtree(rundir, ignore_errors=True)


_num = lambda s: int(s.replace(",", ""))


def parse_emitted(out):
    """Values printed by PrintT(ToJson(v)) appear as one quoted JSON string per line."""
    docs = []
    for line in out.splitlines():
        if len(line) > 1 and line[0] == '"' and line[-1] == '"':
            try:
                docs.append(json.loads(json.loads(line)))
            except Exception as e:  # an unparsable emission is a machinery error
                raise MachineryError("unparsable emission from TLC: %r (%s)" % (line[:200], e))
    return docs


def run(module, cfg, *, tag=None, workers="auto", simulate=None, depth=None, seed=None, timeout=900,
        env=None, coverage=False, keep=False, deadlock=None, extra=(), dfs=False, heap="8g",
        allow_violation=False):
    """Run TLC on specs/<module>.tla with configuration text `cfg`.

    simulate: None for exhaustive BFS, or an int N (number of behaviours) for `-simulate num=N`.
    Returns a TLCResult; raises MachineryError on crash / timeout / parse errors."""
    tag = tag or module
    rundir = new_rundir(tag)
    res = TLCResult()
    res.rundir = rundir
    try:
        with open(os.path.join(rundir, module + ".cfg"), "w") as f:
            f.write(cfg)
        cmd = ["java", "-XX:+UseParallelGC", "-Xmx" + heap]
        if dfs:
            cmd.append("-Dtlc2.tool.queue.IStateQueue=StateDeque")
        cmd += ["-cp", JAR, "tlc2.TLC", "-workers", str(workers), "-metadir", os.path.join(rundir, "meta"),
                "-noGenerateSpecTE", "-config", module + ".cfg"]
        if simulate is not None:
            cmd += ["-simulate", "num=%d" % simulate]
        if depth is not None:
            cmd += ["-depth", str(depth)]
        if seed is not None:
            cmd += ["-seed", str(seed)]
        if coverage:
            cmd += ["-coverage", "1"]
        if deadlock is False:
            cmd += ["-deadlock"]          # -deadlock switches deadlock checking OFF in TLC
        cmd += list(extra)
        cmd.append(module + ".tla")
        res.cmd = " ".join(cmd)
        e = dict(os.environ)
        if env:
            e.update({k: str(v) for k, v in env.items()})
        t0 = time.time()
        try:
            p = subprocess.run(cmd, cwd=rundir, env=e, stdout=subprocess.PIPE, stderr=subprocess.STDOUT,
                               timeout=timeout, text=True, errors="replace")
        except subprocess.TimeoutExpired:
            raise MachineryError("TLC timed out after %ds on %s" % (timeout, module))
        res.wall = time.time() - t0
        res.rc = p.returncode
        res.out = out = p.stdout
        m = re.search(r"([\d,]+) states generated, ([\d,]+) distinct states found", out)
        if m:
            res.generated, res.distinct = _num(m.group(1)), _num(m.group(2))
        m = re.search(r"depth of the complete state graph search is (\d+)", out)
        if m:
            res.depth = int(m.group(1))
        if simulate is not None:
            m = re.search(r"The number of states generated: ([\d,]+)", out)
            if m:
                res.generated = res.distinct = _num(m.group(1))
        m = re.search(r"Invariant (\S+) is violated", out)
        if m:
            res.violated = m.group(1)
        elif "Deadlock reached" in out:
            res.violated = "deadlock"
        elif re.search(r"Action property (\S+) is violated|Temporal properties were violated", out):
            m2 = re.search(r"Action property (\S+) is violated", out)
            res.violated = m2.group(1) if m2 else "temporal"
        elif "The postcondition has failed" in out or "Evaluating postcondition" in out and "FALSE" in out:
            res.violated = "postcondition"
        if res.violated:
            i = out.find("Error:")
            res.error_trace = out[i:i + 6000]
        res.emitted = parse_emitted(out)
        res.tuples = [l for l in out.splitlines() if l.startswith("<<")]
        if coverage:
            for m in re.finditer(r"<(\w+) line \d+, col \d+ to line \d+, col \d+ of module \w+>: (\d+):(\d+)", out):
                nm = m.group(1)
                d, t = int(m.group(2)), int(m.group(3))
                if nm in res.coverage:
                    d0, t0_ = res.coverage[nm]
                    d, t = d + d0, t + t0_
                res.coverage[nm] = (d, t)
        fatal = None
        if res.violated is None and res.rc != 0:
            fatal = "TLC exit code %s" % res.rc
        if re.search(r"Error: .*(overflow|Parsing or semantic analysis failed|java\.lang)", out) and res.violated is None:
            fatal = "TLC error"
        if fatal and not allow_violation:
            raise MachineryError("%s on %s:\n%s" % (fatal, module, out[-3000:]))
        if fatal:
            res.violated = res.violated or "error"
            res.error_trace = out[-3000:]
        return res
    finally:
        if not keep:
            cleanup(rundir)


def sany_all():
    """Parse every spec once (setup step): fail fast on syntax errors."""
    rundir = new_rundir("sany")
    bad = []
    try:
        mods = sorted(f for f in os.listdir(rundir) if f.endswith(".tla"))
        for f in mods:
            p = subprocess.run(["java", "-cp", JAR, "tla2sany.SANY", f], cwd=rundir, stdout=subprocess.PIPE,
                               stderr=subprocess.STDOUT, text=True, timeout=120)
            if p.returncode != 0 or "Semantic errors" in p.stdout or "Parse Error" in p.stdout or "Fatal errors" in p.stdout:
                bad.append((f, p.stdout[-1500:]))
        return mods, bad
    finally:
        cleanup(rundir)
