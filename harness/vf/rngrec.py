"""Recorder for nifty.cl.random: wraps the module's public functions FROM OUTSIDE (no source hook) and logs one event
per call with the projection of the module state after the call (depth, identity of the top seed sequence, children
spawned, Random.* draw calls made on the top generator, draws compared with a reference generator built from the
seed identity alone).  Output: event lists for RandomCtxTrace.tla."""
import numpy as np


class Boom(Exception):
    pass


def ident(ss):
    e = ss.entropy
    if isinstance(e, (list, tuple, np.ndarray)):
        e = int(sum(int(x) for x in e))
    e = int(e) % 1000003
    return [e] + [int(k) for k in ss.spawn_key]


class RngRecorder:
    PATCH_ALSO = ("nifty.cl.minimization.optimize_kl",)

    def __init__(self):
        from nifty.cl import random as R
        self.R = R
        self.events = []
        self.keep = []          # keep generators alive: ids must never be reused
        self.drawn = {}         # id(generator) -> number of Random.* calls
        self.shadow = {}        # id(generator) -> reference generator built from the identity alone
        self.orig = {}
        self.installed = False

    # ---- projection ------------------------------------------------------------------------------------
    def proj(self):
        R = self.R
        top, g = R._sseq[-1], R._rng[-1]
        self.keep.append(g)
        return dict(depth=len(R._sseq), seed=ident(top), spawned=int(top.n_children_spawned), drawn=self.drawn.get(id(g), 0))

    def ev(self, op, **kw):
        e = dict(op=op, arg=0, n=0, same_as_reference=True, final=False)
        e.update(kw)
        e.update(self.proj())
        self.events.append(e)
        return e

    def start_trace(self):
        self.events = []
        self.ev("init")

    def end_trace(self):
        if self.events:
            self.events[-1]["final"] = True
        ev, self.events = self.events, []
        return ev

    def _new_gen(self):
        R = self.R
        g, ss = R._rng[-1], R._sseq[-1]
        self.keep.append(g)
        self.drawn[id(g)] = 0
        self.shadow[id(g)] = np.random.default_rng(np.random.SeedSequence(ss.entropy, spawn_key=ss.spawn_key))

    # ---- installation ------------------------------------------------------------------------------------
    def install(self):
        import importlib
        R = self.R
        rec = self
        o = self.orig = dict(push_sseq=R.push_sseq, push_sseq_from_seed=R.push_sseq_from_seed, pop_sseq=R.pop_sseq,
                             spawn_sseq=R.spawn_sseq, enter=R.Context.__enter__, exit=R.Context.__exit__,
                             normal=R.Random.normal, uniform=R.Random.uniform, pm1=R.Random.pm1, setState=R.setState)
        self.in_ctx = 0

        def push_sseq(sseq):
            o["push_sseq"](sseq)
            rec._new_gen()
            if not rec.in_ctx:
                rec.ev("push_sseq")

        def push_sseq_from_seed(seed):
            rec.in_ctx += 1
            try:
                o["push_sseq_from_seed"](seed)
            finally:
                rec.in_ctx -= 1
            rec._new_gen()
            if not rec.in_ctx:
                rec.ev("push_seed", arg=int(seed))

        def pop_sseq():
            o["pop_sseq"]()
            if not rec.in_ctx:
                rec.ev("pop")

        def spawn_sseq(n, parent=None):
            res = o["spawn_sseq"](n, parent)
            if parent is None:
                rec.ev("spawn", n=int(n))
            return res

        def enter(self_):
            rec.in_ctx += 1
            try:
                res = o["enter"](self_)
            finally:
                rec.in_ctx -= 1
            rec.ev("enter_sseq")
            return res

        def exit_(self_, exc_type, exc_value, tb):
            rec.in_ctx += 1
            try:
                res = o["exit"](self_, exc_type, exc_value, tb)
            finally:
                rec.in_ctx -= 1
                rec.ev("exit" if exc_type is None else "exit_exc")       # logged on the error path as well
            return res

        def mk_draw(name):
            fn = o[name]

            def draw(*a, **k):
                g = R._rng[-1]
                x = fn(*a, **k)
                same = True
                sh = rec.shadow.get(id(g))
                if sh is not None:
                    R._rng[-1] = sh
                    try:
                        ref = fn(*a, **k)
                    finally:
                        R._rng[-1] = g
                    same = bool(np.array_equal(x, ref))
                rec.drawn[id(g)] = rec.drawn.get(id(g), 0) + 1
                rec.ev("draw", n=1, same_as_reference=same)
                return x
            return staticmethod(draw)

        def setState(state):
            o["setState"](state)
            rec.shadow = {}
            rec.ev("set_state")

        # push_sseq_from_seed calls the module-level push_sseq internally; Context.__enter__/__exit__ call push/pop
        R.push_sseq, R.push_sseq_from_seed, R.pop_sseq, R.spawn_sseq, R.setState = push_sseq, push_sseq_from_seed, pop_sseq, spawn_sseq, setState
        R.Context.__enter__, R.Context.__exit__ = enter, exit_
        R.Random.normal, R.Random.uniform, R.Random.pm1 = mk_draw("normal"), mk_draw("uniform"), mk_draw("pm1")
        self.also = []
        for mn in self.PATCH_ALSO:
            try:
                m = importlib.import_module(mn)
            except Exception:
                continue
            saved = {}
            for nm, fn in (("push_sseq", push_sseq), ("pop_sseq", pop_sseq), ("spawn_sseq", spawn_sseq)):
                if hasattr(m, nm):
                    saved[nm] = getattr(m, nm)
                    setattr(m, nm, fn)
            self.also.append((m, saved))
        self.installed = True
        return self

    def uninstall(self):
        if not self.installed:
            return
        R, o = self.R, self.orig
        R.push_sseq, R.push_sseq_from_seed, R.pop_sseq, R.spawn_sseq, R.setState = o["push_sseq"], o["push_sseq_from_seed"], o["pop_sseq"], o["spawn_sseq"], o["setState"]
        R.Context.__enter__, R.Context.__exit__ = o["enter"], o["exit"]
        R.Random.normal, R.Random.uniform, R.Random.pm1 = staticmethod(o["normal"]), staticmethod(o["uniform"]), staticmethod(o["pm1"])
        for m, saved in self.also:
            for nm, fn in saved.items():
                setattr(m, nm, fn)
        self.installed = False

    def __enter__(self):
        return self.install()

    def __exit__(self, *a):
        self.uninstall()
        return False
