"""Batch validation of recorded traces against a TLA+ trace module (see specs/lib/TraceLib.tla)."""
import json
import os
import re

from . import tlc as tlcmod


class TraceResult:
    def __init__(self):
        self.maxl = []          # per trace: number of events matched
        self.lengths = []
        self.propfail = []      # (tid0, l, clause)
        self.tlc = None

    @property
    def rejected(self):
        return [i for i, (m, n) in enumerate(zip(self.maxl, self.lengths)) if m < n]

    @property
    def accepted(self):
        return len(self.maxl) - len(self.rejected)


def validate(ctx, module, traces, cfg="SPECIFICATION Spec\nCONSTRAINT Progress\nPOSTCONDITION Report\n", label=None,
             timeout=900, first_consumed=0, dfs=False, extra_env=None, invariants=()):
    """traces: list of lists of JSON-able event dicts.  first_consumed: number of leading lines consumed by Init.
    Returns TraceResult; model-level invariant violations inside the trace run are returned via .tlc.violated."""
    os.makedirs(tlcmod.RUNROOT, exist_ok=True)
    tf = os.path.join(tlcmod.RUNROOT, "%s-traces-%d.json" % (ctx.pid, os.getpid()))
    with open(tf, "w") as f:
        json.dump(traces, f)
    cfg = cfg + "".join("INVARIANT %s\n" % i for i in invariants)
    env = dict(TRACE_FILE=tf)
    if extra_env:
        env.update(extra_env)
    try:
        r = ctx.tlc(module, cfg, label=label or "%d traces" % len(traces), workers=1, deadlock=False, env=env,
                    timeout=timeout, expect_ok=False, dfs=dfs)
    finally:
        if os.path.exists(tf):
            os.remove(tf)
    res = TraceResult()
    res.tlc = r
    res.lengths = [len(t) for t in traces]
    m = re.search(r'<<\s*"MAXL",\s*(<<.*?>>|\(.*?\))\s*>>', r.out, re.S)
    if not m:
        if r.violated:
            res.maxl = [0] * len(traces)
            return res
        raise tlcmod.MachineryError("trace validation of %s printed no MAXL report:\n%s" % (module, r.out[-2000:]))
    body = m.group(1)
    if body.startswith("<<"):
        res.maxl = [int(x) for x in re.findall(r"-?\d+", body)]
    else:   # function printed as (1 :> a @@ 2 :> b)
        res.maxl = [int(b) for a, b in re.findall(r"(\d+) :> (\d+)", body)]
    if len(res.maxl) != len(traces):
        raise tlcmod.MachineryError("MAXL report has %d entries for %d traces" % (len(res.maxl), len(traces)))
    for mm in re.finditer(r'<<\s*"PROPFAIL",\s*(\d+),\s*(\d+),\s*"([^"]*)"\s*>>', r.out, re.S):
        t = (int(mm.group(1)) - 1, int(mm.group(2)), mm.group(3))
        if t not in res.propfail:
            res.propfail.append(t)
    ctx.traces += len(traces)
    return res


def masked_truth(tv, traces, truth_of):
    """Ground-truth clauses travel in the final event of a trace and are evaluated by TLC when that event is consumed.  A trace that
    is rejected earlier (a fidelity mismatch) never gets there: its property clauses must not be masked by the rejection.
    truth_of(trace) -> dict name -> bool.  Yields (tid, name) for every false clause of a rejected trace."""
    reported = {t for t, _, _ in tv.propfail}
    for tid in tv.rejected:
        if tid in reported:
            continue
        for name, ok in truth_of(traces[tid]).items():
            if not ok:
                yield tid, name
