"""./check front end (see /verif/check)."""
import argparse
import importlib
import json
import os
import shutil
import subprocess
import sys
import traceback

from . import tlc as tlcmod
from .core import Ctx, VERIF


def setup():
    ok = True
    try:
        v = subprocess.run(["java", "-version"], stdout=subprocess.PIPE, stderr=subprocess.STDOUT, text=True).stdout
        print("java:", v.splitlines()[0])
    except Exception as e:
        print("java missing", e)
        ok = False
    for p in ("/opt/veriftools/tla/tla2tools.jar", "/venv/bin/python", "/repo/nifty/__init__.py"):
        if not os.path.exists(p):
            print("missing", p)
            ok = False
    shutil.rmtree(tlcmod.RUNROOT, ignore_errors=True)
    mods, bad = tlcmod.sany_all()
    print("parsed %d TLA+ modules, %d with errors" % (len(mods), len(bad)))
    for f, out in bad:
        print("SANY ERROR in", f, "\n", out)
        ok = False
    os.makedirs(os.path.join(VERIF, "evidence", "replays"), exist_ok=True)
    return 0 if ok else 2


def main():
    import logging
    logging.disable(logging.CRITICAL)      # the library's own log lines are not part of a verdict
    ap = argparse.ArgumentParser()
    ap.add_argument("prop", nargs="?")
    ap.add_argument("--setup", action="store_true")
    ap.add_argument("--tier", default=os.environ.get("VERIF_TIER", "quick"), choices=["quick", "thorough"])
    ap.add_argument("--replay")
    ap.add_argument("--selftest", action="store_true")
    a = ap.parse_args()
    if a.setup:
        sys.exit(setup())
    if not a.prop:
        ap.error("property id required")
    seed = int(os.environ.get("VERIF_SEED", "0") or 0)
    ctx = Ctx(a.prop, a.tier, seed)
    try:
        mod = importlib.import_module("props." + a.prop)
    except ModuleNotFoundError as e:
        print("no check for", a.prop, e)
        sys.exit(2)
    try:
        if a.replay:
            with open(a.replay) as f:
                doc = json.load(f)
            ctx.seed = int(doc.get("seed", seed))
            if hasattr(mod, "replay"):
                mod.replay(ctx, doc)
            else:
                ctx.tier = doc.get("tier", a.tier)
                mod.run(ctx)
        else:
            mod.run(ctx)
            if a.selftest or (a.tier == "thorough" and hasattr(mod, "selftest")):
                if hasattr(mod, "selftest"):
                    ctx.selftest = mod.selftest(ctx)
                    if ctx.selftest and not ctx.selftest.get("ok", False):
                        raise tlcmod.MachineryError("binding self-test failed: %r" % (ctx.selftest,))
        rc = ctx.finish()
    except tlcmod.MachineryError as e:
        print("MACHINERY-ERROR property=%s: %s" % (a.prop, e), flush=True)
        sys.exit(2)
    except Exception:
        traceback.print_exc()
        print("MACHINERY-ERROR property=%s: unexpected exception in the harness" % a.prop, flush=True)
        sys.exit(2)
    sys.stdout.flush()
    sys.stderr.flush()
    if os.environ.get("VF_COVERAGE"):
        sys.exit(rc)
    os._exit(rc)


if __name__ == "__main__":
    main()
