"""File-system interposition for crash-point enumeration (child-process side) and the driver that enumerates crash points.

Child side:  `import vf.crashfs as c; c.install()` BEFORE importing the library.  Every file-system effect below CF_ROOT
(open for writing, write, close, os.replace/rename, os.remove/unlink, Path.unlink, os.makedirs) is a numbered event.
  CF_MODE=record   append the events to CF_LOG (ndjson)
  CF_MODE=kill     SIGKILL the process at event CF_KILL_AT, variant CF_VARIANT:
                     before  immediately before the effect
                     after   immediately after it
                     torn    (writes only) after writing a strict prefix of the data and flushing it
The crash model is a process kill: data written and flushed/closed before the kill is on disk, data in a user-space buffer
is lost.  Loss of OS-buffered data on power failure is outside the model."""
import builtins
import json
import os
import pathlib
import signal

_real_open = builtins.open
_state = dict(n=0)


def install():
    MODE = os.environ.get("CF_MODE", "record")
    KILL_AT = int(os.environ.get("CF_KILL_AT", "-1"))
    VARIANT = os.environ.get("CF_VARIANT", "before")
    LOG = os.environ.get("CF_LOG")
    ROOT = os.path.abspath(os.environ["CF_ROOT"])

    def inside(p):
        try:
            return os.path.abspath(p).startswith(ROOT)
        except Exception:
            return False

    def emit(kind, path, extra=None):
        k = _state["n"]
        _state["n"] += 1
        if LOG:
            with _real_open(LOG, "a") as f:
                f.write(json.dumps({"k": k, "ev": kind, "path": os.path.relpath(os.path.abspath(path), ROOT), "x": extra}) + "\n")
        return k

    def die():
        os.kill(os.getpid(), signal.SIGKILL)

    def maybe(k, when):
        if MODE == "kill" and k == KILL_AT and VARIANT == when:
            die()

    class Proxy:
        def __init__(self, f, path):
            self._f = f
            self._p = path
            self._closed = False

        def write(self, data):
            k = emit("write", self._p, len(data))
            maybe(k, "before")
            if MODE == "kill" and k == KILL_AT and VARIANT == "torn":
                self._f.write(data[:max(1, len(data) // 2)])
                self._f.flush()
                die()
            r = self._f.write(data)
            maybe(k, "after")
            return r

        def close(self):
            if self._closed:
                return
            self._closed = True
            k = emit("close", self._p)
            maybe(k, "before")
            r = self._f.close()
            maybe(k, "after")
            return r

        def __enter__(self):
            return self

        def __exit__(self, *a):
            self.close()
            return False

        def __getattr__(self, n):
            return getattr(self._f, n)

        def __iter__(self):
            return iter(self._f)

    def patched_open(file, mode="r", *a, **kw):
        if isinstance(file, (str, os.PathLike)) and inside(file) and any(c in mode for c in "wax+"):
            k = emit("open:" + mode, file)
            maybe(k, "before")
            f = _real_open(file, mode, *a, **kw)
            maybe(k, "after")
            return Proxy(f, file)
        return _real_open(file, mode, *a, **kw)

    def wrap2(name, fn):
        def w(src, dst, *a, **kw):
            if inside(dst) or inside(src):
                k = emit(name, dst, os.path.relpath(os.path.abspath(src), ROOT))
                maybe(k, "before")
                r = fn(src, dst, *a, **kw)
                maybe(k, "after")
                return r
            return fn(src, dst, *a, **kw)
        return w

    def wrap1(name, fn):
        def w(p, *a, **kw):
            if _state.get("nested"):
                return fn(p, *a, **kw)
            if isinstance(p, (str, os.PathLike)) and inside(p):
                if name == "makedirs" and os.path.isdir(p):
                    return fn(p, *a, **kw)
                k = emit(name, p)
                maybe(k, "before")
                r = fn(p, *a, **kw)
                maybe(k, "after")
                return r
            return fn(p, *a, **kw)
        return w

    builtins.open = patched_open
    import io
    io.open = patched_open
    os.replace = wrap2("replace", os.replace)
    os.rename = wrap2("rename", os.rename)
    os.remove = wrap1("remove", os.remove)
    os.unlink = wrap1("remove", os.unlink)
    os.makedirs = wrap1("makedirs", os.makedirs)
    _punlink = pathlib.Path.unlink

    def punlink(self, missing_ok=False):
        if inside(self):
            if missing_ok and not self.exists():
                return None
            k = emit("remove", str(self))
            maybe(k, "before")
            _state["nested"] = True       # Path.unlink calls os.unlink: one effect, one event
            try:
                r = _punlink(self, missing_ok=missing_ok)
            finally:
                _state["nested"] = False
            maybe(k, "after")
            return r
        return _punlink(self, missing_ok=missing_ok)
    pathlib.Path.unlink = punlink


# ---- driver side -------------------------------------------------------------------------------------------------
def run_child(script, root, mode, kill_at=-1, variant="before", resume=False, extra_env=None, timeout=600, python=None):
    import subprocess
    import sys
    env = dict(os.environ, CF_MODE=mode, CF_KILL_AT=str(kill_at), CF_VARIANT=variant, CF_LOG=os.path.join(root, "events.ndjson"),
               CF_ROOT=root, CF_RESULT=os.path.join(root, "result.json"), CF_RESUME="1" if resume else "0")
    if extra_env:
        env.update({k: str(v) for k, v in extra_env.items()})
    for f in ("result.json", "events.ndjson"):
        if os.path.exists(os.path.join(root, f)):
            os.remove(os.path.join(root, f))
    p = subprocess.run([python or sys.executable, script], env=env, stdout=subprocess.PIPE, stderr=subprocess.PIPE, text=True, timeout=timeout)
    res = None
    rp = os.path.join(root, "result.json")
    if os.path.exists(rp):
        with _real_open(rp) as f:
            res = json.load(f)
    ev = []
    lp = os.path.join(root, "events.ndjson")
    if os.path.exists(lp):
        with _real_open(lp) as f:
            ev = [json.loads(l) for l in f if l.strip()]
    return p.returncode, res, p.stderr[-1500:], ev


def crash_points(events, only=None):
    pts = []
    for e in events:
        if only is not None and not only(e):
            continue
        vs = ("before", "after", "torn") if e["ev"] == "write" and (e["x"] or 0) > 1 else ("before", "after")
        for v in vs:
            pts.append((e["k"], v))
    return pts
