"""development only: with COVERAGE_PROCESS_START set (tools/anchor_coverage.sh) every Python process that has /verif/harness on its
path records which library lines it executes; without the variable this file does nothing."""
import os
if os.environ.get("COVERAGE_PROCESS_START"):
    try:
        import coverage
        coverage.process_startup()
    except Exception:
        pass
