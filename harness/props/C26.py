"""C26 - Sample lists persist faithfully and report exact statistics.

SampleListFS.tla   save / overwrite / load histories of plain and residual lists under two prefix-related base names, any number
                   of tasks on either side; TLC: FaithfulNow, NoStaleMean for all histories
StreamStat.tla     mean / unbiased variance of integer streams as exact rationals; TLC: the streaming recurrence = closed form
spec -> code       TLC histories replayed with the real SampleList / ResidualSampleList in a scratch directory (process-per-rank
                   simulated communicator for T > 1); TLC streams replayed into StatCalculator, sample_stat, average and the
                   HDF5 export"""
import json
import os
import random
import shutil
import tempfile
from concurrent.futures import ProcessPoolExecutor
from fractions import Fraction

import numpy as np

from vf import fakempi
from vf import tlc as tlcmod
from vf.core import quiet

CFG = "CONSTANTS MaxN = %d\nMaxT = %d\nMaxOps = %d\nKeepHist = %s\nEmitHist = %s\nSPECIFICATION Spec\n"


def share(n, T, r):
    lo = r * (n // T) + (r if r < n % T else n % T)
    hi = lo + n // T + (1 if r < n % T else 0)
    return lo, hi


def _mk(ift, multi):
    if multi:
        return ift.MultiDomain.make({"a": ift.RGSpace(2), "b": ift.UnstructuredDomain(1)})
    return ift.DomainTuple.make(ift.RGSpace(3))


def _val(ift, dom, x):
    if isinstance(dom, ift.MultiDomain):
        return ift.MultiField.from_dict({"a": ift.makeField(dom["a"], np.array([x, x + 0.5])), "b": ift.makeField(dom["b"], np.array([-x]))})
    return ift.makeField(dom, np.array([x, 2 * x, x + 0.25]))


def _flat(f):
    import nifty.cl as ift
    if isinstance(f, ift.MultiField):
        return [float(v) for k in sorted(f.keys()) for v in f[k].asnumpy().ravel()]
    return [float(v) for v in f.asnumpy().ravel()]


def _save_worker(comm, path, n, residual, ow, sid, multi):
    import nifty.cl as ift
    dom = _mk(ift, multi)
    T = 1 if comm is None else comm.Get_size()
    r = 0 if comm is None else comm.Get_rank()
    lo, hi = share(n, T, r)
    mean = _val(ift, dom, 1000. * sid)
    try:
        if residual:
            res = [_val(ift, dom, 10. * sid + i) for i in range(lo, hi)]
            neg = [bool(i % 2) for i in range(lo, hi)]
            sl = ift.ResidualSampleList(mean, res, neg, comm=comm)
        else:
            sl = ift.SampleList([_val(ift, dom, 10. * sid + i) for i in range(lo, hi)], comm=comm, domain=dom)
        sl.save(path, overwrite=ow)
        return "ok"
    except RuntimeError as e:
        if "already exists" in str(e) or "tasks failed" in str(e).lower() or "exist" in str(e):
            return "exists"
        return "error:" + str(e)[:100]


def _load_worker(comm, path, residual):
    import nifty.cl as ift
    try:
        cls = ift.ResidualSampleList if residual else ift.SampleList
        sl = cls.load(path, comm=comm)
        items = [_flat(s) for s in sl.iterator()]
        return dict(outcome="loaded", items=items, n=int(sl.n_samples))
    except Exception as e:
        return dict(outcome="error", what="%s: %s" % (type(e).__name__, str(e)[:120]))


def _expected_items(multi, residual, items):
    import nifty.cl as ift
    dom = _mk(ift, multi)
    out = []
    for it in items:
        sid, i = it["id"], it["idx"]
        v = _val(ift, dom, 10. * sid + i)
        if residual:
            m = _val(ift, dom, 1000. * sid)
            v = m - v if i % 2 else m + v
        out.append(_flat(v))
    return out


def _run(T, fn, args):
    if T == 1:
        with quiet():
            return [fn(None, *args)]
    res = fakempi.run_ranks(T, fn, args, sync=False, timeout=20, total_timeout=60)
    out = []
    for status, val, _log in res:
        out.append(val if status == "ok" else "rank-" + status + ":" + str(val)[:200])
    return out


def replay_hist(job):
    """returns list of (kind, message) with kind in {'violation','drift'}"""
    hist, multi, root = job
    d = tempfile.mkdtemp(prefix="c26-", dir=root)
    out = []
    try:
        for i, e in enumerate(hist):
            path = os.path.join(d, e["base"])
            if e["op"] == "save":
                res = _run(e["T"], _save_worker, (path, e["n"], e["residual"], e["ow"], e["id"], multi))
                got = "ok" if all(r == "ok" for r in res) else ("exists" if any(r == "exists" for r in res) or all(isinstance(r, str) and ("rank-error" in r) for r in res if r != "ok") else "other")
                if got != e["outcome"]:
                    out.append(("drift", "step %d save(%s): model %s, real %s" % (i, {k: e[k] for k in ("base", "n", "T", "residual", "ow")}, e["outcome"], res)))
                    break
            else:
                res = _run(e["T"], _load_worker, (path, e["residual"]))
                if e["outcome"] == "ok":
                    exp = _expected_items(multi, e["residual"], e["items"])
                    for rk, r in enumerate(res):
                        if not isinstance(r, dict) or r["outcome"] != "loaded":
                            out.append(("violation", "step %d load(%s, T=%d) after a successful save fails on rank %d: %s" % (i, e["base"], e["T"], rk, r)))
                            break
                        if r["items"] != exp:
                            out.append(("violation", "step %d load(%s, T=%d) returns %d samples %s..., saved were %d samples %s..." % (
                                i, e["base"], e["T"], len(r["items"]), r["items"][:2], len(exp), exp[:2])))
                            break
                else:
                    out.append(("drift", "the model predicts outcome %s for a load after a successful save" % e["outcome"]))
            if out and out[-1][0] == "violation":
                break
    finally:
        shutil.rmtree(d, ignore_errors=True)
    return out


# ---- statistics ---------------------------------------------------------------------------------------------------
def check_stream(ctx, ift, rec, tmpdir, with_h5):
    xs = rec["xs"]
    n = len(xs)
    mean = Fraction(rec["mean"]["num"], rec["mean"]["den"])
    var = Fraction(rec["var"]["num"], rec["var"]["den"]) if n >= 2 else None
    dom = ift.DomainTuple.make(ift.RGSpace(2))
    # sample j is the field (x_j, 2 x_j): mean (m, 2m), variance (v, 4v); the operator doubles again
    samples = [ift.makeField(dom, np.array([float(x), 2. * x])) for x in xs]
    op = ift.ScalingOperator(dom, 2.)
    bad = []

    def close(a, b):
        return abs(a - b) <= 1e-12 * max(1., abs(b))
    from nifty.cl.probing import StatCalculator
    sc = StatCalculator()
    for s in samples:
        sc.add(s)
    m = sc.mean.asnumpy()
    if not (close(m[0], float(mean)) and close(m[1], 2 * float(mean))):
        bad.append("StatCalculator.mean %s != %s" % (m, mean))
    if n >= 2:
        v = sc.var.asnumpy()
        if not (close(v[0], float(var)) and close(v[1], 4 * float(var))):
            bad.append("StatCalculator.var %s != unbiased variance %s" % (v, var))
    sl = ift.SampleList(samples)
    a = sl.average(op).asnumpy()
    if not (close(a[0], 2 * float(mean)) and close(a[1], 4 * float(mean))):
        bad.append("SampleList.average %s != %s" % (a, 2 * mean))
    if n >= 2:
        mm, vv = sl.sample_stat(op)
        if not (close(mm.asnumpy()[0], 2 * float(mean)) and close(vv.asnumpy()[0], 4 * float(var)) and close(vv.asnumpy()[1], 16 * float(var))):
            bad.append("SampleList.sample_stat %s %s != (%s, %s)" % (mm.asnumpy(), vv.asnumpy(), 2 * mean, 4 * var))
        # residual list with the same samples: mean 0 + residual x_j
        rl = ift.ResidualSampleList(ift.full(dom, 0.), samples, [False] * n)
        mm2, vv2 = rl.sample_stat(None)
        if not (close(mm2.asnumpy()[0], float(mean)) and close(vv2.asnumpy()[1], 4 * float(var))):
            bad.append("ResidualSampleList.sample_stat %s %s" % (mm2.asnumpy(), vv2.asnumpy()))
    if with_h5:
        import h5py
        fn = os.path.join(tmpdir, "s%d.h5" % abs(hash(tuple(xs))))
        # every combination of what can be exported (the branches of save_to_hdf5 differ), with and without an operator
        for use_op in (True, False):
            fac = 2. if use_op else 1.
            for flags in ((1, 1, 1), (0, 1, 0), (0, 0, 1), (1, 1, 0), (1, 0, 1), (0, 1, 1), (1, 0, 0)):
                wsamp, wmean, wstd = flags
                if wstd and n < 2:
                    continue
                tag = "HDF5 export (op=%s, samples=%d, mean=%d, std=%d)" % (use_op, wsamp, wmean, wstd)
                try:
                    sl.save_to_hdf5(fn, op=op if use_op else None, samples=bool(wsamp), mean=bool(wmean), std=bool(wstd), overwrite=True)
                    with h5py.File(fn, "r") as f:
                        hm = np.array(f["stats"]["mean"]) if wmean else None
                        hs = np.array(f["stats"]["standard deviation"]) if wstd else None
                        ns = len(f["samples"].keys()) if wsamp else None
                        s0 = np.array(f["samples"]["0"]) if wsamp else None
                        extra = [k for k, w in (("samples", wsamp),) if not w and k in f] + \
                                [k for k, w in (("mean", wmean), ("standard deviation", wstd)) if not w and "stats" in f and k in f["stats"]]
                    os.remove(fn)
                except Exception as e:
                    bad.append("%s raised %s: %s" % (tag, type(e).__name__, str(e)[:100]))
                    continue
                if wmean and not (close(hm[0], fac * float(mean)) and close(hm[1], 2 * fac * float(mean))):
                    bad.append("%s: mean %s, expected %s" % (tag, hm, fac * mean))
                if wstd and not (close(hs[0] ** 2, fac ** 2 * float(var)) and close(hs[1] ** 2, 4 * fac ** 2 * float(var))):
                    bad.append("%s: standard deviation %s, expected the root of %s" % (tag, hs, fac ** 2 * var))
                if wsamp and (ns != n or not close(s0[0], fac * xs[0])):
                    bad.append("%s: %d sample groups, first %s" % (tag, ns, s0))
                if extra:
                    bad.append("%s: contains %s which was not requested" % (tag, extra))
    # the probing helpers are the same statistics over what an operator draws: an operator that hands out the stream sample by sample
    from nifty.cl.probing import approximation2endo, probe_diagonal, probe_with_posterior_samples

    class StreamOp(ift.EndomorphicOperator):
        def __init__(s_, dom_, items):
            s_._domain = ift.makeDomain(dom_)
            s_._capability = s_.TIMES
            s_.items = list(items)
            s_.k = 0

        def apply(s_, x, mode):
            return x

        def draw_sample(s_, from_inverse=False):
            s_.k += 1
            return s_.items[(s_.k - 1) % len(s_.items)]
    try:
        pm, pv = probe_with_posterior_samples(StreamOp(dom, samples), op, n, np.float64)
        if not (close(pm.asnumpy()[0], 2 * float(mean)) and close(pm.asnumpy()[1], 4 * float(mean))):
            bad.append("probe_with_posterior_samples mean %s != %s" % (pm.asnumpy(), 2 * mean))
        if n == 1 and pv is not None:
            bad.append("probe_with_posterior_samples returns a variance for a single probe")
        if n >= 2 and not (close(pv.asnumpy()[0], 4 * float(var)) and close(pv.asnumpy()[1], 16 * float(var))):
            bad.append("probe_with_posterior_samples variance %s != unbiased variance %s of the operator outputs" % (pv.asnumpy(), 4 * var))
        pm0, _ = probe_with_posterior_samples(StreamOp(dom, samples), None, n, np.float64)
        if not close(pm0.asnumpy()[1], 2 * float(mean)):
            bad.append("probe_with_posterior_samples (no operator) mean %s != %s" % (pm0.asnumpy(), mean))
        if n >= 2:
            md = ift.MultiDomain.make({"u": dom})
            ap = approximation2endo(StreamOp(md, [ift.MultiField.from_dict({"u": s_}) for s_ in samples]), n)["u"].asnumpy()
            want = [float(var) if var != 0 else 1., 4 * float(var) if var != 0 else 1.]
            if not (close(ap[0], want[0]) and close(ap[1], want[1])):
                bad.append("approximation2endo %s != unbiased variance (zeros replaced by one) %s" % (ap, want))
        dg = ift.makeField(dom, np.array([float(xs[0]), 2. + n]))
        pdg = probe_diagonal(ift.makeOp(dg), max(n, 1)).asnumpy()
        if not (close(pdg[0], float(xs[0])) and close(pdg[1], 2. + n)):
            bad.append("probe_diagonal of a diagonal operator %s != its diagonal %s" % (pdg, dg.asnumpy()))
    except Exception as e:
        bad.append("probing helpers raised %s: %s" % (type(e).__name__, str(e)[:120]))
    # ShiftInvariant: the same stream with a common offset of 1e8 has the same variance and the mean shifted by the offset
    if n >= 2:
        off = 1e8
        big = [ift.makeField(dom, np.array([off + x, off + 2. * x])) for x in xs]

        def vclose(a, b):
            return np.isfinite(a) and abs(a - b) <= 1e-6 * max(1., abs(b))
        sc = StatCalculator()
        for s in big:
            sc.add(s)
        v, m = sc.var.asnumpy(), sc.mean.asnumpy()
        if not (vclose(v[0], float(var)) and vclose(v[1], 4 * float(var)) and abs(m[0] - off - float(mean)) <= 1e-6):
            bad.append("StatCalculator with a common offset of 1e8: mean - offset %s var %s, expected %s and (%s, %s)" % (m[0] - off, v, mean, var, 4 * var))
        mm, vv = ift.SampleList(big).sample_stat(None)
        if not (vclose(vv.asnumpy()[0], float(var)) and vclose(vv.asnumpy()[1], 4 * float(var))):
            bad.append("SampleList.sample_stat with a common offset of 1e8: variance %s, expected (%s, %s)" % (vv.asnumpy(), var, 4 * var))
    for b in bad:
        ctx.violation(dict(kind="statistics", which=b.split(" ")[0]), "stream %s: %s" % (xs, b), replay=dict(stream=rec))
    return not bad


def run(ctx):
    import nifty.cl as ift
    q = ctx.quick
    maxn, maxt, ops = (3, 3, 3) if q else (4, 4, 3)
    ctx.constants.update(MaxN=maxn, MaxT=maxt, MaxOps=ops)
    ctx.tlc("SampleListFS", CFG % (maxn, maxt, ops, "FALSE", "FALSE") + "INVARIANT FaithfulNow\nINVARIANT NoStaleMean\nCHECK_DEADLOCK FALSE\n",
            label="all histories <=%d ops" % ops, coverage=not q, timeout=1700)
    for inv in ("NeverShorter", "NeverFails"):
        r = ctx.tlc("SampleListFS", CFG % (3, 2, 3, "FALSE", "FALSE") + "INVARIANT %s\nCHECK_DEADLOCK FALSE\n" % inv, label="witness " + inv, expect_ok=False)
        if r.violated != inv:
            raise tlcmod.MachineryError("vacuity witness %s not refuted" % inv)
    # ---- spec -> code: histories ---------------------------------------------------------------------------------
    nsim = 260 if q else 1200
    s = ctx.tlc("SampleListFS", CFG % (3 if q else 4, 2 if q else 4, 5, "TRUE", "TRUE") + "INVARIANT Faithful\nINVARIANT Emit\nCHECK_DEADLOCK FALSE\n",
                label="simulate %d histories of 5 ops" % nsim, workers=1, simulate=nsim, depth=6, seed=ctx.seed + 26, timeout=1700)
    e2 = ctx.tlc("SampleListFS", CFG % (2, 2, 2, "TRUE", "TRUE") + "INVARIANT Faithful\nINVARIANT Emit\nCHECK_DEADLOCK FALSE\n", label="emit all histories of 2 ops", workers=1)
    # every history save, save, load under one base name with overwriting (a shorter list over a longer one, any task counts, both kinds)
    e3 = ctx.tlc("SampleListFS", CFG % (3 if q else 4, 2 if q else 3, 3, "TRUE", "TRUE") + "INVARIANT Faithful\nINVARIANT Emit\nCONSTRAINT OneBaseOverwrite\nCHECK_DEADLOCK FALSE\n",
                 label="emit all overwrite histories of 3 ops", workers=1, timeout=1700)
    # lists whose indices need two digits: every overwrite history over lists of 2, 10, 11, 12 samples (quick: the ones that end in a load of > 9)
    e4 = ctx.tlc("SampleListFS", CFG % (12, 2, 3, "TRUE", "TRUE") + "INVARIANT Faithful\nINVARIANT Emit\nCONSTRAINT BigLists\nCHECK_DEADLOCK FALSE\n",
                 label="emit overwrite histories over lists of 2, 10, 11, 12", workers=1, timeout=1700)
    big = [d["hist"] for d in e4.emitted if d["hist"][-1]["op"] == "load" and d["hist"][1]["op"] == "save"]
    if q:
        big = [h for h in big if h[1]["n"] >= 10 and h[0]["n"] != h[1]["n"]][ctx.seed % 4::4]
    if len(big) < 20:
        raise tlcmod.MachineryError("too few histories over long lists emitted (%d)" % len(big))
    hists = big + [d["hist"] for d in s.emitted] + [d["hist"] for d in e2.emitted if any(x["op"] == "load" for x in d["hist"])]
    hists += [d["hist"] for d in e3.emitted if d["hist"][-1]["op"] == "load" and d["hist"][1]["op"] == "save"
              and (not q or d["hist"][1]["n"] < d["hist"][0]["n"])]
    if not q:
        hists = hists[:1300] + hists[1300:][ctx.seed % 3::3]          # every third of the (many) three-step overwrite histories
    if len(hists) < 50:
        raise tlcmod.MachineryError("too few histories emitted (%d)" % len(hists))
    root = os.path.join(tlcmod.RUNROOT, "C26-%d" % os.getpid())
    os.makedirs(root, exist_ok=True)
    try:
        jobs = [(h, i % 3 == 0, root) for i, h in enumerate(hists)]
        with ProcessPoolExecutor(14) as ex:
            results = list(ex.map(replay_hist, jobs, chunksize=4))
        for (h, multi, _), res in zip(jobs, results):
            ctx.case(json.dumps([(x["op"], x["base"], x["n"], x["T"], x["residual"], x["ow"]) for x in h]))
            for kind, msg in res:
                if kind == "violation":
                    ctx.violation(dict(kind="persistence", residual=h[-1]["residual"]), msg, replay=dict(hist=h, multi=multi))
                else:
                    ctx.add_drift(msg)
        ctx.traces += len(jobs)
        ctx.sample(dict(history=[(x["op"], x["base"], x["n"], x["T"], x["residual"], x["ow"], x["outcome"]) for x in hists[0]]))
        # ---- spec -> code: statistics ----------------------------------------------------------------------------
        ml = 4 if q else 6
        st = ctx.tlc("StreamStat", "CONSTANTS MaxLen = %d\nEmitAll = TRUE\nSPECIFICATION Spec\nINVARIANT WelfordExact\nINVARIANT VarNonNeg\nINVARIANT ShiftInvariant\nINVARIANT Emit\nCHECK_DEADLOCK FALSE\n" % ml,
                     label="all streams <=%d" % ml, workers=1)
        try:
            import h5py  # noqa
            have_h5 = True
        except ImportError:
            have_h5 = False
            ctx.assume("h5py is not importable: the HDF5 export is not checked")
        with quiet():
            for i, rec in enumerate(st.emitted):
                check_stream(ctx, ift, rec, root, have_h5 and (i % 7 == 0))
                ctx.case(("stream",) + tuple(rec["xs"]))
        ctx.sample(dict(stream=st.emitted[len(st.emitted) // 2]))
        ctx.notes["streams"] = len(st.emitted)
        ctx.notes["histories"] = len(hists)
    finally:
        shutil.rmtree(root, ignore_errors=True)
    ctx.assume("MPI is simulated by a process-per-rank communicator over pipes (no libmpi in the sandbox)",
               "a load is only issued for the kind of list (plain / residual) that was last saved successfully under that base name")


def replay(ctx, doc):
    case = doc["case"]
    root = os.path.join(tlcmod.RUNROOT, "C26-replay-%d" % os.getpid())
    os.makedirs(root, exist_ok=True)
    try:
        if "hist" in case:
            for kind, msg in replay_hist((case["hist"], case.get("multi", False), root)):
                if kind == "violation":
                    ctx.violation(doc.get("key", dict(kind="persistence")), msg, replay=case)
        elif "stream" in case:
            import nifty.cl as ift
            check_stream(ctx, ift, case["stream"], root, True)
    finally:
        shutil.rmtree(root, ignore_errors=True)
    ctx.case("replay")
    ctx.case("replay2")
    ctx.sample(case)
    ctx.states = ctx.transitions = 1


def selftest(ctx):
    """a history whose expected load content is corrupted must be reported"""
    root = os.path.join(tlcmod.RUNROOT, "C26-self-%d" % os.getpid())
    os.makedirs(root, exist_ok=True)
    try:
        h = [dict(op="save", base="s_1", n=2, T=1, residual=False, ow=True, id=1, outcome="ok", items=[]),
             dict(op="load", base="s_1", n=2, T=1, residual=False, ow=False, id=1, outcome="ok", items=[dict(id=1, idx=0), dict(id=1, idx=1)])]
        good = replay_hist((h, False, root))
        h[1]["items"][1]["idx"] = 0
        bad = replay_hist((h, False, root))
    finally:
        shutil.rmtree(root, ignore_errors=True)
    return dict(ok=(good == [] and len(bad) == 1 and bad[0][0] == "violation"), mutation="expected second sample replaced by the first")
