"""C14 - Classic conjugate gradient solves positive definite systems.

ControllerCG.tla   the counter logic shared by the five iteration controllers + the control skeleton of ConjugateGradient
TLC                ConvergedLaw / ErrorLaw / Returns / ResetLaw for every environment sequence and controller parametrisation
spec -> code       TLC's behaviours of the controller (hit sequences) are replayed into the five real controllers with synthetic
                   energies that realise each hit / miss; the returned status must follow the model
code -> spec       ConjugateGradient runs on generated Hermitian positive definite systems (size <= 40, condition up to 1e6, real and
                   complex, with and without preconditioner, residual-reset periods) through a recording controller and a recording
                   operator; the traces are validated by ControllerCGTrace.tla and carry ground truth computed from the returned
                   energy (true residual vs the controller's criterion, value / gradient consistency);
                   InversionEnabler.inverse_times must solve the linear system"""
import itertools

import numpy as np

from vf import tlc as tlcmod
from vf import trace as tracemod
from vf.core import quiet

CFG = "CONSTANTS Level = %d\nLimit %s\nNReset = %d\nFirstCanHit = %s\nMaxSteps = %d\nEmitHist = %s\n"
INVS = "".join("INVARIANT %s\n" % i for i in ("ConvergedLaw", "ErrorLaw", "Returns", "CounterBounds", "ResetLaw"))
B = lambda b: "TRUE" if b else "FALSE"


def lim(l):
    return "<- NoLimit" if l is None else "= %d" % l


# ---- spec -> code: controllers ----------------------------------------------------------------------------------
class FakeEnergy:
    def __init__(self, ift, value, gnorm):
        self.value = value
        self.gradient_norm = gnorm
        dom = ift.UnstructuredDomain(2)
        self.gradient = ift.makeField(dom, np.array([gnorm, 0.]))


def controller_replay(ctx, ift, beh, level, limit, kind):
    """beh: list of hits (check 0, 1, ...).  returns mismatch description or None"""
    tol = 1e-3
    if kind == "gradnorm_abs":
        c = ift.GradientNormController(tol_abs_gradnorm=tol, convergence_level=level, iteration_limit=limit)
    elif kind == "gradnorm_rel":
        c = ift.GradientNormController(tol_rel_gradnorm=tol, convergence_level=level, iteration_limit=limit)
    elif kind == "gradinf":
        c = ift.GradInfNormController(tol, convergence_level=level, iteration_limit=limit)
    elif kind == "delta":
        c = ift.DeltaEnergyController(tol, convergence_level=level, iteration_limit=limit)
    elif kind == "absdelta":
        c = ift.AbsDeltaEnergyController(tol, convergence_level=level, iteration_limit=limit)
    else:
        c = ift.StochasticAbsDeltaEnergyController(tol, convergence_level=level, iteration_limit=limit, memory_length=2)
    value = 10.0
    out = []
    for k, rec in enumerate(beh):
        hit = rec["hit"]
        if kind == "gradnorm_abs":
            e = FakeEnergy(ift, value, tol / 2 if hit else tol * 4)
        elif kind == "gradnorm_rel":
            g0 = 2.0
            e = FakeEnergy(ift, value, g0 if k == 0 else (g0 * tol / 2 if hit else g0 * tol * 8))
            if k == 0 and hit:
                return "skip"          # check 0 of a relative criterion compares g0 with tol * g0: a hit is impossible for tol < 1
        elif kind == "gradinf":
            e = FakeEnergy(ift, value, value * tol / 2 if hit else value * tol * 4)
        else:
            if k > 0:
                value = value - (tol / 4 if hit else 1.0)
                if kind == "stoch":
                    value = prev - (tol / 4 if hit else 1.0)
            e = FakeEnergy(ift, value, 1.0)
            prev = value
        st = c.start(e) if k == 0 else c.check(e)
        got = {c.CONVERGED: "converged", c.CONTINUE: "continue", c.ERROR: "error"}[st]
        exp = "continue" if rec["verdict"] == "continue" else "converged"
        out.append(got)
        if got != exp:
            return "%s(level=%d, limit=%s): check %d with hit=%s returned %s, the counter model says %s (history %s)" % (kind, level, limit, k, hit, got, exp, [r["hit"] for r in beh[:k + 1]])
    return None


# ---- code -> spec: CG runs --------------------------------------------------------------------------------------------
def hpd(rng, n, cond, cplx):
    q, _ = np.linalg.qr(rng.normal(size=(n, n)) + (1j * rng.normal(size=(n, n)) if cplx else 0))
    ev = np.logspace(0, np.log10(cond), n)
    return (q * ev) @ q.conj().T


def make_controller(ift, kind, level, limit):
    tol = dict(gradnorm_abs=1e-7, gradnorm_rel=1e-7, gradinf=1e-6, delta=1e-10, absdelta=1e-12, stoch=1e-12)[kind]
    if kind == "gradnorm_abs":
        return ift.GradientNormController(tol_abs_gradnorm=tol, convergence_level=level, iteration_limit=limit), tol
    if kind == "gradnorm_rel":
        return ift.GradientNormController(tol_rel_gradnorm=tol, convergence_level=level, iteration_limit=limit), tol
    if kind == "gradinf":
        return ift.GradInfNormController(tol, convergence_level=level, iteration_limit=limit), tol
    if kind == "delta":
        return ift.DeltaEnergyController(tol, convergence_level=level, iteration_limit=limit), tol
    if kind == "absdelta":
        return ift.AbsDeltaEnergyController(tol, convergence_level=level, iteration_limit=limit), tol
    return ift.StochasticAbsDeltaEnergyController(tol, convergence_level=level, iteration_limit=limit, memory_length=3), tol


def cg_run(ift, rng, n, cond, cplx, prec, nreset, kind, level, limit, zero_start, scale=1.):
    dom = ift.makeDomain(ift.UnstructuredDomain(n))
    A = hpd(rng, n, cond, cplx)
    b = scale * (rng.normal(size=n) + (1j * rng.normal(size=n) if cplx else 0))
    log = dict(napply=0, first=None)

    class Mat(ift.EndomorphicOperator):
        def __init__(s):
            s._domain = dom
            s._capability = s.TIMES | s.ADJOINT_TIMES

        def apply(s, x, mode):
            s._check_input(x, mode)
            xv = x.asnumpy()
            y = (A if mode == s.TIMES else A.conj().T) @ xv
            log["napply"] += 1
            if log["first"] is None:
                log["first"] = float(np.vdot(xv, y).real)
            return ift.makeField(dom, y)
    real_c, tol = make_controller(ift, kind, level, limit)
    events = []
    state = dict(g0=None, eold=0.0, mem=[], n=0)
    names = {real_c.CONVERGED: "CONVERGED", real_c.CONTINUE: "CONTINUE", real_c.ERROR: "ERROR"}

    def crit(energy):
        """the controller's documented criterion on the energy it is shown; '?' when within rounding of the threshold or undefined"""
        k = state["n"]
        val = float(energy.value)
        gn = float(energy.gradient_norm)

        def tf(a, thr, strict):
            if not np.isfinite(a):
                return "?"
            if abs(a - thr) <= 1e-9 * max(abs(thr), 1e-300):
                return "?"
            return "T" if (a < thr if strict else a <= thr) else "F"
        if kind == "gradnorm_abs":
            r = tf(gn, tol, False)
        elif kind == "gradnorm_rel":
            if k == 0:
                state["g0"] = gn
            r = tf(gn, tol * state["g0"], False)
        elif kind == "gradinf":
            r = "?" if val == 0 else tf(float(energy.gradient.norm(np.inf)) / abs(val), tol, False)
        elif kind == "delta":
            den = max(abs(state["eold"]), abs(val))
            r = "F" if k == 0 else ("?" if den == 0 else tf(abs(state["eold"] - val) / den, tol, True))
        elif kind == "absdelta":
            r = "F" if k == 0 else tf(abs(state["eold"] - val), tol, True)
        else:
            state["mem"].append(val)
            state["mem"] = state["mem"][-3:]
            r = "F" if k == 0 else tf(float(np.std(state["mem"])), tol, True)
        state["eold"] = val
        state["n"] += 1
        return r

    class Rec(ift.IterationController):
        def start(s, energy):
            hit = crit(energy)
            st = real_c.start(energy)
            events.append(dict(ev="check", hit=hit, status=names[st], napply=log["napply"], curv="pos"))
            log["napply"], log["first"] = 0, None
            return st

        def check(s, energy):
            hit = crit(energy)
            st = real_c.check(energy)
            events.append(dict(ev="check", hit=hit, status=names[st], napply=log["napply"], curv="pos" if (log["first"] or 1) > 0 else "neg"))
            log["napply"], log["first"] = 0, None
            return st
    op = Mat()
    bf = ift.makeField(dom, b)
    x0 = np.zeros(n, dtype=b.dtype) if zero_start else 0.1 * scale * (rng.normal(size=n) + (1j * rng.normal(size=n) if cplx else 0))
    E = ift.QuadraticEnergy(ift.makeField(dom, x0), op, bf)
    log["napply"], log["first"] = 0, None
    P = ift.makeOp(ift.makeField(dom, 1. / np.real(np.diag(A)))) if prec else None
    err = None
    try:
        e, st = ift.ConjugateGradient(Rec(), nreset=nreset)(E, preconditioner=P)
        stn = names.get(st, str(st))
    except Exception as ex:
        err = "%s: %s" % (type(ex).__name__, str(ex)[:100])
        return None, err, dict(n=n, cond=cond, cplx=cplx, prec=prec, nreset=nreset, kind=kind, level=level, limit=limit, zero_start=zero_start, scale=scale)
    x = e.position.asnumpy()
    res = np.linalg.norm(A @ x - b)
    truth = dict(criterion=True, consistent=True, hpd_ok=(stn != "ERROR"), exact=True)
    if stn == "CONVERGED" and events and events[-1]["status"] == "CONTINUE":
        # the solver returned on its own: the documented reason is a recursive residual that vanishes EXACTLY, so the true residual is rounding only
        truth["exact"] = bool(res <= 1e-10 * cond * np.linalg.norm(b) + 1e-300)
    at_limit = limit is not None and real_c._itcount >= limit
    if stn == "CONVERGED" and not at_limit and real_c._ccount >= level:
        # convergence by hits: for the gradient-norm criteria the TRUE residual must meet the tolerance (the recursive residual of
        # CG drifts with the condition number; the margin covers rounding, not a wrong criterion)
        margin = 1e-10 * cond * np.linalg.norm(b)
        if kind == "gradnorm_abs" and res > tol * (1 + 1e-6) + margin:
            truth["criterion"] = False
        if kind == "gradnorm_rel" and res > tol * state["g0"] * (1 + 1e-6) + margin:
            truth["criterion"] = False
    val = (0.5 * np.vdot(x, A @ x) - np.vdot(b, x)).real
    if not np.isclose(float(e.value), val, rtol=1e-8, atol=1e-9 * max(scale ** 2, abs(val))):
        truth["consistent"] = False
    if not np.allclose(e.gradient.asnumpy(), A @ x - b, rtol=1e-6, atol=1e-9 * cond * np.linalg.norm(b)):
        truth["consistent"] = False
    events.append(dict(ev="ret", hit="?", status=stn, napply=0, curv="pos", **truth))
    meta = dict(n=n, cond=cond, cplx=cplx, prec=prec, nreset=nreset, kind=kind, level=level, limit=limit, zero_start=zero_start, scale=scale, status=stn, residual=float(res), checks=len(events) - 1)
    return events, None, meta


def inversion(ctx, ift, rng, q):
    class Mat(ift.EndomorphicOperator):
        def __init__(s, dom, A):
            s._domain, s.A = dom, A
            s._capability = s.TIMES | s.ADJOINT_TIMES

        def apply(s, x, mode):
            s._check_input(x, mode)
            return ift.makeField(s._domain, (s.A if mode == s.TIMES else s.A.conj().T) @ x.asnumpy())
    for n, cond, cplx in itertools.product((3, 12) if q else (3, 12, 40), (10., 1e4), (False, True)):
        dom = ift.makeDomain(ift.UnstructuredDomain(n))
        A = hpd(rng, n, cond, cplx)
        b = rng.normal(size=n) + (1j * rng.normal(size=n) if cplx else 0)
        for kind in ("gradnorm_abs", "absdelta", "delta", "gradinf"):
            ic, tol = make_controller(ift, kind, 2 if kind != "gradnorm_abs" else 1, 5000)
            ie = ift.InversionEnabler(Mat(dom, A), ic)
            ctx.case(("inversion", n, cond, cplx, kind))
            try:
                with quiet():
                    xs = ie.inverse_times(ift.makeField(dom, b)).asnumpy()
                    xa = ie.adjoint_inverse_times(ift.makeField(dom, b)).asnumpy()
            except Exception as ex:
                ctx.violation(dict(kind="inversion-raises", controller=kind, exception=type(ex).__name__),
                              "InversionEnabler with %s controller (n=%d cond=%g complex=%s) raised %s: %s" % (kind, n, cond, cplx, type(ex).__name__, str(ex)[:100]),
                              replay=dict(what="inversion", n=n, cond=cond, cplx=cplx, kind=kind))
                continue
            sc = np.linalg.norm(b)
            r1, r2 = np.linalg.norm(A @ xs - b), np.linalg.norm(A.conj().T @ xa - b)
            lim_ = 1e-5 * sc * (cond if kind in ("delta", "absdelta", "gradinf") else 1)
            if ie.capability != 15 or r1 > lim_ or r2 > lim_:
                ctx.violation(dict(kind="inversion", controller=kind), "InversionEnabler(%s, n=%d cond=%g complex=%s): residuals %.3g / %.3g of the solved systems (capability %d)" % (
                    kind, n, cond, cplx, r1, r2, ie.capability), replay=dict(what="inversion", n=n, cond=cond, cplx=cplx, kind=kind))


def run(ctx):
    import nifty.cl as ift
    q = ctx.quick
    # ---- the model + controller replay --------------------------------------------------------------------------
    params = [(1, None, 3, True), (3, 5, 2, False), (2, None, 1, True), (2, 4, 20, True), (1, 0, 3, False)]
    nb = 0
    for level, limit, nreset, fch in params:
        ctx.tlc("ControllerCG", CFG % (level, lim(limit), nreset, B(fch), 6 if q else 8, "FALSE") + "SPECIFICATION Spec\n" + INVS,
                label="level=%d limit=%s nreset=%d firsthit=%s" % (level, limit, nreset, fch))
        e = ctx.tlc("ControllerCG", CFG % (level, lim(limit), nreset, B(fch), 6, "TRUE") + "SPECIFICATION Spec\nINVARIANT Emit\n", label="emit behaviours", workers=1)
        behs = []
        for d in e.emitted:
            seq = [h for h in d["hist"] if h["ev"] == "check"]
            if seq and seq not in behs:
                behs.append(seq)
        for beh in behs:
            for kind in (("gradnorm_abs", "gradinf") if fch else ("delta", "absdelta", "stoch", "gradnorm_rel")):
                with quiet():
                    r = controller_replay(ctx, ift, beh, level, limit, kind)
                if r == "skip":
                    continue
                nb += 1
                ctx.case(("controller", kind, level, limit, tuple(h["hit"] for h in beh)))
                if r:
                    ctx.violation(dict(kind="controller", controller=kind), r, replay=dict(what="controller", beh=beh, level=level, limit=limit, ckind=kind))
    ctx.traces += nb
    for inv in ("NeverByHits", "NeverError"):
        r = ctx.tlc("ControllerCG", CFG % (2, lim(None), 3, "TRUE", 5, "FALSE") + "SPECIFICATION Spec\nINVARIANT %s\n" % inv, label="witness " + inv, expect_ok=False)
        if r.violated != inv:
            raise tlcmod.MachineryError("vacuity witness %s not refuted" % inv)
    # ---- CG runs -----------------------------------------------------------------------------------------------
    rng = np.random.default_rng(ctx.seed + 14)
    groups = {}
    kinds = ["gradnorm_abs", "gradnorm_rel", "gradinf", "delta", "absdelta", "stoch"]
    sizes = [(3, 10.), (10, 1e3), (25, 1e2)] if q else [(3, 10.), (10, 1e3), (40, 1e6), (20, 1e5), (7, 1.), (33, 1e2)]
    for (n, cond), cplx, prec in itertools.product(sizes, (False, True), (False, True)):
        for kind in kinds:
            for level, limit, nreset in (((1, 400, 20), (3, 400, 3)) if q else ((1, 2000, 20), (3, 2000, 3), (2, 6, 2), (1, 2000, 1))):
                zero_start = bool(rng.integers(0, 2))
                scale = (1., 1e-5, 1., 1e3)[int(rng.integers(0, 4))]        # the magnitude of the right-hand side is not special
                with quiet():
                    ev, err, meta = cg_run(ift, rng, n, cond, cplx, prec, nreset, kind, level, limit, zero_start, scale)
                ctx.case(("cg", n, cond, cplx, prec, kind, level, limit, nreset))
                if err:
                    ctx.violation(dict(kind="cg-raises", controller=kind, zero_start=zero_start), "ConjugateGradient with %s controller raised %s (%s)" % (kind, err, meta), replay=dict(what="cg", **meta))
                    continue
                fch = kind in ("gradnorm_abs", "gradinf", "gradnorm_rel")
                groups.setdefault((level, limit, nreset, fch), []).append((ev, meta))
    for key, items in sorted(groups.items(), key=str):
        level, limit, nreset, fch = key
        traces = [t for t, _ in items]
        tv = tracemod.validate(ctx, "ControllerCGTrace", traces, cfg=CFG % (level, lim(limit), nreset, B(fch), 100000, "FALSE") + "SPECIFICATION TSpec\nCONSTRAINT Progress\nPOSTCONDITION Report\n" + INVS,
                               label="%d CG runs level=%d limit=%s nreset=%d" % (len(traces), level, limit, nreset), timeout=1200)
        if tv.tlc.violated:
            ctx.violation(dict(kind="trace-invariant", invariant=tv.tlc.violated), "%s violated along a recorded CG run" % tv.tlc.violated, replay=dict(trace=tv.tlc.error_trace[:3000]))
        for tid, l, clause in tv.propfail:
            meta = items[tid][1]
            ctx.violation(dict(kind="cg", clause=" ".join(clause.split(" ")[:3]), controller=meta["kind"]), "CG run %s: %s" % (meta, clause), replay=dict(what="cg", **meta))
        for tid, name in tracemod.masked_truth(tv, traces, lambda t: {k: t[-1][k] for k in ("criterion", "consistent", "hpd_ok", "exact")}):
            meta = items[tid][1]
            ctx.violation(dict(kind="cg", clause=name, controller=meta["kind"]), "CG run %s: ground truth '%s' is false (and the run is not a behaviour of the skeleton)" % (meta, name), replay=dict(what="cg", **meta))
        for tid in tv.rejected:
            bad = traces[tid][tv.maxl[tid]]
            if bad["ev"] == "check" and bad["status"] == "CONVERGED":
                # TLC tried every resolution of the '?' hits: in none of them the counter model (ConvergedLaw) allows CONVERGED here
                meta = items[tid][1]
                ctx.violation(dict(kind="cg", clause="converged-without-hits", controller=meta["kind"]),
                              "CG run %s: the controller reported CONVERGED at check %d without %d consecutive hits of its documented criterion and below the iteration limit (hits so far %s)" % (
                                  meta, tv.maxl[tid], meta["level"], [e["hit"] for e in traces[tid][:tv.maxl[tid] + 1]]), replay=dict(what="cg", **meta))
            elif not any(t == tid for t, _, _ in tv.propfail):
                ctx.add_drift("CG run %s: event %d %r is not a behaviour of the transcribed skeleton" % (items[tid][1], tv.maxl[tid] + 1, bad))
    any_ = next(iter(groups.values()))[0]
    ctx.sample(dict(run=any_[1], events=any_[0][:4] + any_[0][-1:]))
    inversion(ctx, ift, rng, q)
    ctx.assume("the controller's criterion is recomputed by the harness from the energy the controller was shown; values within 1e-9 of the threshold are '?'",
               "for convergence by hits of a gradient-norm criterion the true residual may exceed the tolerance by 1e-10 * condition * |b| (drift of the recursive residual)")


def selftest(ctx):
    good = [dict(ev="check", hit="F", status="CONTINUE", napply=1, curv="pos"), dict(ev="check", hit="F", status="CONTINUE", napply=1, curv="pos"),
            dict(ev="check", hit="T", status="CONVERGED", napply=1, curv="pos"),
            dict(ev="ret", hit="?", status="CONVERGED", napply=0, curv="pos", criterion=True, consistent=True, hpd_ok=True, exact=True)]
    early = [dict(good[0]), dict(good[1], status="CONVERGED"), dict(good[3])]           # convergence reported without a hit
    untrue = good[:3] + [dict(good[3], criterion=False)]
    tv = tracemod.validate(ctx, "ControllerCGTrace", [good, early, untrue], cfg=CFG % (1, lim(None), 20, "TRUE", 1000, "FALSE") + "SPECIFICATION TSpec\nCONSTRAINT Progress\nPOSTCONDITION Report\n", label="selftest")
    return dict(ok=(tv.rejected == [1] and [t for t, _, _ in tv.propfail] == [2]), rejected=tv.rejected, propfail=tv.propfail,
                mutation="CONVERGED returned after a miss; a criterion flag set to false")


def replay(ctx, doc):
    import nifty.cl as ift
    c = doc["case"]
    rng = np.random.default_rng(doc.get("seed", 0) + 14)
    if c.get("what") == "controller":
        with quiet():
            r = controller_replay(ctx, ift, c["beh"], c["level"], c["limit"], c["ckind"])
        if r and r != "skip":
            ctx.violation(dict(kind="controller", controller=c["ckind"]), r, replay=c)
    elif c.get("what") == "inversion":
        inversion(ctx, ift, rng, True)
    elif c.get("what") == "cg":
        with quiet():
            ev, err, meta = cg_run(ift, rng, c["n"], c["cond"], c["cplx"], c["prec"], c["nreset"], c["kind"], c["level"], c["limit"], c["zero_start"], c.get("scale", 1.))
        if err:
            ctx.violation(dict(kind="cg-raises", controller=c["kind"], zero_start=c["zero_start"]), "ConjugateGradient raised %s" % err, replay=c)
        else:
            fch = c["kind"] in ("gradnorm_abs", "gradinf", "gradnorm_rel")
            tv = tracemod.validate(ctx, "ControllerCGTrace", [ev], cfg=CFG % (c["level"], lim(c["limit"]), c["nreset"], B(fch), 100000, "FALSE") + "SPECIFICATION TSpec\nCONSTRAINT Progress\nPOSTCONDITION Report\n", label="replay")
            for tid, l, clause in tv.propfail:
                ctx.violation(dict(kind="cg", controller=c["kind"]), clause, replay=c)
            if tv.rejected and ev[tv.maxl[0]]["ev"] == "check" and ev[tv.maxl[0]]["status"] == "CONVERGED":
                ctx.violation(dict(kind="cg", clause="converged-without-hits", controller=c["kind"]), "CONVERGED reported without the required hits", replay=c)
    ctx.case("replay")
    ctx.case("replay2")
    ctx.sample(dict(replayed=c))
    ctx.states = ctx.states or 1
    ctx.transitions = ctx.transitions or 1
