"""C23 - Distributed summation is partition-independent and cannot deadlock.

Spec A  AllReduce.tla     the algorithm as designed, all ordered partitions, rendezvous sends (TLC exhaustive).
Spec B  RankPrograms.tla  a network of processes executing the communication programs EXTRACTED from the real
                          nifty.cl.utilities.allreduce_sum (RecordingComm), all interleavings (TLC exhaustive):
                          deadlock freedom, message-kind pairing, symbolic result = canonical tree on every rank.
Real runs                 allreduce_sum under the process-per-rank communicator with synchronous sends on values
                          whose sum depends on the association order: bit-identical to the comm=None result."""
import itertools
import json
import os
import re

import numpy as np

from vf import fakempi, tlc as tlcmod
from vf.fakempi import RecordingComm, Sym


def partitions(nmax, tmax):
    """all (n, counts) with counts an ordered partition of n summands over T<=tmax tasks (empty tasks allowed)"""
    for n in range(1, nmax + 1):
        for t in range(1, tmax + 1):
            for cuts in itertools.combinations_with_replacement(range(n + 1), t - 1):
                b = (0,) + cuts + (n,)
                yield n, tuple(b[i + 1] - b[i] for i in range(t))


KINDS = ("sym", "float", "ndarray", "field", "multifield")


def _mk_values(kind, n):
    import nifty.cl as ift
    if kind == "sym":
        return [Sym(["L", i]) for i in range(n)]
    base = [1e16, 1.0, -1e16, 3.0, 1e-3, -7.0, 2.0 ** 60, 0.1][:n] if n <= 8 else None
    if kind == "float":
        return [float(x) for x in base]
    if kind == "ndarray":
        return [np.array([[x, -x * 3 + 1, 0.1 * (i + 1)]]) for i, x in enumerate(base)]
    dom = ift.UnstructuredDomain(3)
    if kind == "field":
        return [ift.makeField(dom, np.array([x, -x * 3 + 1, 0.1 * (i + 1)])) for i, x in enumerate(base)]
    if kind == "multifield":
        return [ift.MultiField.from_dict({"a": ift.makeField(dom, np.array([x, 1.0, 0.1 * (i + 1)])),
                                          "b": ift.makeField(ift.UnstructuredDomain(1), np.array([-x + i]))})
                for i, x in enumerate(base)]
    raise ValueError(kind)


def _tobytes(v):
    import nifty.cl as ift
    if isinstance(v, Sym):
        return json.dumps(v.t)
    if isinstance(v, ift.MultiField):
        return {k: v[k].asnumpy().tobytes().hex() for k in v.keys()}
    if isinstance(v, ift.Field):
        return v.asnumpy().tobytes().hex()
    return np.asarray(v).tobytes().hex()


def extract_programs(kind, n, counts):
    """run every rank of the real allreduce_sum against a RecordingComm; returns list of op lists"""
    import nifty.cl as ift
    from nifty.cl import utilities
    from nifty.cl.any_array import AnyArray
    vals = _mk_values(kind, n)
    T = len(counts)
    lo = np.concatenate([[0], np.cumsum(counts)])
    types = [type(v) for v in vals]
    progs = []
    proto = vals[0]
    for r in range(T):
        if kind == "sym":
            recv = lambda k: Sym(["R", k])
            bscript, vb = [Sym, Sym(["B"])], 2
        elif kind == "float":
            recv = lambda k: 0.0
            bscript, vb = [float, 0.0], None
        elif kind == "ndarray":
            recv = lambda k: (proto.shape, proto.dtype)
            bscript, vb = [np.ndarray, (proto.shape, proto.dtype)], None
        elif kind == "field":
            seq = [(proto.domain, type(proto.val)), proto.val]
            recv = lambda k, seq=seq: seq[(k - 1) % 2]
            bscript, vb = [ift.Field, (proto.domain, proto.dtype), type(proto.val), proto.val], None
        else:
            keys = tuple(proto.keys())
            seq = [keys]
            for kk in keys:
                seq += [(proto[kk].domain, type(proto[kk].val)), proto[kk].val]
            recv = lambda k, seq=seq: seq[(k - 1) % len(seq)]
            bscript = [ift.MultiField, keys]
            for kk in keys:
                bscript += [ift.Field, (proto[kk].domain, proto[kk].dtype), type(proto[kk].val), proto[kk].val]
            vb = None
        comm = RecordingComm(r, T, list(counts), types, recv, bscript, vb)
        utilities.allreduce_sum(vals[lo[r]:lo[r + 1]], comm)
        progs.append(comm.ops)
    return progs


def _real_worker(comm, jobs):
    """executed on every rank: for each (kind, n, counts) run the real allreduce_sum; return result bytes"""
    from nifty.cl import utilities
    out = []
    r = comm.Get_rank()
    for kind, n, counts in jobs:
        vals = _mk_values(kind, n)
        lo = np.concatenate([[0], np.cumsum(counts)])
        res = utilities.allreduce_sum(vals[lo[r]:lo[r + 1]], comm)
        out.append(_tobytes(res))
    return out


def run(ctx):
    from nifty.cl import utilities
    nmax, tmax = (6, 3) if ctx.quick else (8, 4)
    ctx.constants.update(MaxObj=nmax, NTask=tmax)
    ctx.assume("MPI is simulated: process-per-rank communicator over pipes with synchronous (rendezvous) sends; "
               "collectives are assumed correct and non-interfering with point-to-point traffic",
               "messages between one pair of tasks are delivered in order (MPI non-overtaking rule)")

    # ---- Spec A: the design, exhaustive -------------------------------------------------------------------------
    cfgA = """CONSTANTS MaxObj = %d
NTask = %d
EmitProgs = %s
SPECIFICATION Spec
INVARIANT Correct
INVARIANT Conservation
INVARIANT InSync
INVARIANT Emit
"""
    ctx.tlc("AllReduce", cfgA % (nmax, tmax, "FALSE"), label="design n<=%d T=%d" % (nmax, tmax), coverage=not ctx.quick,
            timeout=1500)
    # vacuity witness: communication does happen
    w = ctx.tlc("AllReduce", ("CONSTANTS MaxObj = 3\nNTask = 2\nEmitProgs = FALSE\nSPECIFICATION Spec\nINVARIANT NoComm\n"),
                label="witness", expect_ok=False)
    if w.violated != "NoComm":
        raise tlcmod.MachineryError("vacuity witness NoComm was not refuted")
    # emission of the design's per-task programs (single worker so that lines do not interleave)
    ea = ctx.tlc("AllReduce", cfgA % (min(nmax, 6), min(tmax, 3), "TRUE"), label="emit programs", workers=1, timeout=900)
    design = {}
    for d in ea.emitted:
        n = d["n"]
        who = tuple(d["who"][str(i)] for i in range(n))
        progs = {int(t): [(o["op"], o["peer"]) for o in p["ops"]] for t, p in d["progs"].items()}
        design[(n, who)] = progs

    # ---- extraction of the real code's programs ----------------------------------------------------------------
    insts = []
    meta = []
    ndrift = 0
    for n, counts in partitions(nmax, tmax):
        for kind in KINDS:
            if ctx.quick and kind in ("ndarray",) and n > 4:
                continue
            progs = extract_programs(kind, n, counts)
            insts.append(dict(n=n, symbolic=(kind == "sym"), ranks=progs))
            meta.append((kind, n, counts))
            ctx.case(("extract", kind, n, counts))
            if kind == "sym" and len(counts) == min(tmax, 3) and n <= 6:
                who = tuple(t for t, c in enumerate(counts) for _ in range(c))
                exp = design.get((n, who))
                got = {t: [(o["op"], o["peer"]) for o in p if o["op"] in ("send", "recv")] for t, p in enumerate(progs)}
                if exp is None or any(exp.get(t, []) != got[t] for t in got):
                    ndrift += 1
                    ctx.add_drift("message pattern of allreduce_sum differs from AllReduce.tla for n=%d counts=%s" % (n, counts))
    # the single-process path (comm=None) as a one-rank instance whose 'broadcast' value is the computed tree
    for n in range(1, nmax + 1):
        tree = utilities.allreduce_sum(_mk_values("sym", n), None).t
        insts.append(dict(n=n, symbolic=True, ranks=[[dict(op="coll", name="bcast_value", root=0, expr=tree)]]))
        meta.append(("sym-nocomm", n, (n,)))
        ctx.case(("nocomm", n))
    ctx.sample(dict(kind=meta[len(meta) // 2][0], n=meta[len(meta) // 2][1], counts=list(meta[len(meta) // 2][2]),
                    extracted_programs=insts[len(insts) // 2]["ranks"]))
    ctx.notes["design_vs_code_pattern_mismatches"] = ndrift

    # ---- Spec B: all interleavings of the extracted programs ----------------------------------------------------
    os.makedirs(tlcmod.RUNROOT, exist_ok=True)
    pf = os.path.join(tlcmod.RUNROOT, "C23-progs-%d.json" % os.getpid())
    with open(pf, "w") as f:
        json.dump(insts, f)
    try:
        cfgB = "SPECIFICATION Spec\nINVARIANT Correct\nINVARIANT TagMatch\nINVARIANT CollMatch\n"
        # run in chunks so that a refutation names the instance and the remaining instances are still checked
        rb = ctx.tlc("RankPrograms", cfgB, label="%d extracted instances" % len(insts), env=dict(PROG_FILE=pf),
                     expect_ok=False, timeout=1500)
        if rb.violated:
            m = re.search(r"inst = (\d+)", rb.error_trace)
            k = int(m.group(1)) - 1 if m else -1
            kind, n, counts = meta[k] if k >= 0 else ("?", 0, ())
            ctx.violation(dict(kind="interleaving", summand=kind, n=n, counts=list(counts), invariant=rb.violated),
                          "TLC refutes %s for the message pattern extracted from allreduce_sum (%s, n=%d, counts=%s)" % (
                              rb.violated, kind, n, counts),
                          replay=dict(instance=insts[k] if k >= 0 else None, trace=rb.error_trace))
        ctx.traces += len(insts)
    finally:
        if os.path.exists(pf):
            os.remove(pf)

    # ---- real runs with blocking sends --------------------------------------------------------------------------
    by_t = {}
    for n, counts in partitions(nmax, tmax):
        for kind in ("float", "ndarray", "field", "multifield"):
            if ctx.quick and (n % 2 == 0 and kind != "float"):
                continue
            by_t.setdefault(len(counts), []).append((kind, n, counts))
    ref = {}
    for T, jobs in sorted(by_t.items()):
        for kind, n, counts in jobs:
            if (kind, n) not in ref:
                ref[(kind, n)] = _tobytes(utilities.allreduce_sum(_mk_values(kind, n), None))
        if T == 1:
            class _One:      # trivial communicator of size 1 (no forks needed)
                pass
        res = fakempi.run_ranks(T, _real_worker, (jobs,), sync=True, timeout=15, total_timeout=600)
        for r, (status, out, log) in enumerate(res):
            if status != "ok":
                ctx.violation(dict(kind="real-run", status=status, tasks=T), "allreduce_sum under blocking sends: rank %d %s: %s" % (r, status, str(out)[:300]),
                              replay=dict(tasks=T, jobs=jobs))
                continue
            for (kind, n, counts), b in zip(jobs, out):
                ctx.case(("real", kind, n, counts, r))
                if b != ref[(kind, n)]:
                    ctx.violation(dict(kind="real-run", summand=kind, n=n, counts=list(counts)),
                                  "distributed sum differs bitwise from the single-process sum on rank %d (%s, n=%d, counts=%s)" % (r, kind, n, counts),
                                  replay=dict(kind=kind, n=n, counts=counts))
        ctx.traces += len(jobs)
    # the chosen values really expose the association order
    v = _mk_values("float", 4)
    if (v[0] + v[1]) + (v[2] + v[3]) == ((v[0] + v[1]) + v[2]) + v[3]:
        raise tlcmod.MachineryError("test values do not expose non-associativity")
    ctx.exhaustive = True


def selftest(ctx):
    """binding demonstration: a corrupted extracted program (two receives swapped / a send dropped) must be refuted"""
    progs = extract_programs("sym", 4, (2, 1, 1))
    bad = json.loads(json.dumps(progs))
    for r in bad:                      # drop the first send of some rank
        idx = [i for i, o in enumerate(r) if o["op"] == "send"]
        if idx:
            del r[idx[0]]
            break
    pf = os.path.join(tlcmod.RUNROOT, "C23-self-%d.json" % os.getpid())
    with open(pf, "w") as f:
        json.dump([dict(n=4, symbolic=True, ranks=bad)], f)
    try:
        r = tlcmod.run("RankPrograms", "SPECIFICATION Spec\nINVARIANT Correct\nINVARIANT TagMatch\nINVARIANT CollMatch\n",
                       env=dict(PROG_FILE=pf), allow_violation=True)
    finally:
        os.remove(pf)
    return dict(ok=r.violated is not None, mutation="dropped one send from an extracted program", tlc_verdict=r.violated)
