"""C18 - Variational samples have the right distribution.

LinGauss.tla   linear Gaussian models (incl. rank-deficient responses): exact posterior covariance D, its blocks under point estimates
spec -> code   the linear map excitations -> residual samples of the real samplers is extracted by unit excitations (classic: through
               Random.normal; JAX: through evi.random_like): every drawn residual has covariance D (L L^T = D exactly to the solver
               tolerance), different draws are independent, mirrored samples are exact negatives, the sample average is the expansion
               point, point-estimated keys get zero residuals and the others the block covariance, and the non-linear (geoVI) update
               leaves the samples of a linear model unchanged"""
import json

import numpy as np

from props import lingauss_common as lg
from vf import tlc as tlcmod
from vf.core import quiet


def free_cov(inst, pe):
    D = lg.mat(inst["D"])
    if not pe:
        return D
    out = np.zeros((3, 3))
    if pe == ["b"]:
        out[:2, :2] = lg.mat(inst["Da"])
    else:
        out[2, 2] = lg.rv(inst["Db"])
    return out


def check_classic(inst, Rmod, Noise):
    m = lg.ClModel(inst)
    ift = m.ift
    out = []
    pos = m.field([0.3, -0.2, 0.1])
    p0 = lg.ClModel.flat(pos)
    for mirror, n, pe, geo in ((True, 2, [], False), (False, 2, [], False), (True, 1, ["a"], False), (False, 1, ["b"], False), (True, 1, [], True), (True, 1, ["b"], True)):
        tag = "classic mirror=%s n=%d point_estimates=%s%s" % (mirror, n, pe, " geoVI" if geo else "")
        mini = ift.NewtonCG(ift.AbsDeltaEnergyController(1e-13, iteration_limit=20, convergence_level=2)) if geo else None

        def draw():
            kl = ift.SampledKLEnergy(pos, m.H, n, mini, mirror_samples=mirror, point_estimates=pe)
            return [lg.ClModel.flat(s) - p0 for s in kl.samples.iterator()]
        try:
            with Noise(Rmod) as nz:
                nz.hot, nz.count = None, 0
                base = draw()
                nex = nz.count
                cols = []
                for k in range(nex):
                    nz.hot, nz.count = k, 0
                    cols.append(np.concatenate(draw()))
        except Exception as e:
            out.append("%s: raised %s: %s" % (tag, type(e).__name__, str(e)[:120]))
            continue
        if np.max(np.abs(np.concatenate(base))) > 1e-12:
            out.append("%s: residuals for zero excitation are %s, not zero" % (tag, np.round(np.concatenate(base), 8).tolist()))
        L = np.array(cols).T
        ns = len(base)
        if ns != (2 * n if mirror else n):
            out.append("%s: %d samples, expected %d" % (tag, ns, 2 * n if mirror else n))
            continue
        C = free_cov(inst, pe)
        blocks = [L[3 * i:3 * i + 3] for i in range(ns)]
        step = 2 if mirror else 1
        for i in range(0, ns, step):
            cov = blocks[i] @ blocks[i].T
            if not np.allclose(cov, C, atol=1e-9):
                out.append("%s: covariance of sample %d is %s, the posterior covariance is %s" % (tag, i, np.round(cov, 8).tolist(), np.round(C, 8).tolist()))
            if mirror and not np.allclose(blocks[i + 1], -blocks[i], atol=1e-12 if not geo else 1e-8):
                out.append("%s: the mirrored sample is not the exact negative" % tag)
            for j in range(i + step, ns, step):
                if np.max(np.abs(blocks[i] @ blocks[j].T)) > 1e-9:
                    out.append("%s: samples %d and %d are correlated" % (tag, i, j))
        if mirror and np.max(np.abs(sum(blocks))) > (1e-12 if not geo else 1e-8):
            out.append("%s: the sample average is not the expansion point" % tag)
    return out


class JaxNoise:
    """replaces nifty.re.evi.random_like: unit excitation number `hot` of the concatenated stream"""

    def __init__(self, env):
        import importlib
        self.evi = importlib.import_module("nifty.re.evi")
        self.env = env
        self.count, self.hot, self.offsets = 0, None, {}

    def reset(self, hot):
        self.count, self.hot, self.offsets = 0, hot, {}

    def __enter__(self):
        jax, jnp, jft = self.env
        me = self
        self.orig = self.evi.random_like

        def random_like(key, primals, rng=None):
            # the same key gives the same excitations (the non-linear update re-draws the metric sample with the key of the linear one)
            leaves, td = jax.tree_util.tree_flatten(primals)
            sizes = []
            for l in leaves:
                shp = l.shape if hasattr(l, "shape") else jnp.shape(l)
                sizes.append((shp, int(np.prod(shp)) if len(shp) else 1))
            kb = np.asarray(jax.random.key_data(key) if hasattr(jax.random, "key_data") and not isinstance(key, np.ndarray) else key).tobytes()
            if kb in me.offsets:
                start = me.offsets[kb]
            else:
                start = me.offsets[kb] = me.count
                me.count += sum(n for _, n in sizes)
            out = []
            for shp, n in sizes:
                v = np.zeros(n)
                if me.hot is not None and start <= me.hot < start + n:
                    v[me.hot - start] = 1.
                start += n
                out.append(jnp.asarray(v.reshape(shp)))
            return jax.tree_util.tree_unflatten(td, out)
        self.evi.random_like = random_like
        return self

    def __exit__(self, *a):
        self.evi.random_like = self.orig
        return False


def check_jax(inst, env):
    jax, jnp, jft = env
    m = lg.ReModel(inst, env)
    out = []
    pos = m.pos([0.3, -0.2, 0.1])
    key = jax.random.PRNGKey(3)
    cgk = dict(absdelta=1e-16, resnorm=1e-13, maxiter=60)
    for pe in ((), ("a",), ("b",)):
        tag = "nifty.re point_estimates=%s" % (list(pe),)
        C = free_cov(inst, list(pe))

        def lin():
            s, _ = jft.draw_linear_residual(m.lh, pos, key, point_estimates=pe, cg_kwargs=cgk)
            return lg.ReModel.flat(s)

        def pair():
            st, _ = jft.draw_residual(m.lh, pos, key, point_estimates=pe, cg_kwargs=cgk, minimize_kwargs=dict(name=None, xtol=1e-12, cg_kwargs=dict(name=None, absdelta=1e-16), maxiter=10))
            t = st.tree if hasattr(st, "tree") else st
            return np.stack([np.concatenate([np.broadcast_to(np.asarray(t["a"][i]).ravel(), (2,)), np.broadcast_to(np.asarray(t["b"][i]).ravel(), (1,))]) for i in range(2)])
        try:
            with JaxNoise(env) as nz:
                nz.reset(None)
                base = lin()
                nex = nz.count
                cols, pcols = [], []
                for k in range(nex):
                    nz.reset(k)
                    cols.append(lin())
                for k in range(nex):
                    nz.reset(k)
                    pcols.append(pair())
        except Exception as e:
            out.append("%s: raised %s: %s" % (tag, type(e).__name__, str(e)[:140]))
            continue
        L = np.array(cols).T
        if np.max(np.abs(base)) > 1e-12:
            out.append("%s: the residual for zero excitation is not zero" % tag)
        cov = L @ L.T
        if not np.allclose(cov, C, atol=1e-9):
            out.append("%s: covariance of the linear residual is %s, the posterior covariance is %s" % (tag, np.round(cov, 8).tolist(), np.round(C, 8).tolist()))
        P = np.array(pcols)           # (excitation, 2, 3)
        if not np.allclose(P[:, 0, :].T, L, atol=1e-7):
            out.append("%s: the non-linear update changes the sample of a linear model (max deviation %.3g)" % (tag, np.max(np.abs(P[:, 0, :].T - L))))
        if not np.allclose(P[:, 1, :], -P[:, 0, :], atol=1e-7):
            out.append("%s: the second sample of draw_residual is not the negative of the first" % tag)
    return out


def replay_modes(env, hist):
    """one behaviour of SampleModes.tla stepped through the real OptimizeVI.draw_samples with recording stand-ins for the two samplers
    (constructor arguments of OptimizeVI); after every step the keys and the samples are projected and compared"""
    import importlib
    jax, jnp, jft = env
    okl = importlib.import_module("nifty.re.optimize_kl")
    ids = {}

    def kid(k):
        b = np.asarray(jax.random.key_data(k) if hasattr(jax.random, "key_data") and not isinstance(k, np.ndarray) else k).tobytes()
        if b not in ids:
            ids[b] = len(ids) + 1
        return ids[b]

    def draw_lin(pos, key, *, point_estimates=(), **kw):
        # the "sample" carries the identity of its key: value = key id, number of non-linear updates = 0
        return jft.Vector({"x": jnp.asarray([float(kid(key)), 0.])}), 0

    def nl_update(pos, residual_sample, metric_sample_key, metric_sample_sign, *, point_estimates=(), **kw):
        r = residual_sample.tree["x"]
        # the update must be driven with the key of its own sample and the sign of its mirror position
        ok = abs(abs(float(r[0])) - kid(metric_sample_key)) < 1e-9 and np.sign(float(r[0])) == np.sign(float(metric_sample_sign))
        return jft.Vector({"x": jnp.asarray([float(r[0]), float(abs(r[1])) + 1. if ok else -99.]) * jnp.asarray([1., np.sign(float(r[0])) if ok else 1.])}), 0
    lh = jft.Gaussian(jnp.zeros(2)).amend(lambda x: x["x"], domain=jft.Vector({"x": jft.ShapeWithDtype((2,))}))
    ovi = okl.OptimizeVI(lh, len(hist), jit=False, residual_map="lmap", _draw_linear_residual=draw_lin, _nonlinearly_update_residual=nl_update)
    samples = jft.Samples(pos=jft.Vector({"x": jnp.zeros(2)}), samples=None, keys=None)
    base = jax.random.PRNGKey(99)
    for i, h in enumerate(hist):
        try:
            with jax.disable_jit():
                samples, _ = ovi.draw_samples(samples, key=jax.random.fold_in(base, i), sample_mode=h["mode"], n_samples=h["n"], point_estimates=(),
                                              draw_linear_kwargs={}, nonlinearly_update_kwargs={})
        except Exception as e:
            return "step %d (%s, n=%d): draw_samples raised %s: %s" % (i + 1, h["mode"], h["n"], type(e).__name__, str(e)[:120])
        keys = [] if samples.keys is None else [kid(k) for k in samples.keys]
        if samples._samples is None:
            smp = []
        else:
            arr = np.asarray(samples._samples.tree["x"])
            smp = [[int(round(abs(a[0]))), 1 if a[0] > 0 else -1, int(round(abs(a[1])))] for a in arr]
        want_keys = list(h["keys"])
        # key ids: the specification numbers fresh keys consecutively; the real keys are numbered in the order they are first seen
        if keys != want_keys or smp != [list(x) for x in h["smp"]]:
            return "step %d (%s, n=%d, effective %s): keys %s samples %s, the mode logic gives keys %s samples %s" % (i + 1, h["mode"], h["n"], h["eff"], keys, smp, want_keys, [list(x) for x in h["smp"]])
    return None


def run(ctx):
    from nifty.cl import random as Rmod
    from props.C13 import Noise
    env = lg.jax_env()
    models = lg.emit_models(ctx)
    if ctx.quick:
        models = [m for i, m in enumerate(models) if i % 2 == ctx.seed % 2]
    with quiet():
        for inst in models:
            ctx.case(json.dumps([inst["R"], inst["ninv"], inst["d"]]))
            for msg in check_classic(inst, Rmod, Noise) + check_jax(inst, env):
                ctx.violation(dict(kind="samples", impl=msg.split(" ")[0], what=msg.split(": ")[1][:30]), "R=%s ninv=%s: %s" % (inst["R"], [lg.rv(x) for x in inst["ninv"]], msg), replay=dict(model=inst))
    # ---- the sampling-mode state machine of the JAX driver --------------------------------------------------------------------
    mcfg = "CONSTANTS MaxN = %d\nMaxIter = %d\nSPECIFICATION Spec\nINVARIANT Aligned\nINVARIANT DistinctKeys\nPROPERTY ResampleFresh\nPROPERTY SampleReuses\nPROPERTY MapNoop\nPROPERTY ChangedNResamples\nVIEW View\nCHECK_DEADLOCK FALSE\n"
    ctx.tlc("SampleModes", mcfg % (2, 4) if ctx.quick else mcfg % (3, 5), label="sample modes, all schedules")
    for inv in ("NeverUpdatesTwice", "NeverReuses"):
        r = ctx.tlc("SampleModes", "CONSTANTS MaxN = 2\nMaxIter = 3\nSPECIFICATION Spec\nINVARIANT %s\nCHECK_DEADLOCK FALSE\n" % inv, label="witness " + inv, expect_ok=False)
        if r.violated != inv:
            raise tlcmod.MachineryError("vacuity witness %s not refuted" % inv)
    e = ctx.tlc("SampleModes", "CONSTANTS MaxN = 2\nMaxIter = 3\nSPECIFICATION Spec\nINVARIANT Emit\nCHECK_DEADLOCK FALSE\n", label="emit all schedules of 3 iterations", workers=1)
    hists = [d["hist"] for d in e.emitted]
    if not ctx.quick:
        e = ctx.tlc("SampleModes", "CONSTANTS MaxN = 3\nMaxIter = 4\nSPECIFICATION Spec\nINVARIANT Emit\nCHECK_DEADLOCK FALSE\n", label="emit all schedules of 4 iterations", workers=1, timeout=2500)
        hists += [d["hist"] for d in e.emitted][::5]
    if len(hists) < 500:
        raise tlcmod.MachineryError("too few sampling schedules: %d" % len(hists))
    if ctx.quick:
        hists = hists[::4]
    with quiet():
        for h in hists:
            ctx.case(("modes", json.dumps([(x["mode"], x["n"]) for x in h])))
            msg = replay_modes(env, h)
            if msg:
                ctx.violation(dict(kind="sample-modes", eff=msg.split("effective ")[1].split(")")[0] if "effective " in msg else ""), msg, replay=dict(schedule=h))
    ctx.notes["sampling_schedules"] = len(hists)
    ctx.traces += len(models) + len(hists)
    ctx.sample(dict(model={k: models[1][k] for k in ("R", "ninv", "D")}))
    ctx.assume("exact covariance by unit excitations: the samplers are linear in their Gaussian excitations for a linear model; covariances compared to 1e-9 (CG run to 1e-13)",
               "classic excitations are injected through nifty.cl.random.Random.normal, JAX excitations through nifty.re.evi.random_like")


def replay(ctx, doc):
    from nifty.cl import random as Rmod
    from props.C13 import Noise
    if "schedule" in doc["case"]:
        with quiet():
            m = replay_modes(lg.jax_env(), doc["case"]["schedule"])
        if m:
            ctx.violation(doc.get("key", dict(kind="sample-modes")), m, replay=doc["case"])
        ctx.case("replay")
        ctx.case("replay2")
        ctx.sample(dict(replayed="schedule"))
        ctx.states = ctx.transitions = 1
        return
    inst = doc["case"]["model"]
    with quiet():
        msgs = check_classic(inst, Rmod, Noise) + check_jax(inst, lg.jax_env())
    for m in msgs:
        ctx.violation(doc.get("key", dict(kind="samples")), m, replay=doc["case"])
    ctx.case("replay")
    ctx.case("replay2")
    ctx.sample(dict(replayed=inst["R"]))
    ctx.states = ctx.transitions = 1


def selftest(ctx):
    from nifty.cl import random as Rmod
    from props.C13 import Noise
    r = tlcmod.run("LinGauss", "SPECIFICATION Spec\nINVARIANT Emit\n", workers=1, timeout=900, deadlock=False)
    inst = next(i for i in r.emitted if i["R"] == [[1, 2, -1], [0, 1, 1]])
    with quiet():
        good = check_classic(inst, Rmod, Noise)
        inst["D"][0][0][0] += 1
        bad = check_classic(inst, Rmod, Noise)
    return dict(ok=(good == [] and len(bad) > 0), mutation="one entry of the expected covariance changed")
