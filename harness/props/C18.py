"""C18 - Variational samples have the right distribution.

LinGauss.tla   linear Gaussian models (incl. rank-deficient responses): exact posterior covariance D, its blocks under point estimates
spec -> code   the linear map excitations -> residual samples of the real samplers is extracted by unit excitations (classic: through
               Random.normal; JAX: through evi.random_like): every drawn residual has covariance D (L L^T = D exactly to the solver
               tolerance), different draws are independent, mirrored samples are exact negatives, the sample average is the expansion
               point, point-estimated keys get zero residuals and the others the block covariance, and the non-linear (geoVI) update
               leaves the samples of a linear model unchanged"""
import json

import numpy as np

from props import lingauss_common as lg
from vf import tlc as tlcmod
from vf.core import quiet


def free_cov(inst, pe):
    D = lg.mat(inst["D"])
    if not pe:
        return D
    out = np.zeros((3, 3))
    if pe == ["b"]:
        out[:2, :2] = lg.mat(inst["Da"])
    else:
        out[2, 2] = lg.rv(inst["Db"])
    return out


def check_classic(inst, Rmod, Noise):
    m = lg.ClModel(inst)
    ift = m.ift
    out = []
    pos = m.field([0.3, -0.2, 0.1])
    p0 = lg.ClModel.flat(pos)
    for mirror, n, pe, geo in ((True, 2, [], False), (False, 2, [], False), (True, 1, ["a"], False), (False, 1, ["b"], False), (True, 1, [], True), (True, 1, ["b"], True)):
        tag = "classic mirror=%s n=%d point_estimates=%s%s" % (mirror, n, pe, " geoVI" if geo else "")
        mini = ift.NewtonCG(ift.AbsDeltaEnergyController(1e-13, iteration_limit=20, convergence_level=2)) if geo else None

        def draw():
            kl = ift.SampledKLEnergy(pos, m.H, n, mini, mirror_samples=mirror, point_estimates=pe)
            return [lg.ClModel.flat(s) - p0 for s in kl.samples.iterator()]
        try:
            with Noise(Rmod) as nz:
                nz.hot, nz.count = None, 0
                base = draw()
                nex = nz.count
                cols = []
                for k in range(nex):
                    nz.hot, nz.count = k, 0
                    cols.append(np.concatenate(draw()))
        except Exception as e:
            out.append("%s: raised %s: %s" % (tag, type(e).__name__, str(e)[:120]))
            continue
        if np.max(np.abs(np.concatenate(base))) > 1e-12:
            out.append("%s: residuals for zero excitation are %s, not zero" % (tag, np.round(np.concatenate(base), 8).tolist()))
        L = np.array(cols).T
        ns = len(base)
        if ns != (2 * n if mirror else n):
            out.append("%s: %d samples, expected %d" % (tag, ns, 2 * n if mirror else n))
            continue
        C = free_cov(inst, pe)
        blocks = [L[3 * i:3 * i + 3] for i in range(ns)]
        step = 2 if mirror else 1
        for i in range(0, ns, step):
            cov = blocks[i] @ blocks[i].T
            if not np.allclose(cov, C, atol=1e-9):
                out.append("%s: covariance of sample %d is %s, the posterior covariance is %s" % (tag, i, np.round(cov, 8).tolist(), np.round(C, 8).tolist()))
            if mirror and not np.allclose(blocks[i + 1], -blocks[i], atol=1e-12 if not geo else 1e-8):
                out.append("%s: the mirrored sample is not the exact negative" % tag)
            for j in range(i + step, ns, step):
                if np.max(np.abs(blocks[i] @ blocks[j].T)) > 1e-9:
                    out.append("%s: samples %d and %d are correlated" % (tag, i, j))
        if mirror and np.max(np.abs(sum(blocks))) > (1e-12 if not geo else 1e-8):
            out.append("%s: the sample average is not the expansion point" % tag)
    return out


class JaxNoise:
    """replaces nifty.re.evi.random_like: unit excitation number `hot` of the concatenated stream"""

    def __init__(self, env):
        import importlib
        self.evi = importlib.import_module("nifty.re.evi")
        self.env = env
        self.count, self.hot, self.offsets = 0, None, {}

    def reset(self, hot):
        self.count, self.hot, self.offsets = 0, hot, {}

    def __enter__(self):
        jax, jnp, jft = self.env
        me = self
        self.orig = self.evi.random_like

        def random_like(key, primals, rng=None):
            # the same key gives the same excitations (the non-linear update re-draws the metric sample with the key of the linear one)
            leaves, td = jax.tree_util.tree_flatten(primals)
            sizes = []
            for l in leaves:
                shp = l.shape if hasattr(l, "shape") else jnp.shape(l)
                sizes.append((shp, int(np.prod(shp)) if len(shp) else 1))
            kb = np.asarray(jax.random.key_data(key) if hasattr(jax.random, "key_data") and not isinstance(key, np.ndarray) else key).tobytes()
            if kb in me.offsets:
                start = me.offsets[kb]
            else:
                start = me.offsets[kb] = me.count
                me.count += sum(n for _, n in sizes)
            out = []
            for shp, n in sizes:
                v = np.zeros(n)
                if me.hot is not None and start <= me.hot < start + n:
                    v[me.hot - start] = 1.
                start += n
                out.append(jnp.asarray(v.reshape(shp)))
            return jax.tree_util.tree_unflatten(td, out)
        self.evi.random_like = random_like
        return self

    def __exit__(self, *a):
        self.evi.random_like = self.orig
        return False


def check_jax(inst, env):
    jax, jnp, jft = env
    m = lg.ReModel(inst, env)
    out = []
    pos = m.pos([0.3, -0.2, 0.1])
    key = jax.random.PRNGKey(3)
    cgk = dict(absdelta=1e-16, resnorm=1e-13, maxiter=60)
    for pe in ((), ("a",), ("b",)):
        tag = "nifty.re point_estimates=%s" % (list(pe),)
        C = free_cov(inst, list(pe))

        def lin():
            s, _ = jft.draw_linear_residual(m.lh, pos, key, point_estimates=pe, cg_kwargs=cgk)
            return lg.ReModel.flat(s)

        def pair():
            st, _ = jft.draw_residual(m.lh, pos, key, point_estimates=pe, cg_kwargs=cgk, minimize_kwargs=dict(name=None, xtol=1e-12, cg_kwargs=dict(name=None, absdelta=1e-16), maxiter=10))
            t = st.tree if hasattr(st, "tree") else st
            return np.stack([np.concatenate([np.broadcast_to(np.asarray(t["a"][i]).ravel(), (2,)), np.broadcast_to(np.asarray(t["b"][i]).ravel(), (1,))]) for i in range(2)])
        try:
            with JaxNoise(env) as nz:
                nz.reset(None)
                base = lin()
                nex = nz.count
                cols, pcols = [], []
                for k in range(nex):
                    nz.reset(k)
                    cols.append(lin())
                for k in range(nex):
                    nz.reset(k)
                    pcols.append(pair())
        except Exception as e:
            out.append("%s: raised %s: %s" % (tag, type(e).__name__, str(e)[:140]))
            continue
        L = np.array(cols).T
        if np.max(np.abs(base)) > 1e-12:
            out.append("%s: the residual for zero excitation is not zero" % tag)
        cov = L @ L.T
        if not np.allclose(cov, C, atol=1e-9):
            out.append("%s: covariance of the linear residual is %s, the posterior covariance is %s" % (tag, np.round(cov, 8).tolist(), np.round(C, 8).tolist()))
        P = np.array(pcols)           # (excitation, 2, 3)
        if not np.allclose(P[:, 0, :].T, L, atol=1e-7):
            out.append("%s: the non-linear update changes the sample of a linear model (max deviation %.3g)" % (tag, np.max(np.abs(P[:, 0, :].T - L))))
        if not np.allclose(P[:, 1, :], -P[:, 0, :], atol=1e-7):
            out.append("%s: the second sample of draw_residual is not the negative of the first" % tag)
    return out


def run(ctx):
    from nifty.cl import random as Rmod
    from props.C13 import Noise
    env = lg.jax_env()
    models = lg.emit_models(ctx)
    if ctx.quick:
        models = [m for i, m in enumerate(models) if i % 2 == ctx.seed % 2]
    with quiet():
        for inst in models:
            ctx.case(json.dumps([inst["R"], inst["ninv"], inst["d"]]))
            for msg in check_classic(inst, Rmod, Noise) + check_jax(inst, env):
                ctx.violation(dict(kind="samples", impl=msg.split(" ")[0], what=msg.split(": ")[1][:30]), "R=%s ninv=%s: %s" % (inst["R"], [lg.rv(x) for x in inst["ninv"]], msg), replay=dict(model=inst))
    ctx.traces += len(models)
    ctx.sample(dict(model={k: models[1][k] for k in ("R", "ninv", "D")}))
    ctx.assume("exact covariance by unit excitations: the samplers are linear in their Gaussian excitations for a linear model; covariances compared to 1e-9 (CG run to 1e-13)",
               "classic excitations are injected through nifty.cl.random.Random.normal, JAX excitations through nifty.re.evi.random_like")


def replay(ctx, doc):
    from nifty.cl import random as Rmod
    from props.C13 import Noise
    inst = doc["case"]["model"]
    with quiet():
        msgs = check_classic(inst, Rmod, Noise) + check_jax(inst, lg.jax_env())
    for m in msgs:
        ctx.violation(doc.get("key", dict(kind="samples")), m, replay=doc["case"])
    ctx.case("replay")
    ctx.case("replay2")
    ctx.sample(dict(replayed=inst["R"]))
    ctx.states = ctx.transitions = 1


def selftest(ctx):
    from nifty.cl import random as Rmod
    from props.C13 import Noise
    r = tlcmod.run("LinGauss", "SPECIFICATION Spec\nINVARIANT Emit\n", workers=1, timeout=900, deadlock=False)
    inst = next(i for i in r.emitted if i["R"] == [[1, 2, -1], [0, 1, 1]])
    with quiet():
        good = check_classic(inst, Rmod, Noise)
        inst["D"][0][0][0] += 1
        bad = check_classic(inst, Rmod, Noise)
    return dict(ok=(good == [] and len(bad) > 0), mutation="one entry of the expected covariance changed")
