"""C34 - Lanczos, stochastic log-determinant and ELBO estimators are exact in the limit.

LinGauss.tla     linear Gaussian models: |Dinv|, d^T (R R^T + N)^-1 d, the sampled Hamiltonian averages; TLC: H(posterior mean) = 1/2 d^T G^-1 d,
                 no point has a smaller Hamiltonian (ELBO <= log-evidence), |G| = |N| |Dinv|
EigBatches.tla   the batch schedule of the resumable eigenvalue computation; TLC: exactly the missing eigenvalues are requested, a resumed
                 run continues the schedule of the uninterrupted one, termination
spec -> code     ELBO with all eigenvalues = 1/2 log|D| + dim/2 - <H> exactly, for eager / compiled metric, signal / data space, in one go /
                 resumed from a saved eigensystem, classic / JAX; recorded eigensolver requests of _eigsh validated against EigBatches
                 (EigBatchesTrace.tla); Lanczos with order = dimension reproduces the spectrum, the quadrature is exact per probe, the
                 stochastic log-determinant is exact for diagonal operators"""
import importlib
import json
import os
import shutil

import numpy as np

from props import lingauss_common as lg
from vf import tlc as tlcmod
from vf import trace as tracemod
from vf.core import quiet


def vec(v):
    return np.array([lg.rv(x) for x in v])


def check_elbo(inst, env, workdir):
    jax, jnp, jft = env
    out = []
    m0 = vec(inst["m0"])
    res = [vec(r) for r in inst["resid"]]
    arr = np.stack([res[0], -res[0], res[1], -res[1]])
    rec = next(k for k in inst["kl"] if k["mirror"] and k["at"] == 0)
    logdet = np.log(lg.rv(inst["detDinv"]))
    exp_mean = -0.5 * logdet + 1.5 - lg.rv(rec["val"])
    rm = lg.ReModel(inst, env)
    cm = lg.ClModel(inst)
    ift = cm.ift
    Hs = np.array([float(cm.H(cm.field(m0 + a)).asnumpy()) for a in arr])
    exp_samples = -0.5 * logdet + 1.5 - Hs
    smp = jft.Samples(pos=rm.pos(m0), samples=jft.Vector({"a": jnp.asarray(arr[:, :2]), "b": jnp.asarray(arr[:, 2:3])}))
    ev = importlib.import_module("nifty.re.evidence_lower_bound")

    def judge(label, vals):
        vals = np.asarray(vals, dtype=float).ravel()
        if vals.shape != exp_samples.shape or not np.allclose(vals, exp_samples, rtol=1e-9, atol=1e-9):
            out.append("%s: ELBO samples %s, the closed form 1/2 log|D| + dim/2 - H(sample) gives %s" % (label, np.round(vals, 9).tolist(), np.round(exp_samples, 9).tolist()))
        elif abs(vals.mean() - exp_mean) > 1e-9 * max(1., abs(exp_mean)):
            out.append("%s: mean ELBO %r, expected %r" % (label, vals.mean(), exp_mean))
    for space in ("signal", "data"):
        for mj in (False, True):
            label = "nifty.re (%s space, metric_jit=%s)" % (space, mj)
            try:
                es, st = ev.estimate_evidence_lower_bound(rm.lh, smp, 2, compute_all=True, verbose=False, metric_jit=mj, output_directory=None, trace_log_space=space)
                judge(label, es)
            except Exception as e:
                out.append("%s raised %s: %s" % (label, type(e).__name__, str(e)[:140]))
    # in one go with an output directory, then resumed from the saved eigensystem (all / part of it)
    d = os.path.join(workdir, "eig")
    shutil.rmtree(d, ignore_errors=True)
    try:
        es, _ = ev.estimate_evidence_lower_bound(rm.lh, smp, 2, compute_all=True, verbose=False, metric_jit=False, output_directory=d, trace_log_space="signal")
        judge("nifty.re (saving the eigensystem)", es)
        vals = np.load(os.path.join(d, "metric_signal_eigenvalues.npy"))
        vecs = np.load(os.path.join(d, "metric_signal_eigenvectors.npy"))
        for k in (1, 2):
            es, _ = ev.estimate_evidence_lower_bound(rm.lh, smp, 2, compute_all=True, verbose=False, metric_jit=False, output_directory=None, trace_log_space="signal",
                                                     resume_eigenvectors=vecs[:, :k], resume_eigenvalues=vals[:k])
            judge("nifty.re (resumed with %d of 2 eigenpairs)" % k, es)
        # the same in data space (the operator there is the metric minus one; the solver works on a shifted operator)
        shutil.rmtree(d, ignore_errors=True)
        es, _ = ev.estimate_evidence_lower_bound(rm.lh, smp, 2, compute_all=True, verbose=False, metric_jit=False, output_directory=d, trace_log_space="data")
        judge("nifty.re (data space, saving the eigensystem)", es)
        vals = np.load(os.path.join(d, "metric_data_eigenvalues.npy"))
        vecs = np.load(os.path.join(d, "metric_data_eigenvectors.npy"))
        for k in (1, 2):
            es, _ = ev.estimate_evidence_lower_bound(rm.lh, smp, 2, compute_all=True, verbose=False, metric_jit=False, output_directory=None, trace_log_space="data",
                                                     resume_eigenvectors=vecs[:, :k], resume_eigenvalues=vals[:k])
            judge("nifty.re (data space, resumed with %d of 2 eigenpairs)" % k, es)
    except Exception as e:
        out.append("nifty.re save / resume raised %s: %s" % (type(e).__name__, str(e)[:140]))
    finally:
        shutil.rmtree(d, ignore_errors=True)
    try:
        sl = ift.ResidualSampleList(cm.field(m0), [cm.field(r) for r in (res[0], res[0], res[1], res[1])], [False, True, False, True])
        es, st = ift.estimate_evidence_lower_bound(cm.H, sl, 2, compute_all=True, verbose=False)
        judge("nifty.cl", [float(s.asnumpy()) for s in es.iterator()])
        if abs(float(st["elbo_mean"].asnumpy()) - exp_mean) > 1e-9 * max(1., abs(exp_mean)):
            out.append("nifty.cl: reported mean %r, expected %r" % (float(st["elbo_mean"].asnumpy()), exp_mean))
    except Exception as e:
        out.append("nifty.cl raised %s: %s" % (type(e).__name__, str(e)[:140]))
    # classic: saving the eigensystem, resuming from all / part of it, the analytic prior term
    d = os.path.join(workdir, "eigcl")
    shutil.rmtree(d, ignore_errors=True)
    try:
        es, _ = ift.estimate_evidence_lower_bound(cm.H, sl, 2, compute_all=True, verbose=False, output_directory=d)
        judge("nifty.cl (saving the eigensystem)", [float(s_.asnumpy()) for s_ in es.iterator()])
        vals = np.load(os.path.join(d, "metric_signal_eigenvalues.npy"))
        vecs = np.load(os.path.join(d, "metric_signal_eigenvectors.npy"))
        for k in (1, 2):
            es, _ = ift.estimate_evidence_lower_bound(cm.H, sl, 2, compute_all=True, verbose=False, resume_eigenvectors=vecs[:, :k], resume_eigenvalues=vals[:k])
            judge("nifty.cl (resumed with %d of 2 eigenpairs)" % k, [float(s_.asnumpy()) for s_ in es.iterator()])
    except Exception as e:
        out.append("nifty.cl save / resume raised %s: %s" % (type(e).__name__, str(e)[:140]))
    finally:
        shutil.rmtree(d, ignore_errors=True)
    return out


def _deflated(A, ev):
    """number of eigenvectors projected out of the operator handed to the eigensolver (re: _ProjectedMetric; cl: projector @ M @ projector.T)"""
    if hasattr(ev, "_ProjectedMetric") and isinstance(A, ev._ProjectedMetric):
        return A.projector.eigenvectors.shape[1]
    todo, seen = [A], 0
    while todo and seen < 50:
        seen += 1
        x = todo.pop()
        if isinstance(x, ev._Projector):
            return x.eigenvectors.shape[1]
        todo += list(getattr(x, "args", ()) or ()) if isinstance(getattr(x, "args", None), tuple) else []
        if hasattr(x, "A"):
            todo.append(x.A)
    return 0


def eig_traces(env, which="re"):
    """runs of the real _eigsh on a diagonal operator with the eigensolver wrapped from outside (which: the JAX or the classic module)"""
    ev = importlib.import_module("nifty.%s.evidence_lower_bound" % which)
    ssl = ev.ssl
    size = 10
    diag = 1. + 0.7 * np.arange(size, 0, -1)
    if which == "re":
        linop = ssl.LinearOperator(shape=(size, size), dtype=np.float64, matvec=lambda x: diag * np.asarray(x).ravel())
    else:
        import nifty.cl as ift
        linop = ift.makeOp(ift.makeField(ift.UnstructuredDomain(size), diag))
    traces, metas, bad = [], [], []
    orig = ssl.eigsh
    for n in range(1, 7):
        for nb in range(1, 4):
            for pre in range(0, n + 3):
                evs = []

                def rec(A, k=6, **kw):
                    defl = _deflated(A, ev)
                    evs.append(dict(ev="request", k=int(k), deflated=int(defl), found=0))
                    return orig(A, k=k, **kw)
                ssl.eigsh = rec
                try:
                    kw = {}
                    if pre:
                        V = np.eye(size)[:, :pre][:, ::-1]           # handed over in ascending order of the eigenvalues
                        kw = dict(resume_eigenvectors=V, resume_eigenvalues=diag[:pre][::-1].copy())
                    if which == "re":
                        vals, vecs = ev._eigsh(linop, size, n, tot_dofs=size - 1, n_batches=nb, early_stop=False, verbose=False, output_directory=None, **kw)
                    else:
                        vals, vecs = ev._eigsh(linop, n, size - 1, np.float64, n_batches=nb, early_stop=False, verbose=False, output_directory=None, **kw)
                    evs.append(dict(ev="end", k=0, deflated=0, found=int(len(vals))))
                    if not np.allclose(np.sort(vals)[::-1], diag[:n], rtol=1e-8):
                        bad.append(("[nifty.%s] " % which) + "n=%d batches=%d resumed with %d: eigenvalues %s, the %d largest are %s" % (n, nb, pre, np.round(np.sort(vals)[::-1], 8).tolist(), n, diag[:n].tolist()))
                except Exception as e:
                    bad.append(("[nifty.%s] " % which) + "n=%d batches=%d resumed with %d: _eigsh raised %s: %s" % (n, nb, pre, type(e).__name__, str(e)[:120]))
                    evs.append(dict(ev="end", k=0, deflated=0, found=-1))
                finally:
                    ssl.eigsh = orig
                traces.append([dict(ev="head", n=n, nb=nb, pre=pre, k=0, deflated=0, found=0)] + evs)
                metas.append((n, nb, pre, which))
    return traces, metas, bad


def check_lanczos(env, mats):
    jax, jnp, jft = env
    lz = importlib.import_module("nifty.re.num.lanczos")
    out = []
    rs = np.random.RandomState(4)
    for name, A in mats:
        n = A.shape[0]
        w, U = np.linalg.eigh(A)
        logA = (U * np.log(w)) @ U.T
        distinct = n == 1 or np.min(np.diff(w)) > 1e-6          # with repeated eigenvalues the Krylov space is smaller than the dimension
        try:
            Ts, ests = [], []
            for _ in range(3):
                v = rs.standard_normal(n)
                T, basis = lz.lanczos_tridiag(lambda x: jnp.asarray(A) @ x, jnp.asarray(v), order=n)
                T, basis = np.asarray(T), np.asarray(basis)
                if distinct and not np.allclose(np.linalg.eigvalsh(T), w, rtol=1e-8, atol=1e-10):
                    out.append("%s: Lanczos with order = dimension has the spectrum %s, the operator %s" % (name, np.linalg.eigvalsh(T).tolist(), w.tolist()))
                if distinct and not np.allclose(basis @ basis.T, np.eye(n), atol=1e-8):
                    out.append("%s: the Lanczos basis is not orthonormal" % name)
                if distinct and not np.allclose(basis @ A @ basis.T, T, atol=1e-8):
                    out.append("%s: V A V^T is not the returned tridiagonal matrix" % name)
                Ts.append(T)
                vh = v / np.linalg.norm(v)
                ests.append(vh @ logA @ vh)
            got = float(lz.stochastic_logdet_from_lanczos(jnp.asarray(np.stack(Ts)), n))
            if abs(got - n * np.mean(ests)) > 1e-8 * max(1., abs(n * np.mean(ests))):
                out.append("%s: quadrature estimate %r, n * mean(v^T log(A) v) is %r" % (name, got, n * np.mean(ests)))
            if np.allclose(A, np.diag(np.diag(A))):
                got = float(lz.stochastic_lq_logdet(jnp.asarray(A), order=n, n_samples=4, key=3))
                if abs(got - np.sum(np.log(w))) > 1e-8 * max(1., abs(np.sum(np.log(w)))):
                    out.append("%s: stochastic log-determinant %r with order = dimension, log det is %r" % (name, got, float(np.sum(np.log(w)))))
        except Exception as e:
            out.append("%s: raised %s: %s" % (name, type(e).__name__, str(e)[:140]))
    return out


def run(ctx):
    env = lg.jax_env()
    q = ctx.quick
    models = lg.emit_models(ctx)
    ctx.tlc("EigBatches", "CONSTANTS MaxN = 7\nMaxB = 4\nSPECIFICATION FairSpec\nINVARIANT Exact\nINVARIANT Positive\nINVARIANT NeverTooMany\nINVARIANT ResumeIsSuffix\nPROPERTY Terminates\n",
            label="batch schedules", deadlock=False)
    r = ctx.tlc("EigBatches", "CONSTANTS MaxN = 5\nMaxB = 3\nSPECIFICATION Spec\nINVARIANT NeverShortened\n", label="witness NeverShortened", expect_ok=False, deadlock=False)
    if r.violated != "NeverShortened":
        raise tlcmod.MachineryError("vacuity witness not refuted")
    work = os.path.join(tlcmod.RUNROOT, "C34-%d" % os.getpid())
    os.makedirs(work, exist_ok=True)
    try:
        with quiet():
            sel = [m for i, m in enumerate(models) if not q or i % 2 == ctx.seed % 2]
            for inst in sel:
                ctx.case(("elbo", json.dumps([inst["R"], inst["ninv"], inst["d"]])))
                for msg in check_elbo(inst, env, work):
                    ctx.violation(dict(kind="elbo", which=msg.split(":")[0][:40]), "R=%s ninv=%s d=%s: %s" % (inst["R"], [lg.rv(x) for x in inst["ninv"]], inst["d"], msg), replay=dict(model=inst))
            traces, metas, bad = eig_traces(env)
            t2, m2, b2 = eig_traces(env, "cl")
            traces, metas, bad = traces + t2, metas + m2, bad + b2
            mats = [("Dinv of %s" % m["R"], lg.mat(m["Dinv"])) for m in models[:6]] + [("diag(1..5)/2", np.diag(np.arange(1., 6.) / 2)), ("diag(3, 1/4, 7)", np.diag([3., .25, 7.])),
                                                                                           ("diagonal, dimension 16, condition 1e6", np.diag(np.logspace(-3, 3, 16))),
                                                                                           ("diagonal, dimension 24, condition 1e6", np.diag(np.logspace(0, 6, 24)))]
            lbad = check_lanczos(env, mats)
    finally:
        shutil.rmtree(work, ignore_errors=True)
    for msg in bad:
        ctx.violation(dict(kind="eigsh-result"), msg, replay=dict(what="eigsh"))
    for msg in lbad:
        ctx.violation(dict(kind="lanczos", which=msg.split(": ")[1][:30]), msg, replay=dict(what="lanczos"))
    tv = tracemod.validate(ctx, "EigBatchesTrace", traces, cfg="CONSTANTS MaxN = 7\nMaxB = 4\nSPECIFICATION TSpec\nCONSTRAINT Progress\nPOSTCONDITION Report\nINVARIANT NeverTooMany\n",
                           label="%d eigensolver request traces" % len(traces))
    for tid, l, clause in tv.propfail:
        ctx.violation(dict(kind="eigsh-trace"), "n=%d batches=%d resumed with %d [nifty.%s]: event %d %r: %s" % (metas[tid] + (l, traces[tid][l - 1], clause)), replay=dict(trace=traces[tid]))
    pf = {t for t, _, _ in tv.propfail}
    for tid in tv.rejected:
        if tid not in pf:
            ctx.violation(dict(kind="eigsh-schedule"), "n=%d batches=%d resumed with %d [nifty.%s]: request %d (%r) does not follow the batch schedule" % (metas[tid] + (tv.maxl[tid] + 1, traces[tid][tv.maxl[tid]])),
                          replay=dict(trace=traces[tid]))
    for mt in metas:
        ctx.case(("eigsh",) + mt)
    ctx.traces += len(sel) + len(traces)
    ctx.sample(dict(eigsh_trace=traces[17]))
    ctx.notes.update(models=len(sel), eigensolver_traces=len(traces), accepted=tv.accepted)
    ctx.assume("the ELBO the library reports omits the data normalisation -1/2 log|2 pi N|; it is compared with 1/2 log|D| + dim/2 - H(sample) for given (not random) samples",
               "accuracy of the stochastic estimators below full order is not covered; the stochastic log-determinant is exact only for diagonal operators (Rademacher probes)")


def replay(ctx, doc):
    env = lg.jax_env()
    c = doc["case"]
    work = os.path.join(tlcmod.RUNROOT, "C34-replay-%d" % os.getpid())
    os.makedirs(work, exist_ok=True)
    try:
        with quiet():
            if "model" in c:
                msgs = check_elbo(c["model"], env, work)
            elif c.get("what") == "lanczos":
                msgs = check_lanczos(env, [("diag(1..5)/2", np.diag(np.arange(1., 6.) / 2))])
            else:
                msgs = eig_traces(env)[2] + eig_traces(env, "cl")[2]
    finally:
        shutil.rmtree(work, ignore_errors=True)
    for m in msgs:
        ctx.violation(doc.get("key", dict(kind="replay")), m, replay=c)
    ctx.case("replay")
    ctx.case("replay2")
    ctx.sample(dict(replayed=list(c.keys())))
    ctx.states = ctx.transitions = 1


def selftest(ctx):
    good = [dict(ev="head", n=5, nb=2, pre=1, k=0, deflated=0, found=0), dict(ev="request", k=2, deflated=1, found=0), dict(ev="request", k=2, deflated=3, found=0), dict(ev="end", k=0, deflated=0, found=5)]
    bad = json.loads(json.dumps(good))
    bad[2]["k"] = 3
    nodefl = json.loads(json.dumps(good))
    nodefl[2]["deflated"] = 1
    tv = tracemod.validate(ctx, "EigBatchesTrace", [good, bad, nodefl], cfg="CONSTANTS MaxN = 7\nMaxB = 4\nSPECIFICATION TSpec\nCONSTRAINT Progress\nPOSTCONDITION Report\n", label="selftest")
    return dict(ok=(tv.rejected == [1] and [t for t, _, _ in tv.propfail] == [2]), rejected=tv.rejected, propfail=tv.propfail, mutation="a wrong batch size; a request without deflation")
