"""C05 - Operator-tree optimisation preserves semantics.

Calculus.tla   (see C03) programs whose slots may be re-used: the operator built from them contains the SAME Python object several times
               (shared leaves, shared sub-trees); the denotation ignores sharing
spec -> code   optimise_operator(op) must have the same domain and target and, at every evaluation point, the value and the Jacobian
               given by the specification; the original operator must still evaluate as before"""
import json

import numpy as np

from props import calc_common as cc
from vf import tlc as tlcmod
from vf.core import quiet


def shared(prog):
    use = {}
    for s in prog:
        for r in (s["x"], s["y"]):
            if r:
                use[r] = use.get(r, 0) + 1
    return any(v > 1 for v in use.values())


def d35_shape(prog):
    """the tree shapes the known finding D35 is about: a sum / product node that is used more than once, or two operands of sums /
    products one of which is the other followed by point-wise functions / scalings (operator chains with a common prefix)"""
    uses = {}
    for s in prog:
        if s["op"] in ("add", "sub", "mul", "vdot"):
            for r in (s["x"], s["y"]):
                uses[r] = uses.get(r, 0) + 1
    binary = {i for i, s in enumerate(prog, 1) if s["op"] in ("add", "sub", "mul", "vdot")}
    if any(uses.get(i, 0) > 1 for i in binary) or any(s["op"] not in ("add", "sub", "mul", "vdot", "var") and s["x"] in binary and uses.get(s["x"], 0) >= 1 for s in prog):
        return True

    def root_chain(i):
        ch = [i]
        while prog[i - 1]["op"] not in ("var", "add", "sub", "mul", "vdot") and prog[i - 1]["x"]:
            i = prog[i - 1]["x"]
            ch.append(i)
        return ch
    occ = [r for s_ in prog if s_["op"] in ("add", "sub", "mul", "vdot") for r in (s_["x"], s_["y"])]
    for i in range(len(occ)):
        for j in range(i + 1, len(occ)):
            common = set(root_chain(occ[i])) & set(root_chain(occ[j]))
            if any(prog[c - 1]["op"] != "var" for c in common):
                return True
    return False


def node_reuse(prog):
    uses = {}
    for s in prog:
        for r in (s["x"], s["y"]):
            if r:
                uses[r] = uses.get(r, 0) + 1
    return any(uses.get(i, 0) > 1 for i, s in enumerate(prog, 1) if s["op"] in ("add", "sub", "mul", "vdot"))


def check_program(b, inst):
    ift = b.ift
    from nifty.cl.operator_tree_optimiser import optimise_operator
    out = []
    try:
        op = b.build(inst["prog"])
    except Exception as e:
        return [("build", "building the operator raised %s: %s" % (type(e).__name__, str(e)[:120]))], 0
    try:
        with ift.random.Context(12345):          # the optimiser draws its self-check input from the global generator: fixed here
            opt = optimise_operator(op)
    except AssertionError as e:
        # the optimiser compares the two operators on ONE standard-normal input; a program that is not defined there (sqrt, log, ... of a
        # negative number: NaN != NaN) makes that self-check fail - a refusal, not a wrong result.  Only programs that are finite on
        # standard-normal inputs must pass it.
        rs = np.random.RandomState(7)
        finite = True
        for _ in range(80):
            x = ift.MultiField.from_dict({k: ift.makeField(b.dom, rs.standard_normal(2)) for k in op.domain.keys()}, domain=op.domain)
            with np.errstate(all="ignore"):
                r_ = op(x)
                finite = finite and bool(np.all(np.isfinite(np.atleast_1d((r_["s"] if isinstance(r_, ift.MultiField) else r_).asnumpy()))))
        if not finite:
            return [], 0
        return [("self-check", "optimise_operator's own comparison failed although the operator is finite on standard-normal inputs: %s" % str(e)[:100])], 0
    except Exception as e:
        return [("optimiser-raises", "optimise_operator raised %s: %s" % (type(e).__name__, str(e)[:140]))], 0
    if opt.domain is not op.domain or opt.target is not op.target:
        out.append(("domain", "domain or target changed"))
        return out, 0
    n = 0
    for pt in cc.points_for(inst):
        try:
            val, jac, _ = cc.expected(inst, pt)
        except cc.Singular:
            continue
        n += 1
        where = "at a=%s b=%s" % (pt["a"].tolist(), pt["b"].tolist())
        try:
            x = b.point(op, pt)
            for nm, o in (("optimised", opt), ("original after optimising", op)):
                lin = o(ift.Linearization.make_var(x))
                fl = lambda f: np.atleast_1d((f["s"] if isinstance(f, ift.MultiField) else f).asnumpy()).ravel()
                v = fl(lin.val)
                J, JT = b.dense_jac(o, lin)
                if not cc.close(v, val) or not cc.close(fl(o(x)), val):
                    out.append(("value", "%s operator %s: value %s, expected %s" % (nm, where, v.tolist(), val.tolist())))
                if not cc.close(J, jac) or not cc.close(JT, J.T, 1e-12):
                    out.append(("jacobian", "%s operator %s: Jacobian %s, expected %s" % (nm, where, np.round(J, 8).tolist(), np.round(jac, 8).tolist())))
        except Exception as e:
            out.append(("raises", "%s: %s: %s" % (where, type(e).__name__, str(e)[:140])))
    return out, n


def run(ctx):
    b = cc.Builder()
    progs = cc.emit_programs(ctx, ctx.quick, "C05", preload="tagged")
    nsh = sum(1 for p in progs if shared(p["prog"]))
    if nsh < 50:
        raise tlcmod.MachineryError("too few programs with shared sub-trees: %d" % nsh)
    tot = 0
    with quiet():
        for inst in progs:
            ctx.case(json.dumps(inst["prog"], sort_keys=True))
            res, n = check_program(b, inst)
            tot += n
            for kind, msg in res:
                ctx.violation(dict(kind=kind, d35_shape=d35_shape(inst["prog"]), node_reuse=node_reuse(inst["prog"]), shared=shared(inst["prog"]), tagged=any(s["op"] == "tag" for s in inst["prog"]), pre=any(s["op"] == "ptwpre" for s in inst["prog"]), error=(msg.split("raised ")[1].split(":")[0] if "raised " in msg else ""),
                                   ops=sorted({s["op"] for s in inst["prog"]})), "%s: %s" % (cc.describe(inst["prog"]), msg), replay=dict(program=inst))
    ctx.traces += len(progs)
    ctx.notes.update(programs=len(progs), with_shared_subtrees=nsh, evaluations=tot)
    ctx.sample(dict(program=cc.describe(next(p for p in progs if shared(p["prog"]))["prog"])))
    ctx.assume("up to four evaluation points per program, none of them the optimiser's own random self-check input")


def replay(ctx, doc):
    b = cc.Builder()
    inst = doc["case"]["program"]
    with quiet():
        res, _ = check_program(b, inst)
    for kind, msg in res:
        ctx.violation(doc.get("key", dict(kind=kind)), msg, replay=doc["case"])
    ctx.case("replay")
    ctx.case("replay2")
    ctx.sample(dict(replayed=cc.describe(inst["prog"])))
    ctx.states = ctx.transitions = 1


def selftest(ctx):
    b = cc.Builder()
    r = tlcmod.run("Calculus", 'CONSTANTS MaxSlots = 3\nFnSet = "rat"\nPreload = "none"\nSPECIFICATION Spec\nINVARIANT Emit\nCHECK_DEADLOCK FALSE\n', workers=1, timeout=900)
    inst = next(i for i in r.emitted if shared(i["prog"]) and i["prog"][-1]["op"] == "mul")
    with quiet():
        good, _ = check_program(b, inst)
        inst["val"][0] = dict(t="c", v=[7, 1])
        bad, _ = check_program(b, inst)
    return dict(ok=(good == [] and any(k == "value" for k, _ in bad)), mutation="the expected value replaced by a constant")
