"""C04 - Fixing part of the input preserves value, Jacobian and metric.

Calculus.tla   (see C03) programs over the keys a, b with symbolic value and Jacobian
spec -> code   for every program that uses both keys and each key K held constant: simplify_for_constant_input gives an operator on the
               other key whose value equals Eval(val) and whose Jacobian equals the columns of Eval(D val) of the free key (the constant
               output, if any, must carry the right values); for energies EnergyAdapter(constants=K) has value / gradient / metric of the
               free key only, and a minimiser step leaves the constant key untouched"""
import json

import numpy as np

from props import calc_common as cc
from vf import tlc as tlcmod
from vf.core import quiet

KEYS = (("a", 0), ("a", 1), ("b", 0), ("b", 1))


def check_program(b, inst):
    ift = b.ift
    out = []
    if sorted(inst["keys"]) != ["a", "b"]:
        return out, 0
    try:
        op = b.build(inst["prog"])
    except Exception as e:
        return [("build", "building the operator raised %s: %s" % (type(e).__name__, str(e)[:120]))], 0
    energy = inst["prog"][-1]["op"] in ("gauss", "vcg")
    n = 0
    for ipt, pt in enumerate(cc.points_for(inst)[:3]):
        try:
            val, jac, inner = cc.expected(inst, pt)
        except cc.Singular:
            continue
        for const, free in (("a", "b"), ("b", "a")):
            n += 1
            where = "%s constant at a=%s b=%s" % (const, pt["a"].tolist(), pt["b"].tolist())
            fcols = b.cols([free])
            try:
                cinp = ift.MultiField.from_dict({const: ift.makeField(b.dom, pt[const].copy())})
                cout, sop = op.simplify_for_constant_input(cinp)
                if set(sop.domain.keys()) != {free}:
                    out.append(("domain", "%s: the specialised operator lives on %s, expected {%s}" % (where, sorted(sop.domain.keys()), free)))
                    continue
                if sop.target is not op.target:
                    out.append(("target", "%s: the target changed" % where))
                x = ift.MultiField.from_dict({free: ift.makeField(b.dom, pt[free].copy())})
                fl = lambda f: np.atleast_1d((f["s"] if isinstance(f, ift.MultiField) else f).asnumpy()).ravel()
                plain = fl(sop(x))
                lin = sop(ift.Linearization.make_var(x, want_metric=energy))
                J, JT = b.dense_jac(sop, lin)
                if not cc.close(plain, val) or not cc.close(fl(lin.val), val):
                    out.append(("value", "%s: value %s, the original operator with the constant inserted gives %s" % (where, plain.tolist(), val.tolist())))
                if not cc.close(J[:, fcols], jac[:, fcols]):
                    out.append(("jacobian", "%s: Jacobian %s, the columns of the free key are %s" % (where, np.round(J[:, fcols], 8).tolist(), np.round(jac[:, fcols], 8).tolist())))
                if not cc.close(JT[fcols, :], J[:, fcols].T, 1e-12):
                    out.append(("adjoint", "%s: adjoint of the specialised Jacobian is not its transpose" % where))
                if energy:
                    M = np.zeros((2, 2))
                    for c in range(2):
                        e = np.zeros(2)
                        e[c] = 1.
                        M[:, c] = lin.metric(ift.MultiField.from_dict({free: ift.makeField(b.dom, e)}))[free].asnumpy()
                    Mexp = (inner.T @ inner)[np.ix_(fcols, fcols)]
                    if not cc.close(M, Mexp):
                        out.append(("metric", "%s: metric %s, the block of the free key is %s" % (where, np.round(M, 8).tolist(), np.round(Mexp, 8).tolist())))
                    # the energy adapter with constants
                    pos = ift.MultiField.from_dict({k: ift.makeField(b.dom, pt[k].copy()) for k in ("a", "b")})
                    ea = ift.EnergyAdapter(pos, op, constants=[const], want_metric=True)
                    g = ea.gradient
                    if set(g.keys()) != {free}:
                        out.append(("gradient-keys", "%s: the gradient of the energy has components for %s" % (where, sorted(g.keys()))))
                    elif not cc.close(g[free].asnumpy(), jac[0, fcols]) or not cc.close(float(ea.value), val[0]):
                        out.append(("gradient", "%s: energy value / gradient %r / %s, expected %r / %s" % (where, float(ea.value), g[free].asnumpy().tolist(), val[0], jac[0, fcols].tolist())))
                    if not cc.close(ea.apply_metric(ift.MultiField.from_dict({free: ift.makeField(b.dom, np.array([1., 0.]))}))[free].asnumpy(), Mexp[:, 0]):
                        out.append(("metric", "%s: EnergyAdapter.apply_metric is not the metric block of the free key" % where))
                    mini = ift.SteepestDescent(ift.GradientNormController(iteration_limit=1))
                    e2, _ = mini(ea)
                    newpos = e2.position
                    if const in newpos.keys() and not np.array_equal(newpos[const].asnumpy(), pt[const]):
                        out.append(("const-moved", "%s: a minimiser step changed the constant key" % where))
            except Exception as e:
                out.append(("raises", "%s: %s: %s" % (where, type(e).__name__, str(e)[:140])))
            if inst["shape"] == "scal" and ipt == 0:
                out += stochastic_adapter(b, inst, op, pt, const, free, energy, where)
    return out, n


def stochastic_adapter(b, inst, op, pt, const, free, energy, where):
    """StochasticEnergyAdapter: the key `const` is filled with the adapter's own standard-normal samples (mirrored), the energy is the
    average over them of the original operator with the sample inserted: value, gradient and metric are the averages of the specification's
    value, free-key Jacobian columns and metric block; moving the position (at) keeps the samples"""
    ift = b.ift
    out = []
    fcols = b.cols([free])
    try:
        with ift.random.Context(31):
            pos = ift.MultiField.from_dict({free: ift.makeField(b.dom, pt[free].copy())})
            sea = ift.StochasticEnergyAdapter.make(pos, op, [const], 2, True)
        noise = sea.samples()
        if len(noise) != 4 or not all(np.array_equal(noise[2 * i][const].asnumpy(), -noise[2 * i + 1][const].asnumpy()) for i in range(2)):
            out.append(("stochastic-samples", "%s: 2 mirrored samples requested, %d samples that are not pairs of opposite sign" % (where, len(noise))))
            return out
        for label, adapter, at in (("", sea, pt[free]), (" after at()", None, pt[free] * 0.5 + 0.125)):
            if adapter is None:
                adapter = sea.at(ift.MultiField.from_dict({free: ift.makeField(b.dom, at.copy())}))
                if [id(x) for x in adapter.samples()] != [id(x) for x in noise]:
                    out.append(("stochastic-at", "%s: at() does not keep the samples" % where))
            vals, grads, mets = [], [], []
            for nz in noise:
                p2 = {free: at, const: nz[const].asnumpy()}
                v_, j_, in_ = cc.expected(inst, p2)
                vals.append(v_[0])
                grads.append(j_[0, fcols])
                if energy:
                    mets.append((in_.T @ in_)[np.ix_(fcols, fcols)])
            if not cc.close(float(adapter.value), np.mean(vals)):
                out.append(("stochastic-value", "%s: StochasticEnergyAdapter%s value %r, the average over its samples is %r" % (where, label, float(adapter.value), float(np.mean(vals)))))
            if set(adapter.gradient.keys()) != {free} or not cc.close(adapter.gradient[free].asnumpy(), np.mean(grads, axis=0)):
                out.append(("stochastic-gradient", "%s: StochasticEnergyAdapter%s gradient %s, the average over its samples is %s" % (where, label, adapter.gradient[free].asnumpy().tolist(), np.mean(grads, axis=0).tolist())))
            if energy:
                M = np.array([adapter.apply_metric(ift.MultiField.from_dict({free: ift.makeField(b.dom, e)}))[free].asnumpy() for e in np.eye(2)]).T
                M2 = np.array([adapter.metric(ift.MultiField.from_dict({free: ift.makeField(b.dom, e)}))[free].asnumpy() for e in np.eye(2)]).T
                if not cc.close(M, np.mean(mets, axis=0)) or not cc.close(M2, M, 1e-13):
                    out.append(("stochastic-metric", "%s: StochasticEnergyAdapter%s metric %s, the average over its samples is %s" % (where, label, np.round(M, 8).tolist(), np.round(np.mean(mets, axis=0), 8).tolist())))
    except cc.Singular:
        pass
    except Exception as e:
        out.append(("stochastic-raises", "%s: StochasticEnergyAdapter: %s: %s" % (where, type(e).__name__, str(e)[:140])))
    return out


def run(ctx):
    b = cc.Builder()
    progs = [p for p in cc.emit_programs(ctx, ctx.quick, "C04", preload="all") if sorted(p["keys"]) == ["a", "b"]]
    if len(progs) < 100:
        raise tlcmod.MachineryError("too few programs with both keys: %d" % len(progs))
    tot = 0
    with quiet():
        for inst in progs:
            ctx.case(json.dumps(inst["prog"], sort_keys=True))
            res, n = check_program(b, inst)
            tot += n
            for kind, msg in res:
                ctx.violation(dict(kind=kind, last=inst["prog"][-1]["op"], ops=sorted({s["op"] for s in inst["prog"]})), "%s: %s" % (cc.describe(inst["prog"]), msg), replay=dict(program=inst))
    if tot < len(progs):
        raise tlcmod.MachineryError("too few specialisations evaluated: %d" % tot)
    ctx.traces += len(progs)
    ctx.notes.update(programs=len(progs), specialisations=tot)
    ctx.sample(dict(program=cc.describe(progs[len(progs) // 2]["prog"])))
    ctx.assume("two keys: each of the two non-empty proper subsets is held constant; points as in C03")


def replay(ctx, doc):
    b = cc.Builder()
    inst = doc["case"]["program"]
    with quiet():
        res, _ = check_program(b, inst)
    for kind, msg in res:
        ctx.violation(doc.get("key", dict(kind=kind)), msg, replay=doc["case"])
    ctx.case("replay")
    ctx.case("replay2")
    ctx.sample(dict(replayed=cc.describe(inst["prog"])))
    ctx.states = ctx.transitions = 1


def selftest(ctx):
    b = cc.Builder()
    r = tlcmod.run("Calculus", 'CONSTANTS MaxSlots = 3\nFnSet = "rat"\nPreload = "none"\nSPECIFICATION Spec\nINVARIANT Emit\nCHECK_DEADLOCK FALSE\n', workers=1, timeout=900)
    inst = next(i for i in r.emitted if sorted(i["keys"]) == ["a", "b"] and i["prog"][-1]["op"] == "mul")
    with quiet():
        good, _ = check_program(b, inst)
        inst["jac"][0][2] = dict(t="c", v=[7, 1])
        bad, _ = check_program(b, inst)
    return dict(ok=(good == [] and any(k == "jacobian" for k, _ in bad)), mutation="one Jacobian expression of the free key replaced")
