"""C32, chain bookkeeping of nifty.re.hmc_oo (HmcChain.tla / HmcChainTrace.tla).

code -> spec   the real HMCChain / NUTSChain are run with wrappers installed from outside (nothing in the library is changed): every key that
               is split or drawn from, the positions a transition starts from and hands on, the core state that is carried on and the
               chain after every update_chain are logged; HmcChainTrace.tla validates the events against the specification
spec -> code   the segmentations TLC enumerates (`cuts`) are replayed: a run cut into several generate_n_samples calls, each continuing
               from the returned core state, must visit the states of the uncut run; the compiled loop must agree with the Python loop"""
import importlib

import numpy as np

from vf import tlc as tlcmod


class _Ids:
    def __init__(self):
        self.d = {}

    def of(self, tree, jax):
        b = b"|".join(np.asarray(x).tobytes() for x in jax.tree_util.tree_leaves(tree))
        if b not in self.d:
            self.d[b] = len(self.d)
        return self.d[b]


class _Keys:
    def __init__(self, jax, root):
        self.jax = jax
        self.d = {self.b(root): []}
        self.nforeign = 0

    def b(self, k):
        try:
            k = self.jax.random.key_data(k)
        except Exception:
            pass
        return np.asarray(k).tobytes()

    def path(self, k):
        b = self.b(k)
        if b not in self.d:
            self.nforeign += 1
            self.d[b] = [9, self.nforeign]
        return list(self.d[b])

    def children(self, parent, kids):
        p = self.path(parent)
        out = []
        for i in range(len(kids)):
            b = self.b(kids[i])
            self.d.setdefault(b, p + [i])
            out.append(list(self.d[b]))
        return out


def micro(x):
    x = float(x)
    return int(round(x * 1e6)) if np.isfinite(x) else -1


def make_chain(env, kind, hoo):
    jax, jnp, jft, hmc = env
    U = lambda q: 0.5 * jnp.sum(q ** 2) + 0.25 * jnp.sum(q ** 4)
    import warnings
    with warnings.catch_warnings():
        warnings.simplefilter("ignore")
        if kind == "hmc":
            return hoo.HMCChain(potential_energy=U, inverse_mass_matrix=1.0, position_proto=jnp.zeros(2), num_steps=3, step_size=0.9)
        return hoo.NUTSChain(potential_energy=U, inverse_mass_matrix=1.0, position_proto=jnp.zeros(2), step_size=0.45, max_tree_depth=3)


def record(env, kind, cuts, seed, save_intermediates=False):
    """run the real chain class over the segmentation `cuts` with the recording wrappers; returns the event trace"""
    jax, jnp, jft, hmc = env
    hoo = importlib.import_module("nifty.re.hmc_oo")
    lax_ = importlib.import_module("nifty.re.lax")
    ch = make_chain(env, kind, hoo)
    root = jax.random.PRNGKey(seed)
    keys = _Keys(jax, root)
    ids = _Ids()
    tr = []
    real_random = hoo.random

    class RandomProxy:
        def __getattr__(self, name):
            return getattr(real_random, name)

        def split(self, key, num=2):
            kids = real_random.split(key, num)
            tr.append(dict(ev="split", parent=keys.path(key), children=keys.children(key, kids)))
            return kids

    saved = dict(random=hoo.random, smfd=hoo.sample_momentum_from_diagonal, acc=hoo.generate_hmc_acc_rej, nuts=hoo.generate_nuts_tree, fori=hoo.fori_loop)

    def smfd(*a, **kw):
        key = kw["key"] if "key" in kw else a[0]
        tr.append(dict(ev="momentum", key=keys.path(key)))
        return saved["smfd"](*a, **kw)

    def acc(*a, **kw):
        r = saved["acc"](*a, **kw)
        tr.append(dict(ev="transition", key=keys.path(kw["key"]), to=ids.of(r.accepted_qp.position, jax), acc=micro(bool(r.accepted)),
                       depth=0, div=bool(r.diverging), **{"from": ids.of(kw["initial_qp"].position, jax)}))
        return r

    def nuts(*a, **kw):
        r = saved["nuts"](*a, **kw)
        npro = 2 ** int(r.depth) - 1
        tr.append(dict(ev="transition", key=keys.path(kw["key"]), to=ids.of(r.proposal_candidate.position, jax),
                       acc=micro(float(r.cumulative_acceptance) / npro if npro > 0 else 0.), depth=int(r.depth), div=bool(r.diverging),
                       **{"from": ids.of(kw["initial_qp"].position, jax)}))
        return r

    def fori(lower, upper, body_fun, init_val):
        val = init_val
        for i in range(int(lower), int(upper)):
            val = body_fun(i, val)
        return val

    real_sns = ch.sample_next_state

    def sns(key, pos):
        tree, (k2, p2) = real_sns(key, pos)
        tr.append(dict(ev="carry", key=keys.path(k2), pos=ids.of(p2, jax)))
        return tree, (k2, p2)

    real_upd = ch.update_chain

    def upd(chain, idx, tree):
        c2 = real_upd(chain, idx, tree)
        row = jax.tree_util.tree_map(lambda x: x[int(idx)], c2.samples)
        tr.append(dict(ev="update", idx=int(idx), row=ids.of(row, jax), mean=micro(c2.acceptance),
                       depth=int(c2.depths[int(idx)]) if c2.depths is not None else 0, div=bool(c2.divergences[int(idx)])))
        return c2

    hoo.random = RandomProxy()
    hoo.sample_momentum_from_diagonal = smfd
    hoo.generate_hmc_acc_rej = acc
    hoo.generate_nuts_tree = nuts
    hoo.fori_loop = fori
    ch.sample_next_state = sns
    ch.update_chain = upd
    allrows = []
    try:
        key, pos = root, jnp.asarray([0.3, -0.2])
        ids.of(pos, jax)
        for n in cuts:
            tr.append(dict(ev="begin", n=int(n), key=keys.path(key), pos=ids.of(pos, jax)))
            chain, (key, pos) = ch.generate_n_samples(key, pos, int(n), save_intermediates=save_intermediates)
            rows = [ids.of(jax.tree_util.tree_map(lambda x: x[i], chain.samples), jax) for i in range(int(n))]
            tr.append(dict(ev="end", key=keys.path(key), pos=ids.of(pos, jax), rows=rows, mean=micro(chain.acceptance)))
            allrows.append(np.asarray(chain.samples))
    finally:
        hoo.random = saved["random"]
        hoo.sample_momentum_from_diagonal = saved["smfd"]
        hoo.generate_hmc_acc_rej = saved["acc"]
        hoo.generate_nuts_tree = saved["nuts"]
        hoo.fori_loop = saved["fori"]
    return tr, np.concatenate(allrows, axis=0)


def plain(env, kind, cuts, seed, save_intermediates=False):
    """the unmodified code path (lax.fori_loop) over a segmentation; returns rows, acceptances per call, final core state"""
    jax, jnp, jft, hmc = env
    hoo = importlib.import_module("nifty.re.hmc_oo")
    ch = make_chain(env, kind, hoo)
    key, pos = jax.random.PRNGKey(seed), jnp.asarray([0.3, -0.2])
    rows, accs = [], []
    for n in cuts:
        chain, (key, pos) = ch.generate_n_samples(key, pos, int(n), save_intermediates=save_intermediates)
        rows.append(np.asarray(chain.samples))
        accs.append(float(chain.acceptance))
        if save_intermediates:
            tt = chain.trees
            last = tt.accepted_qp.position if kind == "hmc" else tt.proposal_candidate.position
            if not np.array_equal(np.asarray(last), np.asarray(chain.samples)):
                accs.append("intermediates")
    return np.concatenate(rows, axis=0), accs, (np.asarray(jax.random.key_data(key) if hasattr(jax.random, "key_data") and jnp.issubdtype(key.dtype, jax.dtypes.prng_key) else key), np.asarray(pos))


CFG = 'CONSTANTS MaxSteps = %d\nMaxSegs = %d\nVariant = "%s"\nEmitSegs = %s\nOutcomes = "free"\nSPECIFICATION Spec\nCHECK_DEADLOCK FALSE\n'
TCFG = (CFG % (4, 3, "ok", "FALSE")).replace("SPECIFICATION Spec", "SPECIFICATION TSpec") + "CONSTRAINT Progress\nPOSTCONDITION Report\n"
LAWS = "INVARIANT FreshKeys\nINVARIANT KeyAdvances\nINVARIANT RunningMean\nINVARIANT RowsAreStates\nINVARIANT Continuity\n"


def model(ctx):
    q = ctx.quick
    ms = 3 if q else 4
    ctx.tlc("HmcChain", CFG % (ms, 2 if q else 3, "ok", "FALSE") + LAWS, label="chain bookkeeping, %d transitions" % ms)
    for variant, law in (("reuse", "FreshKeys"), ("nocarry", "KeyAdvances"), ("offbyone", "RowsAreStates"), ("meanidx", "RunningMean")):
        r = ctx.tlc("HmcChain", CFG % (3, 2, variant, "FALSE") + LAWS, label="defective design '%s'" % variant, expect_ok=False)
        if r.violated != law:
            raise tlcmod.MachineryError("defective chain design %s is not refuted by %s (got %r)" % (variant, law, r.violated))
    for inv in ("NeverRejects", "NeverTwoCalls"):
        r = ctx.tlc("HmcChain", CFG % (3, 2, "ok", "FALSE") + "INVARIANT %s\n" % inv, label="witness " + inv, expect_ok=False)
        if r.violated != inv:
            raise tlcmod.MachineryError("vacuity witness %s not refuted" % inv)
    r = ctx.tlc("HmcChain", (CFG % (4, 3, "ok", "TRUE")).replace('"free"', '"fixed"') + LAWS + "INVARIANT Emit\n", label="segmentations", workers=1)
    cuts = sorted({tuple(e["cuts"]) for e in r.emitted if sum(e["cuts"]) == 4})
    if len(cuts) < 5:
        raise tlcmod.MachineryError("too few segmentations emitted: %r" % (cuts,))
    return cuts


def run_chain(ctx, env):
    from vf import trace as tracemod
    q = ctx.quick
    cuts = model(ctx)
    use = [c for c in cuts if c in ((4,), (1, 3), (2, 1, 1), (3, 1))] if q else cuts
    traces, meta = [], []
    for kind in ("hmc", "nuts"):
        whole = {}
        for si, seed in enumerate(((12, 13) if kind == "hmc" else (11,)) if q else (12, 11, 13, 14)):
            try:
                base_rows, base_acc, base_core = plain(env, kind, (4,), seed)
            except Exception as e:
                ctx.violation(dict(kind="chain-raises", which=kind), "%s chain, seed %d: generate_n_samples raised %s: %s" % (kind, seed, type(e).__name__, str(e)[:120]), replay=dict(what="chainseg", kind=kind, cuts=[4], seed=seed))
                continue
            for c in use:
                ctx.case(("chain", kind, c, seed))
                # spec -> code: the segmentation does not change the visited states
                try:
                    rows, accs, core = plain(env, kind, c, seed, save_intermediates=(si % 2 == 1))
                except Exception as e:
                    ctx.violation(dict(kind="chain-raises", which=kind), "%s chain, seed %d, calls of %s transitions: generate_n_samples raised %s: %s" % (kind, seed, list(c), type(e).__name__, str(e)[:120]),
                                  replay=dict(what="chainseg", kind=kind, cuts=list(c), seed=seed))
                    continue
                if "intermediates" in accs:
                    ctx.violation(dict(kind="chain-intermediates", which=kind), "%s chain, calls of %s transitions: the saved intermediate trees do not contain the stored samples" % (kind, list(c)),
                                  replay=dict(what="chainseg", kind=kind, cuts=list(c), seed=seed))
                if rows.shape != base_rows.shape or not np.allclose(rows, base_rows, rtol=1e-10, atol=1e-12) or not np.array_equal(core[0], base_core[0]) or not np.allclose(core[1], base_core[1], rtol=1e-10, atol=1e-12):
                    ctx.violation(dict(kind="chain-segmentation", which=kind), "%s chain, seed %d: %s transitions in calls of %s continue differently from one call of 4 (a call that continues from the returned core state must visit the same states)" % (kind, seed, 4, list(c)),
                                  replay=dict(what="chainseg", kind=kind, cuts=list(c), seed=seed))
                elif not np.array_equal(rows, base_rows):
                    ctx.add_drift("%s chain cut %s: states agree to 1e-10 but not bitwise" % (kind, list(c)))
                if si == 0 or not q:
                    try:
                        tr, rrows = record(env, kind, c, seed, save_intermediates=(si % 2 == 1))
                    except Exception as e:
                        ctx.violation(dict(kind="chain-raises", which=kind), "%s chain, seed %d, calls of %s transitions (Python loop): raised %s: %s" % (kind, seed, list(c), type(e).__name__, str(e)[:120]),
                                      replay=dict(what="chainseg", kind=kind, cuts=list(c), seed=seed))
                        continue
                    traces.append(tr)
                    meta.append((kind, c, seed))
                    if not np.allclose(rrows, base_rows, rtol=1e-10, atol=1e-12):
                        ctx.violation(dict(kind="chain-loop", which=kind), "%s chain, seed %d, cut %s: the Python loop and the compiled loop visit different states" % (kind, seed, list(c)),
                                      replay=dict(what="chainseg", kind=kind, cuts=list(c), seed=seed))
    tv = tracemod.validate(ctx, "HmcChainTrace", traces, cfg=TCFG,
                           label="%d recorded chain runs" % len(traces))
    for tid, l, clause in tv.propfail:
        kind, c, seed = meta[tid]
        ctx.violation(dict(kind="chain-trace", which=kind, clause=clause), "%s chain, seed %d, calls of %s transitions, event %d: %s" % (kind, seed, list(c), l, clause),
                      replay=dict(what="chaintrace", kind=kind, cuts=list(c), seed=seed, trace=traces[tid][:l + 1]))
    for tid in tv.rejected:
        if not any(t == tid for t, _, _ in tv.propfail):
            ctx.add_drift("chain trace %r rejected at event %d: %r" % (meta[tid], tv.maxl[tid] + 1, traces[tid][tv.maxl[tid]]))
    moved = sum(1 for t in traces for e in t if e["ev"] == "transition" and e["to"] != e["from"])
    stayed = sum(1 for t in traces for e in t if e["ev"] == "transition" and e["to"] == e["from"])
    ctx.notes["chain"] = dict(traces=len(traces), accepted=tv.accepted, events=sum(len(t) for t in traces), transitions_moved=moved, transitions_stayed=stayed,
                              segmentations=[list(c) for c in use])
    if tv.accepted == 0:
        raise tlcmod.MachineryError("no recorded chain trace was accepted by HmcChainTrace")
    return traces


def selftest_chain(ctx, env):
    """binding: a recorded trace in which the momentum key is replaced by the transition's key must be reported"""
    from vf import trace as tracemod
    tr, _ = record(env, "hmc", (2, 1), 11)
    good = tracemod.validate(ctx, "HmcChainTrace", [tr], cfg=TCFG, label="selftest, recorded")
    bad = [dict(e) for e in tr]
    tk = [e for e in bad if e["ev"] == "transition"][0]["key"]
    [e for e in bad if e["ev"] == "momentum"][0]["key"] = tk
    b = tracemod.validate(ctx, "HmcChainTrace", [bad], cfg=TCFG, label="selftest, corrupted")
    return dict(ok=(not good.propfail and not good.rejected and len(b.propfail) > 0), mutation="momentum key replaced by the transition's key")
