"""C03 - Nonlinear operator values and Jacobians are exact derivatives.

Calculus.tla   operator expressions as SSA programs with symbolic value and symbolic derivative (chain / product / power rules, table of
               point-wise derivatives); TLC: the symbolic derivative equals exact forward-mode differentiation with dual numbers on the
               rational sub-language
spec -> code   every program is built in nifty.cl and evaluated at dyadic points: value on a field = value on a linearization =
               Eval(val); dense Jacobian = Eval(D val); adjoint = transpose; the metric of a Gaussian energy = J^T J"""
import json

import numpy as np

from props import calc_common as cc
from vf import tlc as tlcmod
from vf.core import quiet


def check_program(b, inst):
    ift = b.ift
    out = []
    try:
        op = b.build(inst["prog"])
    except Exception as e:
        return [("build", "building the operator raised %s: %s" % (type(e).__name__, str(e)[:120]))], 0
    energy = inst["prog"][-1]["op"] in ("gauss", "vcg")
    npts = 0
    for pt in cc.points_for(inst):
        try:
            val, jac, inner = cc.expected(inst, pt)
        except cc.Singular:
            continue
        npts += 1
        try:
            x = b.point(op, pt)
            flat = lambda f: np.atleast_1d((f["s"] if isinstance(f, ift.MultiField) else f).asnumpy()).ravel()
            plain = flat(op(x))
            lin = op(ift.Linearization.make_var(x, want_metric=energy))
            lval = flat(lin.val)
            J, JT = b.dense_jac(op, lin)
        except Exception as e:
            out.append(("raises", "at %s: %s: %s" % ({k: v.tolist() for k, v in pt.items()}, type(e).__name__, str(e)[:120])))
            continue
        where = "at a=%s b=%s" % (pt["a"].tolist(), pt["b"].tolist())
        if not cc.close(plain, val):
            out.append(("value", "%s: value %s, expected %s" % (where, plain.tolist(), val.tolist())))
        if not cc.close(lval, plain, 1e-12):
            out.append(("lin-value", "%s: value on a linearization %s differs from the plain value %s" % (where, lval.tolist(), plain.tolist())))
        if not cc.close(J, jac):
            out.append(("jacobian", "%s: Jacobian %s, the derivative is %s" % (where, np.round(J, 8).tolist(), np.round(jac, 8).tolist())))
        if not cc.close(JT, J.T, 1e-12):
            out.append(("adjoint", "%s: the adjoint of the Jacobian is not its transpose" % where))
        if energy:
            try:
                if lin.metric is None:
                    out.append(("metric", "%s: the requested metric is missing" % where))
                else:
                    M = np.zeros((4, 4))
                    for c, (k, j) in enumerate((("a", 0), ("a", 1), ("b", 0), ("b", 1))):
                        if k not in op.domain.keys():
                            continue
                        d = {kk: np.zeros(2) for kk in op.domain.keys()}
                        d[k][j] = 1.
                        r = lin.metric(ift.MultiField.from_dict({kk: ift.makeField(b.dom, v) for kk, v in d.items()}, domain=op.domain))
                        for c2, (k2, j2) in enumerate((("a", 0), ("a", 1), ("b", 0), ("b", 1))):
                            if k2 in op.domain.keys():
                                M[c2, c] = r[k2].asnumpy()[j2]
                    if not cc.close(M, inner.T @ inner):
                        out.append(("metric", "%s: metric %s, expected %s" % (where, np.round(M, 8).tolist(), np.round(inner.T @ inner, 8).tolist())))
                    # scaling a linearization that carries a metric scales value, Jacobian and metric alike
                    for c_ in (3.0, 0.25):
                        for nm, l2 in (("lin * %g" % c_, lin * c_), ("%g * lin" % c_, c_ * lin), ("lin / %g" % (1. / c_), lin / (1. / c_))):
                            e1 = {kk: np.zeros(2) for kk in op.domain.keys()}
                            k0 = sorted(op.domain.keys())[0]
                            e1[k0][0] = 1.
                            ef = ift.MultiField.from_dict({kk: ift.makeField(b.dom, v) for kk, v in e1.items()}, domain=op.domain)
                            if l2.metric is None or not cc.close(np.atleast_1d(l2.val.asnumpy()).ravel(), c_ * lval, 1e-12):
                                out.append(("lin-scale", "%s: %s loses the metric or the value" % (where, nm)))
                            elif not cc.close(l2.metric(ef)[k0].asnumpy(), c_ * lin.metric(ef)[k0].asnumpy(), 1e-12) or not cc.close(np.atleast_1d(l2.jac(ef).asnumpy()).ravel(), c_ * np.atleast_1d(lin.jac(ef).asnumpy()).ravel(), 1e-12):
                                out.append(("lin-scale", "%s: the metric / Jacobian of %s is not the scaled one" % (where, nm)))
            except Exception as e:
                out.append(("metric", "%s: metric raised %s: %s" % (where, type(e).__name__, str(e)[:100])))
    return out, npts


def run(ctx):
    b = cc.Builder()
    progs = cc.emit_programs(ctx, ctx.quick, "C03", preload="tagged")
    if len(progs) < 300:
        raise tlcmod.MachineryError("too few programs: %d" % len(progs))
    tot = 0
    with quiet():
        for inst in progs:
            ctx.case(json.dumps(inst["prog"], sort_keys=True))
            res, n = check_program(b, inst)
            tot += n
            for kind, msg in res:
                ctx.violation(dict(kind=kind, last=inst["prog"][-1]["op"], fns=sorted({s["f"] for s in inst["prog"] if s["op"] == "ptw"})),
                              "%s: %s" % (cc.describe(inst["prog"]), msg), replay=dict(program=inst))
    # the same programs through the other implementations (JaxOperator, MultiLinearEinsum, JaxLikelihoodEnergyOperator, op[key])
    balt = cc.Builder(alt=True)
    altops = {"mul", "vdot", "gauss", "untag", "getitem"}
    alts = [i for i in progs if len(i["prog"]) <= 3 and any(s["op"] in altops or (s["op"] == "ptw" and s["f"] in cc.JAXF) for s in i["prog"])]
    alts = alts if not ctx.quick else alts[ctx.seed % 3::3]
    with quiet():
        for inst in alts:
            ctx.case("alt:" + json.dumps(inst["prog"], sort_keys=True))
            res, n = check_program(balt, inst)
            for kind, msg in res:
                ctx.violation(dict(kind=kind, last=inst["prog"][-1]["op"], impl="jax/einsum", fns=sorted({s["f"] for s in inst["prog"] if s["op"] == "ptw"})),
                              "[JaxOperator / MultiLinearEinsum implementation] %s: %s" % (cc.describe(inst["prog"]), msg), replay=dict(program=inst, alt=True))
    ctx.notes["alt_programs"] = len(alts)
    if tot < len(progs):
        raise tlcmod.MachineryError("too few evaluation points survived: %d for %d programs" % (tot, len(progs)))
    ctx.traces += len(progs)
    ctx.notes.update(programs=len(progs), evaluations=tot)
    ctx.sample(dict(program=cc.describe(progs[len(progs) // 2]["prog"]), value=progs[len(progs) // 2]["val"]))
    ctx.assume("points where a program is not smooth or not defined (clip bounds, zero of abs/sign/sinc, non-positive arguments of log/sqrt, overflow) are skipped",
               "real fields on two pixels per key; values compared to 1e-9 relative")


def replay(ctx, doc):
    b = cc.Builder(alt=bool(doc["case"].get("alt")))
    inst = doc["case"]["program"]
    with quiet():
        res, _ = check_program(b, inst)
    for kind, msg in res:
        ctx.violation(doc.get("key", dict(kind=kind)), msg, replay=doc["case"])
    ctx.case("replay")
    ctx.case("replay2")
    ctx.sample(dict(replayed=cc.describe(inst["prog"])))
    ctx.states = ctx.transitions = 1


def selftest(ctx):
    b = cc.Builder()
    r = tlcmod.run("Calculus", 'CONSTANTS MaxSlots = 2\nFnSet = "few"\nPreload = "none"\nSPECIFICATION Spec\nINVARIANT Emit\nCHECK_DEADLOCK FALSE\n', workers=1, timeout=900)
    inst = next(i for i in r.emitted if i["prog"][-1]["op"] == "ptw" and i["prog"][-1]["f"] == "tanh")
    with quiet():
        good, _ = check_program(b, inst)
        inst["jac"][0][0] = dict(t="c", v=[7, 1])
        bad, _ = check_program(b, inst)
    return dict(ok=(good == [] and any(k == "jacobian" for k, _ in bad)), mutation="one Jacobian expression replaced by a constant")
