"""C17 - JAX Newton minimisers never go uphill and make progress when they can.

NewtonPair.tla   bookkeeping of the eager and the compiled Newton-CG (9 trial step lengths, reset after the 6th failure, abort after
                 the 9th, convergence tests, iteration limit) on the same environment; TLC: SameStatus, SameMoves, NeverUphill,
                 Progress for every environment sequence (MaxIter 3/4)
code -> spec     both real Newton-CG solvers (and the trust-region solver) run on generated non-convex objectives (trigonometric,
                 quartic double well, Rosenbrock-like, convex quadratic) on pytree positions from starts with positive, zero and
                 negative curvature; every objective evaluation is recorded through a wrapped fun_and_grad, segmented into
                 iterations and validated by NewtonTrace.tla; ground truth (energies, g.Hg at every iteration start, direction of
                 the first trial, agreement of the variants) is computed by the harness"""
import numpy as np

from vf import tlc as tlcmod
from vf import trace as tracemod

MC = "CONSTANTS MaxIter = %d\nMinIter = %d\nHasAbsdelta = %s\n"
INVS = "INVARIANT SameStatus\nINVARIANT SameMoves\nINVARIANT NeverUphill\nPROPERTY ProgressE\nPROPERTY ProgressS\n"
B = lambda b: "TRUE" if b else "FALSE"


def _jax():
    import jax
    jax.config.update("jax_enable_x64", True)
    import jax.numpy as jnp
    import nifty.re as jft
    from nifty.re import optimize as om
    return jax, jnp, jft, om


def objectives(jnp):
    def flat(x):
        return jnp.concatenate([x.tree["a"], x.tree["b"]])
    return {
        "trig": lambda x: jnp.sum(jnp.cos(flat(x))) + 0.05 * jnp.sum(flat(x) ** 2),
        "cos": lambda x: jnp.sum(jnp.cos(flat(x))),
        "quartic": lambda x: jnp.sum((flat(x) ** 2 - 1.0) ** 2) + 0.1 * jnp.sum(flat(x)),
        "rosen": lambda x: jnp.sum(4.0 * (flat(x)[1:] - flat(x)[:-1] ** 2) ** 2 + (1.0 - flat(x)[:-1]) ** 2),
        "quad": lambda x: 0.5 * jnp.sum(jnp.arange(1., 4.) * flat(x) ** 2) - jnp.sum(flat(x)),
        # weakly concave at the origin with a quartic wall of adjustable steepness: the first trial step length that lowers the energy
        # (or none of the nine) is selected by q
        **{"wall%g" % qq: (lambda x, qq=qq: jnp.sum(flat(x) - 0.005 * flat(x) ** 2 + qq * flat(x) ** 4))
           for qq in (1e-6, 1e-4, 2e-3, 2e-2, 0.1, 1.0, 30.0)},
    }


def starts(rng, name):
    base = {"trig": [[0.3, 0.2, -0.1], [3.0, 2.9, 3.3], [0.0, 0.0, 0.0], [1.5, -1.6, 1.4]],
            "cos": [[0.3, 0.2, 0.1], [3.1, 3.2, 3.0], [1.57, 1.57, 1.57]],
            "quartic": [[0.1, -0.1, 0.2], [1.2, -0.8, 0.9], [0.0, 0.0, 0.0], [2.0, 2.0, -2.0]],
            "rosen": [[-1.2, 1.0, 0.5], [0.0, 0.0, 0.0], [1.1, 1.2, 1.4]],
            "quad": [[2.0, -1.0, 0.5], [0.0, 0.0, 0.0]]}.get(name, [[0.0, 0.0, 0.0]])
    out = [np.array(b) for b in base]
    if not name.startswith("wall"):
        out.append(rng.uniform(-2, 2, 3))
    return out


def run_newton(variant, f, x0, kw, env):
    jax, jnp, jft, om = env
    evals = []

    def note(p, e):
        evals.append((np.asarray(p).copy(), float(e)))
    vg = jax.value_and_grad(f)

    def flat(x):
        return jnp.concatenate([x.tree["a"], x.tree["b"]])

    def fun_and_grad(x):
        e, g = vg(x)
        if variant == "eager":
            note(flat(x), e)
        else:
            jax.debug.callback(note, flat(x), e, ordered=True)
        return e, g
    pps = []

    def pp(name, i=None, *, energy=None, energy_diff=None, grad_scaling=None, ls_reset=None, nhev=None, descent_norm=None, xtol=None, absdelta=None, **k):
        pps.append(dict(i=int(i), energy=float(energy), energy_diff=float(energy_diff), descent_norm=float(descent_norm), xtol=float(xtol)))
    old = om._ncg_pretty_print_it
    om._ncg_pretty_print_it = pp
    try:
        pos = jft.Vector({"a": jnp.asarray(x0[:1]), "b": jnp.asarray(x0[1:])})
        if variant == "trust":
            res = om._trust_ncg(f, pos, maxiter=kw["maxiter"], name=None)
        else:
            fn = om._newton_cg if variant == "eager" else om._static_newton_cg
            res = fn(f, pos, fun_and_grad=fun_and_grad, name="N", hessp=None, jac=None, **kw)
        jax.effects_barrier()
        out = dict(x=np.asarray(flat(res.x)), status=int(res.status), nit=int(res.nit), fun=float(res.fun), error=None)
    except Exception as e:      # the eager solver raises on NaN energies / CG failure
        out = dict(x=None, status=None, nit=None, fun=None, error="%s: %s" % (type(e).__name__, str(e)[:100]))
    finally:
        om._ncg_pretty_print_it = old
    out["evals"] = evals
    out["pps"] = pps
    return out


def segment(evals):
    """objective evaluations -> iterations by the documented rule: trials are evaluated until one does not raise the energy or
    nine have been tried.  returns list of dict(start, E, trials=[(pos, e)], accepted index or 0)"""
    its = []
    if not evals:
        return its
    pos, E = evals[0]
    k = 1
    while k < len(evals):
        trials = []
        acc = 0
        while k < len(evals) and len(trials) < 9:
            p, e = evals[k]
            k += 1
            trials.append((p, e))
            if e <= E:
                acc = len(trials)
                break
        its.append(dict(start=pos, E=E, trials=trials, accepted=acc))
        if acc:
            pos, E = trials[acc - 1]
        else:
            break
    return its


def judge(name, f, x0, kw, env):
    """returns list of (trace, meta) for the two Newton variants, and violations of the plain energy law for the trust region"""
    jax, jnp, jft, om = env
    outs = {v: run_newton(v, f, x0, kw, env) for v in ("eager", "static")}

    def fvec(v):
        return float(f(jft.Vector({"a": jnp.asarray(v[:1]), "b": jnp.asarray(v[1:])})))

    def gH(v):
        vec = jft.Vector({"a": jnp.asarray(v[:1]), "b": jnp.asarray(v[1:])})
        g = jax.grad(f)(vec)
        hg = jax.jvp(jax.grad(f), (vec,), (g,))[1]
        gf = np.concatenate([np.asarray(g.tree["a"]), np.asarray(g.tree["b"])])
        hf = np.concatenate([np.asarray(hg.tree["a"]), np.asarray(hg.tree["b"])])
        return gf, float(gf @ hf)
    e0 = fvec(x0)
    items = []
    for variant in ("eager", "static"):
        o = outs[variant]
        truth = dict(notuphill=True, alonggrad=True, progress=True, agree=True)
        its = segment(o["evals"])
        events = []
        pps = {p["i"]: p for p in o["pps"]}
        for n, it in enumerate(its, 1):
            tr = ["T" if e <= it["E"] else "F" for _, e in it["trials"]] + ["F"] * (9 - len(it["trials"]))
            acc = it["accepted"]
            dz = bool(acc == 1 and np.array_equal(it["trials"][0][0], it["start"]))
            p = pps.get(n)
            ss = sd = "?"
            if p is not None:
                a, b = p["descent_norm"], p["xtol"]
                ss = "?" if abs(a - b) <= 1e-12 * max(a, b, 1e-300) else ("T" if a <= b else "F")
                if kw.get("absdelta") is not None:
                    d = p["energy_diff"]
                    sd = "?" if abs(d - kw["absdelta"]) <= 1e-14 or abs(d) <= 1e-300 else ("T" if 0.0 <= d < kw["absdelta"] else "F")
            events.append(dict(it=n, trials=tr, dz=dz, accepted=acc, smallStep=ss, smallDiff=sd))
            # ground truth per iteration
            g, ghg = gH(it["start"])
            gn = np.linalg.norm(g)
            if gn > 1e-8 and ghg < -1e-10 * gn * gn and it["trials"]:
                d1 = it["trials"][0][0] - it["start"]
                dn = np.linalg.norm(d1)
                if dn == 0 or (d1 @ (-g)) / (dn * gn) < 1 - 1e-6:
                    truth["alonggrad"] = False
            some_lower = any(e < it["E"] for _, e in it["trials"])
            if some_lower and (acc == 0 or not (it["trials"][acc - 1][1] <= it["E"])):
                truth["progress"] = False
        if o["error"] is None:
            if fvec(o["x"]) > e0 + 1e-12 * max(1., abs(e0)):
                truth["notuphill"] = False
            # convergence reported without ever moving although the gradient is not small and a shorter step would lower the energy
            # (only where the solver did not evaluate a single trial point: with trials recorded the clause above judges its own step lengths)
            if o["status"] in (0, -1) and np.array_equal(o["x"], x0) and not any(it["trials"] for it in its):
                g, ghg = gH(x0)
                if np.linalg.norm(g, 1) > 1e-3:
                    lower = any(fvec(x0 - s * g) < e0 for s in (1., .5, .25, .125, 1 / 16, 1 / 32, 1e-3))
                    if lower and ghg < 0:
                        truth["progress"] = False
            oe, os_ = outs["eager"], outs["static"]
            if oe["error"] is None and os_["error"] is None:
                if oe["status"] != os_["status"] or oe["nit"] != os_["nit"] or not np.allclose(oe["x"], os_["x"], rtol=1e-7, atol=1e-9):
                    truth["agree"] = False
            final = dict(status=o["status"], nit=o["nit"])
        else:
            final = dict(status=-99, nit=-99)
        items.append((dict(variant=variant, events=events, final=final, truth=truth),
                      dict(objective=name, x0=[float(v) for v in x0], kw=kw, variant=variant, status=o["status"], nit=o["nit"], error=o["error"], fun=o["fun"])))
    # trust region: the plain energy law
    t = run_newton("trust", f, x0, kw, env)
    tviol = None
    if t["error"] is None and fvec(t["x"]) > e0 + 1e-12 * max(1., abs(e0)):
        tviol = "trust-region minimiser returned a point with a higher energy (%.6g) than its start (%.6g)" % (fvec(t["x"]), e0)
    return items, tviol


def validate(ctx, groups):
    nrej = 0
    for key, items in sorted(groups.items(), key=str):
        maxiter, miniter, habs = key
        traces = [t for t, _ in items]
        tv = tracemod.validate(ctx, "NewtonTrace", traces, cfg=MC % (maxiter, miniter, B(habs)) + "SPECIFICATION TSpec\nCONSTRAINT Progress\nPOSTCONDITION Report\n", label="%d runs %s" % (len(traces), key))
        tv.lengths = [len(t["events"]) + 1 for t in traces]
        for tid, l, clause in tv.propfail:
            meta = items[tid][1]
            ctx.violation(dict(kind="newton", clause=" ".join(clause.split(" ")[:4]), objective=meta["objective"], variant=meta["variant"]),
                          "%s Newton-CG on %s from %s %s: %s (status=%s nit=%s)" % (meta["variant"], meta["objective"], meta["x0"], meta["kw"], clause, meta["status"], meta["nit"]), replay=meta)
        for tid, name in tracemod.masked_truth(tv, traces, lambda t: t["truth"]):
            meta = items[tid][1]
            ctx.violation(dict(kind="newton", clause=name, objective=meta["objective"], variant=meta["variant"]), "%s Newton-CG on %s from %s %s: ground truth '%s' is false (and the run is not a behaviour of the bookkeeping)" % (
                meta["variant"], meta["objective"], meta["x0"], meta["kw"], name), replay=meta)
        for tid in tv.rejected:
            if not any(t == tid for t, _, _ in tv.propfail):
                meta = items[tid][1]
                if meta["error"]:
                    ctx.add_drift("%s Newton-CG on %s from %s raised %s" % (meta["variant"], meta["objective"], meta["x0"], meta["error"]))
                else:
                    nrej += 1
                    ctx.add_drift("%s Newton-CG on %s from %s %s: run (status=%s nit=%s) is not a behaviour of the transcribed bookkeeping (matched %d of %d)" % (
                        meta["variant"], meta["objective"], meta["x0"], meta["kw"], meta["status"], meta["nit"], tv.maxl[tid], tv.lengths[tid]))
    return nrej


def public_entry_points(ctx, env):
    """the documented entry points (newton_cg, static_newton_cg, trust_ncg, minimize) are the transcribed minimisers: on strictly convex
    quadratics and on a quartic they must not end above the start and must reach the minimiser of the quadratic (progress is possible)"""
    jax, jnp, jft, om = env
    rng = np.random.default_rng(ctx.seed + 170)
    for n, cond in ((3, 10.), (6, 100.)):
        qm, _ = np.linalg.qr(rng.normal(size=(n, n)))
        A = jnp.asarray((qm * np.logspace(0, np.log10(cond), n)) @ qm.T)
        b = jnp.asarray(rng.normal(size=n))
        quad = lambda x, A=A, b=b: 0.5 * jft.vdot(x, jft.Vector({"v": A @ x.tree["v"]})) - jnp.vdot(b, x.tree["v"])
        quart = lambda x, A=A, b=b: quad(x) + 0.25 * jnp.sum(x.tree["v"] ** 4)
        x0 = jft.Vector({"v": jnp.asarray(rng.normal(size=n))})
        entries = {
            "newton_cg": lambda f: om.newton_cg(f, x0, maxiter=60, xtol=1e-10, name=None),
            "static_newton_cg": lambda f: om.static_newton_cg(f, x0, maxiter=60, xtol=1e-10, name=None),
            "trust_ncg": lambda f: om.trust_ncg(f, x0, maxiter=200, gtol=1e-8, name=None),
            "minimize(newton-cg)": lambda f: om.minimize(f, x0, method="newton-cg", options=dict(maxiter=60, xtol=1e-10, name=None)).x,
            "minimize(trust-ncg)": lambda f: om.minimize(f, x0, method="trust-ncg", options=dict(maxiter=200, gtol=1e-8, name=None)).x,
            "minimize(trust-ncg, args)": lambda f: om.minimize(lambda x, s: s * f(x), x0, args=(2.,), method="trust-ncg", options=dict(maxiter=200, gtol=1e-8, name=None)).x,
            "minimize(args)": lambda f: om.minimize(lambda x, s: s * f(x), x0, args=(2.,), method="NCG", options=dict(maxiter=60, xtol=1e-10, name=None)).x,
        }
        for fname, f in (("quadratic", quad), ("quartic", quart)):
            e0 = float(f(x0))
            for ename, call in entries.items():
                ctx.case(("public", n, fname, ename))
                try:
                    res = call(f)
                    e1 = float(f(res))
                    g1 = float(jnp.linalg.norm(jax.grad(f)(res).tree["v"]))
                except Exception as e:
                    ctx.violation(dict(kind="public-raises", entry=ename), "%s on a convex %s (n=%d) raised %s: %s" % (ename, fname, n, type(e).__name__, str(e)[:120]),
                                  replay=dict(what="public", entry=ename))
                    continue
                if not (e1 <= e0 + 1e-12 * max(1., abs(e0))):
                    ctx.violation(dict(kind="public-uphill", entry=ename), "%s on a convex %s (n=%d): energy %.6g at the result is above the start %.6g" % (ename, fname, n, e1, e0),
                                  replay=dict(what="public", entry=ename))
                elif g1 > 1e-4 * float(jnp.linalg.norm(b)):
                    ctx.violation(dict(kind="public-no-progress", entry=ename), "%s on a strictly convex %s (n=%d, condition %g): gradient norm %.3g at the result - the minimum was not approached although progress is possible" % (
                        ename, fname, n, cond, g1), replay=dict(what="public", entry=ename))


def run(ctx):
    q = ctx.quick
    env = _jax()
    jax, jnp, jft, om = env
    public_entry_points(ctx, env)
    mx = 3 if q else 4
    for mi, ab in ((0, True), (1, False), (0, False), (1, True)):
        ctx.tlc("NewtonPair", MC % (mx, mi, B(ab)) + "SPECIFICATION Spec\n" + INVS, label="MaxIter=%d MinIter=%d absdelta=%s" % (mx, mi, ab), coverage=(not q and mi == 0 and ab))
    for inv in ("NeverAborts", "NeverResets"):
        r = ctx.tlc("NewtonPair", MC % (2, 0, "TRUE") + "SPECIFICATION Spec\nINVARIANT %s\n" % inv, label="witness " + inv, expect_ok=False)
        if r.violated != inv:
            raise tlcmod.MachineryError("vacuity witness %s not refuted" % inv)
    rng = np.random.default_rng(ctx.seed + 17)
    objs = objectives(jnp)
    cfgs = [dict(maxiter=8, miniter=0, absdelta=1e-8), dict(maxiter=2, miniter=1, absdelta=None), dict(maxiter=3, miniter=0, absdelta=None)]
    if not q:
        cfgs += [dict(maxiter=1, miniter=0, absdelta=1e-6), dict(maxiter=12, miniter=1, absdelta=1e-9), dict(maxiter=5, miniter=0, absdelta=1e-4)]
    groups = {}
    n = 0
    for name, f in objs.items():
        for x0 in starts(rng, name):
            for ci, kw in enumerate(cfgs):
                if q and (n + ci) % 2:
                    continue
                items, tviol = judge(name, f, x0, dict(kw, cg_kwargs=dict(name=None)), env)
                for tr, meta in items:
                    groups.setdefault((kw["maxiter"], kw["miniter"], kw["absdelta"] is not None), []).append((tr, meta))
                    ctx.case((name, tuple(float(v) for v in x0), ci, meta["variant"]))
                if tviol:
                    ctx.violation(dict(kind="trust-ncg", objective=name), "%s from %s: %s" % (name, list(x0), tviol), replay=dict(objective=name, x0=[float(v) for v in x0], kw=kw, variant="trust"))
                ctx.case((name, tuple(float(v) for v in x0), ci, "trust"))
            n += 1
    nrej = validate(ctx, groups)
    any_t = next(iter(groups.values()))[0]
    ctx.sample(dict(run=any_t[1], events=any_t[0]["events"][:3], final=any_t[0]["final"]))
    ctx.notes["runs_not_matching_the_bookkeeping"] = nrej
    ctx.assume("objective evaluations are segmented into iterations by the documented rule (trials until one does not raise the energy, at most nine)",
               "eager and compiled results are compared with rtol 1e-7")


def replay(ctx, doc):
    c = doc["case"]
    env = _jax()
    if c.get("what") == "public":
        public_entry_points(ctx, env)
        ctx.sample(dict(replayed=c))
        ctx.states = ctx.transitions = 1
        return
    f = objectives(env[1])[c["objective"]]
    items, tviol = judge(c["objective"], f, np.array(c["x0"]), c["kw"], env)
    groups = {}
    for tr, meta in items:
        groups.setdefault((c["kw"]["maxiter"], c["kw"]["miniter"], c["kw"].get("absdelta") is not None), []).append((tr, meta))
        ctx.case((meta["variant"],))
    validate(ctx, groups)
    if tviol:
        ctx.violation(dict(kind="trust-ncg", objective=c["objective"]), tviol, replay=c)
    ctx.sample(dict(replayed=c))


def selftest(ctx):
    ev = [dict(it=1, trials=["F", "T"] + ["F"] * 7, dz=False, accepted=2, smallStep="F", smallDiff="?"),
          dict(it=2, trials=["T"] + ["F"] * 8, dz=False, accepted=1, smallStep="T", smallDiff="?")]
    truth = dict(notuphill=True, alonggrad=True, progress=True, agree=True)
    good = dict(variant="eager", events=ev, final=dict(status=0, nit=2), truth=truth)
    bad_accept = dict(variant="static", events=[dict(ev[0], accepted=1), ev[1]], final=dict(status=0, nit=2), truth=truth)   # accepted a raising trial
    uphill = dict(variant="eager", events=ev, final=dict(status=0, nit=2), truth=dict(truth, notuphill=False))
    tv = tracemod.validate(ctx, "NewtonTrace", [good, bad_accept, uphill], cfg=MC % (3, 0, "FALSE") + "SPECIFICATION TSpec\nCONSTRAINT Progress\nPOSTCONDITION Report\n", label="selftest")
    tv.lengths = [3, 3, 3]
    return dict(ok=(tv.rejected == [1] and [t for t, _, _ in tv.propfail] == [2]), rejected=tv.rejected, propfail=tv.propfail,
                mutation="an iteration that accepts a trial which raises the energy; an uphill flag")
