"""C22 - Classic VI results do not depend on the number of MPI tasks.

Distribute.tla       the distribution rule of (mirrored) samples over tasks; TLC: Same, Partition for n<=4, T<=6 (+ AllReduce, C23)
code -> spec         the REAL nifty.cl code runs under a process-per-rank simulated communicator with T = 1..6 tasks; on every
                     rank the contexts entered by draw_samples are recorded through the RNG recorder and validated by
                     DistributeTrace.tla (same seed per index as the single-task run, fresh draws where the rule says so)
results              sample lists, KL value / gradient / metric, sample statistics and full optimize_kl runs (sampled, MAP,
                     constants, point estimates, with and without output directory / resume) are hashed on every rank; one
                     hash class over all T and all ranks is required"""
import hashlib
import json
import os
import shutil

import numpy as np

from vf import fakempi
from vf import tlc as tlcmod
from vf import trace as tracemod
from vf.core import quiet


def _model(ift):
    dom = ift.makeDomain(ift.RGSpace(3))
    a = ift.FieldAdapter(dom, "a")
    b = ift.FieldAdapter(dom, "b")
    lh = ift.GaussianEnergy(ift.makeField(dom, np.array([1., -2., .5])), ift.ScalingOperator(dom, 4., np.float64)) @ (a * b.exp())
    pos = ift.MultiField.from_dict({"a": ift.makeField(dom, np.array([.3, -.2, .1])), "b": ift.makeField(dom, np.array([.1, .2, -.5]))})
    return dom, lh, pos


def _h(arrs):
    h = hashlib.sha256()
    for x in arrs:
        h.update(np.ascontiguousarray(x).tobytes())
    return h.hexdigest()


def kl_worker(comm, cfg):
    """SampledKLEnergy level: value, gradient, metric, samples, sample statistics + the RNG contexts of draw_samples"""
    import logging
    import nifty.cl as ift
    from vf.rngrec import RngRecorder
    logging.disable(logging.CRITICAL)
    dom, lh, pos = _model(ift)
    ic = ift.AbsDeltaEnergyController(1e-10, iteration_limit=30)
    H = ift.StandardHamiltonian(lh, ic, prior_sampling_dtype=np.float64)
    mini = ift.NewtonCG(ift.AbsDeltaEnergyController(1e-8, iteration_limit=3)) if cfg.get("geo") else None
    if comm is not None and comm.Get_size() == 1:
        comm = None
    with ift.random.Context(123), RngRecorder() as rec:
        rec.start_trace()
        kl = ift.SampledKLEnergy(pos, H, cfg["n"], mini, mirror_samples=cfg["mirror"], constants=cfg["const"], point_estimates=cfg["pe"], comm=comm)
        ev = rec.end_trace()
        val = kl.value
        g = kl.gradient
        met = kl.metric(ift.full(kl.position.domain, 1.))
        samples = [s.asnumpy() for s in kl.samples.iterator()]
        m, v = kl.samples.sample_stat() if kl.samples.n_samples > 1 else (kl.samples.average(), None)
        kl2 = kl.at(kl.position + 0.125 * ift.full(kl.position.domain, 1.))
        val2 = kl2.value
    arrs = [np.float64(val), np.float64(val2)] + [g[k].asnumpy() for k in sorted(g.keys())] + [met[k].asnumpy() for k in sorted(met.keys())]
    arrs += [s[k] for s in samples for k in sorted(s)] + [m[k].asnumpy() for k in sorted(m.keys())]
    if v is not None:
        arrs += [v[k].asnumpy() for k in sorted(v.keys())]
    # contexts entered by draw_samples: enter_sseq events with the child index as last element of the seed identity
    evs = []
    cur = None
    for e in ev:
        if e["op"] == "enter_sseq":
            cur = dict(seed=e["seed"][-1], fresh=False)
            evs.append(cur)
        elif e["op"] == "draw" and cur is not None:
            cur["fresh"] = True
        elif e["op"] in ("exit", "exit_exc"):
            cur = None
    return dict(hash=_h(arrs), n=len(samples), events=evs)


def vi_worker(comm, cfg):
    """full classic optimize_kl"""
    import logging
    import nifty.cl as ift
    logging.disable(logging.CRITICAL)
    dom, lh, pos = _model(ift)
    ic = ift.AbsDeltaEnergyController(1e-10, iteration_limit=30)
    mini = ift.NewtonCG(ift.AbsDeltaEnergyController(1e-8, iteration_limit=4))
    if comm is not None and comm.Get_size() == 1:
        comm = None
    sched = cfg["sched"]
    kw = dict(constants=cfg["const"], point_estimates=cfg["pe"], comm=comm, initial_position=pos, return_final_position=True, sanity_checks=False,
              output_directory=cfg.get("odir"), plot_energy_history=False, plot_minisanity_history=False, save_strategy=cfg.get("strategy", "all"),
              nonlinear_sampling_minimizer=(ift.NewtonCG(ift.AbsDeltaEnergyController(1e-8, iteration_limit=3)) if cfg.get("geo") else None))
    with ift.random.Context(123):
        if cfg.get("resume_after") is not None:
            ift.optimize_kl(lh, cfg["resume_after"], (lambda i: sched[i]), mini, ic, **kw)
            sl, mean = ift.optimize_kl(lh, len(sched), (lambda i: sched[i]), mini, ic, resume=True, **kw)
        else:
            sl, mean = ift.optimize_kl(lh, len(sched), (lambda i: sched[i]), mini, ic, **kw)
        samples = [s.asnumpy() for s in sl.iterator()]
        st = sl.average()
    arrs = [mean[k].asnumpy() for k in sorted(mean.keys())] + [s[k] for s in samples for k in sorted(s)] + [st[k].asnumpy() for k in sorted(st.keys())]
    return dict(hash=_h(arrs), n=len(samples))


def run_T(T, fn, cfg):
    if T == 1:
        with quiet():
            return [("ok", fn(None, cfg), None)]
    return fakempi.run_ranks(T, fn, (cfg,), sync=False, timeout=60, total_timeout=300)


def run(ctx):
    q = ctx.quick
    ctx.constants.update(MaxN=4, MaxT=6)
    ctx.tlc("Distribute", "CONSTANTS MaxN = 4\nMaxT = 6\nSPECIFICATION Spec\nINVARIANT Same\nINVARIANT Partition\n", label="n<=4, T<=6", coverage=not q)
    if not q:
        ctx.tlc("Distribute", "CONSTANTS MaxN = 6\nMaxT = 8\nSPECIFICATION Spec\nINVARIANT Same\nINVARIANT Partition\n", label="n<=6, T<=8")
    for inv in ("NeverRedraws", "NeverEmptyTask"):
        r = ctx.tlc("Distribute", "CONSTANTS MaxN = 2\nMaxT = 5\nSPECIFICATION Spec\nINVARIANT %s\n" % inv, label="witness " + inv, expect_ok=False)
        if r.violated != inv:
            raise tlcmod.MachineryError("vacuity witness %s not refuted" % inv)
    Ts = [1, 2, 3, 4, 6] if q else [1, 2, 3, 4, 5, 6, 7]
    # ---- SampledKLEnergy level -------------------------------------------------------------------------------
    kl_cfgs = [dict(n=2, mirror=True, const=[], pe=[]), dict(n=3, mirror=False, const=["a"], pe=[]), dict(n=1, mirror=True, const=[], pe=["b"]),
               dict(n=3, mirror=True, const=[], pe=[], geo=True)]      # geoVI: a mirrored pair split over two tasks must not matter either
    if not q:
        kl_cfgs += [dict(n=2, mirror=True, const=["b"], pe=["b"]), dict(n=4, mirror=True, const=[], pe=[]), dict(n=2, mirror=True, const=[], pe=[], geo=True),
                    dict(n=3, mirror=False, const=[], pe=["a"], geo=True)]
    traces = []
    for cfg in kl_cfgs:
        ref = None
        for T in Ts:
            res = run_T(T, kl_worker, cfg)
            evs = []
            for r, (status, out, _log) in enumerate(res):
                ctx.case(("kl", json.dumps(cfg, sort_keys=True), T, r))
                if status != "ok":
                    ctx.violation(dict(kind="kl-run-fails", tasks=T, status=status), "SampledKLEnergy %s with %d tasks: rank %d %s: %s" % (cfg, T, r, status, str(out)[-300:]),
                                  replay=dict(level="kl", cfg=cfg, T=T))
                    continue
                if ref is None:
                    ref = out
                if out["hash"] != ref["hash"] or out["n"] != ref["n"]:
                    ctx.violation(dict(kind="kl-differs", tasks=T, mirror=cfg["mirror"], geo=bool(cfg.get("geo"))),
                                  "SampledKLEnergy %s: value/gradient/metric/samples/statistics on rank %d of %d tasks differ bitwise from the single-task run" % (cfg, r, T),
                                  replay=dict(level="kl", cfg=cfg, T=T))
                evs += [dict(r=r, seed=e["seed"], fresh=e["fresh"]) for e in out["events"]]
            if not cfg.get("geo"):
                traces.append(dict(n=cfg["n"], mirror=cfg["mirror"], T=T, events=evs))
    tv = tracemod.validate(ctx, "DistributeTrace", traces, cfg="CONSTANTS MaxN = 6\nMaxT = 8\nSPECIFICATION TSpec\nCONSTRAINT Progress\nPOSTCONDITION Report\nINVARIANT Complete\n",
                           label="%d recorded distributions" % len(traces))
    tv.lengths = [len(t["events"]) for t in traces]
    if tv.tlc.violated:
        ctx.violation(dict(kind="distribution", invariant=tv.tlc.violated), "a recorded run did not draw every sample index exactly once (%s)" % tv.tlc.violated,
                      replay=dict(trace=tv.tlc.error_trace[:3000]))
    for tid, l, clause in tv.propfail:
        ctx.violation(dict(kind="distribution", clause=clause), "run %s: event %d: %s" % ({k: traces[tid][k] for k in ("n", "mirror", "T")}, l, clause), replay=dict(trace=traces[tid]))
    for tid in tv.rejected:
        if not any(t == tid for t, _, _ in tv.propfail):
            ctx.add_drift("distribution trace %s rejected at event %d" % ({k: traces[tid][k] for k in ("n", "mirror", "T")}, tv.maxl[tid] + 1))
    ctx.sample(dict(distribution_trace=traces[min(3, len(traces) - 1)]))
    # ---- full driver -----------------------------------------------------------------------------------------
    base = os.path.join(tlcmod.RUNROOT, "C22-%d" % os.getpid())
    vi_cfgs = [dict(sched=[2, 2, 1], const=[], pe=[]), dict(sched=[1, 0, 1], const=["a"], pe=[]), dict(sched=[1, 1], const=[], pe=[], odir=True)]
    if not q:
        vi_cfgs += [dict(sched=[1, 2], const=[], pe=["b"]), dict(sched=[0, 0], const=[], pe=[]), dict(sched=[2, 1, 1], const=[], pe=[], odir=True, strategy="latest", resume_after=2),
                    dict(sched=[1, 0, 2], const=[], pe=[], odir=True, resume_after=1), dict(sched=[1, 1], const=[], pe=[], geo=True)]
    try:
        for cfg in vi_cfgs:
            ref = None
            for T in (Ts if not q else [1, 2, 3, 5]):
                c = dict(cfg)
                if cfg.get("odir"):
                    shutil.rmtree(base, ignore_errors=True)
                    os.makedirs(base)
                    c["odir"] = os.path.join(base, "out")
                res = run_T(T, vi_worker, c)
                for r, (status, out, _log) in enumerate(res):
                    ctx.case(("vi", json.dumps(cfg, sort_keys=True), T, r))
                    if status != "ok":
                        ctx.violation(dict(kind="vi-run-fails", tasks=T, map_iteration=(0 in cfg["sched"]), outdir=bool(cfg.get("odir"))),
                                      "optimize_kl %s with %d tasks: rank %d %s: %s" % (cfg, T, r, status, str(out)[-400:]), replay=dict(level="vi", cfg=cfg, T=T))
                        continue
                    if ref is None:
                        ref = out
                    if out != ref:
                        ctx.violation(dict(kind="vi-differs", tasks=T, map_iteration=(0 in cfg["sched"]), outdir=bool(cfg.get("odir"))),
                                      "optimize_kl %s: final samples/mean on rank %d of %d tasks differ bitwise from the single-task run" % (cfg, r, T),
                                      replay=dict(level="vi", cfg=cfg, T=T))
            ctx.traces += 1
    finally:
        shutil.rmtree(base, ignore_errors=True)
    ctx.sample(dict(driver_configuration=vi_cfgs[1], tasks=Ts))
    ctx.assume("no MPI library can be loaded in the sandbox: the real NIFTy code runs under a simulated communicator (one OS process per rank, pipes) that "
               "implements the 11 methods NIFTy calls with mpi4py's semantics (pickled objects; bcast returns an unpickled copy on every rank incl. the root)",
               "optimize_kl is called with sanity_checks=False because the sanity check demands a real mpi4py Intracomm")
    ctx.notes["task_counts"] = Ts


def replay(ctx, doc):
    case = doc["case"]
    fn = kl_worker if case.get("level") == "kl" else vi_worker
    cfg = dict(case["cfg"])
    base = os.path.join(tlcmod.RUNROOT, "C22-replay-%d" % os.getpid())
    try:
        outs = []
        for T in (1, case["T"]):
            if cfg.get("odir"):
                shutil.rmtree(base, ignore_errors=True)
                os.makedirs(base)
                cfg["odir"] = os.path.join(base, "out")
            outs.append(run_T(T, fn, cfg))
        ref = outs[0][0][1]
        for r, (status, out, _l) in enumerate(outs[1]):
            if status != "ok" or out["hash"] != ref["hash"]:
                ctx.violation(doc.get("key", dict(kind="replay")), "replay: rank %d of %d tasks: %s" % (r, case["T"], status if status != "ok" else "differs"), replay=case)
    finally:
        shutil.rmtree(base, ignore_errors=True)
    ctx.case("replay")
    ctx.case("replay2")
    ctx.sample(case)
    ctx.states = ctx.transitions = 1


def selftest(ctx):
    """a trace in which one index is drawn from the wrong seed / a missing event must be noticed"""
    good = dict(n=2, mirror=True, T=2, events=[dict(r=0, seed=0, fresh=True), dict(r=0, seed=0, fresh=False), dict(r=1, seed=1, fresh=True), dict(r=1, seed=1, fresh=False)])
    bad = json.loads(json.dumps(good))
    bad["events"][2]["seed"] = 0
    short = json.loads(json.dumps(good))
    short["events"] = short["events"][:3]
    base = "CONSTANTS MaxN = 6\nMaxT = 8\nSPECIFICATION TSpec\nCONSTRAINT Progress\nPOSTCONDITION Report\n"
    tv = tracemod.validate(ctx, "DistributeTrace", [good, bad], cfg=base, label="selftest wrong seed")
    tv2 = tracemod.validate(ctx, "DistributeTrace", [good, short], cfg=base + "INVARIANT Complete\n", label="selftest missing event")
    return dict(ok=([t for t, _, _ in tv.propfail] == [1] and tv2.tlc.violated == "Complete"), propfail=tv.propfail, violated=tv2.tlc.violated,
                mutation="wrong seed for one index; one event removed")
