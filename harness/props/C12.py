"""C12 - JAX likelihoods factor their metric and equal the Fisher information.

LikelihoodRe.tla   exact (rational) Fisher matrices of all nifty.re likelihoods at rational points, pulled back through integer linear
                   forward models, summed, and restricted to the unfrozen block; TLC: Symmetric, PositiveDiagonal on every instance
spec -> code       every instance TLC emits is built with nifty.re; dense matrices of metric (M), left_sqrt_metric (L),
                   right_sqrt_metric (R) by basis vectors over the flattened pytree, the Jacobian Jt of transformation by jax.jacfwd:
                     M = Fisher (spec)      M = L R      R = L^H      L = Jt^H (exact ones)      E_data[Jt^H Jt] = M (local approximations,
                     by exact moment substitution)
                   base likelihoods are additionally exercised on batched and pytree-shaped data (block structure of the spec matrix)"""
import json

import numpy as np

from vf import tlc as tlcmod

RTOL, ATOL = 1e-10, 1e-12


def _jax():
    import jax
    jax.config.update("jax_enable_x64", True)
    import jax.numpy as jnp
    import nifty.re as jft
    return jax, jnp, jft


def q(v):
    return v["n"] / v["d"]


def qm(M):
    return np.array([[q(c) for c in row] for row in M])


def flatten(tree, jax):
    return np.concatenate([np.asarray(l).ravel() for l in jax.tree_util.tree_leaves(tree)]) if jax.tree_util.tree_leaves(tree) else np.zeros(0)


def basis_like(tree, k, jax, jnp):
    leaves, td = jax.tree_util.tree_flatten(tree)
    out, off = [], 0
    for l in leaves:
        n = int(np.prod(np.shape(l))) if np.shape(l) != () else 1
        v = np.zeros(n)
        if off <= k < off + n:
            v[k - off] = 1.0
        out.append(jnp.asarray(v.reshape(np.shape(l)), dtype=jnp.result_type(l) if jnp.issubdtype(jnp.result_type(l), jnp.inexact) else float))
        off += n
    return jax.tree_util.tree_unflatten(td, out)


def size_of(tree, jax):
    return sum(int(np.prod(np.shape(l))) if np.shape(l) != () else 1 for l in jax.tree_util.tree_leaves(tree))


def dense(fn, like, jax, jnp):
    n = size_of(like, jax)
    cols = [flatten(fn(basis_like(like, k, jax, jnp)), jax) for k in range(n)]
    return np.array(cols).T if cols else np.zeros((0, 0))


def zeros_of_shape(swd, jax, jnp):
    return jax.tree_util.tree_map(lambda s: jnp.zeros(s.shape, dtype=s.dtype), swd, is_leaf=lambda x: hasattr(x, "shape") and hasattr(x, "dtype") and not isinstance(x, (np.ndarray,)))


def build(inst, env, variant=0):
    """returns (likelihood, primals, expected M (ndarray), meta) - variant selects how covariances / data are passed"""
    jax, jnp, jft = env
    kind, comp = inst["kind"], inst["comp"]
    x = np.array([q(v) for v in inst["x"]])
    A, Bm = qm(inst["A"]), qm(inst["B"])
    icov = jnp.array([4., .25])
    dof = 3 / 5
    M = qm(inst["M"])

    def base(k):
        if k == "gaussian":
            if variant == 1:
                return jft.Gaussian(jnp.array([1., -2.]), noise_cov_inv=icov)                       # diagonal given as an array
            if variant == 2:
                return jft.Gaussian(jnp.array([1., -2.]), noise_std_inv=lambda t: jnp.sqrt(icov) * t)    # only the square root given
            return jft.Gaussian(jnp.array([1., -2.]), noise_cov_inv=lambda t: icov * t, noise_std_inv=lambda t: jnp.sqrt(icov) * t)
        if k == "studentt":
            return jft.StudentT(jnp.array([1., -2.]), dof, noise_cov_inv=lambda t: icov * t, noise_std_inv=lambda t: jnp.sqrt(icov) * t)
        if k == "poisson":
            return jft.Poissonian(jnp.array([1, 4]))
        if k == "vcgauss":
            return jft.VariableCovarianceGaussian(jnp.array([0.75]))
        if k == "cvcgauss":
            return jft.VariableCovarianceGaussian(jnp.array([0.75 + 0.5j]))
        if k == "vcstudent":
            return jft.VariableCovarianceStudentT(jnp.array([0.75]), dof)
        raise tlcmod.MachineryError(k)
    two = kind in ("vcgauss", "vcstudent", "cvcgauss")

    def wrap(Am):
        Aj = jnp.asarray(Am)
        if two:
            return lambda t: (lambda y: (y[:1], y[1:]))(Aj @ t)
        return lambda t: Aj @ t
    if kind == "ndvcg":
        S = jnp.asarray(qm(inst["S"]))
        lh = jft.NDVariableCovarianceGaussian(jnp.array([0.5, -1.]), covariance=(comp == "covariance"))
        return lh, (jnp.array([1., 2.]), S), M
    if kind == "categorical":
        lh = jft.Categorical(jnp.array([[0]]), axis=-1)
        return lh, jnp.log(jnp.asarray(x))[None, :], M
    if comp == "plain":
        lh = base(kind)
        p = (jnp.asarray(x[:1]), jnp.asarray(x[1:])) if two else jnp.asarray(x)
        if kind == "cvcgauss":
            p = (jnp.asarray(x[:1] + 0.25j), jnp.asarray(x[1:]))
        return lh, p, M
    if comp == "amend":
        lh = base(kind).amend(wrap(A), domain=jft.ShapeWithDtype((2,)))
        return lh, jnp.asarray(x), M
    if comp == "sum":
        # likelihoods are added over dictionary-shaped parameter spaces; both summands depend on the same entry
        A1, A2 = jnp.asarray(A), jnp.asarray(Bm)
        dom = jft.Vector({"x": jft.ShapeWithDtype((2,))})
        lh = base(kind).amend(lambda t: A1 @ t.tree["x"], domain=dom) + base(kind).amend(lambda t: A2 @ t.tree["x"], domain=dom)
        return lh, jft.Vector({"x": jnp.asarray(x)}), M
    if comp == "freeze":
        Aj = jnp.asarray(A)
        lh0 = base(kind).amend(lambda t: Aj[:, 0] * t["a"] + Aj[:, 1] * t["b"], domain={"a": jft.ShapeWithDtype((1,)), "b": jft.ShapeWithDtype((1,))})
        pos = jft.Vector({"a": jnp.asarray(x[:1]), "b": jnp.asarray(x[1:])})
        lh, p = lh0.freeze(primals=pos, point_estimates=("b",))
        return lh, p, M
    raise tlcmod.MachineryError(comp)


def check_instance(inst, env, variant=0):
    jax, jnp, jft = env
    out = []
    try:
        lh, p, M = build(inst, env, variant)
    except Exception as e:
        return [("build", "building the likelihood raised %s: %s" % (type(e).__name__, str(e)[:160]))]
    try:
        Mc = dense(lambda t: lh.metric(p, t), p, jax, jnp)
    except Exception as e:
        return [("metric-raises", "metric raised %s: %s" % (type(e).__name__, str(e)[:160]))]
    if Mc.shape != M.shape or not np.allclose(Mc, M, rtol=RTOL, atol=ATOL):
        out.append(("fisher", "metric %s differs from the Fisher information %s" % (np.round(Mc, 6).tolist(), np.round(M, 6).tolist())))
    # the energy itself: its gradient is the score the Fisher information belongs to (instances that carry G)
    if inst.get("G"):
        try:
            ge = np.array([q(v) for v in inst["G"]])
            gc = flatten(jax.grad(lambda t: lh.energy(t))(p), jax)
            if gc.shape != ge.shape or not np.allclose(gc, ge, rtol=RTOL, atol=ATOL):
                out.append(("energy-gradient", "gradient of the energy %s differs from the score of the distribution %s" % (np.round(gc, 8).tolist(), np.round(ge, 8).tolist())))
            e1, e2 = float(lh.energy(p)), float(lh(p))
            if not np.isclose(e1, e2, rtol=1e-13):
                out.append(("energy-call", "calling the likelihood gives %r, its energy %r" % (e2, e1)))
        except Exception as e:
            out.append(("energy-raises", "%s: %s" % (type(e).__name__, str(e)[:160])))
    # factorisation on the declared tangent space of the square root
    try:
        lsm = zeros_of_shape(lh.lsm_tangents_shape, jax, jnp)
        L = dense(lambda t: lh.left_sqrt_metric(p, t), lsm, jax, jnp)
        R = dense(lambda t: lh.right_sqrt_metric(p, t), p, jax, jnp)
        if L.shape[0] != Mc.shape[0] or R.shape != L.T.shape or not np.allclose(L @ R, Mc, rtol=1e-9, atol=1e-11):
            out.append(("factorisation", "metric != left_sqrt_metric o right_sqrt_metric (shapes L %s R %s M %s)" % (L.shape, R.shape, Mc.shape)))
        elif not np.allclose(R, L.conj().T, rtol=1e-9, atol=1e-11):
            out.append(("adjoint", "right_sqrt_metric is not the conjugate transpose of left_sqrt_metric"))
    except Exception as e:
        out.append(("factorisation-raises", "%s: %s" % (type(e).__name__, str(e)[:160])))
    return out


def check_complex(inst, env):
    """complex data and a complex linear model C = A + i B on real or complex parameters (instances of kind cgaussian): the metric is
    C^H N^-1 C (its real part on real parameters), L o R = M on every tangent, and R is the adjoint of L w.r.t. the real inner product"""
    jax, jnp, jft = env
    out = []
    cp = inst["comp"] == "camend-complex"
    C = jnp.asarray(qm(inst["A"]) + 1j * qm(inst["B"]))
    icov = jnp.array([4., .25])
    x = np.array([q(v) for v in inst["x"]])
    M = qm(inst["M"]) + 1j * qm(inst["Mim"])
    lh = jft.Gaussian(jnp.array([1. + 0.5j, -2. + 1j]), noise_cov_inv=lambda t: icov * t, noise_std_inv=lambda t: jnp.sqrt(icov) * t)
    lh = lh.amend(lambda t: C @ t, domain=jft.ShapeWithDtype((2,), jnp.complex128 if cp else jnp.float64))
    p = jnp.asarray(x + (0.5j * x[::-1] if cp else 0.))
    pbasis = [np.eye(2)[k] * f for k in range(2) for f in ((1., 1j) if cp else (1.,))]
    ubasis = [np.eye(2)[k] * f for k in range(2) for f in (1., 1j)]
    pd = jnp.complex128 if cp else jnp.float64
    try:
        for t in pbasis:
            tj = jnp.asarray(t, dtype=pd)
            mt = np.asarray(lh.metric(p, tj))
            exp = M @ t if cp else (M.real @ t)
            if not np.allclose(mt, exp, rtol=RTOL, atol=ATOL):
                out.append(("fisher", "metric on the tangent %s is %s, the Fisher information C^H N^-1 C gives %s" % (t.tolist(), np.round(mt, 6).tolist(), np.round(exp, 6).tolist())))
                break
            rt = lh.right_sqrt_metric(p, tj)
            lr = np.asarray(lh.left_sqrt_metric(p, rt))
            if not np.allclose(lr, mt, rtol=1e-9, atol=1e-11):
                out.append(("factorisation", "left_sqrt_metric(right_sqrt_metric(t)) = %s differs from metric(t) = %s for t = %s (complex model)" % (np.round(lr, 6).tolist(), np.round(mt, 6).tolist(), t.tolist())))
                break
            for u in ubasis:
                lu = np.asarray(lh.left_sqrt_metric(p, jnp.asarray(u, dtype=jnp.complex128)))
                a, b = np.vdot(np.asarray(rt), u).real, np.vdot(t, lu).real
                if not np.isclose(a, b, rtol=1e-9, atol=1e-11):
                    out.append(("adjoint", "right_sqrt_metric is not the adjoint of left_sqrt_metric: Re<R t, u> = %.6g, Re<t, L u> = %.6g (t = %s, u = %s, complex model)" % (a, b, t.tolist(), u.tolist())))
                    break
            if out:
                break
    except Exception as e:
        out.append(("complex-raises", "%s: %s" % (type(e).__name__, str(e)[:160])))
    return out


def transformation_checks(env):
    """L = Jt^H exactly (Gaussian, Student-t, Poisson, also amended); in expectation over data for the variable-covariance Gaussian"""
    jax, jnp, jft = env
    out = []
    icov = jnp.array([4., .25])
    A = jnp.array([[2., 1.], [1., 1.]])
    cases = {
        "gaussian": (jft.Gaussian(jnp.array([1., -2.]), noise_cov_inv=lambda t: icov * t, noise_std_inv=lambda t: jnp.sqrt(icov) * t), jnp.array([0.5, 2.])),
        "studentt": (jft.StudentT(jnp.array([1., -2.]), 0.6, noise_cov_inv=lambda t: icov * t, noise_std_inv=lambda t: jnp.sqrt(icov) * t), jnp.array([0.5, 2.])),
        "poisson": (jft.Poissonian(jnp.array([1, 4])), jnp.array([0.5, 2.])),
        "gaussian-amended": (jft.Gaussian(jnp.array([1., -2.]), noise_cov_inv=lambda t: icov * t, noise_std_inv=lambda t: jnp.sqrt(icov) * t).amend(lambda t: A @ t, domain=jft.ShapeWithDtype((2,))), jnp.array([0.5, 2.])),
        "poisson-amended": (jft.Poissonian(jnp.array([1, 4])).amend(lambda t: A @ t, domain=jft.ShapeWithDtype((2,))), jnp.array([0.5, 2.])),
    }
    n = 0
    for name, (lh, p) in cases.items():
        n += 1
        Jt = np.asarray(jax.jacfwd(lh.transformation)(p))
        lsm = zeros_of_shape(lh.lsm_tangents_shape, jax, jnp)
        L = dense(lambda t: lh.left_sqrt_metric(p, t), lsm, jax, jnp)
        if not np.allclose(L, Jt.conj().T, rtol=1e-9, atol=1e-11):
            out.append((name, "left_sqrt_metric is not the pull-back through the transformation: L %s, Jt^H %s" % (np.round(L, 5).tolist(), np.round(Jt.conj().T, 5).tolist())))
    # variable covariance Gaussian: Jt^H Jt is a quadratic polynomial in the residual r = m - d; substitute E r = 0, E r^2 = 1/s^2
    m, s = 0.3, 1.5
    Q = {}
    for r in (-1.0, 0.0, 1.0):
        lh = jft.VariableCovarianceGaussian(jnp.array([m - r]))
        Jt = np.asarray(jax.jacfwd(lambda v: jnp.concatenate(lh.transformation((v[:1], v[1:]))))(jnp.array([m, s])))
        Q[r] = Jt.T @ Jt
    c2 = (Q[1.0] + Q[-1.0] - 2 * Q[0.0]) / 2
    c1 = (Q[1.0] - Q[-1.0]) / 2
    expect = Q[0.0] + c1 * 0.0 + c2 * (1.0 / s ** 2)
    lh = jft.VariableCovarianceGaussian(jnp.array([m]))
    Mc = dense(lambda t: lh.metric((jnp.array([m]), jnp.array([s])), t), (jnp.array([m]), jnp.array([s])), jax, jnp)
    n += 1
    if not np.allclose(expect, Mc, rtol=1e-9, atol=1e-11):
        out.append(("vcgauss-expectation", "E_data[Jt^H Jt] = %s differs from the metric %s" % (np.round(expect, 6).tolist(), np.round(Mc, 6).tolist())))
    return out, n


def batched_checks(env, emitted):
    """batched / pytree data: the metric is block diagonal with the spec's per-row matrices"""
    jax, jnp, jft = env
    out = []
    n = 0
    cats = [i for i in emitted if i["kind"] == "categorical"]
    pts = [np.array([q(v) for v in i["x"]]) for i in cats]
    Ms = [qm(i["M"]) for i in cats]
    import scipy.linalg as sl
    # rows of logits along the last axis, then along axis 0
    for axis in (-1, 0):
        logits = np.log(np.stack(pts))            # (rows, categories)
        data = np.array([[0], [1], [0]][:len(pts)])
        if axis == 0:
            lh = jft.Categorical(jnp.asarray(data.T), axis=0)
            p = jnp.asarray(logits.T)
        else:
            lh = jft.Categorical(jnp.asarray(data), axis=-1)
            p = jnp.asarray(logits)
        Mc = dense(lambda t: lh.metric(p, t), p, jax, jnp)
        exp = sl.block_diag(*Ms)
        if axis == 0:       # flattened order is (category, row): permute
            nr, nc = logits.shape
            perm = [r * nc + c for c in range(nc) for r in range(nr)]
            exp = exp[np.ix_(perm, perm)]
        n += 1
        if not np.allclose(Mc, exp, rtol=RTOL, atol=ATOL):
            out.append(("categorical-batched", "axis=%d: metric of batched logits is not block diagonal per row: %s vs %s" % (axis, np.round(Mc, 4).tolist(), np.round(exp, 4).tolist())))
        L = dense(lambda t: lh.left_sqrt_metric(p, t), p, jax, jnp)        # tangents of the logits' shape (see D16 for the declared shape)
        if not np.allclose(L @ L.T, Mc, rtol=1e-9, atol=1e-11):
            out.append(("categorical-batched-sqrt", "axis=%d: left_sqrt_metric L L^T differs from the metric for batched data" % axis))
    # pytree data: dict of two Poisson / Gaussian leaves
    lam = {"u": jnp.array([0.5, 2.]), "v": jnp.array([1.25])}
    lh = jft.Poissonian({"u": jnp.array([1, 4]), "v": jnp.array([2])})
    p = jft.Vector(lam)
    Mc = dense(lambda t: lh.metric(p, t), p, jax, jnp)
    n += 1
    if not np.allclose(Mc, np.diag([2., .5, .8]), rtol=RTOL, atol=ATOL):
        out.append(("poisson-pytree", "metric on dict-shaped data %s" % np.round(Mc, 5).tolist()))
    return out, n


def run(ctx):
    env = _jax()
    r = ctx.tlc("LikelihoodRe", "SPECIFICATION Spec\nINVARIANT Symmetric\nINVARIANT PositiveDiagonal\nINVARIANT Hermitian\nINVARIANT ScoreLaw\nINVARIANT Emit\n", label="all instances", workers=1, timeout=900)
    insts = r.emitted
    if len(insts) < 100:
        raise tlcmod.MachineryError("too few instances emitted: %d" % len(insts))
    for inst in insts:
        variants = (0, 1, 2) if inst["kind"] == "gaussian" and inst["comp"] in ("plain", "amend") else (0,)
        for v in variants:
            ctx.case((inst["kind"], inst["comp"], json.dumps(inst["x"]), json.dumps(inst["A"]), json.dumps(inst["B"]), json.dumps(inst["S"]), v))
            for kind, msg in (check_complex(inst, env) if inst["kind"] == "cgaussian" else check_instance(inst, env, v)):
                ctx.violation(dict(kind=kind, likelihood=inst["kind"], comp=inst["comp"]), "%s/%s at x=%s: %s" % (inst["kind"], inst["comp"], [q(t) for t in inst["x"]], msg),
                              replay=dict(instance=inst, variant=v))
    ctx.traces += len(insts)
    tv, n1 = transformation_checks(env)
    for name, msg in tv:
        ctx.violation(dict(kind="transformation", likelihood=name), msg, replay=dict(what="transformation"))
    bv, n2 = batched_checks(env, insts)
    for name, msg in bv:
        ctx.violation(dict(kind="batched", likelihood=name), msg, replay=dict(what="batched"))
    for k in range(n1 + n2):
        ctx.case(("extra", k))
    ctx.sample(dict(instance={k: insts[40][k] for k in ("kind", "comp", "x", "A")}, fisher=insts[40]["M"]))
    ctx.exhaustive = True
    ctx.assume("points, models and covariances are small rationals; float comparison 1e-10 relative",
               "the accuracy of the 'local approximation' transformations is judged in expectation over data by exact moment substitution (variable covariance Gaussian)")


def replay(ctx, doc):
    env = _jax()
    c = doc["case"]
    if "instance" in c:
        for kind, msg in (check_complex(c["instance"], env) if c["instance"]["kind"] == "cgaussian" else check_instance(c["instance"], env, c.get("variant", 0))):
            ctx.violation(doc.get("key", dict(kind=kind)), msg, replay=c)
    ctx.case("replay")
    ctx.case("replay2")
    ctx.sample(dict(replayed=str(c)[:300]))
    ctx.states = ctx.transitions = 1


def selftest(ctx):
    env = _jax()
    r = tlcmod.run("LikelihoodRe", "SPECIFICATION Spec\nINVARIANT Emit\n", workers=1, timeout=900)
    good = next(i for i in r.emitted if i["kind"] == "poisson" and i["comp"] == "amend")
    bad = json.loads(json.dumps(good))
    bad["M"][0][0]["n"] += 1
    return dict(ok=(check_instance(good, env) == [] and any(k == "fisher" for k, _ in check_instance(bad, env))), mutation="one entry of the expected Fisher matrix changed")
