"""C01 - Linear-operator algebra has exact matrix semantics.

OpAlgebra.tla   operator expressions as SSA programs over a leaf library with exact (dyadic Gaussian) matrices; TLC enumerates
                all programs up to MaxSlots and checks InvLaw, CapLaw, Shapes, PsdLaw in every state (and the Z2xZ2 table law)
spec -> code    every emitted program is built with the public API of nifty.cl and projected to (capability, dense matrix in every
                advertised mode for complex and real input, refusal of non-advertised modes, untouched input) and compared with
                the denotation TLC computed"""
import json
import random

import numpy as np

from vf import tlc as tlcmod
from vf.core import quiet

CFG = "CONSTANTS MaxSlots = %d\nEmitAll = %s\nFocus = \"all\"\nSPECIFICATION Spec\nINVARIANT InvLaw\nINVARIANT CapLaw\nINVARIANT Shapes\nINVARIANT PsdLaw\nINVARIANT Emit\nCHECK_DEADLOCK FALSE\n"
SC = {"1": 1.0, "2": 2.0, "-1": -1.0, "1/2": 0.5, "i": 1j, "1+i": 1 + 1j}


class Builder:
    def __init__(self):
        import nifty.cl as ift
        self.ift = ift
        self.U = ift.DomainTuple.make(ift.RGSpace(2))
        self.H = ift.DomainTuple.make(ift.RGSpace(2).get_default_codomain())
        self.UU = ift.DomainTuple.make((ift.RGSpace(2), ift.RGSpace(2)))
        self.MD = ift.MultiDomain.make({"a": self.U, "b": self.U})
        self.spaces = {"U": self.U, "H": self.H, "UU": self.UU, "MD": self.MD}

    def scal(self, nm):
        v = SC[nm]
        return v.real if isinstance(v, complex) and v.imag == 0 else v

    def diagfield(self, a, b):
        vals = np.array([SC[a], SC[b]])
        if np.all(np.imag(vals) == 0):
            vals = vals.real.astype(np.float64)
        return self.ift.makeField(self.U, vals)

    def leaf(self, e):
        ift = self.ift
        k, a = e["k"], e["a"]
        if k == "scaling":
            return ift.ScalingOperator(self.spaces[a[1]], self.scal(a[0]))
        if k == "diag":
            return ift.DiagonalOperator(self.diagfield(a[0], a[1]))
        if k == "diag0":
            return ift.DiagonalOperator(self.diagfield(a[0], a[1]), domain=self.UU, spaces=0)
        if k == "diag1":
            return ift.DiagonalOperator(self.diagfield(a[0], a[1]), domain=self.UU, spaces=1)
        if k == "matrix":
            m = np.array([[1, 2], [1j, 1]]) if a[0] == "A" else np.array([[1., 1.], [0., 1.]])
            return ift.MatrixProductOperator(self.U, m)
        if k == "null":
            return ift.NullOperator(self.U, self.U)
        if k == "hartley":
            return ift.HartleyOperator(self.U)
        if k == "fft":
            return ift.FFTOperator(self.U)
        if k == "block":
            ops = {}
            for key, spec in zip("ab", a):
                if spec != "id":
                    x, y = spec.split(",")
                    ops[key] = ift.DiagonalOperator(self.diagfield(x, y))
            return ift.BlockDiagonalOperator(self.MD, ops)
        raise tlcmod.MachineryError("unknown leaf " + k)

    def build(self, prog):
        ift = self.ift
        ops = []
        for e in prog:
            op = e["op"]
            x = ops[e["x"] - 1] if e["x"] else None
            y = ops[e["y"] - 1] if e["y"] else None
            if op == "leaf":
                ops.append(self.leaf(e))
            elif op == "add":
                ops.append(x + y)
            elif op == "sub":
                ops.append(x - y)
            elif op == "chain":
                ops.append(x @ y)
            elif op == "adjoint":
                ops.append(x.adjoint)
            elif op == "inverse":
                ops.append(x.inverse)
            elif op == "neg":
                ops.append(-x)
            elif op == "scale":
                ops.append(self.scal(e["k"]) * x)
            elif op == "sandwich":
                ops.append(ift.SandwichOperator.make(x, y))
            else:
                raise tlcmod.MachineryError("unknown op " + op)
        return ops[-1]

    # ---- projection -------------------------------------------------------------------------------------------------
    def basis(self, dom, k, dtype, scale=1.0):
        ift = self.ift
        if isinstance(dom, ift.MultiDomain):
            va, vb = np.zeros(2, dtype), np.zeros(2, dtype)
            (va if k < 2 else vb)[k % 2] = scale
            return ift.MultiField.from_dict({"a": ift.makeField(self.U, va), "b": ift.makeField(self.U, vb)}, domain=dom)
        v = np.zeros(dom.size, dtype)
        v[k] = scale
        return ift.makeField(dom, v.reshape(dom.shape))

    def flat(self, f):
        ift = self.ift
        if isinstance(f, ift.MultiField):
            return np.concatenate([f["a"].asnumpy().ravel(), f["b"].asnumpy().ravel()])
        return f.asnumpy().ravel()

    def dense(self, op, mode, dtype=np.complex128):
        dom = op.domain if mode in (1, 8) else op.target
        n = 4 if isinstance(dom, self.ift.MultiDomain) else dom.size
        cols = []
        touched = False
        for k in range(n):
            x = self.basis(dom, k, dtype)
            before = self.flat(x).copy()
            y = op.apply(x, mode)
            if not np.array_equal(before, self.flat(x)):
                touched = True
            cols.append(self.flat(y))
        return np.array(cols).T, touched


def mat(M):
    a = np.array([[complex(c["re"], c["im"]) for c in row] for row in M["rows"]])
    return a / (2.0 ** M["k"])


def singular_inverse(r):
    """the program inverts a slot whose inverse is not defined by the specification (sums, non-invertible leaves)"""
    return any(e["op"] == "inverse" and not r["invdef"][e["x"] - 1] for e in r["prog"])


def check_program(b, r):
    """returns list of (kind, message) violations; [] if the program conforms"""
    out = []
    try:
        with quiet():
            op = b.build(r["prog"])
    except Exception as e:
        if singular_inverse(r):
            return []          # the inverse of an operator without a defined inverse (e.g. A - A) is outside the instance space
        return [("build", "building the expression raised %s: %s" % (type(e).__name__, str(e)[:150]))]
    cap = op.capability
    rcap = r["rcap"]
    M, Mi = mat(r["M"]), mat(r["Mi"])
    hM, hMi = r["hM"], r["hMi"]
    if op.domain is not b.spaces[r["dom"]] or op.target is not b.spaces[r["tgt"]]:
        out.append(("domain", "domain/target of the expression are not the expected ones"))
        return out
    if rcap & ~cap:
        out.append(("lost-capability", "modes %s are provided by all constituents but not advertised (capability %d, rule %d)" % ([m for m in (1, 2, 4, 8) if rcap & ~cap & m], cap, rcap)))

    def direct():
        if hM:
            return M
        if hMi and Mi.shape[0] == Mi.shape[1] and abs(np.linalg.det(Mi)) > 1e-12:
            return np.linalg.inv(Mi)
        return None

    def inverse():
        if hMi:
            return Mi
        if hM and M.shape[0] == M.shape[1] and abs(np.linalg.det(M)) > 1e-12:
            return np.linalg.inv(M)
        return None
    for mode in (1, 2, 4, 8):
        if cap & mode:
            base = direct() if mode in (1, 2) else inverse()
            if base is None:
                continue        # advertised by a collapsed expression whose denotation is singular/undefined: not judged
            ref = base if mode in (1, 4) else base.conj().T
            try:
                with quiet():
                    D, touched = b.dense(op, mode)
            except Exception as e:
                out.append(("apply-raises", "advertised mode %d raises %s: %s" % (mode, type(e).__name__, str(e)[:120])))
                continue
            if D.shape != ref.shape or not np.allclose(D, ref, rtol=1e-12, atol=1e-12):
                out.append(("action", "mode %d acts as %s, the matrix expression gives %s" % (mode, np.round(D, 6).tolist(), np.round(ref, 6).tolist())))
            if touched:
                out.append(("input-modified", "mode %d modified its input" % mode))
            if mode == 1 and np.all(np.isreal(ref)) is not None:
                # real input: the same columns
                try:
                    with quiet():
                        Dr, _ = b.dense(op, mode, np.float64)
                    if not np.allclose(Dr, ref, rtol=1e-12, atol=1e-12):
                        out.append(("action-real-input", "mode 1 on real input acts as %s, expected %s" % (np.round(Dr, 6).tolist(), np.round(ref, 6).tolist())))
                except Exception as e:
                    out.append(("apply-raises", "advertised mode 1 raises on real input %s: %s" % (type(e).__name__, str(e)[:120])))
        else:
            dom = op.domain if mode in (1, 8) else op.target
            try:
                with quiet():
                    op.apply(b.basis(dom, 0, np.complex128), mode)
                out.append(("no-refusal", "mode %d is not advertised (capability %d) but applying it does not raise" % (mode, cap)))
            except Exception:
                pass
    return out


_B = None


def _work(chunk):
    global _B
    if _B is None:
        _B = Builder()
    out = []
    with quiet():
        for r in chunk:
            out.append(check_program(_B, r))
    return out


def check_many(progs, nproc=12):
    from concurrent.futures import ProcessPoolExecutor
    chunks = [progs[i:i + 40] for i in range(0, len(progs), 40)]
    res = []
    with ProcessPoolExecutor(nproc) as ex:
        for part in ex.map(_work, chunks):
            res.extend(part)
    return res


def describe(prog):
    def s(e):
        if e["op"] == "leaf":
            return "%s(%s)" % (e["k"], ",".join(x for x in e["a"] if x))
        if e["op"] == "scale":
            return "%s*#%d" % (e["k"], e["x"])
        return "%s(%s)" % (e["op"], ",".join("#%d" % v for v in (e["x"], e["y"]) if v))
    return " ; ".join(s(e) for e in prog)


def run(ctx):
    q = ctx.quick
    b = Builder()
    progs = []
    e1 = ctx.tlc("OpAlgebra", CFG % (1, "TRUE"), label="all leaves", workers=1)
    e2 = ctx.tlc("OpAlgebra", CFG % (2, "TRUE"), label="all 2-slot programs", workers=1, timeout=900)
    progs += e1.emitted + e2.emitted
    # every program of up to 3 (quick) / 4 slots over a small family of leaves: inverses and adjoints of diagonals under scalings, chains, sandwiches
    f3 = ctx.tlc("OpAlgebra", (CFG % (3, "TRUE")).replace('Focus = "all"', 'Focus = "diag"'), label="all 3-slot programs over the focused leaves",
                 workers=1, timeout=3000)
    progs += f3.emitted
    if q:
        s3 = ctx.tlc("OpAlgebra", CFG % (3, "TRUE"), label="simulated 3-slot programs", workers=1, simulate=800, depth=4, seed=ctx.seed + 1, timeout=900)
        progs += s3.emitted
    else:
        e3 = ctx.tlc("OpAlgebra", CFG % (3, "TRUE"), label="all 3-slot programs", workers=1, timeout=3000, coverage=False)
        progs += e3.emitted
        s4 = ctx.tlc("OpAlgebra", CFG % (5, "TRUE"), label="simulated 4-5 slot programs", workers=1, simulate=6000, depth=6, seed=ctx.seed + 1, timeout=3000)
        progs += s4.emitted
    ctx.constants.update(MaxSlots=3, leaves=len(e1.emitted))
    seen = set()
    uniq = []
    for r in progs:
        key = json.dumps(r["prog"], sort_keys=True)
        if key not in seen:
            seen.add(key)
            uniq.append(r)
            ctx.case(key)
    n = len(uniq)
    for r, res in zip(uniq, check_many(uniq)):
        for kind, msg in res:
            leafkinds = sorted({e["k"] for e in r["prog"] if e["op"] == "leaf"})
            ops = sorted({e["op"] for e in r["prog"] if e["op"] != "leaf"})
            ctx.violation(dict(kind=kind, ops=ops, leaves=leafkinds), "%s: %s" % (describe(r["prog"]), msg), replay=dict(program=r))
    ctx.traces += n
    ctx.sample(dict(program=describe(progs[len(progs) // 2]["prog"]), rcap=progs[len(progs) // 2]["rcap"], M=progs[len(progs) // 2]["M"]))
    ctx.notes["programs_replayed"] = n
    ctx.exhaustive = not q
    ctx.assume("operators on domains with more than 4 pixels are not covered (no size-dependent logic in the anchored files); GPU paths are not covered",
               "an expression that advertises a mode beyond the capability rule because simplification collapsed it is accepted as long as the mode acts as the matrix expression")


def replay(ctx, doc):
    b = Builder()
    r = doc["case"]["program"]
    for kind, msg in check_program(b, r):
        ctx.violation(doc.get("key", dict(kind=kind)), "%s: %s" % (describe(r["prog"]), msg), replay=doc["case"])
    ctx.case("replay")
    ctx.case("replay2")
    ctx.sample(dict(program=describe(r["prog"])))
    ctx.states = ctx.transitions = 1


def selftest(ctx):
    """a corrupted denotation must be noticed"""
    b = Builder()
    r = tlcmod.run("OpAlgebra", CFG % (1, "TRUE"), workers=1)
    good = next(x for x in r.emitted if x["prog"][0]["k"] == "diag")
    bad = json.loads(json.dumps(good))
    bad["M"]["rows"][0][0]["re"] += 1
    return dict(ok=(check_program(b, good) == [] and any(k == "action" for k, _ in check_program(b, bad))), mutation="one matrix entry of the expected denotation changed")
