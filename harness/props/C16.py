"""C16 - Classic descent minimisers are monotone and their line search is sound.

Descent.tla       the loop of DescentMinimizer.__call__ (all five minimisers) + the ring-buffer addressing of L_BFGS / VL_BFGS
LineSearch.tla    bracketing and zoom phases of LineSearch over the floating-point facts of every trial step
TLC               Monotone / ReturnsLevel / OnlyTwoVerdicts; SuccessIsWolfe / Terminates; SamePairs (both L-BFGS variants address the
                  same (s, y) pairs in the same order for k <= 2m+2, m <= 3)
code -> spec      real minimiser runs on smooth convex and non-convex energies through a recording controller and a recording line
                  searcher (DescentTrace.tla); every energy evaluation of every line search through a recording energy
                  (LineSearchTrace.tla); ground truth: strong Wolfe conditions recomputed at the returned point, monotonicity of the
                  accepted energies; both L-BFGS variants fed the same recorded history must give the same direction"""
import numpy as np

from vf import tlc as tlcmod
from vf import trace as tracemod
from vf.core import quiet


# ---- analytic energies -------------------------------------------------------------------------------------------------
def functions():
    def quad(x):
        d = np.arange(1., len(x) + 1)
        return 0.5 * np.sum(d * x * x) - np.sum(x), d * x - 1., np.diag(d)

    def rosen(x):
        f = np.sum(4. * (x[1:] - x[:-1] ** 2) ** 2 + (1. - x[:-1]) ** 2)
        g = np.zeros_like(x)
        g[:-1] += -16. * x[:-1] * (x[1:] - x[:-1] ** 2) - 2. * (1. - x[:-1])
        g[1:] += 8. * (x[1:] - x[:-1] ** 2)
        return f, g, None

    def trig(x):
        return np.sum(np.cos(x)) + 0.05 * np.sum(x * x), -np.sin(x) + 0.1 * x, None

    def quartic(x):
        return np.sum((x * x - 1.) ** 2) + 0.1 * np.sum(x), 4. * x * (x * x - 1.) + 0.1, None

    def logcosh(x):
        return np.sum(np.log(np.cosh(x - 0.3))) + 0.01 * np.sum(x * x), np.tanh(x - 0.3) + 0.02 * x, None
    return dict(quad=quad, rosen=rosen, trig=trig, quartic=quartic, logcosh=logcosh)


def make_energy_class(ift):
    class FEnergy(ift.Energy):
        """analytic energy; `log` (shared) records every evaluation: (position, value, gradient requested?)"""

        def __init__(self, position, fn, log=None):
            super().__init__(position)
            self._fn = fn
            self._log = log
            x = position.asnumpy()
            self._f, self._g, self._H = fn(x)
            self._rec = None
            if log is not None:
                self._rec = dict(x=x.copy(), f=float(self._f), grad=False)
                log.append(self._rec)

        def at(self, position):
            return FEnergy(position, self._fn, self._log)

        @property
        def value(self):
            return self._f

        @property
        def gradient(self):
            if self._rec is not None:
                self._rec["grad"] = True
            return ift.makeField(self._position.domain, self._g)

        @property
        def metric(self):
            x = self._position.asnumpy()
            n = len(x)
            if self._H is not None:
                H = self._H
            else:
                eps = 1e-5
                H = np.array([(self._fn(x + eps * np.eye(n)[i])[1] - self._fn(x - eps * np.eye(n)[i])[1]) / (2 * eps) for i in range(n)])
                H = (H + H.T) / 2
            w, v = np.linalg.eigh(H)
            Hp = (v * np.maximum(np.abs(w), 1e-3)) @ v.T       # a positive definite model of the curvature
            dom = self._position.domain

            class M(ift.EndomorphicOperator):
                def __init__(s):
                    s._domain = dom
                    s._capability = s.TIMES | s.ADJOINT_TIMES | s.INVERSE_TIMES | s.ADJOINT_INVERSE_TIMES

                def apply(s, xx, mode):
                    s._check_input(xx, mode)
                    A = Hp if mode & (s.TIMES | s.ADJOINT_TIMES) else np.linalg.inv(Hp)
                    return ift.makeField(dom, A @ xx.asnumpy())
            return M()

        def apply_metric(self, x):
            return self.metric(x)
    return FEnergy


# ---- line search traces -----------------------------------------------------------------------------------------------------
def tf(a, b, le=False):
    """a < b (or <=); '?' within rounding"""
    if not (np.isfinite(a) and np.isfinite(b)):
        return "?"
    if abs(a - b) <= 1e-12 * max(abs(a), abs(b), 1e-300):
        return "?"
    return "T" if (a <= b if le else a < b) else "F"


def ls_trace(ift, FEnergy, fn, x0, pk, ls, fkm1):
    dom = ift.makeDomain(ift.UnstructuredDomain(len(x0)))
    log = []
    e0 = FEnergy(ift.makeField(dom, x0), fn, None)
    e0._log = log                      # evaluations made from now on are recorded
    pkf = ift.makeField(dom, pk)
    phi0 = float(e0.value)
    dphi0 = float(e0._g @ pk)
    res, success = ls.perform_line_search(e0, pkf, fkm1)
    trials = []
    prev_phi = phi0
    for k, r in enumerate(log):
        alpha = float((r["x"] - x0) @ pk / (pk @ pk))
        g = fn(r["x"])[1]
        dphi = float(g @ pk)
        armijo = tf(phi0 + ls.c1 * alpha * dphi0, r["f"])            # phi > phi0 + c1 a phi'0
        notlower = {"T": "F", "F": "T", "?": "?"}[tf(r["f"], prev_phi)]   # phi >= previous phi
        t = dict(armijoFail=armijo, notLower=notlower, curvOK="?", derivNonNeg="?", atMax="F", deriv=bool(r["grad"]))
        if r["grad"]:
            t["curvOK"] = tf(abs(dphi), -ls.c2 * dphi0, le=True)
            t["derivNonNeg"] = {"T": "F", "F": "T", "?": "?"}[tf(dphi, 0.0)]
        trials.append(t)
        prev_phi = r["f"]
    wolfe = True
    xr = res.position.asnumpy()
    if success:
        alpha = float((xr - x0) @ pk / (pk @ pk))
        fr, gr, _ = fn(xr)
        tol = 1e-10 * max(1., abs(phi0))
        if not (fr <= phi0 + ls.c1 * alpha * dphi0 + tol and abs(gr @ pk) <= -ls.c2 * dphi0 + 1e-10 * abs(dphi0) and alpha > 0):
            wolfe = False
    return dict(desc=bool(dphi0 < 0), trials=trials, success=bool(success), wolfe=wolfe), dict(phi0=phi0, dphi0=dphi0, n=len(log), success=bool(success))


# ---- minimiser traces ---------------------------------------------------------------------------------------------------------
def min_trace(ift, FEnergy, name, fn, x0, mk_min, kind, sabotage=None):
    """sabotage = (k, 'higher'|'equal'): the k-th line search of the run is answered by a user-supplied faulty line searcher that
    returns a point with a higher / the same energy - the minimiser must then stop with ERROR / CONVERGED and keep the old point"""
    dom = ift.makeDomain(ift.UnstructuredDomain(len(x0)))
    events = []
    real_c = ift.GradientNormController(tol_abs_gradnorm=1e-6, iteration_limit=25)
    names = {real_c.CONVERGED: "converged", real_c.CONTINUE: "continue", real_c.ERROR: "error"}
    accepted = []
    cur = dict(pending=None)

    class RecC(ift.IterationController):
        def start(s, energy):
            st = real_c.start(energy)
            accepted.append(float(energy.value))
            events.append(dict(ev="start", verdict=names[st], success=False, cmp="equal", status="", gradzero=False, monotone=True, returned_ok=True))
            return st

        def check(s, energy):
            st = real_c.check(energy)
            accepted.append(float(energy.value))
            if cur["pending"] is not None:
                cur["pending"]["verdict"] = names[st]
            return st
    wolfe_bad = []

    class RecLS(ift.LineSearch):
        def perform_line_search(s, energy, pk, f_k_minus_1=None):
            cur["pending"] = None
            cur["nls"] = cur.get("nls", 0) + 1
            if sabotage is not None and cur["nls"] == sabotage[0]:
                if sabotage[1] == "equal":
                    res, success = energy, False
                else:
                    step = 1.0
                    res = energy.at(energy.position + step * pk)
                    while not (res.value > energy.value) and step < 1e12:
                        step *= 8.0
                        res = energy.at(energy.position + step * pk)
                    success = False
            else:
                res, success = super().perform_line_search(energy, pk, f_k_minus_1)
            a, b = float(res.value), float(energy.value)
            ev = dict(ev="iter", verdict="none", success=bool(success), cmp="lower" if a < b else ("equal" if a == b else "higher"), status="", gradzero=False,
                      monotone=True, returned_ok=True)
            events.append(ev)
            cur["pending"] = ev
            if success:
                x0_, xr, p = energy.position.asnumpy(), res.position.asnumpy(), pk.asnumpy()
                alpha = float((xr - x0_) @ p / (p @ p))
                d0 = float(energy.gradient.asnumpy() @ p)
                fr, gr, _ = fn(xr)
                if not (fr <= b + s.c1 * alpha * d0 + 1e-10 * max(1., abs(b)) and abs(gr @ p) <= -s.c2 * d0 * (1 + 1e-9) and alpha > 0):
                    wolfe_bad.append(dict(alpha=alpha, phi0=b, phi=float(fr), dphi0=d0, dphi=float(gr @ p)))
            return res, success
    mini = mk_min(RecC(), RecLS(preferred_initial_step_size=1.) if kind in ("NewtonCG", "RelaxedNewton") else RecLS())
    e0 = FEnergy(ift.makeField(dom, x0), fn)
    err = None
    try:
        e, st = mini(e0)
        stn = {real_c.CONVERGED: "CONVERGED", real_c.ERROR: "ERROR"}.get(st, str(st))
    except Exception as ex:
        return None, "%s: %s" % (type(ex).__name__, str(ex)[:120]), wolfe_bad
    mono = all(b < a for a, b in zip(accepted, accepted[1:]))
    ret_ok = float(e.value) == accepted[-1] and float(e.value) <= min(accepted)
    gz = bool(e.gradient_norm == 0)
    events.append(dict(ev="ret", verdict="none", success=False, cmp="equal", status=stn, gradzero=gz, monotone=bool(mono), returned_ok=bool(ret_ok)))
    return events, None, wolfe_bad


def run(ctx):
    import nifty.cl as ift
    q = ctx.quick
    FEnergy = make_energy_class(ift)
    fns = functions()
    # ---- the models -------------------------------------------------------------------------------------------
    ctx.tlc("Descent", "CONSTANTS MaxIter = %d\nLevels = %d\nSPECIFICATION Spec\nINVARIANT Monotone\nINVARIANT ReturnsLevel\nINVARIANT OnlyTwoVerdicts\n" % ((4, 4) if q else (6, 6)),
            label="minimiser loop + L-BFGS ring buffers (ASSUME SamePairs)")
    ctx.tlc("LineSearch", "CONSTANTS MaxBracket = %d\nMaxZoom = %d\nSPECIFICATION Spec\nINVARIANT SuccessIsWolfe\nINVARIANT Terminates\n" % ((4, 4) if q else (6, 6)), label="line search skeleton")
    for mod, cfg, inv in (("Descent", "CONSTANTS MaxIter = 3\nLevels = 3\nSPECIFICATION Spec\n", "NeverErrorWitness"),
                          ("LineSearch", "CONSTANTS MaxBracket = 3\nMaxZoom = 3\nSPECIFICATION Spec\n", "NeverSucceedsInZoom")):
        r = ctx.tlc(mod, cfg + "INVARIANT %s\n" % inv, label="witness " + inv, expect_ok=False)
        if r.violated != inv:
            raise tlcmod.MachineryError("vacuity witness %s not refuted" % inv)
    rng = np.random.default_rng(ctx.seed + 16)
    # ---- line searches ------------------------------------------------------------------------------------------------
    ls_traces, ls_meta = [], []
    nls = 300 if q else 3000
    with quiet():
        for k in range(nls):
            name = list(fns)[k % len(fns)]
            fn = fns[name]
            n = 3
            x0 = rng.uniform(-2, 2, n)
            g = fn(x0)[1]
            kind = k % 4
            if kind == 0:
                pk = -g
            elif kind == 1:
                pk = -g * rng.uniform(0.01, 30)
            elif kind == 2:
                pk = -g + 0.3 * np.linalg.norm(g) * rng.standard_normal(n)
            else:
                pk = -np.linalg.solve(np.diag(rng.uniform(0.2, 5, n)), g)
            ls = ift.LineSearch(preferred_initial_step_size=[None, 1., 0.05][k % 3], c1=[1e-4, 1e-2, 0.3][k % 3], c2=[0.9, 0.5, 0.4][(k // 3) % 3])
            try:
                tr, meta = ls_trace(ift, FEnergy, fn, x0, pk, ls, None if k % 2 else float(fn(x0)[0] + 0.1))
            except ValueError as ex:          # "inconsistent data" of _zoom: a documented refusal, not a result
                ctx.add_drift("line search raised %s on %s" % (ex, name))
                continue
            ls_traces.append(tr)
            ls_meta.append(dict(function=name, x0=x0.tolist(), pk=pk.tolist(), c1=ls.c1, c2=ls.c2, step=ls.preferred_initial_step_size, **meta))
            ctx.case(("ls", name, k))
    tv = tracemod.validate(ctx, "LineSearchTrace", ls_traces, cfg="CONSTANTS MaxBracket = 100\nMaxZoom = 100\nSPECIFICATION TSpec\nCONSTRAINT Progress\nPOSTCONDITION Report\nINVARIANT SuccessIsWolfe\n",
                           label="%d line searches" % len(ls_traces))
    tv.lengths = [len(t["trials"]) + 2 for t in ls_traces]
    for tid, l, clause in tv.propfail:
        ctx.violation(dict(kind="line-search", function=ls_meta[tid]["function"]), "line search on %s: %s (%s)" % (ls_meta[tid]["function"], clause, ls_meta[tid]), replay=dict(what="ls", **ls_meta[tid]))
    for tid, name in tracemod.masked_truth(tv, ls_traces, lambda t: dict(wolfe=t["wolfe"])):
        ctx.violation(dict(kind="line-search", function=ls_meta[tid]["function"]), "line search on %s: success reported but the returned point violates the strong Wolfe conditions "
                      "(the search also left the transcribed skeleton at trial %d) (%s)" % (ls_meta[tid]["function"], tv.maxl[tid], ls_meta[tid]), replay=dict(what="ls", **ls_meta[tid]))
    for tid in tv.rejected:
        if not any(t == tid for t, _, _ in tv.propfail):
            ctx.add_drift("line search %s: trial %d does not follow the transcribed skeleton (%d trials, success=%s)" % (ls_meta[tid]["function"], tv.maxl[tid], len(ls_traces[tid]["trials"]), ls_traces[tid]["success"]))
    ctx.sample(dict(line_search=ls_meta[0], trials=ls_traces[0]["trials"][:4]))
    # ---- minimisers ----------------------------------------------------------------------------------------------------
    mins = dict(SteepestDescent=lambda c, l: ift.SteepestDescent(c, l), L_BFGS=lambda c, l: ift.L_BFGS(c, l, max_history_length=3), VL_BFGS=lambda c, l: ift.VL_BFGS(c, l, max_history_length=3),
                NewtonCG=lambda c, l: ift.NewtonCG(c, line_searcher=l), RelaxedNewton=lambda c, l: ift.RelaxedNewton(c, l))

    def nlcg(heur):
        def mk(c, l):
            m = ift.NonlinearCG(c, heur)
            l.c2 = m._line_searcher.c2               # the minimiser's own line-search parameters, through the recording line searcher
            m._line_searcher = l
            return m
        return mk
    for heur in ("Polak-Ribiere", "Fletcher-Reeves", "Hestenes-Stiefel", "5.49"):
        mins["NonlinearCG(%s)" % heur] = nlcg(heur)
    mtr, mmeta = [], []
    nruns = 5 if q else 30
    with quiet():
        for name, fn in fns.items():
            for kind, mk in mins.items():
                for r_ in range(nruns):
                    x0 = rng.uniform(-1.5, 1.5, 3)
                    sab = None if (r_ % 3 or kind.startswith("NonlinearCG")) else ((r_ // 3) % 3 + 1, "higher" if (r_ // 3) % 2 == 0 else "equal")
                    ev, err, wolfe_bad = min_trace(ift, FEnergy, name, fn, x0, mk, kind, sab)
                    ctx.case(("min", name, kind, r_))
                    meta = dict(function=name, minimiser=kind, x0=x0.tolist())
                    for wb in wolfe_bad:
                        ctx.violation(dict(kind="wolfe", minimiser=kind, function=name), "%s on %s: the line search reported success at a point violating the strong Wolfe conditions %s" % (kind, name, wb),
                                      replay=dict(what="min", **meta))
                    if err:
                        ctx.add_drift("%s on %s raised %s" % (kind, name, err))
                        continue
                    if kind.startswith("NonlinearCG"):
                        # another loop than Descent.tla (no comparison of the energies, the point of a failed line search is returned with ERROR): the
                        # clauses of the statement are evaluated directly - accepted steps lower the energy, only two verdicts (Wolfe: wolfe_bad above)
                        last = ev[-1]
                        if not last["monotone"]:
                            ctx.violation(dict(kind="minimiser", clause="an accepted step increased", minimiser=kind), "%s on %s from %s: an accepted step increased the energy" % (kind, name, x0.tolist()), replay=dict(what="min", **meta))
                        if last["status"] not in ("CONVERGED", "ERROR"):
                            ctx.violation(dict(kind="minimiser", clause="status", minimiser=kind), "%s on %s: returned status %s" % (kind, name, last["status"]), replay=dict(what="min", **meta))
                        continue
                    mtr.append(ev)
                    mmeta.append(meta)
    tv = tracemod.validate(ctx, "DescentTrace", mtr, cfg="CONSTANTS MaxIter = 1000\nLevels = 1000\nSPECIFICATION TSpec\nCONSTRAINT Progress\nPOSTCONDITION Report\nINVARIANT Monotone\nINVARIANT OnlyTwoVerdicts\n",
                           label="%d minimiser runs" % len(mtr))
    for tid, l, clause in tv.propfail:
        ctx.violation(dict(kind="minimiser", clause=" ".join(clause.split(" ")[:4]), minimiser=mmeta[tid]["minimiser"]), "%s on %s from %s: %s" % (mmeta[tid]["minimiser"], mmeta[tid]["function"], mmeta[tid]["x0"], clause),
                      replay=dict(what="min", **mmeta[tid]))
    for tid, name in tracemod.masked_truth(tv, mtr, lambda t: {k: t[-1][k] for k in ("monotone", "returned_ok")} if t[-1]["ev"] == "ret" else {}):
        ctx.violation(dict(kind="minimiser", clause=name, minimiser=mmeta[tid]["minimiser"]), "%s on %s from %s: ground truth '%s' is false (the run also left the transcribed loop at event %d)" % (
            mmeta[tid]["minimiser"], mmeta[tid]["function"], mmeta[tid]["x0"], name, tv.maxl[tid] + 1), replay=dict(what="min", **mmeta[tid]))
    for tid in tv.rejected:
        if not any(t == tid for t, _, _ in tv.propfail):
            ctx.add_drift("%s on %s: event %d %r does not follow the transcribed loop" % (mmeta[tid]["minimiser"], mmeta[tid]["function"], tv.maxl[tid] + 1, mtr[tid][tv.maxl[tid]]))
    ctx.sample(dict(minimiser_run=mmeta[0], events=mtr[0][:4]))
    # ---- L-BFGS vs VL-BFGS on the same history ----------------------------------------------------------------------------------
    dom = ift.makeDomain(ift.UnstructuredDomain(4))
    nb = 0
    for trial in range(30 if q else 300):
        m = [1, 2, 3][trial % 3]
        A = np.diag(rng.uniform(0.5, 4, 4))
        pts = [rng.standard_normal(4)]
        for _ in range(2 * m + 3):
            pts.append(pts[-1] - 0.3 * (A @ pts[-1]) + 0.05 * rng.standard_normal(4))
        lb, vl = ift.L_BFGS(None, max_history_length=m), ift.VL_BFGS(None, max_history_length=m)
        lb.reset()
        vl._information_store = None

        class E0:
            def __init__(s, x):
                s.position = ift.makeField(dom, x)
                s.gradient = ift.makeField(dom, A @ x + 0.1 * x ** 3)
        for k, x in enumerate(pts):
            e = E0(x)
            with quiet():
                d1, d2 = lb.get_descent_direction(e).asnumpy(), vl.get_descent_direction(e).asnumpy()
            nb += 1
            ctx.case(("bfgs", trial, k))
            if not np.allclose(d1, d2, rtol=1e-8, atol=1e-10 * np.linalg.norm(d1)):
                ctx.violation(dict(kind="lbfgs-variants", history=m), "L_BFGS and VL_BFGS (history %d) give different directions from the same history at point %d: %s vs %s" % (m, k, d1, d2),
                              replay=dict(what="bfgs", m=m))
                break
    ctx.notes["lbfgs_direction_comparisons"] = nb
    ctx.assume("facts within 1e-12 relative of their threshold are '?'; the strong Wolfe conditions are judged with 1e-10 slack",
               "the metric of the analytic energies is a positive definite model (|eigenvalues| of the Hessian)")


def selftest(ctx):
    t_ok = dict(desc=True, trials=[dict(armijoFail="F", notLower="F", curvOK="T", derivNonNeg="F", atMax="F", deriv=True)], success=True, wolfe=True)
    t_bad = dict(desc=True, trials=[dict(armijoFail="T", notLower="F", curvOK="?", derivNonNeg="?", atMax="F", deriv=False)], success=True, wolfe=True)   # success although Armijo fails
    t_w = dict(t_ok, wolfe=False)
    tv = tracemod.validate(ctx, "LineSearchTrace", [t_ok, t_bad, t_w], cfg="CONSTANTS MaxBracket = 100\nMaxZoom = 100\nSPECIFICATION TSpec\nCONSTRAINT Progress\nPOSTCONDITION Report\n", label="selftest")
    tv.lengths = [3, 3, 3]
    return dict(ok=(tv.rejected == [1] and [t for t, _, _ in tv.propfail] == [2]), rejected=tv.rejected, propfail=tv.propfail, mutation="success after a failed sufficient-decrease test; a Wolfe flag")
