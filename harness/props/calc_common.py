"""Shared machinery of C03 / C04 / C05: evaluation of the symbolic expressions emitted by Calculus.tla and construction of the
corresponding nifty.cl operators (slots that are re-used become the SAME Python object: shared sub-trees)."""
import math

import numpy as np

from vf import tlc as tlcmod

POINTS = [dict(a=np.array([0.5, 1.5]), b=np.array([0.25, 2.0])),
          dict(a=np.array([0.75, 0.125]), b=np.array([1.25, 0.5])),
          dict(a=np.array([-0.5, 1.0]), b=np.array([2.0, -1.5])),
          dict(a=np.array([0.375, 0.875]), b=np.array([0.625, 0.3125])),
          dict(a=np.array([34.5, -35.0]), b=np.array([36.0, 0.5]))]        # beyond the switch-over points of the numerically safe branches (softplus: 33)


SAFE_AT_LARGE = {"softplus", "tanh", "sigmoid", "arctan", "abs", "sign", "unitstep", "clip"}


def points_for(inst):
    """the last point (|x| ~ 35) only for programs whose point-wise functions are all bounded or linear at large arguments: with exp / log
    families the double-precision evaluation of the SPECIFICATION's expression cancels catastrophically there"""
    fns = {s["f"] for s in inst["prog"] if s["op"] == "ptw"}
    prods = sum(1 for s in inst["prog"] if s["op"] in ("mul", "vdot", "gauss"))
    steep = any(s["op"] in ("vcg", "powops", "rpow", "ptwpre", "div", "rdivc", "powop") for s in inst["prog"])
    return POINTS if fns <= SAFE_AT_LARGE and prods <= 1 and not steep else POINTS[:-1]


class Singular(Exception):
    pass


def rat(v):
    return v[0] / v[1]


def ev(e, pt):
    t = e["t"]
    if t == "c":
        return rat(e["v"])
    if t == "x":
        return float(pt[e["k"]][e["j"] - 1])
    if t == "+":
        return ev(e["a"], pt) + ev(e["b"], pt)
    if t == "*":
        return ev(e["a"], pt) * ev(e["b"], pt)
    if t == "neg":
        return -ev(e["a"], pt)
    if t == "pow":
        u = ev(e["a"], pt)
        n = rat(e["n"])
        if (u <= 0 and e["n"][1] != 1) or (abs(u) < 1e-9 and n < 0):      # (1e-17 is the rounding residue of an exact zero, e.g. sinc(2): 0/0)
            raise Singular()
        return u ** (int(n) if e["n"][1] == 1 else n)
    u = ev(e["a"], pt)
    f = e["f"]
    p = [rat(x) for x in e["p"]]
    if f in ("log", "log10", "sqrt") and u <= 1e-9:       # (a "positive" 1e-17 is the rounding residue of an exact zero, e.g. sinc(1))
        raise Singular()
    if f == "log1p" and u <= -1:
        raise Singular()
    if f in ("abs", "sign", "unitstep", "sinc", "reciprocal") and abs(u) < 1e-9:
        raise Singular()
    if f in ("clip", "inside") and min(abs(u - p[0]), abs(u - p[1])) < 1e-9:
        raise Singular()
    if f == "tan" and abs(math.cos(u)) < 1e-6:
        raise Singular()
    if f in ("sin", "cos", "tan", "sinc") and abs(u) > 100.:
        raise Singular()      # oscillatory functions of large arguments: the rounding of the argument alone (u * 1e-16 * pi) exceeds the comparison tolerance
    if f in ("exp", "expm1", "sinh", "cosh", "exponentiate", "softplus") and abs(u) > 200:
        raise Singular()
    return {"exp": math.exp, "log": math.log, "log10": math.log10, "log1p": math.log1p, "expm1": math.expm1, "sin": math.sin, "cos": math.cos,
            "tan": math.tan, "sinh": math.sinh, "cosh": math.cosh, "tanh": math.tanh, "sigmoid": lambda v: 0.5 + 0.5 * math.tanh(v),
            "arctan": math.atan, "sqrt": math.sqrt, "reciprocal": lambda v: 1. / v, "softplus": lambda v: math.log1p(math.exp(v)) if v < 30 else v,
            "sinc": lambda v: math.sin(math.pi * v) / (math.pi * v), "abs": abs, "sign": lambda v: (v > 0) - (v < 0), "unitstep": lambda v: 1. if v > 0 else 0.,
            "pi": lambda v: math.pi, "exponentiate": lambda v: p[0] ** v, "clip": lambda v: min(max(v, p[0]), p[1]),
            "inside": lambda v: 1. if p[0] < v < p[1] else 0.}[f](u)


def expected(inst, pt):
    """value vector and Jacobian (rows: outputs, columns: a1 a2 b1 b2); raises Singular where the program is not smooth / defined"""
    try:
        val = np.array([ev(e, pt) for e in inst["val"]])
        jac = np.array([[ev(e, pt) for e in row] for row in inst["jac"]])
        inner = np.array([[ev(e, pt) for e in row] for row in inst["inner"]]) if inst["inner"] else None
        if inst.get("mterms"):
            # the metric of the energy as sum_n w_n g_n g_n^T: returned as the matrix whose rows are sqrt(w_n) g_n (so that inner^T inner is the metric)
            inner = np.array([[np.sqrt(ev(t["w"], pt)) * ev(e, pt) for e in t["g"]] for t in inst["mterms"]])
    except (OverflowError, ZeroDivisionError, ValueError):
        raise Singular()
    if not (np.all(np.isfinite(val)) and np.all(np.isfinite(jac))) or np.max(np.abs(val)) > 1e12 or np.max(np.abs(jac)) > 1e12:
        raise Singular()
    return val, jac, inner


JAXF = ("exp", "log", "log1p", "expm1", "sin", "cos", "tan", "sinh", "cosh", "tanh", "arctan", "sqrt", "reciprocal")


class Builder:
    def __init__(self, alt=False):
        """alt: the same programs through the other implementations of the same mathematics: point-wise functions as JaxOperator,
        products and scalar products as MultiLinearEinsum, the unit Gaussian energy as JaxLikelihoodEnergyOperator, op["s"] for the key"""
        import nifty.cl as ift
        self.ift = ift
        self.alt = alt
        if alt:
            import jax
            jax.config.update("jax_enable_x64", True)
            import jax.numpy as jnp
            self.jnp = jnp
        self.dom = ift.DomainTuple.make(ift.UnstructuredDomain(2))
        self.md = ift.MultiDomain.make({"a": self.dom, "b": self.dom})
        self.linm = np.array([[1., 2.], [0., -0.5]])

    def build(self, prog, upto=None):
        ift = self.ift
        ops = []
        for s in prog[:upto]:
            x = ops[s["x"] - 1] if s["x"] else None
            y = ops[s["y"] - 1] if s["y"] else None
            o = s["op"]
            p = [rat(v) for v in s["p"]]
            if self.alt and self.alt_slot(ops, s, x, y, p):
                continue
            if o == "var":
                ops.append(ift.FieldAdapter(self.dom, s["f"]))
            elif o == "add":
                ops.append(x + y)
            elif o == "sub":
                ops.append(x - y)
            elif o == "mul":
                ops.append(x * y)
            elif o == "div":
                ops.append(x / y)
            elif o == "powops":
                ops.append(x ** y)
            elif o == "rdivc":
                ops.append(p[0] / x)
            elif o == "divc":
                ops.append(x / p[0])
            elif o == "rsubc":
                ops.append(p[0] - x)
            elif o == "raddc":
                ops.append(p[0] + x)
            elif o == "powop":
                ops.append(x ** int(p[0]))
            elif o == "rpow":
                ops.append(p[0] ** x)
            elif o == "absop":
                ops.append(abs(x))
            elif o == "real":
                ops.append(x.real)
            elif o == "conj":
                ops.append(x.conjugate())
            elif o == "ptwpre":
                ops.append(x.ptw_pre(s["f"]))
            elif o == "getitem":
                ops.append(x["s"])
            elif o == "ptw":
                f = s["f"]
                if f in ("power", "exponentiate"):
                    ops.append(x.ptw(f, p[0]))
                elif f == "clip":
                    ops.append(x.ptw("clip", p[0], p[1]))
                else:
                    ops.append(x.ptw(f))
            elif o == "scale":
                ops.append(p[0] * x)
            elif o == "addc":
                ops.append(ift.Adder(ift.makeField(self.dom, np.array(p))) @ x)
            elif o == "lin":
                ops.append(ift.MatrixProductOperator(self.dom, self.linm) @ x)
            elif o == "sum":
                ops.append(x.sum())
            elif o == "vdot":
                ops.append(x.vdot(y))
            elif o == "gauss":
                ops.append(ift.GaussianEnergy(domain=self.dom) @ x)
            elif o == "tag":
                ops.append(x.ducktape_left("s"))
            elif o == "untag":
                ops.append(x.ducktape_left(self.dom) if False else ift.FieldAdapter(self.dom, "s") @ x)
            elif o == "vcg" and prog[s["x"] - 1]["op"] == "var" and prog[s["y"] - 1]["op"] == "var" and prog[s["x"] - 1]["f"] != prog[s["y"] - 1]["f"]:
                # directly on the two keys: fixing one of them reaches the energy's own specialisations
                ops.append(ift.VariableCovarianceGaussianEnergy(self.dom, prog[s["x"] - 1]["f"], prog[s["y"] - 1]["f"], np.float64))
            elif o == "vcg":
                ops.append(ift.VariableCovarianceGaussianEnergy(self.dom, "r", "v", np.float64) @ (x.ducktape_left("r") + y.ducktape_left("v")))
            else:
                raise tlcmod.MachineryError("unknown op " + o)
        return ops[-1]

    def alt_slot(self, ops, s, x, y, p):
        ift, jnp = self.ift, self.jnp
        o = s["op"]
        if o == "ptw" and s["f"] in JAXF and isinstance(x.target, ift.DomainTuple):
            f = (lambda v: 1. / v) if s["f"] == "reciprocal" else getattr(jnp, s["f"])
            ops.append(ift.JaxOperator(x.target, x.target, f) @ x)
        elif o in ("mul", "vdot") and isinstance(x.target, ift.DomainTuple) and x.target.shape == (2,):
            pair = x.ducktape_left("u_") + y.ducktape_left("v_")
            ops.append(ift.MultiLinearEinsum(pair.target, "i,i->i" if o == "mul" else "i,i->", key_order=("u_", "v_")) @ pair)
        elif o == "gauss":
            import warnings
            with warnings.catch_warnings():
                warnings.simplefilter("ignore")
                ops.append(ift.JaxLikelihoodEnergyOperator(self.dom, lambda v: 0.5 * jnp.vdot(v, v), transformation=ift.ScalingOperator(self.dom, 1.), sampling_dtype=np.float64) @ x)
        elif o in ("untag", "getitem"):
            ops.append(x["s"])
        else:
            return False
        return True

    def point(self, op, pt):
        ift = self.ift
        return ift.MultiField.from_dict({k: ift.makeField(self.dom, pt[k].copy()) for k in op.domain.keys()}, domain=op.domain)

    def cols(self, keys):
        return [i for i, (k, _) in enumerate((("a", 0), ("a", 1), ("b", 0), ("b", 1))) if k in keys]

    def dense_jac(self, op, lin):
        """Jacobian as a (n_out, 4) matrix (zero columns for keys the operator does not depend on) and its adjoint as (4, n_out)"""
        ift = self.ift
        if isinstance(lin.target, ift.MultiDomain):
            # a multi-field valued operator with the single key "s": look at it through the extraction of that key
            ex = ift.FieldAdapter(self.dom, "s")
            lin = ex(lin)
        nout = lin.val.size if hasattr(lin.val, "size") else 1
        J = np.zeros((nout, 4))
        JT = np.zeros((4, nout))
        for c, (k, j) in enumerate((("a", 0), ("a", 1), ("b", 0), ("b", 1))):
            if k not in op.domain.keys():
                continue
            d = {kk: np.zeros(2) for kk in op.domain.keys()}
            d[k][j] = 1.
            e = ift.MultiField.from_dict({kk: ift.makeField(self.dom, v) for kk, v in d.items()}, domain=op.domain)
            J[:, c] = np.atleast_1d(lin.jac(e).asnumpy()).ravel()
        for r in range(nout):
            t = np.zeros(nout)
            t[r] = 1.
            tf = ift.makeField(lin.target, t.reshape(lin.target.shape))
            back = lin.jac.adjoint_times(tf)
            for c, (k, j) in enumerate((("a", 0), ("a", 1), ("b", 0), ("b", 1))):
                if k in op.domain.keys():
                    JT[c, r] = back[k].asnumpy()[j]
        return J, JT


def describe(prog):
    out = []
    for i, s in enumerate(prog, 1):
        o = s["op"]
        if o == "var":
            out.append(s["f"])
        elif o in ("add", "sub", "mul", "vdot", "div", "powops"):
            out.append("%s(#%d,#%d)" % (o, s["x"], s["y"]))
        elif o == "ptw":
            out.append("%s%s(#%d)" % (s["f"], [round(rat(v), 4) for v in s["p"]] if s["p"] else "", s["x"]))
        elif o == "scale":
            out.append("%g*#%d" % (rat(s["p"][0]), s["x"]))
        else:
            out.append("%s(#%d)" % (o, s["x"]))
    return " ; ".join(out)


def close(a, b, rtol=1e-9):
    a, b = np.asarray(a, dtype=float), np.asarray(b, dtype=float)
    return a.shape == b.shape and np.allclose(a, b, rtol=rtol, atol=1e-11 * max(1., float(np.max(np.abs(b))) if b.size else 1.))


def emit_programs(ctx, quick, label, fnset3="all", preload=False):
    """programs of the three checks: all 2-slot programs with every point-wise function, all 3-slot programs of a smaller function set,
    and simulated 4-slot programs (thorough: more)"""
    cfg = 'CONSTANTS MaxSlots = %d\nFnSet = "%s"\nPreload = "none"\nSPECIFICATION Spec\n%sINVARIANT Emit\nCHECK_DEADLOCK FALSE\n'
    laws = "INVARIANT DualLaw\nINVARIANT SimplifyLaw\n"
    progs = []
    r = ctx.tlc("Calculus", cfg % (3, "rat", laws), label="rational sub-language, 3 slots: D = dual numbers", timeout=2500)
    progs += r.emitted
    r = ctx.tlc("Calculus", cfg % (2, "all", laws), label="all 2-slot programs, every point-wise function", workers=1, timeout=2500)
    progs += r.emitted
    r = ctx.tlc("Calculus", cfg % (3, "few", ""), label="all 3-slot programs, four point-wise functions", workers=1, timeout=2500)
    progs += r.emitted
    r = ctx.tlc("Calculus", cfg % (4 if quick else 5, "all", ""), label="simulated deeper programs", workers=1, simulate=(40 if quick else 200), depth=6, seed=ctx.seed + 3, timeout=2500)
    progs += r.emitted
    if preload in (True, "all"):
        pcfg = cfg.replace('Preload = "none"', 'Preload = "ab"')
        r = ctx.tlc("Calculus", pcfg % (4, "few", ""), label="all programs with two further slots over both keys", workers=1, timeout=2500)
        progs += r.emitted
        r = ctx.tlc("Calculus", pcfg % (3, "all", ""), label="all programs with one further slot over both keys", workers=1, timeout=2500)
        progs += r.emitted
        r = ctx.tlc("Calculus", pcfg % (5 if quick else 6, "all", ""), label="simulated deeper programs over both keys", workers=1, simulate=(40 if quick else 150), depth=6, seed=ctx.seed + 4, timeout=2500)
        progs += r.emitted
    if preload in ("tagged", "all"):
        tcfg = cfg.replace('Preload = "none"', 'Preload = "tagged"')
        r = ctx.tlc("Calculus", tcfg % (6, "rat", ""), label="all programs with two further slots over a, b and their key-tagged versions", workers=1, timeout=2500)
        progs += r.emitted
    if label == "C05":
        for script, n in (("multiround", 9), ("twoparents", 7)):
            r = ctx.tlc("Calculus", (cfg % (n, "share", "")).replace('Preload = "none"', 'Preload = "%s"' % script), label="scripted program: " + script, workers=1, timeout=2500)
            progs += r.emitted
    if preload == "share" or label == "C05":
        r = ctx.tlc("Calculus", cfg % (6, "share", ""), label="simulated 6-slot programs with heavy sharing", workers=1, simulate=12, depth=7, seed=1005, timeout=2500)
        progs += r.emitted
        r = ctx.tlc("Calculus", cfg % (7, "share", ""), label="simulated 7-slot programs with heavy sharing", workers=1, simulate=2, depth=8, seed=1006, timeout=2500)
        progs += r.emitted
    for inv in ("NeverShared", "NeverBothKeys"):
        w = ctx.tlc("Calculus", 'CONSTANTS MaxSlots = 3\nFnSet = "rat"\nPreload = "none"\nSPECIFICATION Spec\nINVARIANT %s\nCHECK_DEADLOCK FALSE\n' % inv, label="witness " + inv, expect_ok=False)
        if w.violated != inv:
            raise tlcmod.MachineryError("vacuity witness %s not refuted" % inv)
    seen, uniq = set(), []
    import json
    for p in progs:
        k = json.dumps(p["prog"], sort_keys=True)
        if k not in seen:
            seen.add(k)
            uniq.append(p)
    return uniq
