"""C35 - Response operators compute their documented quantity.

LosTraverse.tla  a segment through a regular grid as a transition system (cross the next grid line); exact parameter lengths per pixel;
                 TLC: each pixel once, weights of an inside segment add up to 1, the walk ends; sample points of the sampling integrator
IndexOps.tla     interpolation, regridding, zero padding, masks and the non-uniform Fourier sum as sparse matrices with rational weights /
                 exact fractions of a turn; TLC: row sums, partial permutations, order
spec -> code     every walk / instance is replayed: dense matrices of LOSResponse, LinearInterpolator, RegriddingOperator, FieldZeroPadder,
                 MaskOperator, Nufft, Gridder (forward and adjoint) and nifty.re's SamplingCartesianGridLOS (orders 0 and 1)"""
import json
from fractions import Fraction as F

import numpy as np

from vf import tlc as tlcmod
from vf.core import quiet


def fr(v):
    return F(v["n"], v["d"])


# ---- line of sight ----------------------------------------------------------------------------------------------------
def los_expected(w, shape):
    row = np.zeros(shape)
    L = float(fr(w["len2"])) ** 0.5
    for cx, cy, n, d in w["cells"]:
        row[cx, cy] += n / d * L
    return row, L


def check_los(ift, walks, shape):
    out = []
    by = {}
    for w in walks:
        by.setdefault(json.dumps(w["dist"]), []).append(w)
    for _, ws in by.items():
        dist = [float(fr(x)) for x in ws[0]["dist"]]
        dom = ift.RGSpace(shape, distances=dist)
        starts = np.array([[(float(fr(w["p"][a])) - 0.5) * dist[a] for w in ws] for a in range(2)])
        ends = np.array([[(float(fr(w["q"][a])) - 0.5) * dist[a] for w in ws] for a in range(2)])
        try:
            R = ift.LOSResponse(dom, starts, ends)
            M = np.zeros((len(ws),) + tuple(shape))
            for i in range(shape[0]):
                for j in range(shape[1]):
                    e = np.zeros(shape)
                    e[i, j] = 1.
                    M[:, i, j] = R(ift.makeField(dom, e)).asnumpy()
            y = np.arange(1., len(ws) + 1)
            adj = R.adjoint_times(ift.makeField(R.target, y)).asnumpy()
        except Exception as e:
            out.append((ws[0], "LOSResponse raised %s: %s" % (type(e).__name__, str(e)[:120])))
            continue
        if not np.allclose(adj, np.tensordot(y, M, axes=(0, 0)), atol=1e-5):
            out.append((ws[0], "LOSResponse: the adjoint is not the transpose of the forward matrix"))
        for k, w in enumerate(ws):
            exp, L = los_expected(w, shape)
            if not np.allclose(M[k], exp, atol=2e-5 * max(1., L)):
                i, j = np.unravel_index(np.argmax(np.abs(M[k] - exp)), exp.shape)
                out.append((w, "LOSResponse: line %s -> %s (pixel coordinates) on distances %s: weight of pixel (%d,%d) is %.7g, the length of the line inside it is %.7g" % (
                    [str(fr(x)) for x in w["p"]], [str(fr(x)) for x in w["q"]], dist, i, j, M[k][i, j], exp[i, j])))
    return out


def _multilinear(x, pt):
    i0 = [int(np.floor(float(c))) for c in pt]
    i0 = [min(max(a, 0), n - 2) if n > 1 else 0 for a, n in zip(i0, x.shape)]
    ex = [float(c) - a for c, a in zip(pt, i0)]
    v = 0.
    for cx in (0, 1):
        for cy in (0, 1):
            wx = (1 - ex[0]) if cx == 0 else ex[0]
            wy = (1 - ex[1]) if cy == 0 else ex[1]
            if wx == 0 or wy == 0:
                continue
            v += wx * wy * x[i0[0] + cx, i0[1] + cy]
    return v


def check_sampling_los(jenv, walks, shape):
    jax, jnp, jft, sl = jenv
    out = []
    rng = np.random.default_rng(3)
    x = rng.integers(-4, 5, size=shape).astype(float)
    for w in walks:
        pts = [[fr(c) for c in s] for s in w["samples"]]
        if any(not (0 <= c <= n - 1) for s in pts for c, n in zip(s, shape)):
            continue
        dist = [float(fr(d)) for d in w["dist"]]
        start = np.array([(float(fr(w["p"][a])) - 0.5) * dist[a] for a in range(2)])
        end = np.array([(float(fr(w["q"][a])) - 0.5) * dist[a] for a in range(2)])
        L = float(fr(w["len2"])) ** 0.5
        n = len(pts)
        for order in (0, 1):
            if order == 0 and any((c % 1) == F(1, 2) for s in pts for c in s):
                continue
            try:
                op = sl.SamplingCartesianGridLOS(start[None, :], end[None, :], shape=shape, distances=dist, n_sampling_points=n, interpolation_order=order)
                got = float(np.asarray(op(jnp.asarray(x)))[0])
            except Exception as e:
                out.append((w, "SamplingCartesianGridLOS raised %s: %s" % (type(e).__name__, str(e)[:120])))
                continue
            if order == 0:
                exp = sum(x[int(round(float(s[0]))), int(round(float(s[1])))] for s in pts) * L / n
            else:
                exp = sum(_multilinear(x, s) for s in pts) * L / n
            if abs(got - exp) > 1e-9 * max(1., abs(exp)):
                out.append((w, "SamplingCartesianGridLOS(order %d, %d sampling points): line %s -> %s gives %.12g, the documented sampling rule %.12g" % (
                    order, n, [str(fr(c)) for c in w["p"]], [str(fr(c)) for c in w["q"]], got, exp)))
    return out


# ---- index operators ---------------------------------------------------------------------------------------------------
def dense(op, ift, cplx=False):
    dom, tgt = op.domain, op.target
    n = dom.size
    cols = []
    for i in range(n):
        e = np.zeros(n, dtype=complex if cplx else float)
        e[i] = 1.
        cols.append(op(ift.makeField(dom, e.reshape(dom.shape))).asnumpy().ravel())
    return np.array(cols).T


def expected_matrix(inst):
    M = np.zeros((inst["nout"], inst["nin"]))
    for o, i, n, d, _tag in inst["ent"]:
        M[o, i] += n / d
    return M


def check_index_op(ift, inst):
    op_ = inst["op"]
    out = []
    shape = inst["shape"]
    dist = [float(fr(d)) for d in inst["dist"]]
    try:
        if op_ in ("interp1", "interp2"):
            dom = ift.RGSpace(tuple(shape), distances=tuple(dist))
            pts = np.array([[float(fr(c)) for c in p] for p in inst["pts"]]).T
            op = ift.LinearInterpolator(dom, pts)
            cases = [("LinearInterpolator", op, expected_matrix(inst))]
        elif op_ == "regrid":
            N, M_ = shape
            E = expected_matrix(inst)
            cases = [("RegriddingOperator", ift.RegriddingOperator(ift.RGSpace(N, 1.), (M_,)), E),
                     ("RegriddingOperator on space 1", ift.RegriddingOperator((ift.UnstructuredDomain(2), ift.RGSpace(N, 0.5)), (M_,), space=1), np.kron(np.eye(2), E)),
                     ("RegriddingOperator on space 0 of two", ift.RegriddingOperator((ift.RGSpace(N, 2.), ift.UnstructuredDomain(3)), (M_,), space=0), np.kron(E, np.eye(3))),
                     ("RegriddingOperator 2-d", ift.RegriddingOperator(ift.RGSpace((N, N)), (M_, N)), np.kron(E, np.eye(N)))]
            tgt = cases[0][1].target[0]
            if abs(tgt.distances[0] * M_ - N) > 1e-12:
                out.append("RegriddingOperator: the coarse grid does not cover the same length (distance %r)" % (tgt.distances,))
        elif op_ == "zeropad":
            n, m, c = shape
            E = expected_matrix(inst)
            cases = [("FieldZeroPadder", ift.FieldZeroPadder(ift.RGSpace(n), (m,), central=bool(c)), E),
                     ("FieldZeroPadder on space 1", ift.FieldZeroPadder((ift.UnstructuredDomain(2), ift.RGSpace(n)), (m,), space=1, central=bool(c)), np.kron(np.eye(2), E))]
        elif op_ == "mask":
            fl = np.array([int(fr(v)) for v in inst["pts"][0]], dtype=bool)
            E = expected_matrix(inst)
            cases = [("MaskOperator", ift.MaskOperator(ift.makeField(ift.UnstructuredDomain(len(fl)), fl)), E)]
            if len(fl) in (4, 6):
                d2 = ift.RGSpace((2, len(fl) // 2))
                cases.append(("MaskOperator 2-d", ift.MaskOperator(ift.makeField(d2, fl.reshape(d2.shape))), E))
        else:
            return check_nufft(ift, inst)
    except Exception as e:
        return ["%s: construction raised %s: %s" % (op_, type(e).__name__, str(e)[:140])]
    for name, op, E in cases:
        try:
            got = dense(op, ift)
            gadj = dense(op.adjoint, ift)
        except Exception as e:
            out.append("%s: application raised %s: %s" % (name, type(e).__name__, str(e)[:140]))
            continue
        if got.shape != E.shape or not np.allclose(got, E, atol=1e-12):
            out.append("%s %s: matrix\n%s\nexpected\n%s" % (name, shape, np.round(got, 6).tolist(), np.round(E, 6).tolist()))
        elif not np.allclose(gadj, E.T, atol=1e-12):
            out.append("%s %s: the adjoint is not the transpose" % (name, shape))
    return out


def check_nufft(ift, inst):
    out = []
    shape = tuple(inst["shape"])
    dist = tuple(float(fr(d)) for d in inst["dist"])
    dom = ift.RGSpace(shape, distances=dist)
    pos = np.array([[float(fr(c)) for c in p] for p in inst["pts"]])
    T = np.zeros((inst["nout"], inst["nin"]))
    for o, i, n, d, _ in inst["ent"]:
        T[o, i] = n / d
    E = np.exp(2j * np.pi * T)                       # E[x, j] = exp(2 pi i x dst u_j)
    ops = [("Nufft", lambda: ift.Nufft(dom, pos, eps=1e-12))]
    if len(shape) == 2:
        ops.append(("Gridder", lambda: ift.Gridder(dom, pos, eps=1e-12)))
    for name, mk in ops:
        try:
            op = mk()
            npts = pos.shape[0]
            for j in range(npts):
                for c in (1., 1j):
                    v = np.zeros(npts, dtype=complex)
                    v[j] = c
                    got = op(ift.makeField(op.domain, v)).asnumpy().ravel()
                    exp = (c * E[:, j]).real
                    if not np.allclose(got, exp, atol=1e-9):
                        out.append("%s on %s distances %s, point %s, coefficient %s: %s, the Fourier sum gives %s" % (name, shape, dist, pos[j].tolist(), c, np.round(got, 8).tolist(), np.round(exp, 8).tolist()))
                        break
            for x in range(inst["nout"]):
                g = np.zeros(inst["nout"])
                g[x] = 1.
                got = op.adjoint_times(ift.makeField(op.target, g.reshape(shape))).asnumpy().ravel()
                if not np.allclose(got, np.conj(E[x, :]), atol=1e-9):
                    out.append("%s adjoint on %s, pixel %d: %s, expected %s" % (name, shape, x, np.round(got, 8).tolist(), np.round(np.conj(E[x, :]), 8).tolist()))
                    break
        except Exception as e:
            out.append("%s raised %s: %s" % (name, type(e).__name__, str(e)[:140]))
    # the same Fourier sum with the positions as INPUT (VariablePositionNufft, type 2): value E^H f, Jacobian with respect to the grid values E^H and
    # with respect to the coordinates -2 pi i x dst exp(-2 pi i x dst u) f(x) summed over the pixels
    try:
        npts = pos.shape[0]
        vp = ift.VariablePositionNufft(dom, npts, 1e-12)
        rs = np.random.RandomState(5)
        f = rs.standard_normal(shape) + 1j * rs.standard_normal(shape)
        x = ift.MultiField.from_dict({"grid": ift.makeField(dom, f), "coord": ift.makeField(vp.domain["coord"], pos)}, domain=vp.domain)
        EH = np.conj(E).T                                         # (points, pixels)
        exp = EH @ f.ravel()
        got = vp(x).asnumpy()
        lin = vp(ift.Linearization.make_var(x))
        if not np.allclose(got, exp, atol=1e-9) or not np.allclose(lin.val.asnumpy(), exp, atol=1e-9):
            out.append("VariablePositionNufft on %s distances %s at %s: %s, the Fourier sum gives %s" % (shape, dist, pos.tolist(), np.round(got, 8).tolist(), np.round(exp, 8).tolist()))
        grids = np.meshgrid(*[np.arange(n_) - n_ // 2 for n_ in shape], indexing="ij")
        zero_c = ift.makeField(vp.domain["coord"], np.zeros_like(pos))
        zero_g = ift.makeField(dom, np.zeros(shape, dtype=complex))
        for k in range(min(inst["nout"], 3)):
            e = np.zeros(inst["nout"], dtype=complex)
            e[k] = 1.
            jg = lin.jac(ift.MultiField.from_dict({"grid": ift.makeField(dom, e.reshape(shape)), "coord": zero_c}, domain=vp.domain)).asnumpy()
            if not np.allclose(jg, EH[:, k], atol=1e-9):
                out.append("VariablePositionNufft: Jacobian with respect to pixel %d is %s, expected %s" % (k, np.round(jg, 8).tolist(), np.round(EH[:, k], 8).tolist()))
                break
        for j in range(npts):
            for c_ in range(len(shape)):
                dp = np.zeros_like(pos)
                dp[j, c_] = 1.
                jc = lin.jac(ift.MultiField.from_dict({"grid": zero_g, "coord": ift.makeField(vp.domain["coord"], dp)}, domain=vp.domain)).asnumpy()
                expc = np.zeros(npts, dtype=complex)
                expc[j] = np.sum(EH[j] * f.ravel() * (-2j * np.pi * dist[c_] * grids[c_].ravel()))
                if not np.allclose(jc, expc, atol=1e-8):
                    out.append("VariablePositionNufft: Jacobian with respect to coordinate %d of point %d is %s, the derivative of the Fourier sum is %s" % (c_, j, np.round(jc, 7).tolist(), np.round(expc, 7).tolist()))
                    break
        # adjoint of the Jacobian with respect to the real inner product
        t = rs.standard_normal(npts) + 1j * rs.standard_normal(npts)
        d_g = rs.standard_normal(shape) + 1j * rs.standard_normal(shape)
        d_c = rs.standard_normal(pos.shape)
        d = ift.MultiField.from_dict({"grid": ift.makeField(dom, d_g), "coord": ift.makeField(vp.domain["coord"], d_c)}, domain=vp.domain)
        lhs = np.vdot(t, lin.jac(d).asnumpy()).real
        back = lin.jac.adjoint_times(ift.makeField(vp.target, t))
        rhs = np.vdot(back["grid"].asnumpy(), d_g).real + np.vdot(back["coord"].asnumpy(), d_c).real
        if not np.isclose(lhs, rhs, rtol=1e-8, atol=1e-9):
            out.append("VariablePositionNufft: Re<t, J d> = %.9g but Re<J^H t, d> = %.9g" % (lhs, rhs))
    except Exception as e:
        out.append("VariablePositionNufft raised %s: %s" % (type(e).__name__, str(e)[:140]))
    return out


KINDS = ("interp1", "interp2", "regrid", "zeropad", "mask", "nufft1", "nufft2")
LAWS = "INVARIANT RowSumsOne\nINVARIANT InRange\nINVARIANT PartialPermutation\nINVARIANT MaskOrder\nINVARIANT NonNegWeights\nINVARIANT TurnsInRange\n"


def _jenv():
    import jax
    jax.config.update("jax_enable_x64", True)
    import jax.numpy as jnp
    import nifty.re as jft
    import importlib
    return jax, jnp, jft, importlib.import_module("nifty.re.extra.sampling_los")


def run(ctx):
    import nifty.cl as ift
    q = ctx.quick
    jenv = _jenv()
    grids = [(4, 3)] if q else [(4, 3), (3, 4), (2, 2)]
    nw = 0
    for nx, ny in grids:
        cfg = "CONSTANTS NX = %d\nNY = %d\nNSamp = 4\n" % (nx, ny)
        ctx.tlc("LosTraverse", cfg + "SPECIFICATION FairSpec\nINVARIANT Once\nINVARIANT Total\nINVARIANT AtMostOne\nPROPERTY Ends\n", label="walks on %dx%d" % (nx, ny), deadlock=False)
        r = ctx.tlc("LosTraverse", cfg + "SPECIFICATION Spec\nINVARIANT NeverPartial\n", label="witness NeverPartial", expect_ok=False, deadlock=False)
        if r.violated != "NeverPartial":
            raise tlcmod.MachineryError("vacuity witness not refuted")
        e = ctx.tlc("LosTraverse", cfg + "SPECIFICATION Spec\nINVARIANT Emit\n", label="emit walks %dx%d" % (nx, ny), workers=1, deadlock=False)
        walks = e.emitted
        if len(walks) < 100:
            raise tlcmod.MachineryError("too few walks: %d" % len(walks))
        nw += len(walks)
        with quiet():
            bad = check_los(ift, walks, (nx, ny)) + check_sampling_los(jenv, walks, (nx, ny))
        for w in walks:
            ctx.case(("los", nx, ny, json.dumps([w["p"], w["q"], w["dist"]])))
        for w, msg in bad:
            ctx.violation(dict(kind="los", operator=msg.split(":")[0].split("(")[0]), msg, replay=dict(walk=w, shape=[nx, ny]))
    ctx.sample(dict(walk={k: walks[len(walks) // 3][k] for k in ("p", "q", "dist", "cells")}))
    ni = 0
    for kind in KINDS:
        r = ctx.tlc("IndexOps", 'CONSTANTS Kind = "%s"\nSPECIFICATION Spec\n' % kind + LAWS + "INVARIANT Emit\n", label=kind, workers=1, deadlock=False)
        insts = r.emitted
        if q and len(insts) > 120:
            insts = [x for i, x in enumerate(insts) if i % 3 == ctx.seed % 3]
        ni += len(insts)
        with quiet():
            for inst in insts:
                ctx.case((kind, json.dumps([inst["shape"], inst["dist"], inst["pts"]])))
                for msg in check_index_op(ift, inst):
                    ctx.violation(dict(kind=kind, operator=msg.split(":")[0].split(" ")[0]), msg[:700], replay=dict(instance=inst))
    ctx.traces += nw + ni
    ctx.notes["walks"] = nw
    ctx.notes["index_operator_instances"] = ni
    ctx.assume("LOSResponse stores float32 weights and moves end points by 1e-7 away from grid crossings: rows are compared to 2e-5",
               "sampling integrator: only segments whose sampling points lie inside the index range; order 0 only where no sampling point is half way between two pixels",
               "Nufft / Gridder are run with eps = 1e-12 and compared to 1e-9; cos/sin of the exact fraction of a turn are evaluated by NumPy")


def replay(ctx, doc):
    import nifty.cl as ift
    c = doc["case"]
    with quiet():
        if "walk" in c:
            msgs = [m for _, m in check_los(ift, [c["walk"]], tuple(c["shape"])) + check_sampling_los(_jenv(), [c["walk"]], tuple(c["shape"]))]
        else:
            msgs = check_index_op(ift, c["instance"])
    for m in msgs:
        ctx.violation(doc.get("key", dict(kind="replay")), m[:700], replay=c)
    ctx.case("replay")
    ctx.case("replay2")
    ctx.sample(dict(replayed=list(c.keys())))
    ctx.states = ctx.transitions = 1


def selftest(ctx):
    import nifty.cl as ift
    r = tlcmod.run("IndexOps", 'CONSTANTS Kind = "regrid"\nSPECIFICATION Spec\nINVARIANT Emit\n', workers=1, timeout=900, deadlock=False)
    inst = next(i for i in r.emitted if i["shape"] == [5, 3])
    with quiet():
        good = check_index_op(ift, inst)
        inst["ent"][0][2] += 1
        bad = check_index_op(ift, inst)
    return dict(ok=(good == [] and len(bad) > 0), mutation="one expected weight changed")
