"""C31, flat and sparse index maps (FlatGrid.tla): every table TLC emits (serial / nest index of every voxel of every level, the sparse
selection with children and parents as array indices) is replayed into nifty.re.multi_grid.FlatGrid and SparseGrid."""
import numpy as np

from vf import tlc as tlcmod


def replay_flat(inst, env):
    jax, jnp, G, GI = env
    out = []
    n = 0
    g = inst["g"]
    grid = G.Grid(shape0=tuple(g["shape0"]), splits=tuple(tuple(s) for s in g["splits"]))
    depth = len(g["splits"])
    levels = inst["levels"]
    tabs = []
    for lv in levels:
        cells = sorted(lv["cells"], key=lambda c: (c["i"], c["j"]))
        tabs.append(dict(idx=np.array([[c["i"] for c in cells], [c["j"] for c in cells]]), serial=np.array([c["serial"] for c in cells]), nest=np.array([c["nest"] for c in cells]),
                         shape=tuple(lv["shape"])))
    for ordering in ("serial", "nest"):
        try:
            fg = G.FlatGrid(grid, ordering=ordering)
        except Exception as e:
            out.append("FlatGrid(%s) raised %s: %s" % (ordering, type(e).__name__, str(e)[:100]))
            continue
        for l, t in enumerate(tabs):
            n += t["idx"].shape[1]
            tag = "FlatGrid(%s) level %d" % (ordering, l)
            try:
                fa = fg.at(l)
                exp = t[ordering]
                got = np.asarray(fa.index2flatindex(jnp.asarray(t["idx"])))
                if got.shape != (1, exp.size) or not np.array_equal(got[0], exp):
                    out.append("%s: flat indices %s, expected %s" % (tag, got.ravel().tolist(), exp.tolist()))
                    continue
                back = np.asarray(fa.flatindex2index(jnp.asarray(exp[None, :])))
                if not np.array_equal(back, t["idx"]):
                    out.append("%s: flat index -> multi index does not invert the map" % tag)
                if int(np.asarray(fa.shape)[0]) != exp.size:
                    out.append("%s: the flat level has %s voxels, expected %d" % (tag, fa.shape, exp.size))
                lut = {(int(i), int(j)): int(f) for i, j, f in zip(t["idx"][0], t["idx"][1], exp)}
                n1, n2 = t["shape"]
                # neighbourhoods: the periodic 3 x 3 window around every voxel, in flat indices
                nb = np.asarray(fa.neighborhood(jnp.asarray(exp[None, :]), (3, 3)))
                expnb = np.array([[lut[((i + di) % n1, (j + dj) % n2)] for di in (-1, 0, 1) for dj in (-1, 0, 1)] for i, j in zip(t["idx"][0], t["idx"][1])])
                if nb.reshape(exp.size, -1).shape != expnb.shape or not np.array_equal(nb.reshape(exp.size, -1), expnb):
                    out.append("%s: the flat neighbourhood is not the flat index of the periodic 3 x 3 window" % tag)
                if l < depth:
                    tn = tabs[l + 1]
                    lutn = {(int(i), int(j)): int(f) for i, j, f in zip(tn["idx"][0], tn["idx"][1], tn[ordering])}
                    s1, s2 = g["splits"][l]
                    ch = np.asarray(fa.children(jnp.asarray(exp[None, :]))).reshape(exp.size, -1)
                    expch = np.array([[lutn[(i * s1 + u, j * s2 + v)] for u in range(s1) for v in range(s2)] for i, j in zip(t["idx"][0], t["idx"][1])])
                    if ch.shape != expch.shape or not np.array_equal(np.sort(ch, axis=1), np.sort(expch, axis=1)):
                        out.append("%s: the children in flat indices are %s, expected %s" % (tag, ch[:2].tolist(), expch[:2].tolist()))
                    if ordering == "nest" and not np.array_equal(np.sort(ch, axis=1), exp[:, None] * (s1 * s2) + np.arange(s1 * s2)[None, :]):
                        out.append("%s: in nest ordering the children of f are not f S .. f S + S - 1" % tag)
                    ri = np.sort(np.asarray(fa.refined_indices()).ravel())
                    if not np.array_equal(ri, np.arange(exp.size)):
                        out.append("%s: refined_indices() is not every flat index" % tag)
                if l > 0:
                    tp = tabs[l - 1]
                    lutp = {(int(i), int(j)): int(f) for i, j, f in zip(tp["idx"][0], tp["idx"][1], tp[ordering])}
                    p1, p2 = g["splits"][l - 1]
                    par = np.asarray(fa.parent(jnp.asarray(exp[None, :]))).ravel()
                    exppar = np.array([lutp[(i // p1, j // p2)] for i, j in zip(t["idx"][0], t["idx"][1])])
                    if not np.array_equal(par, exppar):
                        out.append("%s: parents in flat indices %s, expected %s" % (tag, par.tolist(), exppar.tolist()))
                c1 = np.asarray(fa.index2coord(jnp.asarray(exp[None, :])))
                c2 = np.asarray(fa.grid_at_level.index2coord(jnp.asarray(t["idx"])))
                if not np.allclose(c1, c2):
                    out.append("%s: coordinates of the flat index differ from the coordinates of the multi index" % tag)
                cb = np.asarray(fa.coord2index(jnp.asarray(c2)))
                if not np.array_equal(cb.ravel(), exp):
                    out.append("%s: coordinate -> flat index does not invert" % tag)
            except Exception as e:
                out.append("%s raised %s: %s" % (tag, type(e).__name__, str(e)[:120]))
    # sparse selection
    try:
        sg = G.SparseGrid(grid, tuple(np.array(lv["mapping"], dtype=np.int64) for lv in levels))
        for l, lv in enumerate(levels):
            tag = "SparseGrid level %d" % l
            sa = sg.at(l)
            sp = lv["sparse"]
            m = len(sp)
            n += m
            ar = np.arange(m)[None, :]
            fl = np.asarray(sa.arrayindex2flatindex(jnp.asarray(ar))).ravel()
            if not np.array_equal(fl, np.array([s["flat"] for s in sp])):
                out.append("%s: array index -> flat index %s, the mapping is %s" % (tag, fl.tolist(), [s["flat"] for s in sp]))
            if int(np.asarray(sa.shape)[0]) != m:
                out.append("%s: %s voxels, the mapping has %d" % (tag, sa.shape, m))
            refined = np.array([s["refined"] for s in sp], dtype=bool)
            if l < depth:
                isr = np.asarray(sa._is_index_refined(jnp.asarray(ar))).ravel().astype(bool)
                if not np.array_equal(isr, refined):
                    out.append("%s: refined voxels %s, those with all children in the next mapping are %s" % (tag, isr.tolist(), refined.tolist()))
                ri = np.sort(np.asarray(sa.refined_indices()).ravel())
                if not np.array_equal(ri, np.nonzero(refined)[0]):
                    out.append("%s: refined_indices() %s, expected %s" % (tag, ri.tolist(), np.nonzero(refined)[0].tolist()))
                if refined.any():
                    rid = np.nonzero(refined)[0]
                    ch = np.asarray(sa.children(jnp.asarray(rid[None, :]))).reshape(rid.size, -1)
                    expch = np.array([sp[k]["children"] for k in rid])
                    if ch.shape != expch.shape or not np.array_equal(np.sort(ch, axis=1), np.sort(expch, axis=1)):
                        out.append("%s: children (array indices of the next level) %s, expected %s" % (tag, ch.tolist()[:3], expch.tolist()[:3]))
            if l > 0:
                par = np.asarray(sa.parent(jnp.asarray(ar))).ravel()
                if not np.array_equal(par, np.array([s["parent"] for s in sp])):
                    out.append("%s: parents (array indices of the previous level) %s, expected %s" % (tag, par.tolist(), [s["parent"] for s in sp]))
            fa = sa.to_flat_grid()
            c1 = np.asarray(sa.index2coord(jnp.asarray(ar)))
            c2 = np.asarray(fa.index2coord(jnp.asarray(fl[None, :])))
            if not np.allclose(c1, c2):
                out.append("%s: coordinates differ from those of the flat grid" % tag)
            back, valid = sa.coord2index(jnp.asarray(c1), return_valid=True)
            if not np.array_equal(np.asarray(back).ravel(), ar.ravel()) or not bool(np.all(np.asarray(valid))):
                out.append("%s: coordinate -> array index does not invert" % tag)
    except Exception as e:
        out.append("SparseGrid raised %s: %s" % (type(e).__name__, str(e)[:140]))
    return out, n


def run_flat(ctx, env):
    r = ctx.tlc("FlatGrid", "SPECIFICATION Spec\nINVARIANT Laws\nINVARIANT Emit\n", label="flat / sparse index maps of two-axis grids", workers=1, timeout=1500)
    w = ctx.tlc("FlatGrid", "SPECIFICATION Spec\nINVARIANT SameOrderings\n", label="witness SameOrderings", expect_ok=False)
    if w.violated != "SameOrderings":
        raise tlcmod.MachineryError("vacuity witness SameOrderings not refuted")
    insts = r.emitted
    if len(insts) < 40:
        raise tlcmod.MachineryError("too few flat grids emitted: %d" % len(insts))
    if ctx.quick:
        insts = insts[ctx.seed % 2::2]
    tot = 0
    for inst in insts:
        ctx.case(("flat", str(inst["g"])))
        msgs, n = replay_flat(inst, env)
        tot += n
        for m in msgs:
            ctx.violation(dict(kind="flat-grid", what=m.split(":")[0][:40]), "Grid(shape0=%s, splits=%s): %s" % (inst["g"]["shape0"], inst["g"]["splits"], m), replay=dict(flat=inst))
    ctx.traces += len(insts)
    ctx.notes["flat_grids"] = dict(grids=len(insts), indices=tot)
