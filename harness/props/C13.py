"""C13 - Gaussian sampling from covariance operators has the right covariance.

OpAlgebra.tla   (shared with C01) every slot also says whether the operator MUST be able to draw a sample forward / from its inverse
                (sf / si) and whether its matrix is Hermitian positive semi-definite (psd); TLC: SampLaw, PsdLaw
spec -> code    every emitted program is built with a sampling dtype (none / float64 / complex128) and draw_sample is turned into
                its exact linear map L from white noise to the sample by feeding unit excitations through the single noise entry
                point nifty.cl.random.Random.normal: covariance = L L^H - no Monte Carlo.  Verdict:
                  * an operator that must sample refuses, or an operator without sampling dtype / not PSD returns a sample
                  * the covariance of a returned sample differs from the operator (forward) or its inverse (from_inverse)
                  * the sample for zero excitation is not zero
                SamplingEnabler (numerical inversion of a sum) is checked on pairs of PSD slots with the solver tolerance"""
import json

import numpy as np

from props import C01
from vf import tlc as tlcmod
from vf.core import quiet

CFG = C01.CFG.replace("INVARIANT PsdLaw\n", "INVARIANT PsdLaw\nINVARIANT SampLaw\n")


class SBuilder(C01.Builder):
    def __init__(self, dtype):
        super().__init__()
        self.dtype = dtype

    def leaf(self, e):
        ift = self.ift
        k, a = e["k"], e["a"]
        dt = self.dtype
        if k == "scaling":
            return ift.ScalingOperator(self.spaces[a[1]], self.scal(a[0]), sampling_dtype=(None if dt is None else ({"a": dt, "b": dt} if a[1] == "MD" else dt)))
        if k == "diag":
            return ift.DiagonalOperator(self.diagfield(a[0], a[1]), sampling_dtype=dt)
        if k == "diag0":
            return ift.DiagonalOperator(self.diagfield(a[0], a[1]), domain=self.UU, spaces=0, sampling_dtype=dt)
        if k == "diag1":
            return ift.DiagonalOperator(self.diagfield(a[0], a[1]), domain=self.UU, spaces=1, sampling_dtype=dt)
        if k == "block":
            ops = {}
            for key, spec in zip("ab", a):
                if spec != "id":
                    x, y = spec.split(",")
                    ops[key] = ift.DiagonalOperator(self.diagfield(x, y), sampling_dtype=dt)
            return ift.BlockDiagonalOperator(self.MD, ops)
        return super().leaf(e)


class Noise:
    """replaces Random.normal: returns the unit excitation number `hot` of the concatenated noise stream (or zeros)"""

    def __init__(self, R):
        self.R = R
        self.orig = R.Random.normal
        self.count = 0
        self.hot = None

    def __enter__(self):
        me = self

        def normal(dtype, shape, mean=0., std=1.):
            n = int(np.prod(shape)) if shape != () else 1
            cplx = np.issubdtype(dtype, np.complexfloating)
            tot = 2 * n if cplx else n
            v = np.zeros(tot)
            if me.hot is not None and me.count <= me.hot < me.count + tot:
                v[me.hot - me.count] = 1.0
            me.count += tot
            if cplx:
                x = (v[:n] + 1j * v[n:]).reshape(shape).astype(dtype)
            else:
                x = v.reshape(shape).astype(dtype)
            return x * std + mean
        self.R.Random.normal = staticmethod(normal)
        return self

    def __exit__(self, *a):
        self.R.Random.normal = staticmethod(self.orig)
        return False


REFUSALS = (Exception,)       # any exception is a refusal (NotImplementedError, ValueError, RuntimeError, AttributeError for non-endomorphic operators)


def linear_map(b, op, from_inverse, R, call=None):
    """returns ('refuse', msg) or ('ok', L, mean_sample)"""
    call = call or (lambda: op.draw_sample(from_inverse=from_inverse))
    with Noise(R) as nz:
        nz.hot, nz.count = None, 0
        try:
            s0 = call()
        except REFUSALS as e:
            return ("refuse", "%s: %s" % (type(e).__name__, str(e)[:80]))
        if s0 is None:        # a sum of null operators returns no sample at all
            return ("refuse", "draw_sample returned None")
        n = nz.count
        mean = b.flat(s0)
        if not np.all(np.isfinite(mean)):
            # the inverse of an exactly singular diagonal (D - D collapses to a zero diagonal): NumPy's division by zero gives inf / nan with
            # a RuntimeWarning - not a usable sample; counted as a refusal (nothing silently plausible is returned)
            return ("refuse", "non-finite sample")
        cols = []
        for k in range(n):
            nz.hot, nz.count = k, 0
            cols.append(b.flat(call()) - mean)
    return ("ok", np.array(cols).T if cols else np.zeros((len(mean), 0)), mean)


def check_program(r, dtype_name, R):
    dt = {"none": None, "real": np.float64, "complex": np.complex128}[dtype_name]
    b = SBuilder(dt)
    out = []
    try:
        op = b.build(r["prog"])
    except Exception as e:
        if C01.singular_inverse(r):
            return []
        return [("build", "building the expression raised %s: %s" % (type(e).__name__, str(e)[:120]))]
    if r["dom"] != r["tgt"]:
        return out
    M, Mi = C01.mat(r["M"]), C01.mat(r["Mi"])
    for from_inverse, must, base, defined in ((False, r["sf"], M, r["hM"]), (True, r["si"], Mi, r["hMi"])):
        res = linear_map(b, op, from_inverse, R)
        must_now = must and dt is not None
        if res[0] == "refuse":
            if must_now:
                out.append(("refuses", "draw_sample(from_inverse=%s) refuses (%s) although the operator is a covariance built from sampling-enabled parts" % (from_inverse, res[1])))
            continue
        _, L, mean = res
        if defined:
            cov_ref = base
        else:
            # the denotation of this direction is not carried by the spec (e.g. the inverse of a sum): use the numerical inverse of
            # the other direction when it exists - a collapsed expression may legitimately sample it
            other, odef = (Mi, r["hMi"]) if not from_inverse else (M, r["hM"])
            cov_ref = np.linalg.inv(other) if odef and abs(np.linalg.det(other)) > 1e-12 else None
        herm_psd = cov_ref is not None and np.allclose(cov_ref, cov_ref.conj().T) and np.all(np.linalg.eigvalsh((cov_ref + cov_ref.conj().T) / 2) > -1e-12)
        if np.max(np.abs(mean)) > 1e-14:
            out.append(("mean", "draw_sample(from_inverse=%s): the sample for zero excitation is %s, not zero" % (from_inverse, np.round(mean, 6).tolist())))
        if cov_ref is None or not herm_psd:
            out.append(("no-refusal", "draw_sample(from_inverse=%s) returns a sample although the operator%s cannot represent a covariance (matrix %s)" % (
                from_inverse, "'s inverse" if from_inverse else "", None if cov_ref is None else np.round(cov_ref, 4).tolist())))
            continue
        cov = L @ L.conj().T
        # complex sampling dtype: real and imaginary part of every excitation have unit variance each (E|x|^2 = 2); a complex L under a REAL
        # sampling dtype only means that a complex operator (a bun) was applied to real excitations
        cplx_draw = dtype_name == "complex"
        ref = 2 * cov_ref if cplx_draw else cov_ref
        if cov.shape != ref.shape or not np.allclose(cov, ref, rtol=1e-10, atol=1e-12):
            out.append(("covariance", "draw_sample(from_inverse=%s, dtype=%s): covariance of the sample is %s, the operator%s is %s%s" % (
                from_inverse, dtype_name, np.round(cov, 6).tolist(), "'s inverse" if from_inverse else "", np.round(cov_ref, 6).tolist(), " (x2 for complex draws)" if cplx_draw else "")))
    return out


_R = None


def _work(args):
    global _R
    chunk, dtype_name = args
    if _R is None:
        from nifty.cl import random as R
        _R = R
    out = []
    with quiet():
        for r in chunk:
            out.append(check_program(r, dtype_name, _R))
    return out


def enabler_cases(ctx, progs, R):
    """SamplingEnabler(likelihood, prior): draws from the inverse of a sum by numerical inversion"""
    import nifty.cl as ift
    b = SBuilder(np.float64)
    cands = [r for r in progs if r["sf"] and r["si"] and r["dom"] == r["tgt"] and len(r["prog"]) <= 2]
    n = 0
    for r1 in cands[::3][:12]:
        for r2 in cands[1::4][:6]:
            if r1["dom"] != r2["dom"]:
                continue
            with quiet():
                a, c = b.build(r1["prog"]), b.build(r2["prog"])
                ic = ift.GradientNormController(tol_abs_gradnorm=1e-13, iteration_limit=200)
                se = ift.SamplingEnabler(a, c, ic)
                res = linear_map(b, se, True, R)
            n += 1
            ctx.case(("enabler", C01.describe(r1["prog"]), C01.describe(r2["prog"])))
            A, Cm = C01.mat(r1["M"]).real, C01.mat(r2["M"]).real
            ref = np.linalg.inv(A + Cm)
            if res[0] == "refuse":
                ctx.violation(dict(kind="enabler-refuses"), "SamplingEnabler(%s, %s) refuses to draw from the inverse: %s" % (C01.describe(r1["prog"]), C01.describe(r2["prog"]), res[1]),
                              replay=dict(enabler=[r1, r2]))
                continue
            L = res[1]
            cov = (L @ L.conj().T).real
            if not np.allclose(cov, ref, rtol=1e-8, atol=1e-10):
                ctx.violation(dict(kind="enabler-covariance"), "SamplingEnabler(%s, %s): covariance of inverse draws %s, (A+B)^-1 = %s" % (
                    C01.describe(r1["prog"]), C01.describe(r2["prog"]), np.round(cov, 6).tolist(), np.round(ref, 6).tolist()), replay=dict(enabler=[r1, r2]))
    return n


def run(ctx):
    from concurrent.futures import ProcessPoolExecutor
    from nifty.cl import random as R
    q = ctx.quick
    e1 = ctx.tlc("OpAlgebra", CFG % (1, "TRUE"), label="all leaves", workers=1)
    e2 = ctx.tlc("OpAlgebra", CFG % (2, "TRUE"), label="all 2-slot programs", workers=1, timeout=1500)
    f3 = ctx.tlc("OpAlgebra", (CFG % (3, "TRUE")).replace('Focus = "all"', 'Focus = "diag"'), label="all 3-slot programs over the focused leaves",
                 workers=1, timeout=3000)
    progs = e1.emitted + e2.emitted + f3.emitted
    if q:
        s3 = ctx.tlc("OpAlgebra", CFG % (3, "TRUE"), label="simulated 3-slot programs", workers=1, simulate=600, depth=4, seed=ctx.seed + 13, timeout=1500)
        progs += s3.emitted
    else:
        e3 = ctx.tlc("OpAlgebra", CFG % (3, "TRUE"), label="all 3-slot programs", workers=1, timeout=3000)
        progs += e3.emitted
    seen, uniq = set(), []
    for r in progs:
        if r["dom"] != r["tgt"]:
            continue
        key = json.dumps(r["prog"], sort_keys=True)
        if key not in seen:
            seen.add(key)
            uniq.append(r)
    must = [r for r in uniq if r["sf"] or r["si"]]
    if len(must) < 10:
        raise tlcmod.MachineryError("too few programs that must be samplable: vacuous")
    jobs = []
    for dtn in ("real", "complex", "none"):
        sel = uniq if dtn == "real" or not q else uniq[::3]
        for i in range(0, len(sel), 40):
            jobs.append((sel[i:i + 40], dtn))
    with ProcessPoolExecutor(12) as ex:
        results = list(ex.map(_work, jobs))
    n = 0
    for (chunk, dtn), res in zip(jobs, results):
        for r, viols in zip(chunk, res):
            n += 1
            ctx.case((dtn, json.dumps(r["prog"], sort_keys=True)))
            for kind, msg in viols:
                ops = sorted({e["op"] for e in r["prog"] if e["op"] != "leaf"})
                leaves = sorted({e["k"] for e in r["prog"] if e["op"] == "leaf"})
                ctx.violation(dict(kind=kind, ops=ops, leaves=leaves, dtype=dtn), "%s [sampling dtype %s]: %s" % (C01.describe(r["prog"]), dtn, msg), replay=dict(program=r, dtype=dtn))
    ne = enabler_cases(ctx, uniq, R)
    ctx.traces += n + ne
    ctx.sample(dict(program=C01.describe(must[len(must) // 2]["prog"]), must_sample_forward=must[len(must) // 2]["sf"], must_sample_inverse=must[len(must) // 2]["si"]))
    ctx.notes.update(programs=len(uniq), must_sample=len(must), enabler_pairs=ne)
    ctx.assume("the distribution of a sample is characterised exactly by its linear map from white noise (Random.normal is the single noise entry point); "
               "complex sampling dtypes follow the library's convention: real and imaginary part each carry the covariance",
               "an operator that the rules do not oblige to sample may do so if its matrix is Hermitian PSD and the covariance is right")


def replay(ctx, doc):
    from nifty.cl import random as R
    c = doc["case"]
    if "program" in c:
        with quiet():
            res = check_program(c["program"], c.get("dtype", "real"), R)
        for kind, msg in res:
            ctx.violation(doc.get("key", dict(kind=kind)), "%s: %s" % (C01.describe(c["program"]["prog"]), msg), replay=c)
    ctx.case("replay")
    ctx.case("replay2")
    ctx.sample(dict(replayed=str(c)[:300]))
    ctx.states = ctx.transitions = 1


def selftest(ctx):
    from nifty.cl import random as R
    r = tlcmod.run("OpAlgebra", CFG % (1, "TRUE"), workers=1)
    good = next(x for x in r.emitted if x["prog"][0]["k"] == "diag" and x["sf"])
    bad = json.loads(json.dumps(good))
    bad["M"]["rows"][0][0]["re"] *= 3
    with quiet():
        a, b_ = check_program(good, "real", R), check_program(bad, "real", R)
    return dict(ok=(a == [] and any(k == "covariance" for k, _ in b_)), mutation="expected covariance entry tripled")
