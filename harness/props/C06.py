"""C06 - Field arithmetic and contractions follow array semantics with volumes.

FieldArith.tla  fields on tuples of one or two spaces (regular grids with uniform volume, a power space with non-uniform volumes, an
                unstructured domain without volume); sum / prod / vdot / integrate / mean / var / weight / norms defined on the index
                set in exact (complex) rationals; TLC: integrate = sum . weight, mean V = integrate, vdot(x,x) = |x|^2, two-step contraction
spec -> code    every instance (domain tuple, contracted spaces, values) is replayed into nifty.cl.Field for int64 / float64 / complex128
                values, partial and full contractions, the scalar (s_*) variants, MultiField counterparts and the rejection of
                operands on different domains"""
import json

import numpy as np

from vf import tlc as tlcmod
from vf.core import quiet


def cval(v):
    return complex(v[0][0] / v[0][1], v[1][0] / v[1][1])


def rv(v):
    return v[0] / v[1]


def spaces(ift):
    return {"G2": ift.RGSpace(2, 0.5), "G3": ift.RGSpace(3, 2.0), "P": ift.PowerSpace(ift.RGSpace(4, distances=0.25, harmonic=True)), "U2": ift.UnstructuredDomain(2)}


def check_instance(ift, inst):
    out = []
    sp = spaces(ift)
    dom = ift.DomainTuple.make(tuple(sp[n] for n in inst["dom"]))
    S = tuple(sorted(k - 1 for k in inst["S"]))
    full = len(S) == len(inst["dom"])
    xs = np.array([cval(v) for v in inst["x"]]).reshape(dom.shape)
    ys = np.array([cval(v) for v in inst["y"]]).reshape(dom.shape)
    dtypes = [np.complex128] if inst["cplx"] else [np.int64, np.float64]
    rshape = tuple(n for k, n in enumerate(dom.shape) if k not in S) if not full else ()

    def exp(name):
        return np.array([cval(v) for v in inst[name]]).reshape(rshape)

    for dt in dtypes:
        xa, ya = (xs.real.astype(dt), ys.real.astype(dt)) if dt is not np.complex128 else (xs, ys)
        x, y = ift.makeField(dom, xa.copy()), ift.makeField(dom, ya.copy())
        tag = "%s %s spaces=%s" % (inst["dom"], np.dtype(dt).name, S)

        def cmp(name, fn, expected, tol=0., must=True, contracted=False):
            try:
                got = fn()
            except Exception as e:
                if must:
                    out.append("%s: %s raised %s: %s" % (tag, name, type(e).__name__, str(e)[:100]))
                return
            g = np.asarray(got.asnumpy() if hasattr(got, "asnumpy") else got)
            e = np.asarray(expected)
            if not inst["cplx"] and np.iscomplexobj(e):
                e = e.real
            if g.shape != e.shape or not np.allclose(g, e, rtol=tol, atol=tol):
                out.append("%s: %s = %s, the array computation gives %s" % (tag, name, np.round(g, 10).tolist(), np.round(e, 10).tolist()))
            elif contracted and hasattr(got, "domain") and not full and tuple(got.domain) != tuple(d for k, d in enumerate(dom) if k not in S):
                out.append("%s: %s lives on %s" % (tag, name, got.domain))

        # point-wise arithmetic and comparisons = array semantics
        cmp("x + y", lambda: x + y, xa + ya)
        cmp("x - y", lambda: x - y, xa - ya)
        cmp("x * y", lambda: x * y, xa * ya)
        cmp("x / y", lambda: x / ift.makeField(dom, np.where(ya == 0, 1, ya)), xa / np.where(ya == 0, 1, ya), 1e-14)
        cmp("-x", lambda: -x, -xa)
        cmp("abs(x)", lambda: abs(x), np.abs(xa), 1e-14)
        cmp("3 - x", lambda: 3 - x, 3 - xa)
        cmp("x ** 2", lambda: x ** 2, xa ** 2)
        cmp("conjugate", lambda: x.conjugate(), np.conj(xa))
        if not inst["cplx"]:
            cmp("x < y", lambda: x < y, xa < ya)
            cmp("x >= y", lambda: x >= y, xa >= ya)
        cmp("x == y", lambda: x == y, xa == ya)
        # contractions
        cmp("sum", lambda: x.sum(S), exp("sum"), contracted=True)
        cmp("prod", lambda: x.prod(S), exp("prod"), 1e-12, contracted=True)
        cmp("vdot", lambda: x.vdot(y, spaces=S), exp("vdot"), contracted=True)
        if full:
            cmp("s_sum", lambda: x.s_sum(), exp("sum"))
            cmp("s_vdot", lambda: x.s_vdot(y), exp("vdot"))
            cmp("s_prod", lambda: x.s_prod(), exp("prod"), 1e-12)
        if inst["hasvol"]:
            cmp("integrate", lambda: x.integrate(S), exp("integrate"), 1e-14, contracted=True)
            cmp("total_volume", lambda: x.total_volume(S), rv(inst["totvol"]), 1e-14)
            cmp("mean", lambda: x.mean(S), exp("mean"), 1e-13, contracted=True)
            var = np.array([rv(v) for v in inst["var"]]).reshape(rshape)
            cmp("var", lambda: x.var(S), var, 1e-12, contracted=True)
            cmp("std**2", lambda: np.asarray(x.std(S).asnumpy()) ** 2, var, 1e-12)
            for nm, p in (("w1", 1), ("wm1", -1), ("w2", 2)):
                cmp("weight(%d)" % p, lambda p=p: x.weight(p, spaces=S), np.array([cval(v) for v in inst[nm]]).reshape(dom.shape), 1e-14)
            if full:
                cmp("s_integrate", lambda: x.s_integrate(), exp("integrate"), 1e-14)
                cmp("s_mean", lambda: x.s_mean(), exp("mean"), 1e-13)
                cmp("s_var", lambda: x.s_var(), var, 1e-12)
        else:
            for nm, fn in (("integrate", lambda: x.integrate(S)), ("mean", lambda: x.mean(S)), ("weight", lambda: x.weight(1, spaces=S)), ("total_volume", lambda: x.total_volume(S))):
                try:
                    fn()
                    out.append("%s: %s over a space without volume returns a result" % (tag, nm))
                except Exception:
                    pass
        # further array semantics of the Field interface
        cmp("+x", lambda: +x, xa)
        cmp("scale(3)", lambda: x.scale(3), 3 * xa)
        cmp("scale(1)", lambda: x.scale(1), xa)
        cmp("map", lambda: x.map(lambda v: v * 2 + 1), xa * 2 + 1)
        cmp("extract", lambda: x.extract(dom), xa)
        cmp("extract_part", lambda: x.extract_part(dom), xa)
        cmp("unite", lambda: x.unite(y), xa + ya)
        cmp("flexible_addsub(neg)", lambda: x.flexible_addsub(y, True), xa - ya)
        cmp("flexible_addsub", lambda: x.flexible_addsub(y, False), xa + ya)
        axes = tuple(a for k in S for a in dom.axes[k])
        cmp("(x == y).all(spaces)", lambda: (x == y).all(S), np.all(xa == ya, axis=axes), contracted=True)
        cmp("(x == y).any(spaces)", lambda: (x == y).any(S), np.any(xa == ya, axis=axes), contracted=True)
        cmp("s_all", lambda: bool((x == y).s_all()), bool(np.all(xa == ya)))
        cmp("s_any", lambda: bool((x == y).s_any()), bool(np.any(xa == ya)))
        cmp("real", lambda: x.real, xa.real)
        if dt is np.complex128:
            cmp("imag", lambda: x.imag, xa.imag)
        cmp("size", lambda: x.size, xa.size)
        cmp("astype(complex)", lambda: x.astype(np.complex128), xa.astype(np.complex128))
        if not full and len(S) == 1:
            # broadcasting the contracted field back along the contracted space repeats it along that axis
            k = S[0]
            cmp("sum(spaces).broadcast", lambda: x.sum(S).broadcast(k, dom[k]), np.broadcast_to(np.expand_dims(exp("sum"), dom.axes[k][0]), dom.shape))
        if inst["hasvol"] and full:
            cmp("s_std^2", lambda: x.s_std() ** 2, np.array([rv(v) for v in inst["var"]]).reshape(rshape), 1e-12)
        cmp("norm(2)^2", lambda: x.norm(2) ** 2, rv(inst["norm2sq"]), 1e-13)
        cmp("norm(inf)^2", lambda: x.norm(np.inf) ** 2, rv(inst["norminfsq"]), 1e-13)
        if not inst["cplx"]:
            cmp("norm(1)", lambda: x.norm(1), rv(inst["norm1"]), 1e-13)
        # multi-field counterparts
        try:
            mx = ift.MultiField.from_dict({"u": x, "v": y})
            my = ift.MultiField.from_dict({"u": y, "v": x})
            cat = lambda a, b: np.concatenate([np.ravel(a), np.ravel(b)])
            if not np.allclose(complex(mx.s_vdot(my)), np.vdot(cat(xa, ya), cat(ya, xa))):
                out.append("%s: MultiField.s_vdot differs from the dot product of the concatenated arrays" % tag)
            if not np.allclose(mx.norm(2) ** 2, np.sum(np.abs(cat(xa, ya)) ** 2)):
                out.append("%s: MultiField.norm differs" % tag)
            if not np.allclose(complex(mx.s_sum()), np.sum(cat(xa, ya))):
                out.append("%s: MultiField.s_sum differs" % tag)
            s = mx + my
            if not (np.array_equal(s["u"].asnumpy(), xa + ya) and np.array_equal((mx * my)["v"].asnumpy(), ya * xa)):
                out.append("%s: MultiField arithmetic differs" % tag)
            for nm, got, e_u, e_v in (("real", lambda: mx.real, xa.real, ya.real), ("conjugate", lambda: mx.conjugate(), np.conj(xa), np.conj(ya)), ("abs", lambda: abs(mx), np.abs(xa), np.abs(ya)),
                                      ("-", lambda: -mx, -xa, -ya), ("astype", lambda: mx.astype({"u": np.complex128, "v": np.complex128}), xa.astype(complex), ya.astype(complex))) + \
                    ((("imag", lambda: mx.imag, xa.imag, ya.imag),) if dt is np.complex128 else (("clip", lambda: mx.clip(-1, 2), np.clip(xa, -1, 2), np.clip(ya, -1, 2)),)):
                g_ = got()
                if not (np.allclose(g_["u"].asnumpy(), e_u, rtol=1e-14, atol=0) and np.allclose(g_["v"].asnumpy(), e_v, rtol=1e-14, atol=0)):
                    out.append("%s: MultiField.%s differs from the per-key array result" % (tag, nm))
            if mx.size != xa.size + ya.size:
                out.append("%s: MultiField.size %s" % (tag, mx.size))
            eq = ift.MultiField.from_dict({"u": x == y, "v": y == x})
            if bool(eq.s_all()) != bool(np.all(xa == ya)) or bool(eq.s_any()) != bool(np.any(xa == ya)):
                out.append("%s: MultiField.s_all / s_any differ from all / any over the concatenated arrays" % tag)
            rw = mx.val_rw()
            rw["u"][(0,) * xa.ndim] = 99
            if mx["u"].asnumpy()[(0,) * xa.ndim] == 99 and xa[(0,) * xa.ndim] != 99:
                out.append("%s: MultiField.val_rw() hands out the field's own buffer" % tag)
        except Exception as e:
            out.append("%s: MultiField counterpart raised %s: %s" % (tag, type(e).__name__, str(e)[:100]))
        # operands on different domains are rejected (same shape, another space)
        other = {"G2": ift.RGSpace(2, 1.0), "G3": ift.RGSpace(3, 1.0), "P": ift.UnstructuredDomain(3), "U2": ift.RGSpace(2, 0.5)}
        odom = ift.DomainTuple.make(tuple(other[n] if k == 0 else sp[n] for k, n in enumerate(inst["dom"])))
        z = ift.makeField(odom, ya.copy())
        for nm, fn in (("x + z", lambda: x + z), ("x * z", lambda: x * z), ("vdot", lambda: x.vdot(z)), ("x < z", lambda: x < z)):
            try:
                fn()
                out.append("%s: %s with z on the different domain %s is not rejected" % (tag, nm, odom))
            except Exception:
                pass
    return out


def run(ctx):
    import nifty.cl as ift
    insts = []
    for c in ("FALSE", "TRUE"):
        r = ctx.tlc("FieldArith", "CONSTANTS Cplx = %s\nSPECIFICATION Spec\nINVARIANT IntegrateLaw\nINVARIANT MeanLaw\nINVARIANT SelfDot\nINVARIANT VarLaw\nINVARIANT TwoStep\nINVARIANT Emit\n" % c,
                    label="fields, complex = " + c, workers=1, deadlock=False, timeout=1500)
        insts += r.emitted
    if len(insts) < 150:
        raise tlcmod.MachineryError("too few instances: %d" % len(insts))
    with quiet():
        for inst in insts:
            ctx.case((inst["cplx"], json.dumps(inst["dom"]), json.dumps(inst["S"]), json.dumps(inst["x"][:2])))
            for msg in check_instance(ift, inst):
                ctx.violation(dict(kind="field", op=msg.split(": ")[1].split(" ")[0], intdtype=("int64" in msg)), msg, replay=dict(instance=inst))
    ctx.traces += len(insts)
    ctx.sample(dict(instance={k: insts[11][k] for k in ("dom", "S", "x", "sum", "integrate", "mean")}))
    ctx.exhaustive = True
    ctx.assume("spaces: two regular grids (uniform volume), one power space (volumes 1/4, 1/2, 1/4), one unstructured domain; at most two spaces per domain tuple",
               "sphere pixelisations are covered by the volume laws of C08, not here")


def replay(ctx, doc):
    import nifty.cl as ift
    with quiet():
        for msg in check_instance(ift, doc["case"]["instance"]):
            ctx.violation(doc.get("key", dict(kind="field")), msg, replay=doc["case"])
    ctx.case("replay")
    ctx.case("replay2")
    ctx.sample(dict(replayed=doc["case"]["instance"]["dom"]))
    ctx.states = ctx.transitions = 1


def selftest(ctx):
    import nifty.cl as ift
    r = tlcmod.run("FieldArith", "CONSTANTS Cplx = FALSE\nSPECIFICATION Spec\nINVARIANT Emit\n", workers=1, timeout=900, deadlock=False)
    inst = next(i for i in r.emitted if i["dom"] == ["P", "G2"] and i["S"] == [1])
    with quiet():
        good = check_instance(ift, inst)
        inst["integrate"][0][0][0] += 1
        bad = check_instance(ift, inst)
    return dict(ok=(all("int64" in g for g in good) and any("integrate" in m for m in bad)), mutation="one expected integral changed", clean=good[:2])
