"""C19, the sample container of the JAX VI code (SamplesAlg.tla): histories of make / at / at(old_pos) / squeeze enumerated by TLC are
replayed into nifty.re.evi.Samples; after every operation the position, the residuals, the samples, their number and the items must be
those of the specification; at() without a position must be refused."""
import numpy as np

from vf import tlc as tlcmod

CFG = "CONSTANTS MaxOps = %d\nSPECIFICATION Spec\n"


def replay_hist(inst, env):
    jax, jnp, jft = env
    out = []
    evi = __import__("importlib").import_module("nifty.re.evi")

    def tree(v):          # a vector of two integers as a dict-shaped position
        return jft.Vector({"u": jnp.asarray([float(v[0])]), "v": jnp.asarray([float(v[1])])})

    def stack(vs):
        return jft.Vector({"u": jnp.asarray([[float(v[0])] for v in vs]), "v": jnp.asarray([[float(v[1])] for v in vs])})

    def flat(t):
        t = t.tree if hasattr(t, "tree") else t
        return np.concatenate([np.asarray(t["u"]).reshape(-1, 1), np.asarray(t["v"]).reshape(-1, 1)], axis=1)
    s = None
    # abstract state of the specification, recomputed along the history
    pos, res = None, []
    for k, h in enumerate(inst["hist"]):
        op = h["op"]
        tag = "operation %d %s" % (k + 1, op)
        try:
            if op == "make":
                pos, res = (h["p"] or None), [list(v) for v in h["r"]]
                s = evi.Samples(pos=None if pos is None else tree(pos), samples=stack(res))
            elif op == "makebatched":
                pos = h["p"] or None
                rb = h["rb"]
                res = [list(v) for b in rb for v in b]
                s = evi.Samples(pos=None if pos is None else tree(pos),
                                samples=jft.Vector({"u": jnp.asarray([[[float(v[0])] for v in b] for b in rb]), "v": jnp.asarray([[[float(v[1])] for v in b] for b in rb])}))
                continue                # the batched container is only squeezed
            elif op == "at":
                before = flat(s._samples)
                s = s.at(tree(h["p"]))
                pos = list(h["p"])
                if not np.array_equal(flat(s._samples), before):
                    out.append("%s: moving the expansion point changed the residuals" % tag)
            elif op == "atold":
                absol = [[a + b for a, b in zip(pos, r)] for r in res] if pos is not None else res
                s = s.at(tree(h["p"]), old_pos=tree(h["o"]))
                res = [[a - b for a, b in zip(r, h["o"])] for r in absol]
                pos = list(h["p"])
            elif op == "squeeze":
                s = s.squeeze()
        except Exception as e:
            out.append("%s raised %s: %s" % (tag, type(e).__name__, str(e)[:120]))
            return out
        absol = np.array([[a + b for a, b in zip(pos, r)] for r in res] if pos is not None else res, dtype=float)
        if pos is None:
            # at() without a position and without old_pos is refused (the action is not enabled in the specification)
            try:
                s.at(tree([1, 1]))
                out.append("%s: at(pos) on a container without a position is accepted (the residuals would silently become samples around pos)" % tag)
            except ValueError:
                pass
            except Exception as e:
                out.append("%s: at(pos) on a container without a position raised %s instead of ValueError" % (tag, type(e).__name__))
        try:
            if (s.pos is None) != (pos is None) or (pos is not None and not np.array_equal(flat(s.pos)[0], np.array(pos, dtype=float))):
                out.append("%s: position %s, expected %s" % (tag, None if s.pos is None else flat(s.pos)[0].tolist(), pos))
            if not np.array_equal(flat(s._samples), np.array(res, dtype=float)):
                out.append("%s: residuals %s, expected %s" % (tag, flat(s._samples).tolist(), res))
            if not np.array_equal(flat(s.samples), absol):
                out.append("%s: samples %s, expected position + residuals = %s" % (tag, flat(s.samples).tolist(), absol.tolist()))
            if len(s) != len(res):
                out.append("%s: len() = %d, %d samples" % (tag, len(s), len(res)))
            items = [flat(x)[0] for x in s]
            if len(items) != len(res) or not all(np.array_equal(a, b) for a, b in zip(items, absol)):
                out.append("%s: iterating gives %s, expected %s" % (tag, [i.tolist() for i in items], absol.tolist()))
            if not np.array_equal(flat(s[len(res) - 1])[0], absol[-1]):
                out.append("%s: the last item is %s, expected %s" % (tag, flat(s[len(res) - 1])[0].tolist(), absol[-1].tolist()))
            # the container is a pytree: mapping the identity over it gives the same container back
            s2 = jax.tree_util.tree_map(lambda x: x, s)
            if not isinstance(s2, evi.Samples) or not np.array_equal(flat(s2.samples), absol) or (s2.pos is None) != (pos is None):
                out.append("%s: flattening and unflattening the container changes it" % tag)
        except Exception as e:
            out.append("%s: reading the container raised %s: %s" % (tag, type(e).__name__, str(e)[:120]))
    # final state as TLC computed it
    if not out:
        exp = np.array(inst["samples"], dtype=float)
        if not np.array_equal(flat(s.samples), exp):
            out.append("final samples %s, the specification's state is %s" % (flat(s.samples).tolist(), exp.tolist()))
    return out


def run_samples(ctx, env):
    ctx.tlc("SamplesAlg", CFG % 3 + "PROPERTY AtKeepsResiduals\nPROPERTY AtOldRebases\nPROPERTY SqueezeKeeps\n", label="sample container, histories of 3 operations")
    for inv in ("NeverRebasedWithoutPos", "NeverSqueezed"):
        w = ctx.tlc("SamplesAlg", CFG % 3 + "INVARIANT %s\n" % inv, label="witness " + inv, expect_ok=False)
        if w.violated != inv:
            raise tlcmod.MachineryError("vacuity witness %s not refuted" % inv)
    r = ctx.tlc("SamplesAlg", CFG % 3 + "INVARIANT Emit\n", label="emit histories", workers=1)
    hists = r.emitted
    if len(hists) < 200:
        raise tlcmod.MachineryError("too few histories: %d" % len(hists))
    step = 12 if ctx.quick else 3
    sel = hists[ctx.seed % step::step]
    for inst in sel:
        ctx.case(("samples", str([(h["op"], h["p"], h["o"]) for h in inst["hist"]]), str(inst["hist"][0]["r"] or inst["hist"][0]["rb"])))
        for msg in replay_hist(inst, env):
            ctx.violation(dict(kind="samples-container", op=msg.split(":")[0].split(" ")[-1]), "Samples %s: %s" % ([(h["op"], h["p"], h["o"]) for h in inst["hist"]], msg), replay=dict(samples_hist=inst))
    ctx.traces += len(sel)
    ctx.notes["sample_container_histories"] = len(sel)
