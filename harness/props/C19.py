"""C19 - The sampled KL energy is the sample average of the Hamiltonian.

LinGauss.tla   quadratic Hamiltonians of the linear Gaussian models: value and gradient of (1/n) sum_j H(m +- r_j) for two expansion points
               and two residuals, mirrored and not, exact in Rat; TLC: for mirrored samples KL = H(m) + 1/2 mean r^T Dinv r, grad KL = grad H
spec -> code   classic SampledKLEnergyClass on a ResidualSampleList with exactly these residuals (value, gradient, dense metric, at(),
               constant keys: gradient and metric restricted to the free keys, a minimiser step leaves constants untouched), the
               energy built by SampledKLEnergy (value = average of H over its own samples), JAX _kl_vg / _kl_met on a Samples object"""
import json

import numpy as np

from props import lingauss_common as lg
from vf import tlc as tlcmod
from vf.core import quiet

KEYCOLS = {"a": [0, 1], "b": [2]}


def vec(v):
    return np.array([lg.rv(x) for x in v])


def check_model(inst, env):
    import importlib
    jax, jnp, jft = env
    out = []
    Dinv = lg.mat(inst["Dinv"])
    pts = [vec(inst["m0"]), vec(inst["m1"])]
    res = [vec(r) for r in inst["resid"]]
    cm = lg.ClModel(inst)
    ift = cm.ift
    kle = importlib.import_module("nifty.cl.minimization.kl_energies")
    rm = lg.ReModel(inst, env)
    okl = importlib.import_module("nifty.re.optimize_kl")
    for rec in inst["kl"]:
        mirror, at = rec["mirror"], rec["at"]
        m = pts[at]
        val, grad = lg.rv(rec["val"]), vec(rec["grad"])
        rr = [r for r in res for _ in ((0, 1) if mirror else (0,))]
        neg = [bool(i % 2) for i in range(len(rr))] if mirror else [False] * len(rr)
        tag = "mirrored=%s at m%d" % (mirror, at)
        # ---- classic -------------------------------------------------------------------------------------------------------
        try:
            sl = ift.ResidualSampleList(cm.field(pts[0]), [cm.field(r) for r in rr], neg)
            for K in ([], ["a"], ["b"]):
                free = [c for k in ("a", "b") if k not in K for c in KEYCOLS[k]]
                e = kle.SampledKLEnergyClass(sl, cm.H, K, None, False)
                if at == 1:
                    newpos = cm.field(np.where([c in free for c in range(3)], pts[1], pts[0]))
                    e = e.at(newpos if not K else newpos.extract_by_keys([k for k in ("a", "b") if k not in K]))
                    if K:
                        continue          # with constants the expansion point of the specification (all keys moved) is not reached
                g = e.gradient
                if set(g.keys()) != {k for k in ("a", "b") if k not in K}:
                    out.append("classic %s constants=%s: the gradient has the keys %s" % (tag, K, sorted(g.keys())))
                    continue
                gf = np.concatenate([np.atleast_1d(g[k].asnumpy()).ravel() for k in ("a", "b") if k not in K])
                if not np.allclose(gf, grad[free], rtol=1e-12, atol=1e-12):
                    out.append("classic %s constants=%s: gradient %s, the average of the gradients of H is %s" % (tag, K, gf.tolist(), grad[free].tolist()))
                if not K and not np.isclose(float(e.value), val, rtol=1e-12):
                    out.append("classic %s: value %r, the average of H over the samples is %r" % (tag, float(e.value), val))
                # metric: the average of the metrics = Dinv on the free keys
                M = np.zeros((len(free), len(free)))
                for ci, c in enumerate(free):
                    t = np.zeros(3)
                    t[c] = 1.
                    tf = cm.field(t)
                    if K:
                        tf = tf.extract_by_keys([k for k in ("a", "b") if k not in K])
                    r_ = e.apply_metric(tf)
                    M[:, ci] = np.concatenate([np.atleast_1d(r_[k].asnumpy()).ravel() for k in ("a", "b") if k not in K])
                if not np.allclose(M, Dinv[np.ix_(free, free)], rtol=1e-12, atol=1e-12):
                    out.append("classic %s constants=%s: metric %s, the average metric is %s" % (tag, K, M.tolist(), Dinv[np.ix_(free, free)].tolist()))
                if K and at == 0:
                    mini = ift.SteepestDescent(ift.GradientNormController(iteration_limit=2))
                    e2, _ = mini(e)
                    if any(k in e2.position.keys() for k in K):
                        out.append("classic %s constants=%s: the optimised position contains constant keys" % (tag, K))
                    smp = list(e2.samples.iterator())
                    for k in K:
                        want = pts[0][KEYCOLS[k]]
                        for s_, r_, ng in zip(smp, rr, neg):
                            if not np.allclose(np.atleast_1d(s_[k].asnumpy()).ravel(), want + (-1 if ng else 1) * r_[KEYCOLS[k]], atol=1e-13):
                                out.append("classic %s constants=%s: a minimiser step changed the constant key %s of the samples" % (tag, K, k))
                                break
        except Exception as ex:
            out.append("classic %s raised %s: %s" % (tag, type(ex).__name__, str(ex)[:140]))
        # ---- nifty.re -------------------------------------------------------------------------------------------------------
        try:
            signs = np.array([-1. if n_ else 1. for n_ in neg])
            arr = np.stack([s_ * r_ for s_, r_ in zip(signs, rr)])
            smp = jft.Samples(pos=rm.pos(pts[0]), samples=jft.Vector({"a": jnp.asarray(arr[:, :2]), "b": jnp.asarray(arr[:, 2:3])}))
            v, g = okl._kl_vg(rm.lh, rm.pos(m), smp)
            if not np.isclose(float(v), val, rtol=1e-12) or not np.allclose(lg.ReModel.flat(g), grad, rtol=1e-12, atol=1e-12):
                out.append("nifty.re %s: _kl_vg gives %r / %s, the averages are %r / %s" % (tag, float(v), lg.ReModel.flat(g).tolist(), val, grad.tolist()))
            M = np.zeros((3, 3))
            for c in range(3):
                t = np.zeros(3)
                t[c] = 1.
                M[:, c] = lg.ReModel.flat(okl._kl_met(rm.lh, rm.pos(m), rm.pos(t), smp))
            if not np.allclose(M, Dinv, rtol=1e-12, atol=1e-12):
                out.append("nifty.re %s: _kl_met gives %s, the average metric is %s" % (tag, M.tolist(), Dinv.tolist()))
            moved = smp.at(rm.pos(pts[1])).samples
            want = pts[1][None, :] + arr
            gotm = np.concatenate([np.asarray(moved.tree["a"]), np.asarray(moved.tree["b"])], axis=1)
            if not np.allclose(gotm, want, atol=1e-14):
                out.append("nifty.re %s: moving the expansion point does not keep the residuals" % tag)
        except Exception as ex:
            out.append("nifty.re %s raised %s: %s" % (tag, type(ex).__name__, str(ex)[:140]))
    # ---- the energy built by the library from its own samples: value = average of H over them -----------------------------------
    try:
        pos = cm.field(pts[0])
        for mirror, pe in ((True, []), (False, []), (True, ["b"])):
            kl = ift.SampledKLEnergy(pos, cm.H, 2, None, mirror_samples=mirror, point_estimates=pe)
            hs = [float(cm.H(s_).asnumpy()) for s_ in kl.samples.iterator()]
            if not np.isclose(float(kl.value), np.mean(hs), rtol=1e-12):
                out.append("classic SampledKLEnergy(mirror=%s, point_estimates=%s): value %r, the average of H over its samples is %r" % (mirror, pe, float(kl.value), np.mean(hs)))
            gs = [cm.H(ift.Linearization.make_var(s_)).gradient for s_ in kl.samples.iterator()]
            gavg = np.mean([lg.ClModel.flat(g_) for g_ in gs], axis=0)
            if not np.allclose(lg.ClModel.flat(kl.gradient), gavg, rtol=1e-11, atol=1e-12):
                out.append("classic SampledKLEnergy(mirror=%s, point_estimates=%s): gradient is not the average gradient" % (mirror, pe))
    except Exception as ex:
        out.append("classic SampledKLEnergy raised %s: %s" % (type(ex).__name__, str(ex)[:140]))
    out += nonlinear_consistency(inst, env, cm, rm)
    return out


def nonlinear_consistency(inst, env, cm, rm):
    """mildly non-linear versions of the model (response applied to tanh / exp of the parameters): the sampled KL value, gradient and
    metric must be the plain averages of the Hamiltonian's value, gradient and metric over expansion point + residual"""
    import importlib
    jax, jnp, jft = env
    out = []
    okl = importlib.import_module("nifty.re.optimize_kl")
    pts = [vec(inst["m0"]), vec(inst["m1"])]
    res = [vec(r) for r in inst["resid"]]
    arr = np.stack([res[0], -res[0], res[1], -res[1]])
    try:
        lh = jft.Gaussian(rm.d, noise_cov_inv=lambda x: rm.ninv * x, noise_std_inv=lambda x: jnp.sqrt(rm.ninv) * x).amend(
            lambda x: rm.fwd({"a": jnp.tanh(x["a"]), "b": jnp.exp(0.5 * x["b"])}), domain=jft.Vector({"a": jft.ShapeWithDtype((2,)), "b": jft.ShapeWithDtype((1,))}))
        ham = okl._StandardHamiltonian(lh)
        smp = jft.Samples(pos=rm.pos(pts[0]), samples=jft.Vector({"a": jnp.asarray(arr[:, :2]), "b": jnp.asarray(arr[:, 2:3])}))
        m = pts[1]
        v, g = okl._kl_vg(lh, rm.pos(m), smp)
        vs = [jax.value_and_grad(ham)(rm.pos(m + a)) for a in arr]
        if not np.isclose(float(v), np.mean([float(x[0]) for x in vs]), rtol=1e-12) or not np.allclose(lg.ReModel.flat(g), np.mean([lg.ReModel.flat(x[1]) for x in vs], axis=0), rtol=1e-11, atol=1e-12):
            out.append("nifty.re non-linear model: _kl_vg is not the average of the Hamiltonian's value and gradient over expansion point + residuals")
        t = rm.pos([1., -2., .5])
        met = lg.ReModel.flat(okl._kl_met(lh, rm.pos(m), t, smp))
        avg = np.mean([lg.ReModel.flat(ham.metric(rm.pos(m + a), t)) for a in arr], axis=0)
        if not np.allclose(met, avg, rtol=1e-11, atol=1e-12):
            out.append("nifty.re non-linear model: _kl_met %s is not the average metric %s over expansion point + residuals" % (met.tolist(), avg.tolist()))
    except Exception as ex:
        out.append("nifty.re non-linear model raised %s: %s" % (type(ex).__name__, str(ex)[:140]))
    # the JAX driver's KL minimisation with constant keys: the functions handed to the minimiser are the averages restricted to the free keys
    try:
        lh2 = jft.Gaussian(rm.d, noise_cov_inv=lambda x: rm.ninv * x, noise_std_inv=lambda x: jnp.sqrt(rm.ninv) * x).amend(
            lambda x: rm.fwd({"a": jnp.tanh(x["a"]) * x["b"][0], "b": jnp.exp(0.5 * x["b"])}), domain=jft.Vector({"a": jft.ShapeWithDtype((2,)), "b": jft.ShapeWithDtype((1,))}))
        ham2 = okl._StandardHamiltonian(lh2)
        m = pts[1]
        smp2 = jft.Samples(pos=rm.pos(m), samples=jft.Vector({"a": jnp.asarray(arr[:, :2]), "b": jnp.asarray(arr[:, 2:3])}))
        ovi = okl.OptimizeVI(lh2, 1, jit=False)
        for K in (("a",), ("b",)):
            free = [c for k in ("a", "b") if k not in K for c in KEYCOLS[k]]
            got = {}

            def capture(_, x0, fun_and_grad, hessp, **kw):
                v, g = fun_and_grad(x0)
                t = jax.tree_util.tree_map(lambda z: jnp.ones_like(z) * 0.5, x0)
                got.update(v=float(v), g=np.concatenate([np.asarray(l).ravel() for l in jax.tree_util.tree_leaves(g)]),
                           h=np.concatenate([np.asarray(l).ravel() for l in jax.tree_util.tree_leaves(hessp(x0, t))]),
                           nfree=sum(np.asarray(l).size for l in jax.tree_util.tree_leaves(x0)))
                return jft.optimize.OptimizeResults(x0, True, 0, v, g) if hasattr(jft, "optimize") else importlib.import_module("nifty.re.optimize").OptimizeResults(x0, True, 0, v, g)
            kres = ovi.kl_minimize(smp2, minimize=capture, constants=K)
            vs = [jax.value_and_grad(ham2)(rm.pos(m + a)) for a in arr]
            gavg = np.mean([lg.ReModel.flat(x[1]) for x in vs], axis=0)[free]
            tfull = np.zeros(3)
            tfull[free] = 0.5
            havg = np.mean([lg.ReModel.flat(ham2.metric(rm.pos(m + a), rm.pos(tfull))) for a in arr], axis=0)[free]
            if got.get("nfree") != len(free):
                out.append("nifty.re kl_minimize(constants=%s): the minimiser is started on %s parameters, the free keys have %d" % (list(K), got.get("nfree"), len(free)))
            elif not np.isclose(got["v"], np.mean([float(x[0]) for x in vs]), rtol=1e-12) or not np.allclose(got["g"], gavg, rtol=1e-11, atol=1e-12):
                out.append("nifty.re kl_minimize(constants=%s): value / gradient handed to the minimiser are not the averages over the samples" % (list(K),))
            elif not np.allclose(got["h"], havg, rtol=1e-11, atol=1e-12):
                out.append("nifty.re kl_minimize(constants=%s): metric handed to the minimiser gives %s, the average metric on the free keys gives %s" % (list(K), got["h"].tolist(), havg.tolist()))
            if not np.allclose(lg.ReModel.flat(kres.x), m, atol=1e-14):
                out.append("nifty.re kl_minimize(constants=%s): the returned position lost the constant keys" % (list(K),))
    except Exception as ex:
        out.append("nifty.re kl_minimize with constants raised %s: %s" % (type(ex).__name__, str(ex)[:160]))
    try:
        ift = cm.ift
        kle = importlib.import_module("nifty.cl.minimization.kl_energies")
        nl = cm.Rop @ (ift.FieldAdapter(cm.da, "a").ptw("tanh").ducktape_left("a") + (0.5 * ift.FieldAdapter(cm.db, "b")).ptw("exp").ducktape_left("b"))
        lh = ift.GaussianEnergy(data=ift.makeField(cm.dd, cm.d), inverse_covariance=cm.Ninv) @ nl
        H = ift.StandardHamiltonian(lh, ic_samp=cm.ic, prior_sampling_dtype=np.float64)
        rr = [res[0], res[0], res[1], res[1]]
        neg = [False, True, False, True]
        sl = ift.ResidualSampleList(cm.field(pts[0]), [cm.field(r) for r in rr], neg)
        for K in ([], ["b"]):
            free = [c for k in ("a", "b") if k not in K for c in KEYCOLS[k]]
            e = kle.SampledKLEnergyClass(sl, H, K, None, False)
            newpos = cm.field(np.where([c in free for c in range(3)], pts[1], pts[0]))
            e = e.at(newpos if not K else newpos.extract_by_keys([k for k in ("a", "b") if k not in K]))
            full = lg.ClModel.flat(newpos)
            lins = [H(ift.Linearization.make_var(cm.field(full + a), want_metric=True)) for a in arr]
            gavg = np.mean([lg.ClModel.flat(l.gradient) for l in lins], axis=0)
            gf = np.concatenate([np.atleast_1d(e.gradient[k].asnumpy()).ravel() for k in ("a", "b") if k not in K])
            if not np.allclose(gf, gavg[free], rtol=1e-11, atol=1e-12):
                out.append("classic non-linear model constants=%s: gradient %s, the average gradient is %s" % (K, gf.tolist(), gavg[free].tolist()))
            if not K and not np.isclose(float(e.value), np.mean([float(l.val.asnumpy()) for l in lins]), rtol=1e-12):
                out.append("classic non-linear model: value is not the average of H")
            t = np.array([1., -2., .5])
            tf = cm.field(np.where([c in free for c in range(3)], t, 0.))
            mavg = np.mean([lg.ClModel.flat(l.metric(tf)) for l in lins], axis=0)
            got = e.apply_metric(tf if not K else tf.extract_by_keys([k for k in ("a", "b") if k not in K]))
            gm = np.concatenate([np.atleast_1d(got[k].asnumpy()).ravel() for k in ("a", "b") if k not in K])
            if not np.allclose(gm, mavg[free], rtol=1e-11, atol=1e-12):
                out.append("classic non-linear model constants=%s: metric %s, the average metric is %s" % (K, gm.tolist(), mavg[free].tolist()))
    except Exception as ex:
        out.append("classic non-linear model raised %s: %s" % (type(ex).__name__, str(ex)[:140]))
    return out


def run(ctx):
    env = lg.jax_env()
    models = lg.emit_models(ctx)
    with quiet():
        for inst in models:
            ctx.case(json.dumps([inst["R"], inst["ninv"], inst["d"]]))
            for msg in check_model(inst, env):
                ctx.violation(dict(kind="kl", impl=msg.split(" ")[0], what=msg.split(": ")[1][:24] if ": " in msg else ""), "R=%s ninv=%s d=%s: %s" % (inst["R"], [lg.rv(x) for x in inst["ninv"]], inst["d"], msg), replay=dict(model=inst))
    from props import C19_samples
    with quiet():
        C19_samples.run_samples(ctx, env[:3] if len(env) > 3 else env)
    ctx.traces += len(models)
    ctx.sample(dict(model={k: models[1][k] for k in ("R", "ninv", "d", "kl")}))
    ctx.exhaustive = True
    ctx.assume("quadratic Hamiltonians (the averages are exact rationals); with constant keys the value is compared only through its gradient and metric (the classic energy drops position-independent terms)")


def replay(ctx, doc):
    if "samples_hist" in doc["case"]:
        from props import C19_samples
        env = lg.jax_env()
        for m in C19_samples.replay_hist(doc["case"]["samples_hist"], env[:3] if len(env) > 3 else env):
            ctx.violation(doc.get("key", dict(kind="samples-container")), m, replay=doc["case"])
        ctx.case("replay")
        ctx.case("replay2")
        ctx.sample(dict(replayed="samples history"))
        ctx.states = ctx.transitions = 1
        return
    inst = doc["case"]["model"]
    with quiet():
        msgs = check_model(inst, lg.jax_env())
    for m in msgs:
        ctx.violation(doc.get("key", dict(kind="kl")), m, replay=doc["case"])
    ctx.case("replay")
    ctx.case("replay2")
    ctx.sample(dict(replayed=inst["R"]))
    ctx.states = ctx.transitions = 1


def selftest(ctx):
    r = tlcmod.run("LinGauss", "SPECIFICATION Spec\nINVARIANT Emit\n", workers=1, timeout=900, deadlock=False)
    inst = next(i for i in r.emitted if i["R"] == [[2, 0, 1], [-1, 1, 0]])
    env = lg.jax_env()
    with quiet():
        good = check_model(inst, env)
        inst["kl"][0]["grad"][1][0] += 1
        bad = check_model(inst, env)
    return dict(ok=(good == [] and len(bad) > 0), mutation="one entry of the expected KL gradient changed")
