"""C31 - Multi-grid index maps are consistent at every level.

MultiGrid.tla   shapes, children, parents, neighbourhoods (and coordinates / volumes of the periodic grid) of every index of every
                level of one-axis periodic, open (padded) and HEALPix (nested) grids; TLC: parent(child) = index, children partition
                the next level, refinement never creates volume, neighbourhoods stay inside (Laws), for 96 grids
spec -> code    every index of every level of every emitted grid is evaluated in the real Grid / OpenGrid / HEALPixGrid classes,
                also as one axis of a two-axis grid and of an MGrid (product grids act axis by axis), and compared
code -> spec    the laws of the statement are evaluated on the real outputs alone for a wider family: 2-axis grids, MGrid products,
                FlatGrid (serial and nest: flat <-> multi index bijection), HEALPix, logarithmic radial grids, open grids from
                SimpleOpenGrid: parent(children) = index, partition, coordinate and flat round trips, wrapped neighbourhoods,
                volume never created
FlatGrid.tla    serial / nest flat indices of two-axis grids and sparse selections of nest indices (children / parents as array indices):
                TLC: both orderings are bijections, in nest ordering the children of f are f S .. f S + S - 1; replayed into FlatGrid
                and SparseGrid (C31_flat.py)"""
import itertools

import numpy as np

from vf import tlc as tlcmod


def _env():
    import jax
    jax.config.update("jax_enable_x64", True)
    import jax.numpy as jnp
    from nifty.re.multi_grid import grid as G
    from nifty.re.multi_grid import grid_impl as GI
    return jax, jnp, G, GI


def build(g, G, GI, second_axis=False, amended=False):
    splits = tuple(g["splits"])
    pad = tuple(g["padding"])
    if amended:
        # the same grid obtained by amending the grid without its last level: Grid(shape0, splits[:-1]).amend(splits[-1])
        g0 = dict(g, splits=list(splits[:-1]), padding=list(pad[:-1]))
        base = build(g0, G, GI, second_axis)
        if g["kind"] == "healpix":
            return base.amend(added_depth=1)
        if g["kind"] == "open":
            return base.amend(((splits[-1], 2),), ((pad[-1], 0),)) if second_axis else base.amend((splits[-1],), (pad[-1],))
        return base.amend(((splits[-1], 2),)) if second_axis else base.amend((splits[-1],))
    if g["kind"] == "healpix":
        nside0 = int(round((g["shape0"] / 12) ** 0.5))
        return GI.HEALPixGrid(nside0=nside0, depth=len(splits))
    if second_axis:   # the emitted grid as axis 0 of a two-axis grid whose axis 1 is a fixed periodic / open companion
        if g["kind"] == "open":
            return G.OpenGrid(shape0=(g["shape0"], 4), splits=tuple((s, 2) for s in splits), padding=tuple((p, 0) for p in pad))
        return G.Grid(shape0=(g["shape0"], 3), splits=tuple((s, 2) for s in splits))
    if g["kind"] == "open":
        return G.OpenGrid(shape0=(g["shape0"],), splits=splits, padding=pad)
    return G.Grid(shape0=(g["shape0"],), splits=splits)


def replay_grid(r, env):
    jax, jnp, G, GI = env
    g = r["g"]
    out = []
    n = 0
    variants = [(False, False), (True, False)] if g["kind"] != "healpix" else [(False, False)]
    if len(g["splits"]) >= 2:
        variants += [(False, True)] + ([(True, True)] if g["kind"] != "healpix" else [])
    for second, amended in variants:
        try:
            real = build(g, G, GI, second, amended)
        except Exception as e:
            out.append("%s raised %s: %s" % ("amend" if amended else "construction", type(e).__name__, str(e)[:120]))
            continue

        def ix(i):
            return jnp.array([[i], [0]]) if second else jnp.array([i])
        for l, sh in enumerate(r["shapes"]):
            if int(real.at(l).shape[0]) != sh:
                out.append("level %d has %d pixels along the axis, expected %d" % (l, int(real.at(l).shape[0]), sh))
        for rec in r["children"]:
            l, i, cs = rec["l"], rec["i"], sorted(rec["cs"])
            n += 1
            ch = np.asarray(real.at(l).children(ix(i)))
            got = sorted(set(np.asarray(ch[0]).ravel().tolist()))
            if got != cs:
                out.append("children of index %d at level %d are %s, expected %s" % (i, l, got, cs))
            flat = ch.reshape(ch.shape[0], -1)
            par = np.asarray(real.at(l + 1).parent(jnp.asarray(flat)))[0].ravel().tolist()
            if any(p != i for p in par):
                out.append("parent of the children of index %d at level %d is %s" % (i, l, sorted(set(par))))
        if g["kind"] != "healpix":
            for rec in r["nbrs"]:
                l, i, nb = rec["l"], rec["i"], rec["nb"]
                n += 1
                w = (3, 1) if second else (3,)
                got = np.asarray(real.at(l).neighborhood(ix(i), w))[0].ravel().tolist()
                if got != list(nb):
                    out.append("neighbourhood of index %d at level %d is %s, expected %s" % (i, l, got, nb))
        if not second:
            for rec in r["coords"]:
                l, i = rec["l"], rec["i"]
                n += 1
                c = float(np.asarray(real.at(l).index2coord(jnp.array([i]))).ravel()[0])
                v = float(np.asarray(real.at(l).index2volume(jnp.array([i]))).ravel()[0])
                if abs(c - rec["num"] / rec["den"]) > 1e-14 or abs(v - 2.0 / rec["den"]) > 1e-14:
                    out.append("coordinate / volume of index %d at level %d are %r / %r, expected %r / %r" % (i, l, c, v, rec["num"] / rec["den"], 2.0 / rec["den"]))
                back = int(np.asarray(real.at(l).coord2index(jnp.array([c]))).ravel()[0])
                if back != i:
                    out.append("coord2index(index2coord(%d)) = %d at level %d" % (i, back, l))
    return out, n


def all_idx(shape):
    return np.array(list(itertools.product(*[range(s) for s in shape]))).T


def law_check(name, g, env, max_index=4000):
    """the laws of the statement on the real outputs alone"""
    jax, jnp, G, GI = env
    out = []
    n = 0
    for lvl in range(g.depth + 1):
        ga = g.at(lvl)
        shp = tuple(int(s) for s in np.atleast_1d(ga.shape))
        if int(np.prod(shp)) > max_index:
            continue
        idx = all_idx(shp)
        n += idx.shape[1]
        try:
            c = ga.index2coord(jnp.asarray(idx))
            back = np.asarray(ga.coord2index(c))
            if not np.array_equal(back, idx):
                out.append("%s: index -> coordinate -> index does not round-trip at level %d" % (name, lvl))
        except NotImplementedError:
            pass
        if lvl < g.depth:
            ri = np.asarray(ga.refined_indices()).reshape(len(shp), -1)
            ch = np.asarray(ga.children(jnp.asarray(ri)))
            gn = g.at(lvl + 1)
            par = np.asarray(gn.parent(jnp.asarray(ch.reshape(len(shp), -1)))).reshape(ch.shape)
            exp = ri.reshape(ri.shape + (1,) * (ch.ndim - 2))
            if not np.array_equal(par, np.broadcast_to(exp, ch.shape)):
                out.append("%s: parent(children(i)) != i at level %d" % (name, lvl))
            flat = ch.reshape(len(shp), -1).T
            uniq = set(map(tuple, flat))
            nshape = tuple(int(s) for s in np.atleast_1d(gn.shape))
            if len(uniq) != flat.shape[0]:
                out.append("%s: children of different indices overlap at level %d" % (name, lvl))
            if len(uniq) != int(np.prod(nshape)) or any(any(cc < 0 or cc >= m for cc, m in zip(t, nshape)) for t in uniq):
                out.append("%s: children do not partition level %d (%d distinct children for %s pixels)" % (name, lvl + 1, len(uniq), nshape))
            try:
                vch = np.asarray(gn.index2volume(jnp.asarray(ch.reshape(len(shp), -1)))).astype(float)
                vpar = np.asarray(ga.index2volume(jnp.asarray(ri))).astype(float)
                nper = flat.shape[0] // ri.shape[1]
                vch = np.broadcast_to(vch.reshape(-1) if vch.size > 1 else vch.ravel()[:1], (flat.shape[0],))
                vpar = np.broadcast_to(vpar.reshape(-1) if vpar.size > 1 else vpar.ravel()[:1], (ri.shape[1],))
                vsum = vch.reshape(ri.shape[1], nper).sum(1)
                if np.any(vsum > vpar * (1 + 1e-10)):
                    out.append("%s: refinement creates volume at level %d (children %s, parent %s)" % (name, lvl, vsum[:3], vpar[:3]))
            except NotImplementedError:
                pass
        try:
            nb = np.asarray(ga.neighborhood(jnp.asarray(idx), (3,) * len(shp)))
            for ax in range(len(shp)):
                if nb[ax].min() < 0 or nb[ax].max() >= shp[ax]:
                    out.append("%s: neighbourhood leaves the grid at level %d" % (name, lvl))
            centre = nb[(slice(None), slice(None)) + (1,) * len(shp)]
            if not np.array_equal(centre, idx):
                out.append("%s: the centre of the neighbourhood is not the index at level %d" % (name, lvl))
        except NotImplementedError:
            pass
    return out, n


def flat_check(name, fg, env):
    jax, jnp, G, GI = env
    out = []
    n = 0
    for lvl in range(fg.depth + 1):
        fa = fg.at(lvl)
        ga = fa.grid_at_level
        shp = tuple(int(s) for s in ga.shape)
        idx = all_idx(shp)
        n += idx.shape[1]
        fl = np.asarray(fa.index2flatindex(jnp.asarray(idx)))
        if sorted(fl.ravel().tolist()) != list(range(int(np.prod(shp)))):
            out.append("%s: multi index -> flat index is not a bijection at level %d" % (name, lvl))
        back = np.asarray(fa.flatindex2index(jnp.asarray(fl)))
        if not np.array_equal(back, idx):
            out.append("%s: flat index does not round-trip at level %d" % (name, lvl))
    return out, n


def wider_family(env, q):
    jax, jnp, G, GI = env
    grids = [
        ("grid 1d", G.Grid(shape0=(3,), splits=(2, 3))),
        ("grid 2d", G.Grid(shape0=(2, 3), splits=((2, 2), (3, 2)))),
        ("open 1d", G.OpenGrid(shape0=(5,), splits=(2, 2), padding=(1, 1))),
        ("open 2d", G.OpenGrid(shape0=(4, 5), splits=((2, 2), (2, 3)), padding=((1, 1), (1, 0)))),
        ("mgrid", G.MGrid(G.Grid(shape0=(2,), splits=(2, 2)), G.Grid(shape0=(3,), splits=(3, 2)))),
        ("mgrid open x periodic", G.MGrid(G.OpenGrid(shape0=(5,), splits=(2, 2), padding=(1, 1)), G.Grid(shape0=(2,), splits=(2, 3)))),
        ("healpix", GI.HEALPixGrid(nside0=1, depth=2)),
        ("simple open", GI.SimpleOpenGrid(min_shape=(6,), depth=2, desired_size0=6)),
        ("log radial", GI.LogGrid(r_min=0.5, r_max=8.0, min_shape=(6,), depth=2, desired_size0=6)),
    ]
    if not q:
        grids += [("grid 3 levels", G.Grid(shape0=(2, 2), splits=((2, 2), (2, 3), (3, 2)))),
                  ("healpix nside 2", GI.HEALPixGrid(nside0=2, depth=1)),
                  ("open 2d b", G.OpenGrid(shape0=(6, 4), splits=((3, 2), (2, 2)), padding=((1, 0), (1, 1)))),
                  ("hp x log", GI.HPLogRGrid(nside=2, r_min_shape=6, r_min=0.5, r_max=4.0, nside0=1))]
    out, n = [], 0
    for name, g in grids:
        try:
            o, k = law_check(name, g, env)
        except Exception as e:
            o, k = ["%s: %s: %s" % (name, type(e).__name__, str(e)[:150])], 0
        out += o
        n += k
    for ordering in ("nest", "serial"):
        fg = G.FlatGrid(G.Grid(shape0=(2, 3), splits=((2, 2), (3, 2))), ordering=ordering)
        o, k = flat_check("flat " + ordering, fg, env)
        out += o
        n += k
    return out, n, len(grids) + 2


def run(ctx):
    env = _env()
    r = ctx.tlc("MultiGrid", "SPECIFICATION Spec\nINVARIANT Laws\nINVARIANT Emit\n", label="all one-axis grids", workers=1, timeout=1200)
    grids = r.emitted
    if len(grids) < 50:
        raise tlcmod.MachineryError("too few grids emitted: %d" % len(grids))
    nidx = 0
    for rec in grids:
        g = rec["g"]
        key = (g["kind"], g["shape0"], tuple(g["splits"]), tuple(g["padding"]))
        ctx.case(key)
        viols, n = replay_grid(rec, env)
        nidx += n
        for msg in viols[:5]:
            ctx.violation(dict(kind="index-map", grid=g["kind"]), "%s grid shape0=%d splits=%s padding=%s: %s" % (g["kind"], g["shape0"], g["splits"], g["padding"], msg), replay=dict(grid=rec["g"]))
    viols, n2, ng = wider_family(env, ctx.quick)
    for msg in viols:
        ctx.violation(dict(kind="law", grid=msg.split(":")[0]), msg, replay=dict(what="law", grid=msg.split(":")[0]))
    from props import C31_flat
    C31_flat.run_flat(ctx, env)
    for k in range(ng):
        ctx.case(("law", k))
    ctx.traces += len(grids) + ng
    ctx.sample(dict(grid=grids[10]["g"], shapes=grids[10]["shapes"], children=grids[10]["children"][:3]))
    ctx.notes.update(grids=len(grids), indices_compared=nidx, indices_law_checked=n2)
    ctx.exhaustive = True
    ctx.assume("product grids act axis by axis: the one-axis specification is bound to one- and two-axis real grids; coordinates of the open / logarithmic grids "
               "are only checked through the round-trip and volume laws")


def replay(ctx, doc):
    env = _env()
    c = doc["case"]
    if "flat" in c:
        from props import C31_flat
        msgs, _ = C31_flat.replay_flat(c["flat"], env)
        for msg in msgs:
            ctx.violation(doc.get("key", dict(kind="flat-grid")), msg, replay=c)
    elif "grid" in c and isinstance(c["grid"], dict):
        r = tlcmod.run("MultiGrid", "SPECIFICATION Spec\nINVARIANT Emit\n", workers=1, timeout=1200)
        rec = next(x for x in r.emitted if x["g"] == c["grid"])
        viols, _ = replay_grid(rec, env)
        for msg in viols[:5]:
            ctx.violation(doc.get("key", dict(kind="index-map")), msg, replay=c)
    else:
        viols, _, _ = wider_family(env, False)
        for msg in viols:
            ctx.violation(doc.get("key", dict(kind="law")), msg, replay=c)
    ctx.case("replay")
    ctx.case("replay2")
    ctx.sample(dict(replayed=str(c)[:200]))
    ctx.states = ctx.transitions = 1


def selftest(ctx):
    env = _env()
    r = tlcmod.run("MultiGrid", "SPECIFICATION Spec\nINVARIANT Emit\n", workers=1, timeout=1200)
    rec = next(x for x in r.emitted if x["g"]["kind"] == "open" and len(x["children"]) > 2)
    good, _ = replay_grid(rec, env)
    rec["children"][0]["cs"] = [c + 1 for c in rec["children"][0]["cs"]]
    bad, _ = replay_grid(rec, env)
    return dict(ok=(good == [] and len(bad) > 0), mutation="expected children of one index shifted by one")
