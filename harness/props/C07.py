"""C07 - Fields are immutable once constructed.

Spec          FieldImmut.tla: array objects / wrappers / fields with per-object write flags and buffer versions.
TLC           Immutable + Protected in every reachable state (all histories up to MaxOps).
spec -> code  every behaviour TLC emits (exhaustive to a depth, simulated deeper) is replayed on real NumPy / AnyArray /
              Field objects; after every action every live field is compared with the snapshot taken at construction
              (the verdict) and the write outcome with the model's (fidelity, drift only).
code -> spec  a seeded random driver of the real objects records events which FieldImmutTrace.tla validates."""
import random
import tempfile

import numpy as np

from vf import tlc as tlcmod
from vf import trace as tracemod

WRITE_ERRORS = (ValueError, TypeError, RuntimeError)


class _Sub(np.ndarray):
    """an ndarray subclass (like np.memmap, np.recarray, astropy Quantity ...)"""


class World:
    """Real objects addressed by the model's ids (allocated in creation order, never freed)."""

    def __init__(self, geom="1d"):
        import nifty.cl as ift
        self.ift = ift
        self.geom = geom          # "1d": arrays of shape (4,) / (2,2); "0d": 0-d arrays on the scalar domain
        self.arrs = [None]
        self.wraps = [None]
        self.fields = [None]      # (Field, snapshot)
        self.ops = []             # (description, callable, first result)
        self.ctr = 0

    # -- helpers ---------------------------------------------------------------------------------------
    def dom(self, shape):
        if shape == ():
            return self.ift.DomainTuple.scalar_domain()
        return self.ift.DomainTuple.make(self.ift.RGSpace(shape))

    def new_arr(self, a):
        self.arrs.append(a)
        return len(self.arrs) - 1

    def new_wrap(self, x):
        self.wraps.append(x)
        return len(self.wraps) - 1

    def new_field(self, f):
        self.fields.append((f, np.array(f.raw, copy=True)))
        return len(self.fields) - 1

    def changed(self):
        bad = []
        for i, fs in enumerate(self.fields):
            if fs is None:
                continue
            f, snap = fs
            cur = f.raw
            if cur.shape != snap.shape or not np.array_equal(cur, snap):
                bad.append(i)
        for desc, fn, first in self.ops:
            try:
                now = fn()
            except Exception as e:      # an operator built from a field stopped working
                bad.append("op:%s raised %r" % (desc, e))
                continue
            if not np.array_equal(now, first):
                bad.append("op:" + desc)
        return bad

    def other_writable_alias(self, a):
        for b in self.arrs[1:]:
            if b is not a and b.flags.writeable and np.shares_memory(a, b):
                return True
        return False

    # -- the actions of FieldImmut.tla -------------------------------------------------------------------
    def do(self, a, k, x):
        """returns (result id, landed)"""
        ift = self.ift
        self.ctr += 1
        c = self.ctr
        if a == "NewArray":
            arr = (np.arange(4.) + 1 + c) * (1 + 0.5j)
            if self.geom == "0d":
                arr = np.array((1. + c) * (1 + 0.5j))
            if k == "memmap" and arr.ndim:
                mm = np.memmap(tempfile.TemporaryFile(), dtype=arr.dtype, mode="w+", shape=arr.shape)
                mm[...] = arr
                arr = mm
            elif k in ("subclass", "memmap"):
                arr = arr.view(_Sub)        # the only handle that is kept: the source array of everything that follows
            return self.new_arr(arr), False
        if a == "ViewOfArr":
            p = self.arrs[x]
            if k == "slice":
                v = p[::-1] if p.ndim else p[...]
            elif k == "reshape":
                v = p.reshape(()) if p.ndim == 0 else (p.reshape((2, 2)) if p.ndim == 1 else p.reshape(-1))
            else:
                v = p.real if np.iscomplexobj(p) else p.view()
            assert v is not p
            return self.new_arr(v), False
        if a == "WrapArr":
            return self.new_wrap(ift.AnyArray(self.arrs[x])), False
        if a == "ConstructFromArr":
            arr = self.arrs[x]
            d = self.dom(arr.shape)
            if k == "Field":
                f = ift.Field(d, arr)
            elif k == "from_raw":
                f = ift.Field.from_raw(d, arr)
            elif k == "makeField":
                f = ift.makeField(d, arr)
            elif k == "PS_field":
                if arr.shape == (4,):
                    f = ift.PS_field(ift.PowerSpace(ift.RGSpace(6, harmonic=True)), lambda kl, arr=arr: arr)    # a callable that hands out an array it keeps
                else:
                    f = ift.Field(d, arr)
            elif k == "mf_from_raw":
                md = ift.MultiDomain.make({"k": d, "z": self.dom((2,))})
                f = ift.MultiField.from_raw(md, {"k": arr, "z": np.ones(2)})["k"]
            else:
                f = ift.MultiField.from_dict({"k": ift.Field(d, arr)})["k"]
            self.new_wrap(f.val)
            return self.new_field(f), False
        if a == "ConstructFromWrap":
            w = self.wraps[x]
            d = self.dom(w.shape)
            f = ift.Field(d, w) if k == "Field" else ift.Field.from_raw(d, w)
            return self.new_field(f), False
        if a == "ConstructFromField":
            f = self.fields[x][0]
            g = f.cast_domain(ift.DomainTuple.make(ift.UnstructuredDomain(f.shape))) if f.shape else f.cast_domain(ift.DomainTuple.make(()))
            return self.new_field(g), False
        if a == "ConstructViewField":
            f = self.fields[x][0]
            if np.iscomplexobj(f.raw):
                g = f.real if c % 2 else f.imag
            else:
                g = ift.Field(f.domain, f.val.view())
            self.new_arr(g.raw)
            self.new_wrap(g.val)
            return self.new_field(g), False
        if a == "CopyField":
            f = self.fields[x][0]
            if k == "val_rw":
                w = f.val_rw()
                r = self.new_arr(w.val)
                self.new_wrap(w)
                return r, False
            return self.new_arr(f.asnumpy_rw()), False
        if a == "AsNumpy":
            f = self.fields[x][0]
            h = f.asnumpy()
            r = next((i for i, b in enumerate(self.arrs) if b is h), 0)
            return r, False
        if a == "ViewOfWrap":
            w = self.wraps[x]
            if k == "getitem":
                y = w[::-1] if w.ndim else w[...]
            elif k == "view":
                y = w.view()
            else:
                y = w.real if np.iscomplexobj(w.val) else w.view()
            self.new_arr(y.val)
            return self.new_wrap(y), False
        if a in ("WriteArr", "WriteWrapItem", "WriteWrapOut"):
            tgt = self.arrs[x] if a == "WriteArr" else self.wraps[x].val
            before = np.array(tgt, copy=True)
            try:
                self._write(a, k, x, c)
            except WRITE_ERRORS:
                pass
            return 0, not np.array_equal(before, tgt)
        if a == "UseField":
            self._use_field(self.fields[x][0], k)
            return 0, False
        if a == "UseOp":
            self._use_op(x, k)
            return 0, False
        raise tlcmod.MachineryError("unknown action " + a)

    def _write(self, a, k, x, c):
        ift = self.ift
        if a == "WriteArr":
            t = self.arrs[x]
            idx = (0,) * t.ndim
            if k == "setitem":
                t[idx] = 1000 + c
            elif k == "iadd":
                t += 1
            elif k == "ufunc_out":
                np.add(t, 1, out=t)
            elif k == "copyto":
                np.copyto(t, np.array(t) + 1)
            else:
                t.fill(2000 + c)
        elif a == "WriteWrapItem":
            w = self.wraps[x]
            if k == "setitem":
                w[(0,) * w.ndim] = 1000 + c
            else:
                w.__iadd__(ift.AnyArray(np.ones(w.shape, dtype=w.dtype)))
        else:
            w = self.wraps[x]
            if k == "ufunc_out":
                np.add(w, 1, out=w)
            else:
                np.copyto(w, w + 1)

    def _use_field(self, f, k):
        ift = self.ift
        try:
            if k == "arith":
                (f + f, f - 2 * f, f * f, f / (abs(f) + 1), 3 + f, f ** 2, -f)
            elif k == "weight":
                (f.weight(1), f.weight(-1), f.weight(2, spaces=0))
            elif k == "contract":
                (f.sum(), f.integrate(), f.mean(), f.var() if not np.iscomplexobj(f.raw) else f.sum(0), f.prod())
            elif k == "ptw":
                (f.ptw("exp"), f.ptw("tanh"), f.ptw_with_deriv("sin"), abs(f).ptw("sqrt"), f.clip(0, 1) if not np.iscomplexobj(f.raw) else f)
            elif k == "conj":
                (f.conjugate(), f.real, abs(f), f.astype(np.complex128))
            else:
                (f.vdot(f), f.s_vdot(f), f.norm(), f.norm(1), f.outer(f))
        except (TypeError, ValueError, AttributeError, NotImplementedError, IndexError):
            pass   # an unsupported combination (e.g. clip of a complex field) is not a write

    def _use_op(self, x, k):
        ift = self.ift
        f = self.fields[x][0]
        probe = ift.Field(f.domain, ift.AnyArray(np.arange(f.size, dtype=f.raw.dtype).reshape(f.shape) + 2.))
        try:
            if k == "diag":
                op = ift.DiagonalOperator(f)
                fn = lambda op=op, probe=probe: np.concatenate([op(probe).raw.ravel(), op.adjoint(probe).raw.ravel(),
                                                                op.inverse(probe).raw.ravel(), (2 * op)(probe).raw.ravel(),
                                                                (op + op)(probe).raw.ravel(), (op @ op.adjoint)(probe).raw.ravel()])
            elif k == "adder":
                op = ift.Adder(f)
                fn = lambda op=op, probe=probe: np.concatenate([op(probe).raw.ravel(), op(ift.Linearization.make_var(probe)).val.raw.ravel()])
            elif k == "gauss":
                if np.iscomplexobj(f.raw):
                    op = ift.GaussianEnergy(data=f, sampling_dtype=np.complex128)
                else:
                    op = ift.GaussianEnergy(data=f, sampling_dtype=np.float64)
                fn = lambda op=op, probe=probe: np.concatenate([np.atleast_1d(op(probe).raw).ravel(),
                                                                op(ift.Linearization.make_var(probe, True)).gradient.raw.ravel()])
            else:
                op = ift.makeOp(f)
                fn = lambda op=op, probe=probe: np.concatenate([op(probe).raw.ravel(), op.adjoint_times(probe).raw.ravel()])
            first = np.array(fn(), copy=True)
        except (TypeError, ValueError, AttributeError, NotImplementedError, IndexError):
            return
        if len(self.ops) < 12:
            self.ops.append(("%s(field %d)" % (k, x), fn, first))


def replay_hist(hist, geom="1d", aliases=False):
    """returns (violation description or None, drift description or None).  aliases=True: behaviours of the model with writable
    aliases made before the construction - a field may then change through such an alias (outside C07), but a write through a
    handle the model says is protected (the source array object itself, everything obtained from the field) must still not land"""
    w = World(geom)
    drift = None
    for i, e in enumerate(hist):
        try:
            r, landed = w.do(e["a"], e["k"], e["x"])
        except tlcmod.MachineryError:
            raise
        except Exception as ex:
            return None, "step %d %s(%s,%s) raised %r" % (i, e["a"], e["k"], e["x"], ex)
        if landed and not e["landed"] and e["a"].startswith("Write"):
            return "step %d %s(%s,%s): the write landed although the handle is write protected after the construction of a field" % (
                i, e["a"], e["k"], e["x"]), drift
        if drift is None and (r != e["r"] or landed != e["landed"]):
            drift = "step %d %s(%s,%s): model (r=%s, landed=%s) real (r=%s, landed=%s)" % (
                i, e["a"], e["k"], e["x"], e["r"], e["landed"], r, landed)
        bad = w.changed() if not aliases else None
        if bad:
            return "after step %d %s(%s,%s): field(s)/operator(s) %s differ from their construction snapshot" % (
                i, e["a"], e["k"], e["x"], bad), drift
    return None, drift


# ---- random driver for the code -> spec direction ---------------------------------------------------------
MAXA, MAXW, MAXF = 8, 8, 5


def record_trace(rng, nsteps, geom="1d", aliases=False):
    w = World(geom)
    tr = []
    nbuf = 0
    for _ in range(nsteps):
        na, nw, nf = len(w.arrs) - 1, len(w.wraps) - 1, len(w.fields) - 1
        cands = []
        if na < MAXA and nbuf < MAXA:
            cands += [("NewArray", k, 0) for k in ("own", "own", "subclass", "memmap")]
        for a in range(1, na + 1):
            if na < MAXA:
                cands += [("ViewOfArr", k, a) for k in ("slice", "reshape", "real")]
            if nw < MAXW:
                cands.append(("WrapArr", "AnyArray", a))
            if nw < MAXW and nf < MAXF and (aliases or not w.other_writable_alias(w.arrs[a])):
                cands += [("ConstructFromArr", k, a) for k in ("Field", "from_raw", "makeField", "mf_from_raw", "mf_from_dict", "PS_field")]
            cands += [("WriteArr", k, a) for k in ("setitem", "iadd", "ufunc_out", "copyto", "fill")]
        for x in range(1, nw + 1):
            if nf < MAXF and (aliases or not w.other_writable_alias(w.wraps[x].val)):
                cands += [("ConstructFromWrap", k, x) for k in ("Field", "from_raw")]
            if nw < MAXW and na < MAXA:
                cands += [("ViewOfWrap", k, x) for k in ("getitem", "view", "real")]
            cands += [("WriteWrapItem", k, x) for k in ("setitem", "iadd")] + [("WriteWrapOut", k, x) for k in ("ufunc_out", "copyto")]
        for f in range(1, nf + 1):
            cands.append(("AsNumpy", "asnumpy", f))
            if nf < MAXF:
                cands.append(("ConstructFromField", "cast_domain", f))
                if nw < MAXW and na < MAXA:
                    cands.append(("ConstructViewField", "real", f))
            if na < MAXA and nbuf < MAXA:
                if nw < MAXW:
                    cands.append(("CopyField", "val_rw", f))
                cands.append(("CopyField", "asnumpy_rw", f))
            cands += [("UseField", k, f) for k in ("arith", "weight", "contract", "ptw", "conj", "vdot")]
            cands += [("UseOp", k, f) for k in ("diag", "adder", "gauss", "makeOp")]
        # bias towards writes once fields exist
        a, k, x = rng.choice(cands)
        if nf and rng.random() < 0.35:
            ws = [c for c in cands if c[0].startswith("Write")]
            a, k, x = rng.choice(ws)
        r, landed = w.do(a, k, x)
        if a in ("NewArray", "CopyField"):
            nbuf += 1
        bad = w.changed() if not aliases else []
        tr.append(dict(a=a, k=k, x=x, r=r, landed=bool(landed), changed=bool(bad), what=str(bad) if bad else ""))
        if bad:
            break
    return tr


CFG = """CONSTANTS MaxArr = %d
MaxWrap = %d
MaxField = %d
MaxOps = %d
LockClearsNumpyFlag = %s
AllowEarlierViews = %s
Flavours = {"own"}
KeepHist = "%s"
EmitHist = %s
"""


ONLY_OWN = 'Flavours = {"own"}'
ALL_FLAVOURS = 'Flavours = {"own", "subclass", "memmap"}'


def run(ctx):
    q = ctx.quick
    # ---- the model: all histories ------------------------------------------------------------------------
    mc = (3, 3, 2, 7) if q else (4, 4, 3, 9)
    ctx.constants.update(MaxArr=mc[0], MaxWrap=mc[1], MaxField=mc[2], MaxOps=mc[3])
    ctx.tlc("FieldImmut", CFG % (mc + ("TRUE", "FALSE", "none", "FALSE")) +
            "SPECIFICATION Spec\nINVARIANT Immutable\nINVARIANT Protected\nINVARIANT TypeOK\nCHECK_DEADLOCK FALSE\n",
            label="rule, histories<=%d" % mc[3], coverage=not q, timeout=1700)
    # with writable aliases made before the construction: the source handle and everything obtained from the field stay protected
    ctx.tlc("FieldImmut", CFG % (mc[:3] + (mc[3] - 1, "TRUE", "TRUE", "none", "FALSE")) +
            "SPECIFICATION Spec\nINVARIANT HandleProtected\nINVARIANT TypeOK\nCHECK_DEADLOCK FALSE\n", label="source handle protected (earlier aliases allowed)", timeout=1700)
    r = ctx.tlc("FieldImmut", CFG % (3, 3, 2, 5, "FALSE", "TRUE", "none", "FALSE") + "SPECIFICATION Spec\nINVARIANT HandleProtected\nCHECK_DEADLOCK FALSE\n",
                label="defect D1 on the model (handle)", expect_ok=False)
    if r.violated != "HandleProtected":
        raise tlcmod.MachineryError("the model of the defective lock() does not refute HandleProtected")
    # vacuity: writes do land somewhere, and writes on field buffers are attempted and rejected
    for inv in ("NoWriteLands", "NoWriteRejectedOnField"):
        r = ctx.tlc("FieldImmut", CFG % (3, 3, 2, 5, "TRUE", "FALSE", "all", "FALSE") + "SPECIFICATION Spec\nINVARIANT %s\nCHECK_DEADLOCK FALSE\n" % inv,
                    label="witness " + inv, expect_ok=False)
        if r.violated != inv:
            raise tlcmod.MachineryError("vacuity witness %s was not refuted" % inv)
    # the pinned behaviour (lock() not clearing the NumPy flag) is refuted on the model: the switch is live
    r = ctx.tlc("FieldImmut", CFG % (3, 3, 2, 5, "FALSE", "FALSE", "none", "FALSE") + "SPECIFICATION Spec\nINVARIANT Immutable\nCHECK_DEADLOCK FALSE\n",
                label="defect D1 on the model", expect_ok=False)
    if r.violated != "Immutable":
        raise tlcmod.MachineryError("the model of the defective lock() is not refuted")

    # ---- spec -> code ----------------------------------------------------------------------------------
    depth = 4 if q else 5
    e = ctx.tlc("FieldImmut", CFG % (3, 3, 2, depth, "TRUE", "FALSE", "all", "TRUE") + "SPECIFICATION Spec\nINVARIANT Emit\nCHECK_DEADLOCK FALSE\n",
                label="emit all histories of length %d" % depth, workers=1, timeout=1700)
    hists = [d["hist"] for d in e.emitted]
    e2 = ctx.tlc("FieldImmut", (CFG % (3, 3, 2, depth - 1, "TRUE", "FALSE", "all", "TRUE")).replace(ONLY_OWN, 'Flavours = {"subclass", "memmap"}') + "SPECIFICATION Spec\nINVARIANT Emit\nCHECK_DEADLOCK FALSE\n",
                 label="emit all histories of length %d over subclass / memory-mapped arrays" % (depth - 1), workers=1, timeout=1700)
    hists += [d["hist"] for d in e2.emitted]
    nsim = 1500 if q else 12000
    s = ctx.tlc("FieldImmut", (CFG % (5, 5, 3, 10, "TRUE", "FALSE", "all", "TRUE")).replace(ONLY_OWN, ALL_FLAVOURS) + "SPECIFICATION Spec\nINVARIANT Emit\nCHECK_DEADLOCK FALSE\n",
                label="simulate %d histories of length 10" % nsim, workers=1, simulate=nsim, depth=11, seed=ctx.seed + 1, timeout=1700)
    hists += [d["hist"] for d in s.emitted]
    if len(hists) < 100:
        raise tlcmod.MachineryError("too few behaviours emitted: %d" % len(hists))
    sa = ctx.tlc("FieldImmut", (CFG % (5, 5, 3, 10, "TRUE", "TRUE", "all", "TRUE")).replace(ONLY_OWN, ALL_FLAVOURS) + "SPECIFICATION Spec\nINVARIANT Emit\nCHECK_DEADLOCK FALSE\n",
                 label="simulate %d histories with earlier aliases" % (nsim // 2), workers=1, simulate=nsim // 2, depth=11, seed=ctx.seed + 2, timeout=1700)
    ahists = [d["hist"] for d in sa.emitted]
    nviol = 0
    jobs = [(h, g, False) for h in hists for g in ("1d", "0d")] + [(h, g, True) for h in ahists for g in ("1d", "0d")]
    for h, geom, al in jobs:
        viol, drift = replay_hist(h, geom, al)
        key = (geom, al) + tuple((x["a"], x["k"], x["x"]) for x in h)
        ctx.case(key)
        if drift:
            ctx.add_drift(drift)
        if viol:
            nviol += 1
            last = viol.split(":")[0]
            ctx.violation(dict(kind="replay", action=[x["a"] + ":" + x["k"] for x in h][-1]), "[%s%s] %s" % (geom, ", earlier aliases" if al else "", viol),
                          replay=dict(hist=h, geom=geom, aliases=al))
    ctx.traces += len(jobs)
    ctx.sample(dict(direction="spec->code", behaviour=[(x["a"], x["k"], x["x"]) for x in hists[len(hists) // 2]]))
    ctx.notes["replayed_behaviours"] = len(hists)

    # ---- code -> spec ------------------------------------------------------------------------------------
    rng = random.Random(ctx.seed * 7919 + 13)
    ntr = 400 if q else 4000
    for aliases in (False, True):
        _recorded(ctx, rng, ntr if not aliases else ntr // 2, aliases)
    ctx.assume("an alias of the source array that is writable and was created BEFORE the field is constructed is outside the "
               "quantifier of C07 (the library cannot revoke it); re-enabling ndarray.flags.writeable by hand is not a write through a handle")
    ctx.exhaustive = False


def _recorded(ctx, rng, ntr, aliases):
    traces = [record_trace(rng, rng.randint(6, 16), "0d" if i % 3 == 2 else "1d", aliases) for i in range(ntr)]
    slim = [[{k: v for k, v in ev.items() if k != "what"} for ev in t] for t in traces]
    tv = tracemod.validate(ctx, "FieldImmutTrace",
                           slim, cfg=(CFG % (MAXA, MAXW, MAXF, 100, "TRUE", "TRUE" if aliases else "FALSE", "last", "FALSE")).replace(ONLY_OWN, ALL_FLAVOURS) +
                           "SPECIFICATION TSpec\nCONSTRAINT Progress\nPOSTCONDITION Report\nINVARIANT %s\n" % ("HandleProtected" if aliases else "Immutable"),
                           label="%d recorded traces%s" % (ntr, " (earlier aliases)" if aliases else ""))
    if tv.tlc.violated:
        ctx.violation(dict(kind="trace-invariant", invariant=tv.tlc.violated), "invariant %s violated along a recorded trace" % tv.tlc.violated,
                      replay=dict(trace=tv.tlc.error_trace))
    for tid, l, clause in tv.propfail:
        ev = traces[tid][l - 1]
        ctx.violation(dict(kind="trace", action=ev["a"] + ":" + ev["k"]), "recorded trace %d event %d %s(%s,%s): %s %s" % (
            tid, l, ev["a"], ev["k"], ev["x"], clause, ev["what"]), replay=dict(trace=traces[tid]))
    for tid in tv.rejected:
        if any(t == tid for t, _, _ in tv.propfail):
            continue
        ctx.add_drift("recorded trace %d rejected at event %d: %r" % (tid, tv.maxl[tid] + 1, traces[tid][tv.maxl[tid]]))
    for t in traces:
        ctx.case(tuple((x["a"], x["k"], x["x"]) for x in t))
    ctx.sample(dict(direction="code->spec", trace=slim[0][:8]))
    ctx.notes["recorded_traces_aliases" if aliases else "recorded_traces"] = dict(n=ntr, events=sum(len(t) for t in traces), accepted=tv.accepted)


def selftest(ctx):
    """a corrupted recorded trace (write outcome flipped / a changed flag set) must be rejected / reported"""
    rng = random.Random(5)
    traces = [record_trace(rng, 12) for _ in range(20)]
    slim = [[{k: v for k, v in ev.items() if k != "what"} for ev in t] for t in traces]
    tgt = next(i for i, t in enumerate(slim) if any(e["a"].startswith("Write") for e in t))
    j = next(j for j, e in enumerate(slim[tgt]) if e["a"].startswith("Write"))
    slim[tgt][j]["landed"] = not slim[tgt][j]["landed"]
    slim[(tgt + 1) % 20][0]["changed"] = True
    tv = tracemod.validate(ctx, "FieldImmutTrace", slim, cfg=(CFG % (MAXA, MAXW, MAXF, 100, "TRUE", "FALSE", "last", "FALSE")).replace(ONLY_OWN, ALL_FLAVOURS) +
                           "SPECIFICATION TSpec\nCONSTRAINT Progress\nPOSTCONDITION Report\n", label="selftest")
    pf = {(t, l) for t, l, _ in tv.propfail}
    ok = tv.rejected == [tgt] and tv.maxl[tgt] == j and ((tgt + 1) % 20, 1) in pf and pf <= {((tgt + 1) % 20, 1), (tgt, j + 1)}
    return dict(ok=ok, mutation="flipped one write outcome; set one changed flag", rejected=tv.rejected, propfail=tv.propfail[:3])


def replay(ctx, doc):
    case = doc.get("case", {})
    if "hist" in case:
        viol, drift = replay_hist(case["hist"], case.get("geom", "1d"), case.get("aliases", False))
        ctx.case("replay")
        ctx.case("replay-2")
        ctx.sample(dict(replayed=case["hist"]))
        if viol:
            ctx.violation(doc.get("key", dict(kind="replay")), viol, replay=case)
    elif "trace" in case and isinstance(case["trace"], list):
        h = [dict(a=e["a"], k=e["k"], x=e["x"], r=e["r"], landed=e["landed"]) for e in case["trace"]]
        viol, drift = (None, None)
        for g in ("1d", "0d"):
            for al in (False, True):
                viol = viol or replay_hist(h, g, al)[0]
        ctx.case("replay")
        ctx.case("replay-2")
        ctx.sample(dict(replayed=h))
        if viol:
            ctx.violation(doc.get("key", dict(kind="trace")), viol, replay=case)
    ctx.states = ctx.states or 1
    ctx.transitions = ctx.transitions or 1
