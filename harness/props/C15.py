"""C15 - JAX conjugate gradients: accurate, eager and compiled variants agree.

CGPair.tla     control skeletons of _cg (eager) and _static_cg (compiled) side by side on the same predicate valuations
TLC            HPD environment: SameVerdict / SameNit / SamePos / VerdictLaw for all valuation sequences (MaxIter 3/4, all stopping
               configurations); any environment: NonHPDLaw (failure reported when asked to, steepest-descent point iff the first
               direction has negative curvature); the pinned defects D3/D4 are refuted on the model
code -> spec   both real solvers run on generated pytree systems (HPD / indefinite / negative definite / singular; absdelta, resnorm,
               tol; miniter, maxiter incl. convergence exactly at the limit; with and without x0; raise flag); the per-iteration
               reports and the curvature of every wrapped matrix application are validated by CGTrace.tla; the final event carries
               ground truth computed by the harness from the returned solution (true residual, energies, agreement of the variants)"""
import itertools
import json
import random

import numpy as np

from vf import tlc as tlcmod
from vf import trace as tracemod

PAIRCFG = """CONSTANTS HPD = %s
MaxIter = %d
MinIter = %d
HasResnorm = %s
HasAbsdelta = %s
RaiseNonPosDef = %s
HasX0 = %s
Pinned = %s
"""
B = lambda b: "TRUE" if b else "FALSE"
HPD_INVS = "".join("INVARIANT %s\n" % i for i in ("SameVerdict", "SameNit", "SamePos", "VerdictLawE", "VerdictLawS", "NonHPDLawE", "NonHPDLawS"))
ANY_INVS = "INVARIANT NonHPDLawE\nINVARIANT NonHPDLawS\n"


def _jax():
    import jax
    jax.config.update("jax_enable_x64", True)
    import jax.numpy as jnp
    import nifty.re as jft
    from nifty.re import conjugate_gradient as cgm
    return jax, jnp, jft, cgm


def make_system(rng, kind, n=5):
    """symmetric matrix with prescribed spectrum, rhs, start; integers/dyadics keep the arithmetic well conditioned"""
    q, _ = np.linalg.qr(rng.standard_normal((n, n)))
    if kind == "hpd-large":      # enough iterations to pass the periodic recomputation of the residual (every 20 iterations) several times
        n = 60
        q, _ = np.linalg.qr(rng.standard_normal((n, n)))
        ev = np.exp(rng.uniform(0, np.log(1e3), n))
    elif kind == "hpd":
        ev = np.exp(rng.uniform(0, rng.choice([0.5, 2, 6]), n))
    elif kind == "indef":
        ev = np.exp(rng.uniform(0, 2, n)) * rng.choice([-1, 1], n)
        ev[0], ev[1] = -abs(ev[0]), abs(ev[1])
    elif kind == "negdef":
        ev = -np.exp(rng.uniform(0, 2, n))
    elif kind == "diag-neg-first":        # the very first direction (the gradient) has negative curvature
        q = np.eye(n)
        ev = np.array([-1., 2., 3., 1., 2.])[:n]
    else:   # singular along the first direction
        q = np.eye(n)
        ev = np.array([0., 2., 3., 1., 2.])[:n]
    A = (q * ev) @ q.T
    A = (A + A.T) / 2
    j = rng.standard_normal(n)
    if kind in ("diag-neg-first", "singular"):
        j = np.zeros(n)
        j[0] = 1.
        if kind == "diag-neg-first":
            j[1] = 0.1
    x0 = rng.standard_normal(n) * 0.5
    if kind.startswith("hpd"):
        # starting points in a definite relation to the solution: opposite to it, beyond it, (almost) at it
        sol = np.linalg.solve(A, j)
        x0 = [x0, -0.5 * sol, 2. * sol, sol * (1 + 1e-3), -2. * sol][int(rng.integers(0, 5))]
    return A, j, x0


def run_solver(variant, A, j, x0, kw, env):
    """returns dict(events, final, x)"""
    jax, jnp, jft, cgm = env
    n = len(j)
    split = 2
    rec = dict(mat=[], pp=[])

    def tovec(a):
        return jft.Vector({"a": jnp.asarray(a[:split]), "b": jnp.asarray(a[split:])})

    def flat(v):
        return jnp.concatenate([v.tree["a"], v.tree["b"]])
    Aj = jnp.asarray(A)

    def note(d, q):
        rec["mat"].append(float(np.vdot(np.asarray(d), np.asarray(q))))

    def mat(v):
        f = flat(v)
        out = Aj @ f
        if variant == "eager":
            note(f, out)
        else:
            jax.debug.callback(note, f, out, ordered=True)
        return tovec(out)

    def pp(name, i=None, *, energy=None, energy_diff=None, absdelta=None, norm=None, resnorm=None, maxiter=None, **k):
        rec["pp"].append(dict(i=int(i), energy=float(energy), energy_diff=float(energy_diff), norm=None if norm is None else float(norm)))
    old = cgm._cg_pretty_print_it
    cgm._cg_pretty_print_it = pp
    raised = None
    res = None
    try:
        fn = cgm._cg if variant == "eager" else cgm._static_cg
        res = fn(mat, tovec(j), None if x0 is None else tovec(x0), name="R", **kw)
        x = np.asarray(flat(res.x))
        info, nit = int(res.info), int(res.nit)
        if variant == "static":
            jax.effects_barrier()
    except ValueError as e:
        raised = str(e)
        x, info, nit = None, None, None
    finally:
        cgm._cg_pretty_print_it = old
    return dict(rec=rec, x=x, info=info, nit=nit, raised=raised)


def build_trace(variant, out, A, j, x0, kw, kind):
    """events with T/F/? predicates from the solver's own reports"""
    eps = 6.0 * np.finfo(np.float64).eps
    resnorm = kw.get("resnorm")
    absdelta = kw.get("absdelta")
    if resnorm is None and absdelta is None:
        resnorm = max(kw.get("tol", 1e-5) * np.linalg.norm(j), kw.get("atol", 0.0))
    curvs = list(out["rec"]["mat"])
    if x0 is not None and curvs:
        curvs = curvs[1:]             # the first application is mat(x0)
    pps = {}
    for p in out["rec"]["pp"]:
        pps[p["i"]] = p               # the eager solver reports a broken-off iteration after the loop: last report wins
    nit = out["nit"] if out["nit"] is not None else len(curvs)
    events = []

    def tf(a, b):
        # predicate a < b; "?" when within rounding of the threshold
        if not np.isfinite(a) or not np.isfinite(b):
            return "?"
        if abs(a - b) <= 64 * np.finfo(float).eps * max(abs(a), abs(b), 1e-300):
            return "?"
        return "T" if a < b else "F"
    n_events = max(nit, 1) if out["raised"] is None else len(curvs)
    for i in range(1, n_events + 1):
        c = curvs[i - 1] if i - 1 < len(curvs) else None
        curv = "?" if c is None else ("pos" if c > 0 else ("zero" if c == 0 else "neg"))
        ev = dict(i=i, curv=curv, gammaTiny="?", normOK="?", eInc="?", absOK="?")
        p = pps.get(i)
        if p is not None and curv == "pos":
            if p["norm"] is not None and resnorm is not None:
                ev["normOK"] = tf(p["norm"], float(resnorm))
                ev["gammaTiny"] = "F" if p["norm"] > 1e-100 else "?"
            ed = p["energy_diff"]
            if np.isfinite(ed):
                # the reported energy is the new one inside the loop and the old one after a break: both readings must agree
                e_new_a, e_new_b = p["energy"], p["energy"] - ed
                ia, ib = tf(ed, -eps * abs(e_new_a)), tf(ed, -eps * abs(e_new_b))
                ev["eInc"] = ia if ia == ib else "?"
                if absdelta is not None:
                    ev["absOK"] = tf(ed, float(absdelta))
        events.append(ev)
    final = dict(info=-9 if out["info"] is None else out["info"], nit=nit if out["raised"] is None else len(curvs), raised=out["raised"] is not None)
    if variant == "static" and out["info"] == -1:
        final["raised"] = True
    return events, final


def energy(A, j, x):
    return 0.5 * x @ A @ x - j @ x


def judge(A, j, x0, kw, kind, env, cfg5):
    """run both variants on one system; returns [(group key, trace, meta)] and the eager result"""
    mi, hres, habs, rz, hx0 = cfg5
    items = []
    outs = {}
    for variant in ("eager", "static"):
        outs[variant] = run_solver(variant, A, j, x0, dict(kw), env)
    start = np.zeros_like(j) if x0 is None else x0
    e0 = energy(A, j, start)
    scale = max(1., abs(e0), float(np.linalg.norm(j)))
    for variant in ("eager", "static"):
        o = outs[variant]
        events, final = build_trace(variant, o, A, j, x0, kw, kind)
        truth = dict(criterion=True, agree=True, nonposdef=True, notabove=True, sd=True)
        failed = o["raised"] is not None or o["info"] == -1
        if kind.startswith("hpd"):
            if failed:
                truth["criterion"] = False
            elif o["info"] == 0 and hres:
                # success by the residual criterion (or an even stricter one): the true residual meets it up to rounding
                rn = np.linalg.norm(A @ o["x"] - j)
                if not habs and rn > kw["resnorm"] * (1 + 1e-6) + 1e-12 * np.linalg.norm(j):
                    truth["criterion"] = False
            oe, os_ = outs["eager"], outs["static"]
            if oe["raised"] is None and os_["info"] != -1:
                if kind == "hpd-large":
                    # dozens of iterations at condition number 1e3: the two programs round differently (fused operations), so the iteration at which
                    # the criterion fires may shift by a few; same verdict, and the same solution at the level the criterion itself guarantees
                    de = abs(energy(A, j, oe["x"]) - energy(A, j, os_["x"]))
                    lim = 1e3 * kw["absdelta"] if habs else 1e-6 * scale
                    if oe["info"] != os_["info"] or abs(oe["nit"] - os_["nit"]) > 0.15 * max(oe["nit"], os_["nit"]) + 2 or de > lim + 1e-10 * scale:
                        truth["agree"] = False
                elif oe["info"] != os_["info"] or oe["nit"] != os_["nit"] or not np.allclose(oe["x"], os_["x"], rtol=1e-9, atol=1e-11 * scale):
                    truth["agree"] = False
            elif (oe["raised"] is None) != (os_["info"] != -1):
                truth["agree"] = False
        else:
            apps = (o["rec"]["mat"][1:] if x0 is not None else o["rec"]["mat"])
            nonpos_seen = any(c <= 0 for c in apps)
            if rz and nonpos_seen and not failed:
                truth["nonposdef"] = False
            if not failed:
                ex = energy(A, j, o["x"])
                if ex > e0 + 1e-9 * scale:
                    truth["notabove"] = False
                if not rz and apps and apps[0] < 0:
                    # the documented steepest-descent step from the start along the first direction lowers the energy
                    if not (ex < e0 - 1e-12 * scale) or np.allclose(o["x"], start):
                        truth["sd"] = False
        key = (mi, hres, habs, rz, hx0, kw["maxiter"])
        items.append((key, dict(variant=variant, events=events, final=final, truth=truth),
                      dict(kind=kind, variant=variant, kw={k: v for k, v in kw.items()}, cfg5=list(cfg5), A=A.tolist(), j=j.tolist(), x0=None if x0 is None else x0.tolist(),
                           info=o["info"], nit=o["nit"], raised=o["raised"])))
    return items, outs["eager"]


def systems(ctx, rng, q):
    kinds = ["hpd-large"] * (2 if q else 8) + ["hpd"] * (6 if q else 40) + ["indef"] * (3 if q else 20) + ["negdef"] * (1 if q else 8) + ["diag-neg-first"] * (1 if q else 3) + ["singular"] * (1 if q else 3)
    for k in kinds:
        yield k, make_system(rng, k)


CONFIGS = [  # (MinIter, HasResnorm, HasAbsdelta, Raise, HasX0)
    (0, True, False, True, False), (2, True, False, False, True), (0, False, True, True, True), (2, False, True, False, False),
    (0, True, True, False, True), (2, True, True, True, False)]


def public_entry_points(ctx, env):
    """cg / static_cg (the documented entry points) solve Hermitian positive definite systems to the documented tolerance and agree"""
    jax, jnp, jft, cgm = env
    rng = np.random.default_rng(ctx.seed + 150)
    for n, cond, with_x0 in ((3, 10., False), (8, 1e3, True)):
        qm, _ = np.linalg.qr(rng.normal(size=(n, n)))
        A = jnp.asarray((qm * np.logspace(0, np.log10(cond), n)) @ qm.T)
        j = jft.Vector({"v": jnp.asarray(rng.normal(size=n))})
        x0 = jft.Vector({"v": jnp.asarray(rng.normal(size=n))}) if with_x0 else None
        mat = lambda x, A=A: jft.Vector({"v": A @ x.tree["v"]})
        sols = {}
        for ename, fn in (("cg", cgm.cg), ("static_cg", cgm.static_cg)):
            ctx.case(("public", n, ename))
            try:
                x, info = fn(mat, j, x0, tol=1e-9, maxiter=400, name=None)
            except Exception as e:
                ctx.violation(dict(kind="public-raises", entry=ename), "%s (n=%d, condition %g) raised %s: %s" % (ename, n, cond, type(e).__name__, str(e)[:120]), replay=dict(what="public"))
                continue
            res = float(jnp.linalg.norm(A @ x.tree["v"] - j.tree["v"])) / float(jnp.linalg.norm(j.tree["v"]))
            sols[ename] = np.asarray(x.tree["v"])
            if int(info) != 0 or res > 1e-9 * cond * 10:
                ctx.violation(dict(kind="public-accuracy", entry=ename), "%s (n=%d, condition %g, tol=1e-9): relative residual %.3g, info %d" % (ename, n, cond, res, int(info)), replay=dict(what="public"))
        # the starting point is used: one iteration from the exact solution stays there
        xs = jft.Vector({"v": jnp.asarray(np.linalg.solve(np.asarray(A), np.asarray(j.tree["v"])))})
        for ename, fn in (("cg", cgm.cg), ("static_cg", cgm.static_cg)):
            ctx.case(("public-x0", n, ename))
            try:
                x, info = fn(mat, j, xs, tol=1e-9, maxiter=1, name=None)
                res = float(jnp.linalg.norm(A @ x.tree["v"] - j.tree["v"])) / float(jnp.linalg.norm(j.tree["v"]))
            except Exception as e:
                ctx.violation(dict(kind="public-raises", entry=ename), "%s started at the solution raised %s: %s" % (ename, type(e).__name__, str(e)[:120]), replay=dict(what="public"))
                continue
            if res > 1e-9 * cond * 10:
                ctx.violation(dict(kind="public-x0", entry=ename), "%s (n=%d, condition %g) started at the exact solution with maxiter=1 returns a point with relative residual %.3g: the starting point is not used" % (
                    ename, n, cond, res), replay=dict(what="public"))
        if len(sols) == 2 and not np.allclose(sols["cg"], sols["static_cg"], rtol=1e-7, atol=1e-9):
            ctx.violation(dict(kind="public-disagree"), "cg and static_cg return different solutions (n=%d, condition %g): max deviation %.3g" % (n, cond, np.max(np.abs(sols["cg"] - sols["static_cg"]))), replay=dict(what="public"))


def run(ctx):
    q = ctx.quick
    env = _jax()
    public_entry_points(ctx, env)
    mi_max = 3 if q else 4
    ctx.constants.update(MaxIter=mi_max)
    # ---- the model -------------------------------------------------------------------------------------------
    grid = list(itertools.product((0, 2), (True, False), (True, False), (True, False), (True, False)))
    grid = [g for g in grid if g[1] or g[2]]
    if q:
        grid = [g for i, g in enumerate(grid) if i % 2 == ctx.seed % 2] + [CONFIGS[0]]
    for (mi, res, ab, rz, x0) in grid:
        ctx.tlc("CGPair", PAIRCFG % ("TRUE", mi_max, mi, B(res), B(ab), B(rz), B(x0), "FALSE") + "SPECIFICATION Spec\n" + HPD_INVS,
                label="HPD env miniter=%d res=%s abs=%s raise=%s x0=%s" % (mi, res, ab, rz, x0))
        ctx.tlc("CGPair", PAIRCFG % ("FALSE", mi_max, mi, B(res), B(ab), B(rz), B(x0), "FALSE") + "SPECIFICATION Spec\n" + ANY_INVS,
                label="any env miniter=%d res=%s abs=%s raise=%s x0=%s" % (mi, res, ab, rz, x0))
    for inv in ("NeverConvergesAtLimit", "NeverSD"):
        r = ctx.tlc("CGPair", PAIRCFG % ("FALSE", 3, 0, "TRUE", "TRUE", "FALSE", "TRUE", "FALSE") + "SPECIFICATION Spec\nINVARIANT %s\n" % inv, label="witness " + inv, expect_ok=False)
        if r.violated != inv:
            raise tlcmod.MachineryError("vacuity witness %s not refuted" % inv)
    r = ctx.tlc("CGPair", PAIRCFG % ("TRUE", 3, 0, "TRUE", "FALSE", "TRUE", "FALSE", "TRUE") + "SPECIFICATION Spec\n" + HPD_INVS, label="pinned defects D3/D4 on the model", expect_ok=False)
    if not r.violated:
        raise tlcmod.MachineryError("the pinned transcription is not refuted")
    # divergence candidates outside the HPD claim (information only)
    r = ctx.tlc("CGPair", PAIRCFG % ("FALSE", 3, 0, "FALSE", "TRUE", "FALSE", "TRUE", "FALSE") + "SPECIFICATION Spec\nINVARIANT SameVerdict\n", label="divergence candidate (non-HPD, informative)", expect_ok=False)
    ctx.notes["divergence_candidate_non_hpd"] = ("on systems that are not positive definite and without the raise flag the compiled solver lets a later jnp.where overwrite an "
                                                 "earlier verdict (energy increase vs absdelta); outside the statement, reported for information: %s" % r.violated)
    # ---- real runs --------------------------------------------------------------------------------------------
    rng = np.random.default_rng(ctx.seed + 15)
    groups = {}
    nsys = 0
    for kind, (A, j, x0v) in systems(ctx, rng, q):
        nsys += 1
        if nsys % 4 == 0:
            env[0].clear_caches()        # hundreds of compiled while-loops exhaust the JIT's executable memory mappings otherwise (thorough tier)
        cfgs = CONFIGS if not q else [CONFIGS[(nsys + k) % len(CONFIGS)] for k in range(3)]
        for (mi, hres, habs, rz, hx0) in cfgs:
            x0 = x0v if hx0 else None
            kw = dict(miniter=mi, _raise_nonposdef=rz)
            xstar_res = None
            if hres:
                kw["resnorm"] = float(1e-6 * max(np.linalg.norm(j), 1e-3))
            if habs:
                kw["absdelta"] = 1e-9
            for maxiter in ("free", "limit", 2):
                if kind == "hpd-large" and maxiter != "free":
                    continue
                if maxiter == "free":
                    kw["maxiter"] = 12 if kind != "hpd-large" else 150
                elif maxiter == "limit":
                    # convergence exactly at the iteration limit: the iteration count of the free run
                    if kind != "hpd" or last_nit is None or last_nit < 1 or last_nit >= 12:
                        continue
                    kw["maxiter"] = last_nit
                else:
                    kw["maxiter"] = 2
                res_items, eager_out = judge(A, j, x0, kw, kind, env, (mi, hres, habs, rz, hx0))
                last_nit = eager_out["nit"] if maxiter == "free" and eager_out["raised"] is None and eager_out["info"] == 0 else (last_nit if maxiter != "free" else None)
                for key, tr, meta in res_items:
                    groups.setdefault(key, []).append((tr, meta))
                    variant = meta["variant"]
                    ctx.case((kind, nsys, key, variant))
    nrej = validate_groups(ctx, groups)
    any_t = next(iter(groups.values()))[0][0]
    ctx.sample(dict(trace=dict(variant=any_t["variant"], events=any_t["events"][:4], final=any_t["final"], truth=any_t["truth"])))
    ctx.notes["systems"] = nsys
    ctx.notes["traces_not_matching_the_skeleton"] = nrej
    ctx.assume("predicates whose two sides differ by less than 64 ulp are logged as '?' and TLC may choose either value",
               "solutions of the two variants are compared with rtol 1e-9; the residual criterion is judged on the true residual with a 1e-6 relative margin")


def validate_groups(ctx, groups):
    nrej = 0
    for key, items in sorted(groups.items(), key=str):
        mi, hres, habs, rz, hx0, maxiter = key
        traces = [t for t, _ in items]
        tv = tracemod.validate(ctx, "CGTrace", traces, cfg=PAIRCFG % ("FALSE", maxiter, mi, B(hres), B(habs), B(rz), B(hx0), "FALSE") + "SPECIFICATION TSpec\nCONSTRAINT Progress\nPOSTCONDITION Report\n",
                               label="%d traces %s" % (len(traces), key))
        tv.lengths = [len(t["events"]) + 1 for t in traces]
        for tid, l, clause in tv.propfail:
            meta = items[tid][1]
            ctx.violation(dict(kind="cg", clause=clause.split(" ")[0] + " " + clause.split(" ")[1], system=meta["kind"], variant=meta["variant"]),
                          "%s solver on a %s system, %s: %s (info=%s nit=%s raised=%s)" % (meta["variant"], meta["kind"], {k: v for k, v in meta["kw"].items()}, clause, meta["info"], meta["nit"], meta["raised"]),
                          replay=meta)
        for tid, name in tracemod.masked_truth(tv, traces, lambda t: t["truth"]):
            meta = items[tid][1]
            ctx.violation(dict(kind="cg", clause=name, system=meta["kind"], variant=meta["variant"]), "%s solver on a %s system, %s: ground truth '%s' is false (and the run is not a behaviour of the skeleton)" % (
                meta["variant"], meta["kind"], meta["kw"], name), replay=meta)
        for tid in tv.rejected:
            if not any(t == tid for t, _, _ in tv.propfail):
                nrej += 1
                meta = items[tid][1]
                ctx.add_drift("%s solver, %s system, %s: reported run (info=%s nit=%s raised=%s) is not a behaviour of the transcribed control skeleton (matched %d of %d events)" % (
                    meta["variant"], meta["kind"], key, meta["info"], meta["nit"], meta["raised"], tv.maxl[tid], tv.lengths[tid]))
    return nrej


def replay(ctx, doc):
    c = doc["case"]
    env = _jax()
    if c.get("what") == "public":
        public_entry_points(ctx, env)
        ctx.sample(dict(replayed=c))
        ctx.states = ctx.transitions = 1
        return
    A, j = np.array(c["A"]), np.array(c["j"])
    x0 = None if c["x0"] is None else np.array(c["x0"])
    items, _ = judge(A, j, x0, c["kw"], c["kind"], env, tuple(c["cfg5"]))
    groups = {}
    for key, tr, meta in items:
        groups.setdefault(key, []).append((tr, meta))
        ctx.case((meta["variant"],))
    validate_groups(ctx, groups)
    ctx.sample(dict(replayed=dict(kind=c["kind"], kw=c["kw"])))


def selftest(ctx):
    ev = [dict(i=1, curv="pos", gammaTiny="F", normOK="F", eInc="F", absOK="?"), dict(i=2, curv="pos", gammaTiny="F", normOK="T", eInc="F", absOK="?")]
    truth = dict(criterion=True, agree=True, nonposdef=True, notabove=True, sd=True)
    good = dict(variant="eager", events=ev, final=dict(info=0, nit=2, raised=False), truth=truth)
    wrong_verdict = dict(variant="static", events=ev, final=dict(info=2, nit=2, raised=False), truth=truth)      # D4-like report
    disagree = dict(variant="eager", events=ev, final=dict(info=0, nit=2, raised=False), truth=dict(truth, agree=False))
    tv = tracemod.validate(ctx, "CGTrace", [good, wrong_verdict, disagree], cfg=PAIRCFG % ("FALSE", 2, 0, "TRUE", "FALSE", "TRUE", "FALSE", "FALSE") + "SPECIFICATION TSpec\nCONSTRAINT Progress\nPOSTCONDITION Report\n", label="selftest")
    tv.lengths = [3, 3, 3]
    return dict(ok=(tv.rejected == [1] and [t for t, _, _ in tv.propfail] == [2]), rejected=tv.rejected, propfail=tv.propfail,
                mutation="a D4-like verdict (info=maxiter although the residual criterion held); a disagreement flag")
