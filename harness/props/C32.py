"""C32 - HMC and NUTS: reversible volume-preserving dynamics, invariant target (deterministic ingredients).

Leapfrog.tla   the leapfrog integrator as a transition system in exact rationals (quadratic and quartic potentials, diagonal mass, dyadic
               steps); TLC: reversibility (momentum flip and negative step), symplecticity of the accumulated linear map
NutsTree.tla   the index bookkeeping of the iterative NUTS tree doubling; TLC: the U-turn partners tested at every odd leaf are exactly the
               balanced sub-trees ending there (bit tricks = recursive definition), no stale slot, the whole sub-tree is tested at its end
spec -> code   trajectories replayed exactly into leapfrog_step; reversibility / volume preservation of the real stepper on non-polynomial
               potentials; the pairs handed to is_euclidean_uturn by the real iterative_build_tree (Python control flow, function wrapped
               from outside) mapped to leaf indices and compared with the specification; acceptance rule of generate_hmc_acc_rej"""
import importlib
import json

import numpy as np

from vf import tlc as tlcmod
from vf.core import quiet

from props import C32_chain


def rv(v):
    return v[0] / v[1]


def _env():
    import jax
    jax.config.update("jax_enable_x64", True)
    import jax.numpy as jnp
    import nifty.re as jft
    return jax, jnp, jft, importlib.import_module("nifty.re.hmc")


def potential(name, jnp):
    if name == "quartic":
        return lambda q: 0.25 * jnp.sum(q ** 4) + 0.5 * q[0] * q[1]
    A = jnp.asarray([[2., 1.], [1., 3.]] if name == "quad1" else [[1., 0.], [0., 4.]])
    return lambda q: 0.5 * q @ A @ q


def check_traj(env, inst):
    jax, jnp, jft, hmc = env
    out = []
    U = potential(inst["pot"], jnp)
    gradU = jax.grad(U)
    eps = rv(inst["eps"])
    im = jnp.asarray([rv(x) for x in inst["im"]])
    kin_grad = lambda im_, p: im_ * p
    tr = [(np.array([rv(x) for x in s["q"]]), np.array([rv(x) for x in s["p"]])) for s in inst["traj"]]
    qp = hmc.QP(position=jnp.asarray(tr[0][0]), momentum=jnp.asarray(tr[0][1]))
    for i, (q, p) in enumerate(tr[1:], 1):
        qp = hmc.leapfrog_step(gradU, kin_grad, eps, im, qp)
        if not (np.allclose(np.asarray(qp.position), q, rtol=1e-13, atol=1e-13) and np.allclose(np.asarray(qp.momentum), p, rtol=1e-13, atol=1e-13)):
            out.append("%s eps=%s inverse mass %s: step %d gives q=%s p=%s, the integrator gives q=%s p=%s" % (
                inst["pot"], eps, np.asarray(im).tolist(), i, np.asarray(qp.position).tolist(), np.asarray(qp.momentum).tolist(), q.tolist(), p.tolist()))
            break
    return out


def real_laws(env):
    """reversibility and volume preservation of the real stepper on a non-polynomial potential"""
    jax, jnp, jft, hmc = env
    out = []
    U = lambda q: jnp.sum(jnp.cosh(q)) + 0.3 * jnp.sin(q[0] * q[1])
    gradU = jax.grad(U)
    kin_grad = lambda im_, p: im_ * p
    for eps, im, nsteps in ((0.1, [1., 1.], 3), (0.25, [0.5, 2.], 5), (-0.2, [2., 0.25], 4)):
        imj = jnp.asarray(im)

        def flow(zv):
            qp = hmc.QP(position=zv[:2], momentum=zv[2:])
            for _ in range(nsteps):
                qp = hmc.leapfrog_step(gradU, kin_grad, eps, imj, qp)
            return jnp.concatenate([qp.position, qp.momentum])
        z0 = jnp.asarray([0.3, -0.7, 0.5, 1.1])
        z1 = flow(z0)
        back = flow(jnp.concatenate([z1[:2], -z1[2:]]))
        back = jnp.concatenate([back[:2], -back[2:]])
        if not np.allclose(np.asarray(back), np.asarray(z0), atol=1e-11):
            out.append("leapfrog eps=%s: flipping the momentum and integrating again does not return to the start (deviation %.3g)" % (eps, float(np.max(np.abs(np.asarray(back - z0))))))
        J = np.asarray(jax.jacfwd(flow)(z0))
        if abs(np.linalg.det(J) - 1.) > 1e-10:
            out.append("leapfrog eps=%s: the Jacobian determinant of the flow is %.12f, not 1" % (eps, np.linalg.det(J)))
        Om = np.block([[np.zeros((2, 2)), np.eye(2)], [-np.eye(2), np.zeros((2, 2))]])
        if not np.allclose(J.T @ Om @ J, Om, atol=1e-10):
            out.append("leapfrog eps=%s: the flow is not symplectic" % eps)
    return out


def tree_pairs(env, depth, go_right):
    """the (left, right) leaf indices handed to is_euclidean_uturn while a sub-tree of 2^depth leaves is built by the real code"""
    jax, jnp, jft, hmc = env
    U = lambda q: 0.5 * jnp.sum(q ** 2)
    gradU = jax.grad(U)
    kin = lambda im_, p: 0.5 * jnp.sum(im_ * p ** 2)
    kin_grad = lambda im_, p: im_ * p
    im = jnp.ones(2)
    step = 0.003
    stepper = lambda eps, im_, qp: hmc.leapfrog_step(gradU, kin_grad, eps, im_, qp)
    z0 = hmc.QP(position=jnp.asarray([1.0, 0.2]), momentum=jnp.asarray([0.3, -1.0]))
    # the orbit through z0 in the direction of the sub-tree: leaf n of the new sub-tree is orbit[n + 1]
    orbit = [z0]
    for _ in range(2 ** depth + 1):
        orbit.append(stepper((1. if go_right else -1.) * step, im, orbit[-1]))
    pos = [np.asarray(o.position) for o in orbit]

    def index_of(qp):
        p = np.asarray(qp.position)
        d = [float(np.max(np.abs(p - q))) for q in pos]
        i = int(np.argmin(d))
        if d[i] > 1e-13:
            raise tlcmod.MachineryError("a state handed to the U-turn test is not on the orbit")
        return i - 1
    calls = []
    orig = hmc.is_euclidean_uturn

    def rec(a, b):
        calls.append((index_of(a), index_of(b)))
        return orig(a, b)
    hmc.is_euclidean_uturn = rec
    try:
        with jax.disable_jit():
            e0 = -hmc.total_energy_of_qp(z0, U, lambda p: kin(im, p))
            init = hmc.Tree(left=z0, right=z0, logweight=e0, proposal_candidate=z0, turning=False, diverging=False, depth=depth, cumulative_acceptance=jnp.zeros_like(e0))
            sub = hmc.iterative_build_tree(jax.random.PRNGKey(2), init, step, jnp.asarray(go_right), stepper, U, kin, im, max_tree_depth=depth + 1, initial_neg_energy=e0,
                                           max_energy_difference=jnp.inf)
    finally:
        hmc.is_euclidean_uturn = orig
    ends = (index_of(sub.left) , index_of(sub.right))
    prop = index_of(sub.proposal_candidate)
    return calls, ends, prop, int(sub.depth), bool(sub.turning)


def check_acceptance(env):
    jax, jnp, jft, hmc = env
    out = []
    U = lambda q: 0.5 * jnp.sum(q ** 2) + 0.1 * jnp.sum(q ** 4)
    gradU = jax.grad(U)
    kin = lambda im_, p: 0.5 * jnp.sum(im_ * p ** 2)
    kin_grad = lambda im_, p: im_ * p
    im = jnp.asarray([1., 0.5])
    stepper = lambda eps, im_, qp: hmc.leapfrog_step(gradU, kin_grad, eps, im_, qp)
    z0 = hmc.QP(position=jnp.asarray([0.4, -0.9]), momentum=jnp.asarray([1.2, 0.3]))
    for eps, ns in ((0.3, 3), (0.9, 2), (1.4, 2)):
        zz = z0
        for _ in range(ns):
            zz = stepper(eps, im, zz)
        prop = hmc.flip_momentum(zz)
        dH = float(U(z0.position) + kin(im, z0.momentum) - U(prop.position) - kin(im, prop.momentum))
        pacc = min(1., np.exp(dH))
        nacc = 0
        n = 200
        for s in range(n):
            r = hmc.generate_hmc_acc_rej(key=jax.random.PRNGKey(s), initial_qp=z0, potential_energy=U, kinetic_energy=kin, inverse_mass_matrix=im, stepper=stepper,
                                         num_steps=ns, step_size=eps, max_energy_difference=1000.)
            acc = bool(r.accepted)
            nacc += acc
            want = prop if acc else z0
            if not (np.allclose(np.asarray(r.accepted_qp.position), np.asarray(want.position), atol=1e-12) and np.allclose(np.asarray(r.accepted_qp.momentum), np.asarray(want.momentum), atol=1e-12)):
                out.append("generate_hmc_acc_rej eps=%s: the accepted state is neither the start nor the momentum-flipped end of the trajectory" % eps)
                break
            # the decision is the Bernoulli draw of the documented probability for the same key
            if acc != bool(jax.random.bernoulli(jax.random.PRNGKey(s), pacc)):
                out.append("generate_hmc_acc_rej eps=%s key %d: acceptance %s does not follow min(1, exp(H0 - H1)) = %.6f" % (eps, s, acc, pacc))
                break
        if pacc == 1. and nacc != n:
            out.append("generate_hmc_acc_rej eps=%s: a proposal with lower energy was rejected" % eps)
    return out


def check_chain_ingredients(env):
    """the momentum refreshment of the chain classes and the sub-tree selection of the tree merge: deterministic relations behind invariance"""
    jax, jnp, jft, hmc = env
    out = []
    hoo = importlib.import_module("nifty.re.hmc_oo")
    U = lambda q: 0.5 * jnp.sum(q ** 2)
    # momenta are drawn from N(0, M): mass_matrix_sqrt^2 * inverse_mass_matrix = 1, and the draw is mass_matrix_sqrt * white noise
    for im in (4.0, 0.25, 1.0):
        for cls, kw in ((hoo.HMCChain, dict(num_steps=3)), (hoo.NUTSChain, dict(max_tree_depth=3))):
            try:
                ch = cls(potential_energy=U, inverse_mass_matrix=im, position_proto=jnp.zeros(2), step_size=0.1, **kw)
                ms = np.asarray(jax.tree_util.tree_leaves(ch.mass_matrix_sqrt)[0], dtype=float)
                imv = np.asarray(jax.tree_util.tree_leaves(ch.inverse_mass_matrix)[0], dtype=float)
                if not np.allclose(ms ** 2 * imv, 1., rtol=1e-12):
                    out.append("%s(inverse_mass_matrix=%s): momenta are drawn with standard deviation %s, the mass is %s" % (cls.__name__, im, ms.ravel()[:2].tolist(), (1. / imv).ravel()[:2].tolist()))
                key = jax.random.PRNGKey(4)
                p = hmc.sample_momentum_from_diagonal(key=key, mass_matrix_sqrt=ch.mass_matrix_sqrt)
                white = hmc.sample_momentum_from_diagonal(key=key, mass_matrix_sqrt=jax.tree_util.tree_map(jnp.ones_like, ch.mass_matrix_sqrt))
                if not np.allclose(np.asarray(jax.tree_util.tree_leaves(p)[0]), ms * np.asarray(jax.tree_util.tree_leaves(white)[0]), rtol=1e-12):
                    out.append("%s: the momentum draw is not mass_matrix_sqrt times white noise" % cls.__name__)
            except Exception as e:
                out.append("%s(inverse_mass_matrix=%s) raised %s: %s" % (cls.__name__, im, type(e).__name__, str(e)[:120]))
    # merging two sub-trees: the new sub-tree's candidate is taken with probability min(1, w_new / w_old) (biased) or w_new / (w_new + w_old)
    z = lambda v: hmc.QP(position=jnp.asarray([v, 0.]), momentum=jnp.asarray([1., 0.]))
    for lw_old, lw_new in ((-1.0, -2.5), (-2.0, -0.5), (0.3, 0.1)):
        for bias in (True, False):
            cur = hmc.Tree(left=z(0.), right=z(1.), logweight=jnp.asarray(lw_old), proposal_candidate=z(0.5), turning=False, diverging=False, depth=1, cumulative_acceptance=jnp.asarray(0.))
            new = hmc.Tree(left=z(2.), right=z(3.), logweight=jnp.asarray(lw_new), proposal_candidate=z(2.5), turning=False, diverging=False, depth=1, cumulative_acceptance=jnp.asarray(0.))
            prob = min(1., np.exp(lw_new - lw_old)) if bias else 1. / (1. + np.exp(lw_old - lw_new))
            for s_ in range(60):
                k = jax.random.PRNGKey(100 + s_)
                m = hmc.merge_trees(k, cur, new, jnp.asarray(True), bias_transition=bias)
                took_new = float(m.proposal_candidate.position[0]) == 2.5
                if took_new != bool(jax.random.bernoulli(k, prob)):
                    out.append("merge_trees(bias_transition=%s) with log-weights old %s new %s: the new sub-tree's candidate is not taken with probability %.6f" % (bias, lw_old, lw_new, prob))
                    break
            if not np.isclose(float(m.logweight), np.logaddexp(lw_old, lw_new)) or int(m.depth) != 2 or float(m.left.position[0]) != 0. or float(m.right.position[0]) != 3.:
                out.append("merge_trees: weight / depth / ends of the merged tree are wrong")
    return out


def run(ctx):
    env = _env()
    q = ctx.quick
    trajs = []
    for pot, ms, laws in (("quad1", 3, True), ("quad2", 2, True), ("quartic", 1, False)):
        cfg = 'CONSTANTS Pot = "%s"\nMaxSteps = %d\nSPECIFICATION Spec\n%sINVARIANT Emit\nCHECK_DEADLOCK FALSE\n' % (pot, ms, "INVARIANT Reversible\nINVARIANT BackAndForth\nINVARIANT Symplectic\n" if laws else "")
        r = ctx.tlc("Leapfrog", cfg, label="leapfrog, %s, %d steps" % (pot, ms), workers=1)
        trajs += r.emitted
    if len(trajs) < 20:
        raise tlcmod.MachineryError("too few trajectories: %d" % len(trajs))
    expected = {}
    for d in (1, 2, 3, 4):
        r = ctx.tlc("NutsTree", "CONSTANT Depth = %d\nSPECIFICATION Spec\nINVARIANT BalancedSubtrees\nINVARIANT NoStaleSlot\nINVARIANT RecursiveDefinition\nINVARIANT WholeTreeTested\nINVARIANT Emit\nCHECK_DEADLOCK FALSE\n" % d,
                    label="tree bookkeeping, depth %d" % d, workers=1)
        expected[d] = {e["leaf"]: sorted(e["partners"]) for e in r.emitted}
    with quiet():
        for inst in trajs:
            ctx.case(json.dumps([inst["pot"], inst["eps"], inst["im"], inst["traj"][0]]))
            for msg in check_traj(env, inst):
                ctx.violation(dict(kind="leapfrog"), msg, replay=dict(traj=inst))
        for msg in real_laws(env):
            ctx.violation(dict(kind="leapfrog-law"), msg, replay=dict(what="laws"))
        for d in ((1, 2, 3) if q else (1, 2, 3, 4)):
            for go_right in (True, False):
                ctx.case(("tree", d, go_right))
                try:
                    calls, ends, prop, depth, turning = tree_pairs(env, d, go_right)
                except tlcmod.MachineryError:
                    raise
                except Exception as e:
                    ctx.violation(dict(kind="tree-raises"), "iterative_build_tree depth %d go_right=%s raised %s: %s" % (d, go_right, type(e).__name__, str(e)[:120]), replay=dict(what="tree", depth=d, go_right=go_right))
                    continue
                got = {}
                for a, b in calls:
                    got.setdefault(b, []).append(a)
                got = {k: sorted(v) for k, v in got.items()}
                if turning or depth != d:
                    ctx.violation(dict(kind="tree"), "depth %d go_right=%s: the sub-tree on a slowly rotating orbit is reported as turning / incomplete (depth %d)" % (d, go_right, depth), replay=dict(what="tree", depth=d, go_right=go_right))
                if got != expected[d]:
                    ctx.violation(dict(kind="tree-pairs"), "depth %d go_right=%s: U-turn tests %s, the balanced sub-trees are %s" % (d, go_right, got, expected[d]), replay=dict(what="tree", depth=d, go_right=go_right))
                n = 2 ** d
                want_ends = (0, n - 1) if go_right else (n - 1, 0)
                if ends != want_ends or not (0 <= prop < n):
                    ctx.violation(dict(kind="tree-ends"), "depth %d go_right=%s: left/right leaves %s (expected %s), proposal leaf %d" % (d, go_right, ends, want_ends, prop), replay=dict(what="tree", depth=d, go_right=go_right))
        for msg in check_acceptance(env):
            ctx.violation(dict(kind="acceptance"), msg, replay=dict(what="acceptance"))
        for msg in check_chain_ingredients(env):
            ctx.violation(dict(kind="chain", which=msg.split("(")[0]), msg, replay=dict(what="chain"))
        C32_chain.run_chain(ctx, env)
    ctx.traces += len(trajs) + 8
    ctx.sample(dict(trajectory={k: trajs[3][k] for k in ("pot", "eps", "im")}, uturn_tests_depth3=expected[3]))
    ctx.assume("'long chains reproduce the moments' is a statistical statement without finite-state content: it is NOT decided; the deterministic ingredients whose failure "
               "breaks invariance are (exact integrator, reversibility, volume preservation, U-turn bookkeeping, acceptance rule)",
               "the tree is built with Python control flow (jax.disable_jit) so that a wrapped is_euclidean_uturn sees concrete states; the orbit rotates by < 0.05 rad so that no U-turn occurs")


def replay(ctx, doc):
    env = _env()
    c = doc["case"]
    with quiet():
        if "traj" in c:
            msgs = check_traj(env, c["traj"])
        elif c.get("what") == "laws":
            msgs = real_laws(env)
        elif c.get("what") == "acceptance":
            msgs = check_acceptance(env)
        elif c.get("what") == "chain":
            msgs = check_chain_ingredients(env)
        elif c.get("what") in ("chainseg", "chaintrace"):
            sub = type(ctx)(ctx.pid, "quick", ctx.seed)
            sub.quiet = True
            base = C32_chain.plain(env, c["kind"], (sum(c["cuts"]),), c["seed"])
            got = C32_chain.plain(env, c["kind"], tuple(c["cuts"]), c["seed"])
            msgs = [] if np.allclose(base[0], got[0], rtol=1e-10, atol=1e-12) else ["segmented run differs from the uncut run"]
            tr, _ = C32_chain.record(env, c["kind"], tuple(c["cuts"]), c["seed"])
            from vf import trace as tracemod
            tv = tracemod.validate(ctx, "HmcChainTrace", [tr], cfg=C32_chain.TCFG, label="replay")
            msgs += [cl for _, _, cl in tv.propfail]
        else:
            calls, ends, prop, depth, turning = tree_pairs(env, c["depth"], c["go_right"])
            msgs = [] if (not turning and depth == c["depth"]) else ["sub-tree reported as turning / incomplete"]
    for m in msgs:
        ctx.violation(doc.get("key", dict(kind="replay")), m, replay=c)
    ctx.case("replay")
    ctx.case("replay2")
    ctx.sample(dict(replayed=list(c.keys())))
    ctx.states = ctx.transitions = 1


def selftest(ctx):
    env = _env()
    r = tlcmod.run("Leapfrog", 'CONSTANTS Pot = "quad1"\nMaxSteps = 2\nSPECIFICATION Spec\nINVARIANT Emit\nCHECK_DEADLOCK FALSE\n', workers=1, timeout=900)
    inst = r.emitted[0]
    with quiet():
        good = check_traj(env, inst)
        inst["traj"][1]["p"][0][0] += 1
        bad = check_traj(env, inst)
    with quiet():
        st2 = C32_chain.selftest_chain(ctx, env)
    return dict(ok=(good == [] and len(bad) > 0 and st2["ok"]), mutation="one momentum of the expected trajectory changed; " + st2["mutation"])
