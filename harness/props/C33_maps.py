"""C33, second part: AxisMap.tla instances replayed into nifty.re.smap / lmap and jax.vmap."""
import json

import numpy as np

from vf import tlc as tlcmod
from vf.core import quiet

NONE = 99


def arr(a):
    return np.array(a["flat"], dtype=np.int64).reshape(a["shape"])


def ax(v):
    return None if v == NONE else v


def check_map_instance(jenv, inst):
    jax, jnp, jft, tm, cm = jenv
    out = []
    a, b = jnp.asarray(arr(inst["a"])), jnp.asarray(arr(inst["b"]))
    exp = [arr(o) for o in inst["out"]]
    fn = inst["fn"]
    f = {"add": lambda x, y: x + y, "sumlast": lambda x, y: x.sum(axis=-1), "pair": lambda x, y: (2 * x, y + 1), "const": lambda x, y: (2 * x, 2 * y)}[fn]
    in_axes = (ax(inst["ia"]), ax(inst["ib"]))
    out_axes = (ax(inst["oa"]), ax(inst["ob"])) if fn in ("pair", "const") else ax(inst["oa"])
    forms = [("tuple axes", f, in_axes, out_axes, (a, b))]
    if in_axes[0] == in_axes[1] and fn in ("add", "pair"):
        forms.append(("one axis for all arguments", f, in_axes[0], out_axes, (a, b)))
    # the arguments as one dict-valued argument with per-leaf axes
    fd = lambda d: f(d["u"], d["v"])
    forms.append(("per-leaf axes (dict argument)", fd, ({"u": in_axes[0], "v": in_axes[1]},), out_axes, ({"u": a, "v": b},)))
    if fn in ("pair", "const"):
        fo = lambda x, y: dict(zip(("p", "q"), f(x, y)))
        forms.append(("per-leaf output axes (dict result)", fo, in_axes, {"p": out_axes[0], "q": out_axes[1]}, (a, b)))
    for label, fun, ia, oa, args in forms:
        results = {}
        for name, mk in (("smap", lambda: cm.smap(fun, in_axes=ia, out_axes=oa)), ("lmap", lambda: cm.lmap(fun, in_axes=ia, out_axes=oa)),
                         ("vmap", lambda: jax.vmap(fun, in_axes=ia, out_axes=oa))):
            try:
                r = mk()(*args)
                leaves = [np.asarray(v) for v in (r.values() if isinstance(r, dict) else (r if isinstance(r, (tuple, list)) else (r,)))]
                results[name] = leaves
            except Exception as e:
                results[name] = "%s: %s" % (type(e).__name__, str(e)[:100])
        if isinstance(results["vmap"], str):
            continue            # not a legal specification for jax.vmap either: nothing is promised
        if len(results["vmap"]) != len(exp) or any(x.shape != y.shape or not np.array_equal(x, y) for x, y in zip(results["vmap"], exp)):
            raise tlcmod.MachineryError("jax.vmap disagrees with AxisMap.tla for %s (%s): the specification is wrong" % (json.dumps({k: inst[k] for k in ("fn", "ia", "ib", "oa", "ob")}), label))
        for name in ("smap", "lmap"):
            r = results[name]
            if isinstance(r, str):
                out.append("%s, %s: raised %s although jax.vmap accepts the same axes" % (name, label, r))
            elif len(r) != len(exp) or any(x.shape != y.shape or not np.array_equal(x, y) for x, y in zip(r, exp)):
                k = next((i for i, (x, y) in enumerate(zip(r, exp)) if x.shape != y.shape or not np.array_equal(x, y)), 0)
                out.append("%s, %s: output %d has shape %s values %s..., mapping gives shape %s values %s..." % (
                    name, label, k, r[k].shape, r[k].ravel()[:6].tolist(), exp[k].shape, exp[k].ravel()[:6].tolist()))
    return out


def run_maps(ctx, jenv):
    q = ctx.quick
    n = 0
    for fn in ("add", "sumlast", "pair", "const"):
        r = ctx.tlc("AxisMap", 'CONSTANTS Fn = "%s"\nSPECIFICATION Spec\nINVARIANT AlgorithmLaw\nINVARIANT ConstLaw\nINVARIANT Emit\n' % fn, label="axis maps, f = " + fn, workers=1, deadlock=False, timeout=1500)
        insts = r.emitted
        if q and len(insts) > 150:
            insts = [x for i, x in enumerate(insts) if i % 3 == ctx.seed % 3]
        with quiet():
            for inst in insts:
                n += 1
                ctx.case(("map", fn, inst["ia"], inst["ib"], inst["oa"], inst["ob"]))
                for msg in check_map_instance(jenv, inst):
                    ctx.violation(dict(kind="map", which=msg.split(",")[0], form=msg.split(":")[0].split(", ")[1] if ", " in msg.split(":")[0] else "", fn=fn,
                                       const_output=(inst["ob"] == NONE)),
                                  "f=%s in_axes=(%s,%s) out_axes=(%s,%s): %s" % (fn, ax(inst["ia"]), ax(inst["ib"]), ax(inst["oa"]), ax(inst["ob"]), msg), replay=dict(map=inst))
    ctx.traces += n
    ctx.notes["map_instances"] = n
    ctx.assume("axis specifications that jax.vmap itself rejects are outside the statement; jax.vmap must reproduce AxisMap.tla exactly (otherwise the run is a machinery failure)")
