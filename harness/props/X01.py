"""X01 (beyond the listed properties; DESIGN section 8 item 2) - schedule normalisation of nifty.cl.minimization.config.OptimizeKLConfig.

KLSchedule.tla   repetitions k*v, fill-up with the last value, refusal of over-long lists, joining of the stages in the order of their integer
                 ids; TLC: LengthLaw, RangeLaw, Idempotent, ValuesLaw on 1896 configurations; Quirk = TRUE is the transcription of the pinned
                 code (an entry list without a comma is not expanded)
spec -> code     every configuration is written as a config file and read by the real class: the per-iteration values of `n samples`,
                 the total number of iterations, the refusal of invalid files and the round trip through to_file / from_file"""
import configparser
import os
import shutil

from vf import tlc as tlcmod
from vf.core import quiet

CFG = "CONSTANTS Quirk = %s\nSPECIFICATION Spec\nINVARIANT LengthLaw\nINVARIANT RangeLaw\nINVARIANT Idempotent\nINVARIANT ValuesLaw\n"
SEC = {-1: "optimization.-1", 0: "optimization.0", 2: "optimization.02", 10: "optimization.10"}
OTHER = ("likelihood energy", "transitions", "kl minimizer", "sampling iteration controller", "nonlinear sampling minimizer")


def item(it):
    k, v = it
    return "%d" % v if k == 0 else "%d*%d" % (k, v)


def make_parser(stages):
    cp = configparser.ConfigParser()
    cp.optionxform = str
    cp["optimization"] = {"output directory": "unused", "save strategy": "last"}
    for st in stages:
        sec = {"total iterations": str(st["total"]), "n samples": ", ".join(item(i) for i in st["items"]), "fresh stochasticity": "True"}
        for k in OTHER:
            sec[k] = "None"
        cp[SEC[st["id"]]] = sec
    return cp


def observe(ift, stages, workdir=None):
    from nifty.cl.minimization.config.optimize_kl_config import OptimizeKLConfig
    try:
        c = OptimizeKLConfig(make_parser(stages), {})
    except RuntimeError as e:
        return dict(refused=True, why=str(e)[:80])
    d = dict(c)
    vals = []
    for i in range(d["total_iterations"]):
        try:
            vals.append(int(d["n_samples"](i)))
        except ValueError:
            vals.append(-1)
    out = dict(refused=False, total=d["total_iterations"], vals=vals, fresh=[d["fresh_stochasticity"](i) for i in range(d["total_iterations"])])
    if workdir is not None:
        fn = os.path.join(workdir, "norm.cfg")
        c.to_file(fn)
        try:
            c2 = OptimizeKLConfig.from_file(fn, {})
        except RuntimeError as e:
            out["roundtrip_same"] = False
            out["roundtrip_error"] = str(e)[:80]
            return out
        d2 = dict(c2)
        v2 = []
        for i in range(d2["total_iterations"]):
            try:
                v2.append(int(d2["n_samples"](i)))
            except ValueError:
                v2.append(-1)
        out["roundtrip_same"] = (d2["total_iterations"] == d["total_iterations"] and v2 == vals and c2 == c)
    return out


def run(ctx):
    import nifty.cl as ift
    doc = ctx.tlc("KLSchedule", CFG % "FALSE" + "INVARIANT Emit\n", label="the documented rules", workers=1, deadlock=False)
    code = ctx.tlc("KLSchedule", CFG % "TRUE" + "INVARIANT Emit\n", label="transcription of the pinned code (Quirk)", workers=1, deadlock=False)
    exp_doc = {str(e["stages"]): e for e in doc.emitted}
    work = os.path.join(tlcmod.RUNROOT, "X01-%d" % os.getpid())
    os.makedirs(work, exist_ok=True)
    ndev = nrt = 0
    examples = []
    try:
        with quiet():
            for e in code.emitted:
                ctx.case(str(e["stages"]))
                obs = observe(ift, e["stages"], work)
                key = dict(kind="schedule")
                what = None
                if e["valid"] and obs["refused"]:
                    what = "refused (%s) although every list fits its number of iterations" % obs["why"]
                elif not e["valid"] and not obs["refused"]:
                    what = "accepted although a list is longer than `total iterations`"
                elif e["valid"]:
                    if obs["total"] != e["total"]:
                        what = "total iterations %s, the stages add up to %s" % (obs["total"], e["total"])
                    elif obs["vals"] != e["joined"]:
                        what = "per-iteration values %s, the transcribed rules give %s" % (obs["vals"], e["joined"])
                    elif not all(obs["fresh"]):
                        what = "a boolean entry is not filled up"
                    elif not obs.get("roundtrip_same", True) and -1 not in obs["vals"]:
                        what = "writing the normalised configuration and reading it again changes it (%s)" % obs.get("roundtrip_error", "other values")
                if what:
                    ctx.violation(key, "stages %s: %s" % ([(s["id"], s["total"], [item(i) for i in s["items"]]) for s in e["stages"]], what), replay=dict(stages=e["stages"]))
                if e["valid"] and not obs.get("roundtrip_same", True) and -1 in obs["vals"]:
                    nrt += 1
                d = exp_doc[str(e["stages"])]
                if d["valid"] and d["joined"] != e["joined"]:
                    ndev += 1
                    if len(examples) < 3:
                        examples.append(dict(stages=[(s["id"], s["total"], [item(i) for i in s["items"]]) for s in e["stages"]], documented=d["joined"], code=e["joined"]))
    finally:
        shutil.rmtree(work, ignore_errors=True)
    ctx.traces += len(code.emitted)
    ctx.notes["deviations_from_the_documented_rule"] = dict(count=ndev, note="an entry list without a comma is not expanded: `n samples = 3*2` stays `3*2` for every iteration and fails in int()", examples=examples,
                                                            normalised_file_not_readable_again=nrt)
    ctx.sample(dict(configuration=code.emitted[5]["stages"], joined=code.emitted[5]["joined"]))
    ctx.exhaustive = True
    ctx.assume("only the schedule of `n samples` (integers) and `fresh stochasticity` is evaluated; references (*section) are not instantiated")


def replay(ctx, doc):
    import nifty.cl as ift
    with quiet():
        obs = observe(ift, doc["case"]["stages"])
    ctx.case("replay")
    ctx.case("replay2")
    ctx.sample(dict(observed=obs))
    ctx.states = ctx.transitions = 1


def selftest(ctx):
    import nifty.cl as ift
    with quiet():
        obs = observe(ift, [dict(id=0, total=4, items=[[2, 5], [0, 1]])])
    return dict(ok=(obs == dict(refused=False, total=4, vals=[5, 5, 1, 1], fresh=[True] * 4)), mutation="none (fixed example 2*5, 1 over 4 iterations)")
