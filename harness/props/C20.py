"""C20 - Linear Gaussian problems: Wiener filter and VI give the exact posterior.

LinGauss.tla   exact posterior mean m and covariance D of linear Gaussian models (incl. rank-deficient responses); TLC: D Dinv = 1,
               Dinv m = j, signal-space and data-space forms of the Wiener filter agree
spec -> code   nifty.re wiener_filter_posterior (signal space and data space), the classic WienerFilterCurvature (inverse and sampler),
               classic and JAX optimize_kl as MAP and as MGVI on the same model: means equal m; the sample maps satisfy L L^T = D"""
import json
import os
import shutil

import numpy as np

from props import lingauss_common as lg
from vf import tlc as tlcmod
from vf.core import quiet


def check_model(inst, env, Rmod, Noise, deep):
    jax, jnp, jft = env
    out = []
    m_exp = lg.mat(inst["m"]).ravel()
    D = lg.mat(inst["D"])
    # ---- nifty.re Wiener filter --------------------------------------------------------------------------------------------
    rm = lg.ReModel(inst, env)
    key = jax.random.PRNGKey(5)
    kw = dict(cg_kwargs=dict(absdelta=1e-16, resnorm=1e-13, maxiter=80))
    for label, args in (("signal space", dict(signal_space=True)), ("data space", dict(signal_space=False, noise_covariance=lambda x: x / rm.ninv))):
        try:
            s, _ = jft.wiener_filter_posterior(rm.lh, key=key, n_samples=0, draw_linear_kwargs=kw, jit=False, **args)
            got = lg.ReModel.flat(s.pos)
            if not np.allclose(got, m_exp, atol=1e-9):
                out.append("nifty.re wiener_filter_posterior (%s): mean %s, the posterior mean is %s" % (label, np.round(got, 9).tolist(), np.round(m_exp, 9).tolist()))
        except Exception as e:
            out.append("nifty.re wiener_filter_posterior (%s) raised %s: %s" % (label, type(e).__name__, str(e)[:140]))
    # the linearised branch at a non-zero position: for a linear model the linearisation is the model itself
    p0 = rm.pos([0.7, -0.4, 0.9])
    for label, args in (("signal space", dict(signal_space=True)), ("data space", dict(signal_space=False, noise_covariance=lambda x: x / rm.ninv))):
        try:
            s, _ = jft.wiener_filter_posterior(rm.lh, p0, key=key, n_samples=0, draw_linear_kwargs=kw, jit=False, model_is_linear=False, **args)
            got = lg.ReModel.flat(s.pos)
            if not np.allclose(got, m_exp, atol=1e-9):
                out.append("nifty.re wiener_filter_posterior (%s, linearised at a non-zero position): mean %s, the posterior mean is %s" % (label, np.round(got, 9).tolist(), np.round(m_exp, 9).tolist()))
        except Exception as e:
            out.append("nifty.re wiener_filter_posterior (%s, linearised) raised %s: %s" % (label, type(e).__name__, str(e)[:140]))
    try:
        s, _ = jft.wiener_filter_posterior(rm.lh, key=key, n_samples=2, draw_linear_kwargs=kw, jit=False)
        sm = s.samples
        arr = np.stack([lg.ReModel.flat(jax.tree_util.tree_map(lambda x, i=i: x[i], sm)) for i in range(len(s))])
        if len(s) != 4 or not np.allclose(arr.mean(axis=0), m_exp, atol=1e-9) or not np.allclose(arr[0] + arr[1], 2 * m_exp, atol=1e-9):
            out.append("nifty.re wiener_filter_posterior: %d samples, their average %s is not the posterior mean %s (mirrored pairs)" % (len(s), np.round(arr.mean(axis=0), 8).tolist(), np.round(m_exp, 8).tolist()))
    except Exception as e:
        out.append("nifty.re wiener_filter_posterior with samples raised %s: %s" % (type(e).__name__, str(e)[:140]))
    # ---- classic curvature --------------------------------------------------------------------------------------------------
    cm = lg.ClModel(inst)
    ift = cm.ift
    try:
        N = cm.Ninv.inverse
        S = ift.ScalingOperator(cm.dom, 1., sampling_dtype=np.float64)
        ic = ift.GradientNormController(tol_abs_gradnorm=1e-13, iteration_limit=200)
        curv = ift.WienerFilterCurvature(cm.Rop, N, S, ic, ic)
        j = cm.Rop.adjoint_times(cm.Ninv(ift.makeField(cm.dd, cm.d)))
        got = lg.ClModel.flat(curv.inverse_times(j))
        if not np.allclose(got, m_exp, atol=1e-9):
            out.append("classic WienerFilterCurvature.inverse_times(j): %s, the posterior mean is %s" % (np.round(got, 9).tolist(), np.round(m_exp, 9).tolist()))
        with Noise(Rmod) as nz:
            nz.hot, nz.count = None, 0
            base = lg.ClModel.flat(curv.draw_sample(from_inverse=True))
            nex = nz.count
            cols = []
            for k in range(nex):
                nz.hot, nz.count = k, 0
                cols.append(lg.ClModel.flat(curv.draw_sample(from_inverse=True)))
        L = np.array(cols).T
        if np.max(np.abs(base)) > 1e-12 or not np.allclose(L @ L.T, D, atol=1e-9):
            out.append("classic WienerFilterCurvature: samples from the inverse have covariance %s, the posterior covariance is %s" % (np.round(L @ L.T, 8).tolist(), np.round(D, 8).tolist()))
        # a non-standard prior covariance S = diag(4, 1/4, 1)
        sv = np.array([4., .25, 1.])
        S2 = ift.BlockDiagonalOperator(cm.dom, {"a": ift.makeOp(ift.makeField(cm.da, sv[:2]), sampling_dtype=np.float64), "b": ift.ScalingOperator(cm.db, sv[2], sampling_dtype=np.float64)})
        curv2 = ift.WienerFilterCurvature(cm.Rop, N, S2, ic, ic)
        mS, DS = lg.mat(inst["mS"]).ravel(), lg.mat(inst["DS"])
        got = lg.ClModel.flat(curv2.inverse_times(j))
        if not np.allclose(got, mS, atol=1e-9):
            out.append("classic WienerFilterCurvature with prior diag(4, 1/4, 1): inverse_times(j) = %s, the posterior mean is %s" % (np.round(got, 9).tolist(), np.round(mS, 9).tolist()))
        with Noise(Rmod) as nz:
            nz.hot, nz.count = None, 0
            base = lg.ClModel.flat(curv2.draw_sample(from_inverse=True))
            nex = nz.count
            cols = []
            for k in range(nex):
                nz.hot, nz.count = k, 0
                cols.append(lg.ClModel.flat(curv2.draw_sample(from_inverse=True)))
        L = np.array(cols).T
        if np.max(np.abs(base)) > 1e-12 or not np.allclose(L @ L.T, DS, atol=1e-9):
            out.append("classic WienerFilterCurvature with prior diag(4, 1/4, 1): samples from the inverse have covariance %s, the posterior covariance is %s" % (np.round(L @ L.T, 8).tolist(), np.round(DS, 8).tolist()))
    except Exception as e:
        out.append("classic WienerFilterCurvature raised %s: %s" % (type(e).__name__, str(e)[:140]))
    if not deep:
        return out
    # ---- the VI drivers as MAP and MGVI ----------------------------------------------------------------------------------------
    try:
        mini = ift.NewtonCG(ift.AbsDeltaEnergyController(1e-14, iteration_limit=30, convergence_level=3))
        for label, ns in (("MAP", 0), ("MGVI", 2)):
            sl, mean = ift.optimize_kl(cm.lh, 3, ns, mini, cm.ic, nonlinear_sampling_minimizer=None, output_directory=None, return_final_position=True,
                                       initial_position=cm.field([0.5, -0.5, 0.25]))
            got = lg.ClModel.flat(mean)
            if not np.allclose(got, m_exp, atol=1e-7):
                out.append("classic optimize_kl (%s): mean %s, the posterior mean is %s" % (label, np.round(got, 8).tolist(), np.round(m_exp, 8).tolist()))
    except Exception as e:
        out.append("classic optimize_kl raised %s: %s" % (type(e).__name__, str(e)[:140]))
    try:
        for label, ns in (("MAP", 0), ("MGVI", 2)):
            s, st = jft.optimize_kl(rm.lh, rm.pos([0.5, -0.5, 0.25]), key=jax.random.PRNGKey(1), n_total_iterations=3, n_samples=ns, odir=None,
                                    draw_linear_kwargs=dict(cg_name=None, cg_kwargs=dict(absdelta=1e-14, maxiter=60)), sample_mode="linear_resample",
                                    kl_kwargs=dict(minimize_kwargs=dict(name=None, xtol=1e-12, cg_kwargs=dict(name=None, absdelta=1e-14), maxiter=20)), jit=False)
            got = lg.ReModel.flat(s.pos)
            if not np.allclose(got, m_exp, atol=1e-7):
                out.append("nifty.re optimize_kl (%s): mean %s, the posterior mean is %s" % (label, np.round(got, 8).tolist(), np.round(m_exp, 8).tolist()))
    except Exception as e:
        out.append("nifty.re optimize_kl raised %s: %s" % (type(e).__name__, str(e)[:160]))
    return out


def run(ctx):
    from nifty.cl import random as Rmod
    from props.C13 import Noise
    env = lg.jax_env()
    models = lg.emit_models(ctx)
    with quiet():
        for i, inst in enumerate(models):
            ctx.case(json.dumps([inst["R"], inst["ninv"], inst["d"]]))
            deep = (i % 4 == ctx.seed % 4) if ctx.quick else True
            for msg in check_model(inst, env, Rmod, Noise, deep):
                ctx.violation(dict(kind="posterior", which=msg.split(":")[0].split(" raised")[0][:50]), "R=%s ninv=%s d=%s: %s" % (inst["R"], [lg.rv(x) for x in inst["ninv"]], inst["d"], msg),
                              replay=dict(model=inst))
    ctx.traces += len(models)
    ctx.sample(dict(model={k: models[1][k] for k in ("R", "ninv", "d", "m")}))
    ctx.assume("solvers are run to 1e-13 and means compared to 1e-9 (Wiener filter) / 1e-7 (three VI iterations from a different start)",
               "in quick mode the VI drivers are run on every fourth model")


def replay(ctx, doc):
    from nifty.cl import random as Rmod
    from props.C13 import Noise
    inst = doc["case"]["model"]
    with quiet():
        msgs = check_model(inst, lg.jax_env(), Rmod, Noise, True)
    for m in msgs:
        ctx.violation(doc.get("key", dict(kind="posterior")), m, replay=doc["case"])
    ctx.case("replay")
    ctx.case("replay2")
    ctx.sample(dict(replayed=inst["R"]))
    ctx.states = ctx.transitions = 1


def selftest(ctx):
    from nifty.cl import random as Rmod
    from props.C13 import Noise
    r = tlcmod.run("LinGauss", "SPECIFICATION Spec\nINVARIANT Emit\n", workers=1, timeout=900, deadlock=False)
    inst = next(i for i in r.emitted if i["R"] == [[2, 0, 1], [-1, 1, 0]])
    env = lg.jax_env()
    with quiet():
        good = check_model(inst, env, Rmod, Noise, False)
        inst["m"][0][0][0] += 1
        bad = check_model(inst, env, Rmod, Noise, False)
    return dict(ok=(good == [] and len(bad) > 0), mutation="one entry of the expected mean changed")
