"""C09 - Harmonic transforms follow the volume convention and all backends agree.

Harmonic.tla   entries of FFTOperator / HartleyOperator in TIMES and INVERSE mode as (volume, fraction of a turn), exact; TLC: the harmonic
               pixel volume is 1/(N volPos) and, for axis lengths in {1,2,4} (exact roots of unity), INVERSE . TIMES = identity
spec -> code   for every grid: dense matrices of FFTOperator and HartleyOperator (both conventions) in all four modes against the spec
               (ADJOINT / ADJOINT_INVERSE = conjugate transposes), real and complex input, the zero-mode law F(x)[0] = integral of x,
               the transform on one sub-space of a product domain, and the three back ends (ducc dispatch, SciPy dispatch, nifty.re
               hartley) on the same inputs under both conventions; HarmonicSmoothingOperator: identity for sigma = 0 and equal to
               HT^-1 diag(exp(-2 pi^2 sigma^2 k^2)) HT otherwise; spherical-harmonic transforms: adjointness and the l = 0 coefficient"""
import json

import numpy as np

from vf import tlc as tlcmod
from vf.core import quiet


def q(v):
    return v["n"] / v["d"]


def dense(ift, op, mode, dtype=complex):
    dom = op._dom(mode)
    N = dom.size
    cols = []
    for k in range(N):
        e = np.zeros(N, dtype)
        e[k] = 1
        cols.append(op.apply(ift.makeField(dom, e.reshape(dom.shape)), mode).asnumpy().ravel())
    return np.array(cols).T


def spec_matrices(r):
    shape = tuple(r["shape"])
    N = int(np.prod(shape))
    vp, vh = q(r["volPos"]), q(r["volHarm"])
    T = np.zeros((N, N))
    Ti = np.zeros((N, N))
    for e in r["times"]:
        k = np.ravel_multi_index(tuple(e["k"]), shape)
        j = np.ravel_multi_index(tuple(e["j"]), shape)
        T[k, j] = q(e["turn"])
    for e in r["inv"]:
        k = np.ravel_multi_index(tuple(e["k"]), shape)
        j = np.ravel_multi_index(tuple(e["j"]), shape)
        Ti[j, k] = q(e["turn"])
    w = lambda t: np.exp(2j * np.pi * t)
    c, s = (lambda t: np.cos(2 * np.pi * t)), (lambda t: np.sin(2 * np.pi * t))
    # the two Hartley conventions in terms of the turn t of the TIMES kernel exp(2 pi i t): Re F + Im F and Re F - Im F
    return dict(fft=(vp * w(T), vh * w(Ti)), non_canonical_hartley=(vp * (c(T) + s(T)), vh * (c(Ti) - s(Ti)) if False else None),
                canonical_hartley=(vp * (c(T) - s(T)), None), vp=vp, vh=vh)


def check_config(ift, config, r, env):
    out = []
    shape = tuple(r["shape"])
    d = tuple(q(x) for x in r["d"])
    sp = ift.RGSpace(shape, d)
    S = spec_matrices(r)
    M, Mi = S["fft"]
    F = ift.FFTOperator(sp)
    if abs(F.target[0].scalar_dvol - S["vh"]) > 1e-15:
        out.append("harmonic pixel volume %r, expected 1/(N volume) = %r" % (F.target[0].scalar_dvol, S["vh"]))
    for mode, ref in {1: M, 2: M.conj().T, 4: Mi, 8: Mi.conj().T}.items():
        D = dense(ift, F, mode)
        if not np.allclose(D, ref, rtol=1e-12, atol=1e-13):
            out.append("FFTOperator mode %d differs from the volume convention (max deviation %.3g)" % (mode, np.max(np.abs(D - ref))))
    if not np.allclose(Mi @ M, np.eye(len(M)), atol=1e-12):
        out.append("spec self-check: INVERSE . TIMES is not the identity")
    # zero mode = integral
    x = ift.makeField(sp, (np.arange(sp.size) + 1.5).reshape(shape))
    if abs(F(x).asnumpy().ravel()[0] - x.integrate().asnumpy()) > 1e-12 * abs(x.integrate().asnumpy()):
        out.append("the zero mode of the transform is not the integral of the field")
    for conv in ("non_canonical_hartley", "canonical_hartley"):
        config.update("hartley_convention", conv)
        try:
            H = S[conv][0]
            Hi = np.linalg.inv(H)
            Ho = ift.HartleyOperator(sp)
            for mode, ref in {1: H, 2: H.T, 4: Hi, 8: Hi.T}.items():
                D = dense(ift, Ho, mode)
                if not np.allclose(D, ref, rtol=1e-12, atol=1e-13):
                    out.append("HartleyOperator (%s) mode %d differs from the convention (max deviation %.3g)" % (conv, mode, np.max(np.abs(D - ref))))
            Dr = dense(ift, Ho, 1, float)
            if not np.allclose(Dr, H, rtol=1e-12, atol=1e-13):
                out.append("HartleyOperator (%s) on real input differs" % conv)
            # back ends on the same input, all axes
            from nifty.cl import ducc_dispatch as dd
            a = (np.arange(sp.size) ** 2 % 7 + 0.25).reshape(shape)
            refh = (H @ a.ravel()).reshape(shape) / S["vp"]
            A_ = ift.AnyArray
            got = {"ducc": dd.hartley(A_(a)).val, "scipy": dd._scipy_hartley(A_(a)).val}
            if env is not None:
                jax, jnp, jcf = env
                got["jax"] = np.asarray(jcf.hartley(jnp.asarray(a)))
            for nm, g in got.items():
                if not np.allclose(g, refh, rtol=1e-12, atol=1e-12):
                    out.append("back end %s: Hartley transform under %s differs from the specification" % (nm, conv))
            # transforms along ONE axis of a multi-dimensional array: identity on the other axes, the kernel of that axis taken from the
            # specification's table (turn of (k_ax, 0..0) x (j_ax, 0..0))
            if len(shape) > 1:
                for axn in range(len(shape)):
                    n_ax = shape[axn]
                    T1 = np.zeros((n_ax, n_ax))
                    for e in r["times"]:
                        if all(v == 0 for i_, v in enumerate(e["k"]) if i_ != axn) and all(v == 0 for i_, v in enumerate(e["j"]) if i_ != axn):
                            T1[e["k"][axn], e["j"][axn]] = q(e["turn"])
                    sgn = 1. if conv == "non_canonical_hartley" else -1.
                    K1 = np.cos(2 * np.pi * T1) + sgn * np.sin(2 * np.pi * T1)
                    refp = np.moveaxis(np.tensordot(K1, a, axes=(1, axn)), 0, axn)
                    gotp = {"ducc": dd.hartley(A_(a), axes=(axn,)).val, "scipy": dd._scipy_hartley(A_(a), axes=(axn,)).val}
                    if env is not None:
                        gotp["jax"] = np.asarray(jcf.hartley(jnp.asarray(a), axes=(axn,)))
                    for nm, g in gotp.items():
                        if g.shape != refp.shape or not np.allclose(g, refp, rtol=1e-12, atol=1e-12):
                            out.append("back end %s: Hartley transform along axis %d only (%s) differs from the specification" % (nm, axn, conv))
                    F1 = np.exp(2j * np.pi * T1)
                    reffp = np.moveaxis(np.tensordot(F1, a + 0j, axes=(1, axn)), 0, axn)
                    for nm, g in {"ducc": dd.fftn(A_(a + 0j), axes=(axn,)).val, "scipy": dd._scipy_fftn(A_(a + 0j), axes=(axn,)).val}.items():
                        if not np.allclose(g, reffp, rtol=1e-12, atol=1e-12):
                            out.append("back end %s: fftn along axis %d only differs from the specification" % (nm, axn))
                    for nm, g in {"ducc": dd.ifftn(A_(reffp), axes=(axn,)).val, "scipy": dd._scipy_ifftn(A_(reffp), axes=(axn,)).val}.items():
                        if g.shape != a.shape or not np.allclose(g, a, rtol=1e-12, atol=1e-12):
                            out.append("back end %s: ifftn along axis %d only does not invert fftn along that axis" % (nm, axn))
            ac = a + 1j * a[::-1].reshape(shape) if len(shape) == 1 else a + 1j * a.T.reshape(shape) if a.T.shape == a.shape else a + 2j * a
            reff = (M @ ac.ravel()).reshape(shape) / S["vp"]
            for nm, g in {"ducc": dd.fftn(A_(ac)).val, "scipy": dd._scipy_fftn(A_(ac)).val}.items():
                if not np.allclose(g, reff, rtol=1e-12, atol=1e-12):
                    out.append("back end %s: fftn differs from the specification" % nm)
            for nm, g in {"ducc": dd.ifftn(A_(reff)).val, "scipy": dd._scipy_ifftn(A_(reff)).val}.items():
                if not np.allclose(g, ac, rtol=1e-12, atol=1e-12):
                    out.append("back end %s: ifftn does not invert fftn" % nm)
        finally:
            config.update("hartley_convention", "non_canonical_hartley")
    # the short names of the conventions select the same conventions as the long ones; configuration keys are not case sensitive
    for alias, conv, key in (("ducc_hartley", "non_canonical_hartley", "hartley_convention"), ("ducc_fht", "canonical_hartley", "hartley_convention"),
                             ("ducc_fht", "canonical_hartley", "HARTLEY_CONVENTION"), ("ducc_hartley", "non_canonical_hartley", "Hartley_Convention")):
        try:
            config.update("hartley_convention", "canonical_hartley" if conv == "non_canonical_hartley" else "non_canonical_hartley")
            config.update(key, alias)
            if config._config.get("hartley_convention") != conv:
                out.append("update(%r, %r) selects %r, documented is %r" % (key, alias, config._config.get("hartley_convention"), conv))
            D = dense(ift, ift.HartleyOperator(sp), 1)
            if not np.allclose(D, S[conv][0], rtol=1e-12, atol=1e-13):
                out.append("HartleyOperator after update(%r, %r) does not follow the %s convention" % (key, alias, conv))
            try:
                config.update(key, "no_such_convention")
                out.append("update(%r, 'no_such_convention') is accepted" % key)
            except ValueError:
                pass
        finally:
            config.update("hartley_convention", "non_canonical_hartley")
    # transform on one sub-space of a product domain
    other = ift.UnstructuredDomain(2)
    dom = ift.DomainTuple.make((other, sp))
    Fp = ift.FFTOperator(dom, space=1)
    y = ift.makeField(dom, np.stack([x.asnumpy(), 2 * x.asnumpy() + 1]))
    r1 = Fp(y).asnumpy()
    if not (np.allclose(r1[0].ravel(), M @ x.asnumpy().ravel()) and np.allclose(r1[1].ravel(), M @ (2 * x.asnumpy() + 1).ravel())):
        out.append("FFTOperator on a sub-space of a product domain does not transform every slice")
    return out


def smoothing_and_sht(ift):
    out = []
    n = 0
    for shape, d in (((8,), 0.5), ((4, 6), (0.5, 1.0))):
        sp = ift.RGSpace(shape, d)
        n += 1
        x = ift.makeField(sp, (np.arange(sp.size) % 5 + 0.5).reshape(shape))
        s0 = ift.HarmonicSmoothingOperator(sp, 0.)
        if not np.array_equal(s0(x).asnumpy(), x.asnumpy()):
            out.append("HarmonicSmoothingOperator with sigma = 0 is not the identity")
        for sigma in (0.3, 1.1):
            sm = ift.HarmonicSmoothingOperator(sp, sigma)
            HT = ift.HartleyOperator(sp)
            k = HT.target[0].get_k_length_array()
            kern = ift.makeOp(ift.makeField(HT.target, np.exp(-2 * np.pi ** 2 * sigma ** 2 * k.asnumpy() ** 2)))
            ref = HT.inverse(kern(HT(x)))
            if not np.allclose(sm(x).asnumpy(), ref.asnumpy(), rtol=1e-11, atol=1e-12):
                out.append("HarmonicSmoothingOperator(sigma=%g) is not HT^-1 diag(exp(-2 pi^2 sigma^2 k^2)) HT" % sigma)
            if abs(sm(x).integrate().asnumpy() - x.integrate().asnumpy()) > 1e-10:
                out.append("smoothing does not conserve the integral")
    # spherical harmonics: adjointness and the l=0 coefficient of a constant map
    consts = []
    for lmax, target in ((3, ift.GLSpace(5, 9)), (2, ift.HPSpace(2))):
        n += 1
        lm = ift.LMSpace(lmax)
        op = ift.HarmonicTransformOperator(lm, target)
        rng = np.random.default_rng(lmax)
        a = ift.makeField(lm, rng.standard_normal(lm.shape))
        b = ift.makeField(op.target, rng.standard_normal(op.target.shape))
        lhs, rhs = b.s_vdot(op(a)), op.adjoint(b).s_vdot(a)
        if abs(lhs - rhs) > 1e-10 * max(1., abs(lhs)):
            out.append("spherical harmonic transform (lmax=%d): <y, A x> = %r but <A^H y, x> = %r" % (lmax, lhs, rhs))
        e0 = np.zeros(lm.shape)
        e0[0] = 1.
        m = op(ift.makeField(lm, e0)).asnumpy()
        consts.append(float(m.ravel()[0]))
        if not np.allclose(m, m.ravel()[0], rtol=1e-12):
            out.append("the l=0 coefficient does not give a constant map (lmax=%d)" % lmax)
    if len(consts) == 2 and abs(consts[0] - consts[1]) > 1e-13:
        out.append("the l=0 normalisation differs between the Gauss-Legendre and the HEALPix pixelisation: %r vs %r" % tuple(consts))
    return out, n


def run(ctx):
    import nifty.cl as ift
    from nifty import config
    try:
        import jax
        jax.config.update("jax_enable_x64", True)
        import jax.numpy as jnp
        from nifty.re import correlated_field as jcf
        env = (jax, jnp, jcf)
    except Exception:
        env = None
        ctx.assume("nifty.re could not be imported: the JAX Hartley back end is not compared")
    r = ctx.tlc("Harmonic", "SPECIFICATION Spec\nINVARIANT Law\nINVARIANT Emit\n", label="all grids", workers=1, timeout=1500)
    cfgs = r.emitted
    if len(cfgs) < 40:
        raise tlcmod.MachineryError("too few grids emitted: %d" % len(cfgs))
    with quiet():
        for c in cfgs:
            ctx.case((tuple(c["shape"]), json.dumps(c["d"])))
            for msg in check_config(ift, config, c, env):
                ctx.violation(dict(kind="transform", what=" ".join(msg.split(" ")[:2])), "RGSpace%s distances %s: %s" % (tuple(c["shape"]), [q(x) for x in c["d"]], msg), replay=dict(config=dict(shape=c["shape"], d=c["d"])))
        sv, ns = smoothing_and_sht(ift)
    for msg in sv:
        ctx.violation(dict(kind="smoothing-sht"), msg, replay=dict(what="smoothing"))
    for k in range(ns):
        ctx.case(("extra", k))
    ctx.traces += len(cfgs)
    ctx.sample(dict(grid=dict(shape=cfgs[3]["shape"], d=cfgs[3]["d"]), times_entries=sorted(cfgs[3]["times"], key=str)[:3], volHarm=cfgs[3]["volHarm"]))
    ctx.exhaustive = True
    ctx.assume("cos / sin / exp of the exact turn are evaluated by NumPy; comparison 1e-12", "the spherical-harmonic normalisation is covered only through adjointness and the l = 0 coefficient; "
               "the Gaussian smoothing kernel is specified as a formula and evaluated by the harness")


def replay(ctx, doc):
    import nifty.cl as ift
    from nifty import config
    c = doc["case"]
    if "config" in c:
        r = tlcmod.run("Harmonic", "SPECIFICATION Spec\nINVARIANT Emit\n", workers=1, timeout=1500)
        rec = next(x for x in r.emitted if x["shape"] == c["config"]["shape"] and x["d"] == c["config"]["d"])
        with quiet():
            for msg in check_config(ift, config, rec, None):
                ctx.violation(doc.get("key", dict(kind="transform")), msg, replay=c)
    ctx.case("replay")
    ctx.case("replay2")
    ctx.sample(dict(replayed=str(c)[:200]))
    ctx.states = ctx.transitions = 1


def selftest(ctx):
    import nifty.cl as ift
    from nifty import config
    r = tlcmod.run("Harmonic", "SPECIFICATION Spec\nINVARIANT Emit\n", workers=1, timeout=1500)
    rec = next(x for x in r.emitted if x["shape"] == [4])
    with quiet():
        good = check_config(ift, config, rec, None)
        rec["volPos"]["n"] *= 3
        bad = check_config(ift, config, rec, None)
    return dict(ok=(good == [] and len(bad) > 0), mutation="volume factor of the expectation tripled")
