"""C21 - Runs are reproducible and independent of execution strategy.

RandomCtx.tla        the RNG stack of nifty.cl.random; TLC: Restores / RestoresOnRaise / DepthChecked / SetGetIdentity
spec -> code         TLC behaviours replayed on the real module (projection + bit-generator state + reference draws)
code -> spec         seeded drivers with real `with` blocks / exceptions and the library's own use of the module
                     (SampledKLEnergy, classic optimize_kl) recorded from outside, validated by RandomCtxTrace.tla
ExecStrategy.tla     configuration space of a small JAX VI run; results compared across configurations / processes"""
import hashlib
import json
import os
import pickle
import random
import subprocess
import sys

import numpy as np

from vf import tlc as tlcmod
from vf import trace as tracemod
from vf.rngrec import RngRecorder, Boom, ident
from vf.core import quiet

CFG = """CONSTANTS Seeds = {5, 7}
MaxDepth = %d
MaxOps = %d
MaxSpawn = 2
KeepHist = %s
EmitHist = %s
SPECIFICATION Spec
"""
PROPS = "INVARIANT TypeOK\nPROPERTY Restores\nPROPERTY RestoresOnRaise\nPROPERTY DepthChecked\nPROPERTY SetGetIdentity\nPROPERTY ReenterRepeats\nCHECK_DEADLOCK FALSE\n"


def _proj_level(R, i, drawn):
    ss = R._sseq[i]
    return (tuple(ident(ss)), int(ss.n_children_spawned), drawn.get(id(R._rng[i]), 0))


def replay_hist(hist):
    """returns (violation or None, drift or None)"""
    from nifty.cl import random as R
    import nifty.cl as ift
    state0 = R.getState()
    base = len(R._sseq)
    try:
        R.push_sseq_from_seed(42)          # the model's initial entry <<42>>
        drawn, shadow, keep = {}, {}, []
        g = R._rng[-1]
        keep.append(g)
        shadow[id(g)] = np.random.default_rng(np.random.SeedSequence(42))
        open_ctx = []                      # (Context, top projection at entry, bit generator state at entry)
        ctxobjs = {}                       # re-usable Context objects by seed
        saved = None
        drift = None

        def newgen():
            g = R._rng[-1]
            ss = R._sseq[-1]
            keep.append(g)
            drawn[id(g)] = 0
            shadow[id(g)] = np.random.default_rng(np.random.SeedSequence(ss.entropy, spawn_key=ss.spawn_key))

        def snap():
            return (_proj_level(R, -1, drawn), json.dumps(R._rng[-1].bit_generator.state, sort_keys=True, default=str))

        for i, e in enumerate(hist):
            op, arg, n = e["op"], e["arg"], e["n"]
            real_err = "none"
            if op == "push_seed":
                R.push_sseq_from_seed(arg)
                newgen()
            elif op == "spawn_push":
                ss = R.spawn_sseq(n)
                R.push_sseq(ss[arg])
                newgen()
            elif op == "spawn":
                R.spawn_sseq(n)
            elif op == "pop":
                R.pop_sseq()
            elif op == "draw":
                g = R._rng[-1]
                fn = {1: lambda: R.Random.normal(np.float64, (3,)), 2: lambda: R.Random.uniform(np.complex128, (2,)),
                      3: lambda: R.Random.pm1(np.int64, (4,)), 4: lambda: R.Random.pm1(np.complex128, (5,)),
                      5: lambda: R.Random.normal(np.complex128, (2,), 1., 2.), 6: lambda: R.Random.uniform(np.int64, (3,), 0, 9)}[arg]
                x = fn()
                sh = shadow.get(id(g))
                if sh is not None:
                    R._rng[-1] = sh
                    try:
                        ref = fn()
                    finally:
                        R._rng[-1] = g
                    if not np.array_equal(x, ref):
                        return "step %d: a draw differs from the draw of a reference generator built from the seed identity %s" % (i, ident(R._sseq[-1])), drift
                drawn[id(g)] = drawn.get(id(g), 0) + 1
            elif op in ("enter", "enter_spawned", "reenter"):
                if op == "reenter":
                    if arg not in ctxobjs:
                        ctxobjs[arg] = R.Context(arg)
                    c = ctxobjs[arg]                 # the SAME Context object as in every earlier `reenter` of this seed
                    before = snap()
                elif op == "enter":
                    c = R.Context(arg)
                    before = snap()
                else:
                    ss = R.spawn_sseq(n)
                    before = snap()
                    c = R.Context(ss[arg])
                c.__enter__()
                newgen()
                open_ctx.append((c, before))
            elif op == "exit":
                c, before = open_ctx.pop()
                try:
                    c.__exit__(None, None, None)
                except RuntimeError:
                    real_err = "inconsistent"
                if e["ok"] and real_err == "none" and e["err"] == "none" and snap() != before:
                    return "step %d: leaving a context (balanced body) did not restore the previous generator: %s != %s" % (i, snap()[0], before[0]), drift
            elif op == "raise":
                first = open_ctx[0][1]
                while open_ctx:
                    c, _ = open_ctx.pop()
                    try:
                        c.__exit__(Boom, Boom(), None)
                    except RuntimeError:
                        real_err = "inconsistent"
                if e["ok"] and real_err == "none" and snap() != first:
                    return "step %d: unwinding contexts by an exception did not restore the previous generator: %s != %s" % (i, snap()[0], first[0]), drift
            elif op == "get_state":
                saved = (R.getState(), [(id(g), drawn.get(id(g), 0)) for g in R._rng[base:]], snap())
            elif op == "set_state":
                st, dr, sn = saved
                depth_before = len(R._sseq)
                R.setState(st)
                # generators are new objects now: carry the draw counts over by position; reference generators are lost
                for g, (_, cnt) in zip(R._rng[base:], dr):
                    keep.append(g)
                    drawn[id(g)] = cnt
                if snap() != sn:
                    return "step %d: setState(getState()) did not restore the generator state" % i, drift
            else:
                raise tlcmod.MachineryError("unknown op " + op)
            # fidelity: the projection equals the model's
            if drift is None:
                top = _proj_level(R, -1, drawn)
                got = (len(R._sseq) - base, list(top[0]), top[1], top[2], real_err)
                exp = (e["depth"], e["seed"], e["spawned"], e["drawn"], e["err"])
                if got != exp:
                    drift = "step %d %s: model %s real %s" % (i, op, exp, got)
        return None, drift
    finally:
        R.setState(state0)


# ---- code -> spec: seeded driver with real with-blocks -------------------------------------------------------
def record_driver_traces(rng, ntraces):
    import nifty.cl as ift
    from nifty.cl import random as R
    traces = []
    with RngRecorder() as rec:
        for _ in range(ntraces):
            base = len(R._sseq)
            R.push_sseq_from_seed(rng.choice([5, 7, 11]))
            rec.start_trace()

            def body(depth):
                for _ in range(rng.randint(1, 4)):
                    c = rng.random()
                    if c < 0.3:
                        k = rng.choice([1, 2, 3, 4, 5, 6])
                        if k == 4:
                            ift.from_random(ift.RGSpace(4), "pm1", dtype=np.complex128)
                        elif k == 5:
                            ift.from_random(ift.RGSpace(2), "normal", dtype=np.complex128, mean=1., std=2.)
                        elif k == 6:
                            ift.from_random(ift.RGSpace(3), "uniform", dtype=np.int64, low=0, high=9)
                        elif k == 1:
                            ift.from_random(ift.UnstructuredDomain(rng.choice([1, 2, 3])))
                        elif k == 2:
                            ift.from_random(ift.RGSpace(2), "uniform", dtype=np.float64)
                        else:
                            ift.from_random(ift.RGSpace(3), "pm1", dtype=np.int64)
                    elif c < 0.42 and len(R._sseq) < base + 5:
                        R.push_sseq_from_seed(rng.choice([5, 7]))
                        try:
                            body(depth + 1)
                        finally:
                            R.pop_sseq()
                    elif c < 0.55 and len(R._sseq) < base + 5:
                        n = rng.choice([1, 2, 3])
                        ss = R.spawn_sseq(n)
                        R.push_sseq(ss[rng.randrange(n)])
                        try:
                            body(depth + 1)
                        finally:
                            R.pop_sseq()
                    elif c < 0.9 and len(R._sseq) < base + 5:
                        if rng.random() < 0.5:
                            inp = rng.choice([5, 7])
                        else:
                            n = rng.choice([1, 2])
                            inp = R.spawn_sseq(n)[rng.randrange(n)]
                        boom = rng.random() < 0.3
                        try:
                            with R.Context(inp):
                                body(depth + 1)
                                if boom:
                                    raise Boom()
                        except Boom:
                            if depth > 0 and rng.random() < 0.5:
                                raise      # propagate through the enclosing context as well
            try:
                body(0)
            except (Boom, RuntimeError):     # RuntimeError: the module's own consistency check; the trace then shows what went wrong
                pass
            tr = rec.end_trace()
            while len(R._sseq) > base:       # the trace is complete: whatever the library left on the stacks is removed by hand
                R._sseq.pop()
                R._rng.pop()
            traces.append(tr)
    return traces


def record_repo_test_traces():
    """the repository's own tests of the RNG module (test/test_cl/test_random.py), run under the recorder: their assertions compare a few
    draws; the trace validation checks every step of them against the specification"""
    import importlib.util
    import nifty
    from nifty.cl import random as R
    path = os.path.join(os.path.dirname(os.path.dirname(os.path.abspath(nifty.__file__))), "test", "test_cl", "test_random.py")
    if not os.path.exists(path):
        return [], []
    spec = importlib.util.spec_from_file_location("repo_test_random", path)
    mod = importlib.util.module_from_spec(spec)
    spec.loader.exec_module(mod)
    traces, names = [], []
    with RngRecorder() as rec:
        for name in sorted(n for n in dir(mod) if n.startswith("test_")):
            base = len(R._sseq)
            R.push_sseq_from_seed(123)
            rec.start_trace()
            try:
                getattr(mod, name)()
                failed = None
            except Exception as e:      # a failing repository test is reported by the caller
                failed = "%s: %s" % (type(e).__name__, str(e)[:100])
            tr = rec.end_trace()
            while len(R._sseq) > base:
                R._sseq.pop()
                R._rng.pop()
            traces.append(tr)
            names.append((name, failed))
    return traces, names


def record_library_traces(seed):
    """the library's own use of the module: SampledKLEnergy (mirrored or not) and a short classic optimize_kl"""
    import nifty.cl as ift
    from nifty.cl import random as R
    traces = []
    dom = ift.RGSpace(4)
    op = ift.ducktape(dom, None, "a").exp() + ift.ducktape(dom, None, "b")
    d = ift.full(dom, 1.5)
    lh = ift.GaussianEnergy(d, ift.ScalingOperator(dom, 4., sampling_dtype=np.float64)) @ op
    ic = ift.AbsDeltaEnergyController(1e-6, iteration_limit=8)
    with RngRecorder() as rec, quiet():
        for mirror in (True, False):
            for ns in (1, 2, 3):
                R.push_sseq_from_seed(100 + seed % 50 + ns)
                rec.start_trace()
                pos = ift.from_random(op.domain)
                ift.SampledKLEnergy(pos, ift.StandardHamiltonian(lh, ic, prior_sampling_dtype=np.float64), ns, None, mirror_samples=mirror)
                tr = rec.end_trace()
                R.pop_sseq()
                traces.append(tr)
        R.push_sseq_from_seed(7)
        rec.start_trace()
        ift.optimize_kl(lh, 3, lambda i: [2, 0, 1][i], ift.NewtonCG(ic), ic, nonlinear_sampling_minimizer=None, output_directory=None,
                        return_final_position=False, sanity_checks=False)
        tr = rec.end_trace()
        R.pop_sseq()
        traces.append(tr)
    return traces


TCFG = "SPECIFICATION TSpec\nCONSTRAINT Progress\nPOSTCONDITION Report\nINVARIANT Balanced\n"


# ---- ExecStrategy --------------------------------------------------------------------------------------------
JAX_RUN = r'''
import sys, json, hashlib, pickle
import numpy as np
import jax
jax.config.update("jax_enable_x64", True)
import jax.numpy as jnp
import nifty.re as jft
cfgs = json.loads(sys.argv[1])
def model():
    def fwd(x):
        return jnp.exp(0.3 * x["a"]) + x["b"][0]
    data = jnp.array([1.2, 0.7, 1.9])
    lh = jft.Gaussian(data, noise_cov_inv=lambda v: 4.0 * v).amend(fwd)
    pos = {"a": jnp.array([0.1, -0.2, 0.3]), "b": jnp.array([0.05])}
    return lh, pos
out = []
for c in cfgs:
    lh, pos = model()
    maps = {"vmap": jax.vmap, "lmap": "lmap", "smap": "smap"}
    samples, st = jft.optimize_kl(lh, jft.Vector(pos), key=jax.random.PRNGKey(12), n_total_iterations=2, n_samples=2,
        kl_map=maps[c["kl_map"]], residual_map=maps[c["residual_map"]] if c["residual_map"] != "vmap" else "vmap",
        jit=c["jit"] == "1", linear_minimizer_jit=c["lin_jit"] == "1", nonlinear_minimizer_jit=c["nl_jit"] == "1",
        draw_linear_kwargs=dict(cg_name=None, cg_kwargs=dict(absdelta=1e-10, maxiter=40),
                                **(dict(cg=jft.conjugate_gradient.static_cg) if c["lin_jit"] == "1" else {})),
        nonlinearly_update_kwargs=dict(minimize_kwargs=dict(name=None, xtol=1e-8, cg_kwargs=dict(name=None), maxiter=6),
                                       **(dict(minimize=jft.optimize._static_newton_cg) if c["nl_jit"] == "1" else {})),
        kl_kwargs=dict(minimize_kwargs=dict(name=None, absdelta=1e-10, cg_kwargs=dict(name=None), maxiter=8)),
        sample_mode=c["mode"], odir=None)
    leaves = [np.asarray(x) for x in jax.tree_util.tree_leaves((samples.pos, samples._samples))]
    flat = np.concatenate([l.ravel() for l in leaves])
    out.append(dict(cfg=c, hash=hashlib.sha256(flat.tobytes()).hexdigest(), values=[float(v) for v in flat]))
print("RESULT" + json.dumps(out))
'''

CL_RUN = r'''
import sys, json, hashlib
import numpy as np
import nifty.cl as ift
dom = ift.RGSpace(4)
op = ift.ducktape(dom, None, "a").exp() + ift.ducktape(dom, None, "b")
d = ift.full(dom, 1.5)
lh = ift.GaussianEnergy(d, ift.ScalingOperator(dom, 4., sampling_dtype=np.float64)) @ op
ic = ift.AbsDeltaEnergyController(1e-7, iteration_limit=10)
with ift.random.Context(31):
    sl = ift.optimize_kl(lh, 3, 2, ift.NewtonCG(ic), ic, nonlinear_sampling_minimizer=None, output_directory=None, return_final_position=False, sanity_checks=False)
    vals = np.concatenate([np.concatenate([s[k].asnumpy().ravel() for k in sorted(s.keys())]) for s in sl.iterator()])
print("RESULT" + json.dumps(dict(hash=hashlib.sha256(vals.tobytes()).hexdigest(), n=int(vals.size))))
'''


def _sub(code, arg="[]", timeout=600):
    env = dict(os.environ)
    p = subprocess.run([sys.executable, "-c", code, arg], stdout=subprocess.PIPE, stderr=subprocess.PIPE, text=True, timeout=timeout, env=env)
    for line in p.stdout.splitlines():
        if line.startswith("RESULT"):
            return json.loads(line[6:])
    raise tlcmod.MachineryError("child run failed:\n" + p.stdout[-1500:] + p.stderr[-3000:])


def exec_strategy(ctx):
    q = ctx.quick
    maps = '{"vmap", "lmap", "smap"}'
    modes = '{"linear_resample"}' if q else '{"linear_resample", "nonlinear_resample"}'
    r = ctx.tlc("ExecStrategy", "CONSTANTS Maps = %s\nModes = %s\nSPECIFICATION Spec\nINVARIANT TypeOK\nINVARIANT Emit\n" % (maps, modes),
                label="configuration space", workers=1)
    cfgs = [d for d in r.emitted]
    if not cfgs:
        raise tlcmod.MachineryError("ExecStrategy emitted no configuration")
    rng = random.Random(ctx.seed + 99)
    allc = [c for c in cfgs if c["cfg"]["fresh"] == "0"]
    if q:
        # every map value in both places, every jit switch in both values (a covering selection), seeded
        pick = []
        for km in ("vmap", "lmap", "smap"):
            for rm in ("vmap", "lmap", "smap"):
                cand = [c for c in allc if c["cfg"]["kl_map"] == km and c["cfg"]["residual_map"] == rm]
                pick.append(rng.choice(cand))
        sel = pick[:6] if False else pick
    else:
        sel = rng.sample(allc, 60)
    by_class = {}
    # each selected configuration runs twice in one fresh process and once in another one
    jobs = [s["cfg"] for s in sel]
    chunks = [jobs[i::8] for i in range(8)]
    from concurrent.futures import ThreadPoolExecutor
    with ThreadPoolExecutor(8) as ex:
        res1 = list(ex.map(lambda ch: _sub(JAX_RUN, json.dumps(ch + ch[:1])) if ch else [], chunks))
        res2 = list(ex.map(lambda ch: _sub(JAX_RUN, json.dumps(ch[:2])) if ch else [], chunks))
    for ch, r1, r2 in zip(chunks, res1, res2):
        if not ch:
            continue
        first = {json.dumps(x["cfg"], sort_keys=True): x for x in r1[:len(ch)]}
        rep = r1[len(ch)]
        k = json.dumps(rep["cfg"], sort_keys=True)
        ctx.case(("jax-repeat", k))
        if rep["hash"] != first[k]["hash"]:
            ctx.violation(dict(kind="exec", what_differs="repeat-in-process"), "JAX VI: repeating the same run in one process is not bit-identical: %s" % k, replay=dict(cfg=rep["cfg"]))
        for x in r2:
            k = json.dumps(x["cfg"], sort_keys=True)
            ctx.case(("jax-fresh", k))
            if x["hash"] != first[k]["hash"]:
                ctx.violation(dict(kind="exec", what_differs="fresh-process"), "JAX VI: a fresh process gives a different result: %s" % k, replay=dict(cfg=x["cfg"]))
        for x in r1[:len(ch)]:
            by_class.setdefault(x["cfg"]["mode"], []).append(x)
    for mode, xs in by_class.items():
        ref = np.array(xs[0]["values"])
        for x in xs[1:]:
            ctx.case(("jax-class", json.dumps(x["cfg"], sort_keys=True)))
            v = np.array(x["values"])
            if v.shape != ref.shape or not np.allclose(v, ref, rtol=1e-8, atol=1e-10):
                ctx.violation(dict(kind="exec", what_differs="map-or-jit", cfg=x["cfg"]),
                              "JAX VI result depends on the execution strategy: %s vs %s (max diff %.3g)" % (
                                  x["cfg"], xs[0]["cfg"], float(np.max(np.abs(v - ref))) if v.shape == ref.shape else -1),
                              replay=dict(a=x["cfg"], b=xs[0]["cfg"]))
    ctx.sample(dict(exec_strategy_cfg=sel[0]["cfg"]))
    # classic VI: same seed, two fresh processes
    with ThreadPoolExecutor(2) as ex:
        a, b = list(ex.map(lambda _: _sub(CL_RUN), range(2)))
    ctx.case("classic-fresh-a")
    ctx.case("classic-fresh-b")
    if a["hash"] != b["hash"]:
        ctx.violation(dict(kind="exec", what_differs="classic-fresh-process"), "classic VI with the same seed differs between two fresh processes", replay=dict())
    ctx.traces += len(jobs) * 2 + 2
    ctx.notes["exec_strategy"] = dict(configurations_in_spec=len(cfgs), run=len(jobs))


def run(ctx):
    q = ctx.quick
    depth, ops = (4, 5) if q else (4, 6)
    ctx.constants.update(MaxDepth=depth, MaxOps=ops, Seeds=[5, 7], MaxSpawn=2)
    ctx.tlc("RandomCtx", CFG % (depth, ops, "FALSE", "FALSE") + PROPS, label="all histories<=%d" % ops, coverage=not q, timeout=1700)
    for inv in ("NeverInconsistent", "NeverNested"):
        r = ctx.tlc("RandomCtx", CFG % (4, 4, "FALSE", "FALSE") + "INVARIANT %s\nCHECK_DEADLOCK FALSE\n" % inv, label="witness " + inv, expect_ok=False)
        if r.violated != inv:
            raise tlcmod.MachineryError("vacuity witness %s not refuted" % inv)
    # ---- spec -> code
    e = ctx.tlc("RandomCtx", CFG % (3, 4 if q else 5, "TRUE", "TRUE") + "INVARIANT Emit\nCHECK_DEADLOCK FALSE\n", label="emit histories", workers=1, timeout=1700)
    hists = [d["hist"] for d in e.emitted]
    e2 = ctx.tlc("RandomCtx", CFG % (3, 5 if q else 6, "TRUE", "TRUE") + "INVARIANT Emit\nCONSTRAINT ReenterOnly\nCHECK_DEADLOCK FALSE\n", label="emit histories over re-used Context objects", workers=1, timeout=1700)
    reh = [d["hist"] for d in e2.emitted if sum(1 for x in d["hist"] if x["op"] == "reenter") >= 2 and any(x["op"] == "draw" for x in d["hist"])]
    if len(reh) < 20:
        raise tlcmod.MachineryError("too few histories that re-enter a Context object: %d" % len(reh))
    nsim = 800 if q else 8000
    s = ctx.tlc("RandomCtx", CFG % (5, 12, "TRUE", "TRUE") + "INVARIANT Emit\nCHECK_DEADLOCK FALSE\n", label="simulate %d" % nsim, workers=1,
                simulate=nsim, depth=13, seed=ctx.seed + 3, timeout=1700)
    hists += [d["hist"] for d in s.emitted]
    if q and len(hists) > 6000:
        rng0 = random.Random(ctx.seed)
        hists = rng0.sample(hists, 6000)
    hists += reh if not q else reh[ctx.seed % 2::2]
    for h in hists:
        viol, drift = replay_hist(h)
        ctx.case(tuple((x["op"], x["arg"], x["n"]) for x in h))
        if drift:
            ctx.add_drift(drift)
        if viol:
            ctx.violation(dict(kind="replay", op=h[-1]["op"]), viol, replay=dict(hist=h))
    ctx.traces += len(hists)
    ctx.sample(dict(direction="spec->code", behaviour=[(x["op"], x["arg"], x["n"]) for x in hists[len(hists) // 3]]))
    # ---- code -> spec
    rng = random.Random(ctx.seed * 31 + 5)
    traces = record_driver_traces(rng, 600 if q else 5000)
    lib = record_library_traces(ctx.seed)
    rt, rnames = record_repo_test_traces()
    for nm, failed in rnames:
        if failed:
            ctx.violation(dict(kind="repo-test-fails", test=nm), "the repository's own test %s fails: %s" % (nm, failed), replay=dict(test=nm))
    ctx.notes["repository_test_traces"] = [n for n, _ in rnames]
    lib = lib + rt
    alltr = traces + lib
    tv = tracemod.validate(ctx, "RandomCtxTrace", alltr, cfg=TCFG, label="%d driver + %d library traces" % (len(traces), len(lib)))
    if tv.tlc.violated:
        ctx.violation(dict(kind="trace-invariant", invariant=tv.tlc.violated), "RNG stack not back at its initial state at the end of a recorded run (%s)" % tv.tlc.violated,
                      replay=dict(trace=tv.tlc.error_trace))
    for tid, l, clause in tv.propfail:
        ctx.violation(dict(kind="trace", clause=clause, library=tid >= len(traces)), "recorded trace %d event %d (%s): %s" % (tid, l, alltr[tid][l - 1]["op"], clause),
                      replay=dict(trace=alltr[tid]))
    for tid in tv.rejected:
        if not any(t == tid for t, _, _ in tv.propfail):
            ctx.add_drift("recorded %s trace %d rejected at event %d: %r" % ("library" if tid >= len(traces) else "driver", tid, tv.maxl[tid] + 1, alltr[tid][tv.maxl[tid]]))
    for t in alltr:
        ctx.case(tuple((x["op"], x["arg"], x["n"]) for x in t))
    ctx.sample(dict(direction="code->spec (library: SampledKLEnergy)", trace=[(x["op"], x["depth"], x["seed"]) for x in lib[0][:10]]))
    ctx.notes["recorded"] = dict(driver=len(traces), library=len(lib), events=sum(len(t) for t in alltr), accepted=tv.accepted)
    # ---- execution strategies
    exec_strategy(ctx)
    ctx.assume("a Context body that pops down to the depth at which the context was entered is API misuse (reported as such by the model's ok flag), not a restoration failure",
               "JAX results across map / JIT choices are compared with rtol 1e-8 (round-off), bit-identity is required for repeated and fresh-process runs")


def selftest(ctx):
    rng = random.Random(1)
    traces = record_driver_traces(rng, 30)
    t = next(i for i, tr in enumerate(traces) if any(e["op"] in ("exit", "exit_exc") for e in tr))
    j = next(j for j, e in enumerate(traces[t]) if e["op"] in ("exit", "exit_exc"))
    traces[t][j]["drawn"] += 1           # the restored generator is at a different position
    tv = tracemod.validate(ctx, "RandomCtxTrace", traces, cfg=TCFG, label="selftest")
    ok = [(a, b) for a, b, _ in tv.propfail] == [(t, j + 1)]
    return dict(ok=ok, mutation="advanced the restored generator's draw count in one exit event", propfail=tv.propfail[:3], rejected=tv.rejected[:3])
