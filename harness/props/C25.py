"""C25 - The classic VI driver resumes after a crash with identical results.

ClVIResume.tla        the driver's persistence protocol (histories, samples, mean, marker) per save strategy and schedule of
                      sampled / MAP iterations, Crash anywhere, Restart(resume)
TLC                   strategy "all": Resumable and NotSilentlyWrong for every crash point (<= 2 crashes);
                      strategy "latest": refuted (in-place replacement of the sample files) - known finding D10c;
                      the pinned protocol is refuted for both strategies (D10a, D10b, D10d - repaired)
spec -> code          every crash point of a real 3-iteration run (SIGKILL before / after / in the middle of every file-system
                      effect), restart with resume=True, bit-for-bit comparison with the uninterrupted run
code -> spec          the recorded histories (uninterrupted, and killed + outcome of the resumed run) are validated by
                      ClVIResumeTrace.tla"""
import os
import random
import re
import shutil
from concurrent.futures import ThreadPoolExecutor

from vf import crashfs
from vf import tlc as tlcmod
from vf import trace as tracemod

CHILD = os.path.join(os.path.dirname(os.path.abspath(__file__)), "..", "children", "c25_child.py")
CFG = 'CONSTANTS NIter = %d\nStrategy = "%s"\nSchedName = "%s"\nProto = "%s"\nMaxCrashes = %d\n'
INVS = "INVARIANT Resumable\nINVARIANT NotSilentlyWrong\nINVARIANT MarkerComplete\n"


def cls_of(path):
    b = os.path.basename(path)
    if re.fullmatch(r"(latest|iteration_\d+)\.\d+\.pickle", b):
        return "sample"
    if re.fullmatch(r"(latest|iteration_\d+)\.mean\.pickle", b):
        return "mean"
    if b == "last_finished_iteration":
        return "marker"
    if b == "last_finished_iteration.tmp":
        return "marker.tmp"
    if re.fullmatch(r"energy_history_(latest|iteration_\d+)", b):
        return "ehist"
    if re.fullmatch(r"energy_history_(latest|iteration_\d+)\.tmp", b):
        return "ehist.tmp"
    if re.fullmatch(r"minisanity_history_(latest|iteration_\d+)", b):
        return "mhist"
    if re.fullmatch(r"minisanity_history_(latest|iteration_\d+)\.tmp", b):
        return "mhist.tmp"
    if b == "nifty_random_state":
        return "rstate"
    if b in ("minisanity.txt", "counting_report.txt"):
        return "report"
    if b.endswith(".png"):
        return "plot"
    if b in ("out", "pickle", "energy_history", "minisanity_history"):
        return "dir"
    return "other:" + b


def to_trace(events):
    return [dict(ev=e["ev"], cls=cls_of(e["path"]), outcome="") for e in events]


def one_crash(base, name, gold, k, variant, env):
    root = os.path.join(base, name)
    os.makedirs(root, exist_ok=True)
    try:
        rc, res, err, ev = crashfs.run_child(CHILD, root, "kill", k, variant, extra_env=env)
        done = [e for e in ev if e["k"] < k] + ([e for e in ev if e["k"] == k] if variant == "after" else [])
        trace = to_trace(done) + [dict(ev="crash", cls="-", outcome=""), dict(ev="restart", cls="-", outcome="")]
        rc, res, err, ev2 = crashfs.run_child(CHILD, root, "record", resume=True, extra_env=env)
        if res is None:
            outcome, info = "resume-fails", (err.strip().splitlines()[-1][:160] if err.strip() else "rc=%s" % rc)
        elif res != gold:
            outcome, info = "different-result", ""
        else:
            outcome, info = "ok", ""
        trace.append(dict(ev="outcome", cls="-", outcome=outcome))
        return outcome, trace, info
    finally:
        shutil.rmtree(root, ignore_errors=True)


def run(ctx):
    q = ctx.quick
    nit = 3
    ctx.constants.update(NIter=nit, MaxCrashes=2)
    scheds = ["111", "101"] if q else ["111", "101", "110", "011", "010"]
    for s in scheds:
        ctx.tlc("ClVIResume", CFG % (nit, "all", s, "fixed", 2) + "SPECIFICATION Spec\n" + INVS, label="fixed protocol, all, schedule " + s, coverage=not q and s == "111")
    for inv in ("NeverCrashes", "NeverResumesMidway"):
        r = ctx.tlc("ClVIResume", CFG % (nit, "all", "111", "fixed", 2) + "SPECIFICATION Spec\nINVARIANT %s\n" % inv, label="witness " + inv, expect_ok=False)
        if r.violated != inv:
            raise tlcmod.MachineryError("vacuity witness %s not refuted" % inv)
    for s in scheds[:2]:
        r = ctx.tlc("ClVIResume", CFG % (nit, "latest", s, "fixed", 2) + "SPECIFICATION Spec\n" + INVS, label="fixed protocol, latest, schedule " + s, expect_ok=False)
        if r.violated:
            ctx.violation(dict(kind="model", strategy="latest", invariant=r.violated, schedule=s),
                          "TLC refutes %s for save strategy 'latest' (schedule %s): the sample files of the previous iteration are replaced one by one while the marker still names it" % (r.violated, s),
                          replay=dict(trace=r.error_trace[:4000]))
        r = ctx.tlc("ClVIResume", CFG % (nit, "all", s, "pinned", 2) + "SPECIFICATION Spec\n" + INVS, label="pinned protocol (D10a,b,d), all, schedule " + s, expect_ok=False)
        if not r.violated:
            raise tlcmod.MachineryError("the pinned protocol is not refuted on the model")

    base = os.path.join(tlcmod.RUNROOT, "C25-%d" % os.getpid())
    shutil.rmtree(base, ignore_errors=True)
    os.makedirs(base)
    rng = random.Random(ctx.seed + 25)
    try:
        combos = [("all", "111"), ("all", "101"), ("latest", "111"), ("latest", "101")]
        if not q:
            combos += [("all", "110"), ("latest", "011")]
        for strat, sched in combos:
            env = dict(CF_STRATEGY=strat, CF_SCHED=sched, CF_PLOTS="0" if q else ("1" if (strat, sched) == ("all", "111") else "0"))
            groot = os.path.join(base, "gold-%s-%s" % (strat, sched))
            os.makedirs(groot)
            rc, gold, err, gev = crashfs.run_child(CHILD, groot, "record", extra_env=env)
            shutil.rmtree(groot, ignore_errors=True)
            if gold is None:
                raise tlcmod.MachineryError("uninterrupted run failed (%s, %s): %s" % (strat, sched, err[-600:]))
            pts = crashfs.crash_points(gev)
            if q:
                # the windows the model singles out (samples, mean, marker, histories) of the 2nd and 3rd iteration + a seeded sample of the rest
                first_marker = next((e["k"] for e in gev if e["ev"] == "replace" and cls_of(e["path"]) == "marker"), 0)
                core = [p for p in pts if p[0] > first_marker and cls_of(gev[p[0]]["path"]) in ("sample", "mean", "marker", "marker.tmp", "ehist", "mhist")]
                core = [p for i, p in enumerate(core) if i % 3 == (ctx.seed % 3)]
                rest = [p for p in pts if p not in core]
                pts = core + rng.sample(rest, min(6, len(rest)))
            jobs = [("%s-%s-k%d-%s" % (strat, sched, k, v), k, v) for k, v in pts]
            with ThreadPoolExecutor(15) as ex:
                results = list(ex.map(lambda j: one_crash(base, j[0], gold, j[1], j[2], env), jobs))
            traces = [to_trace(gev) + [dict(ev="done", cls="-", outcome="")]]
            meta = [("golden", None)]
            ctx.case(("golden", strat, sched))
            for (name, k, v), (outcome, trace, info) in zip(jobs, results):
                ctx.case((strat, sched, k, v))
                traces.append(trace)
                meta.append((name, (k, v)))
                if outcome != "ok":
                    e = gev[k]
                    ctx.violation(dict(kind=outcome, strategy=strat, file=cls_of(e["path"])),
                                  "strategy %s schedule %s: kill %s event %d (%s %s): %s %s" % (strat, sched, v, k, e["ev"], e["path"], outcome, info),
                                  replay=dict(env=env, k=k, variant=v))
            if (strat, sched) == ("all", "111"):
                ctx.sample(dict(strategy=strat, schedule=sched, crash_point=dict(event=gev[pts[0][0]], variant=pts[0][1]),
                                golden_events=[(e["ev"], e["path"]) for e in gev[:10]]))
            tv = tracemod.validate(ctx, "ClVIResumeTrace", traces, cfg=CFG % (nit, strat, sched, "fixed", 3) + "SPECIFICATION TSpec\nCONSTRAINT Progress\nPOSTCONDITION Report\n",
                                   label="%d histories %s/%s" % (len(traces), strat, sched))
            pf = {t for t, _, _ in tv.propfail}
            for tid in tv.rejected:
                if tid not in pf:
                    ctx.add_drift("%s/%s history %s: event %d does not follow the modelled protocol / outcome: %r" % (
                        strat, sched, meta[tid][0], tv.maxl[tid] + 1, traces[tid][tv.maxl[tid]]))
            ctx.notes.setdefault("crash_points", []).append(dict(strategy=strat, schedule=sched, events=len(gev), points=len(pts),
                                                                 failing=sum(1 for r in results if r[0] != "ok"), histories_accepted=tv.accepted))
    finally:
        shutil.rmtree(base, ignore_errors=True)
    ctx.assume("crash = SIGKILL of the process at a Python-level file-system effect (before / after / torn write); fsync / power-loss durability is outside the model",
               "the results compared are all final samples and the final mean (sha256 of the array bytes)")
    ctx.exhaustive = not q


def replay(ctx, doc):
    case = doc["case"]
    base = os.path.join(tlcmod.RUNROOT, "C25-replay-%d" % os.getpid())
    os.makedirs(base, exist_ok=True)
    try:
        env = case["env"]
        groot = os.path.join(base, "gold")
        os.makedirs(groot)
        rc, gold, err, gev = crashfs.run_child(CHILD, groot, "record", extra_env=env)
        outcome, trace, info = one_crash(base, "replay", gold, case["k"], case["variant"], env)
        ctx.case("replay")
        ctx.case("replay2")
        ctx.sample(dict(case=case, outcome=outcome))
        if outcome != "ok":
            ctx.violation(doc.get("key", dict(kind=outcome)), "replayed crash point: %s %s" % (outcome, info), replay=case)
    finally:
        shutil.rmtree(base, ignore_errors=True)
    ctx.states = ctx.transitions = 1


def selftest(ctx):
    it = [("replace", "ehist"), ("replace", "mhist"), ("open:wb", "sample"), ("close", "sample"), ("open:wb", "sample"), ("close", "sample"),
          ("open:wb", "mean"), ("close", "mean"), ("open:w", "marker.tmp"), ("close", "marker.tmp"), ("replace", "marker")]
    ok = [dict(ev=a, cls=b, outcome="") for a, b in it * 3] + [dict(ev="done", cls="-", outcome="")]
    bad_it = it[:2] + [it[8], it[9], it[10]] + it[2:8]       # marker before the samples
    bad = [dict(ev=a, cls=b, outcome="") for a, b in bad_it + it * 2] + [dict(ev="done", cls="-", outcome="")]
    crash = [dict(ev=a, cls=b, outcome="") for a, b in it + it[:3]] + [dict(ev="crash", cls="-", outcome=""), dict(ev="restart", cls="-", outcome=""),
                                                                       dict(ev="outcome", cls="-", outcome="ok")]
    tv = tracemod.validate(ctx, "ClVIResumeTrace", [ok, bad, crash], cfg=CFG % (3, "all", "111", "fixed", 3) + "SPECIFICATION TSpec\nCONSTRAINT Progress\nPOSTCONDITION Report\n", label="selftest")
    return dict(ok=tv.rejected == [1], rejected=tv.rejected, maxl=tv.maxl, mutation="marker written before the samples")
