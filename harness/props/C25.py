"""C25 - The classic VI driver resumes after a crash with identical results.

ClVIResume.tla        the driver's persistence protocol (histories, samples, mean, marker) per save strategy and schedule of
                      sampled / MAP iterations, Crash anywhere, Restart(resume)
TLC                   strategy "all": Resumable and NotSilentlyWrong for every crash point (<= 2 crashes);
                      strategy "latest": refuted (in-place replacement of the sample files) - known finding D10c;
                      the pinned protocol is refuted for both strategies (D10a, D10b, D10d - repaired)
spec -> code          every crash point of a real 3-iteration run (SIGKILL before / after / in the middle of every file-system
                      effect), restart with resume=True, bit-for-bit comparison with the uninterrupted run
code -> spec          the recorded histories (uninterrupted, and killed + outcome of the resumed run) are validated by
                      ClVIResumeTrace.tla"""
import json
import os
import random
import re
import shutil
from concurrent.futures import ThreadPoolExecutor

from vf import crashfs
from vf import tlc as tlcmod
from vf import trace as tracemod

CHILD = os.path.join(os.path.dirname(os.path.abspath(__file__)), "..", "children", "c25_child.py")
CFG = 'CONSTANTS NIter = %d\nStrategy = "%s"\nSchedName = "%s"\nProto = "%s"\nMaxCrashes = %d\n'
INVS = "INVARIANT Resumable\nINVARIANT NotSilentlyWrong\nINVARIANT MarkerComplete\n"


def cls_of(path):
    b = os.path.basename(path)
    if re.fullmatch(r"(latest|iteration_\d+)\.\d+\.pickle", b):
        return "sample"
    if re.fullmatch(r"(latest|iteration_\d+)\.mean\.pickle", b):
        return "mean"
    if b == "last_finished_iteration":
        return "marker"
    if b == "last_finished_iteration.tmp":
        return "marker.tmp"
    if re.fullmatch(r"energy_history_(latest|iteration_\d+)", b):
        return "ehist"
    if re.fullmatch(r"energy_history_(latest|iteration_\d+)\.tmp", b):
        return "ehist.tmp"
    if re.fullmatch(r"minisanity_history_(latest|iteration_\d+)", b):
        return "mhist"
    if re.fullmatch(r"minisanity_history_(latest|iteration_\d+)\.tmp", b):
        return "mhist.tmp"
    if b == "nifty_random_state":
        return "rstate"
    if b in ("minisanity.txt", "counting_report.txt"):
        return "report"
    if b.endswith(".png"):
        return "plot"
    if b in ("out", "pickle", "energy_history", "minisanity_history"):
        return "dir"
    return "other:" + b


def to_trace(events):
    return [dict(ev=e["ev"], cls=cls_of(e["path"]), outcome="") for e in events]


def one_crash(base, name, gold, k, variant, env):
    root = os.path.join(base, name)
    os.makedirs(root, exist_ok=True)
    try:
        rc, res, err, ev = crashfs.run_child(CHILD, root, "kill", k, variant, extra_env=env)
        done = [e for e in ev if e["k"] < k] + ([e for e in ev if e["k"] == k] if variant == "after" else [])
        trace = to_trace(done) + [dict(ev="crash", cls="-", outcome=""), dict(ev="restart", cls="-", outcome="")]
        rc, res, err, ev2 = crashfs.run_child(CHILD, root, "record", resume=True, extra_env=env)
        if res is None:
            outcome, info = "resume-fails", (err.strip().splitlines()[-1][:160] if err.strip() else "rc=%s" % rc)
        elif res != gold:
            outcome, info = "different-result", ""
        else:
            outcome, info = "ok", ""
        trace.append(dict(ev="outcome", cls="-", outcome=outcome))
        return outcome, trace, info
    finally:
        shutil.rmtree(root, ignore_errors=True)


SCFG = ('CONSTANTS NIter = 4\nFreshName = "%s"\nSchedName = "%s"\nLoadRule = "%s"\nChainRule = "%s"\nOtherProc = %s\nMaxCrashes = %d\n')


def _read_streams(root):
    p = os.path.join(root, "streams.ndjson")
    if not os.path.exists(p):
        return []
    with open(p) as f:
        return [json.loads(l) for l in f if l.strip()]


def _merge(streams, events, ref, limit=None):
    """stream events and marker replacements of one process in the order they happened (a stream logged at counter k precedes event k)"""
    out = []
    for e in events:
        if limit is not None and e["k"] > limit:
            break
        for s in [x for x in streams if x["k"] == e["k"]]:
            out.append(_stream_ev(s, ref))
        if e["ev"] == "replace" and cls_of(e["path"]) == "marker":
            out.append(dict(ev="marker", it=-1, state="", idx=-1, proc=""))
    last = max([e["k"] for e in events], default=-1)
    for s in [x for x in streams if x["k"] > last and (limit is None or x["k"] <= limit)]:
        out.append(_stream_ev(s, ref))
    # the marker events carry the iteration they finish: the iteration of the last stream before them
    cur = -1
    for o in out:
        if o["ev"] == "stream":
            cur = o["it"]
        else:
            o["it"] = cur
    return out


def _stream_ev(s, ref):
    return dict(ev="stream", it=s["it"], state="S0" if s["entropy"] == ref["entropy"] and s["key"][:-1] == ref["key"][:-1] else "X",
                idx=s["key"][-1] - ref["key"][-1], proc="")


def stream_runs(ctx, base, q, rng):
    """random streams across a resume: model (ClVIStreams.tla), the two plausible mistakes refuted, real killed-and-resumed runs validated"""
    combos = [("1100", "1111"), ("1111", "0011")] if q else [("1100", "1111"), ("1111", "0011"), ("1001", "0101"), ("1000", "1010")]
    for fresh, sched in combos + [("1011", "0111"), ("1010", "0000")]:
        ctx.tlc("ClVIStreams", SCFG % (fresh, sched, "always", "from0", "TRUE", 2) + "SPECIFICATION Spec\nINVARIANT StreamsConsistent\nCHECK_DEADLOCK FALSE\n",
                label="streams, fresh %s schedule %s" % (fresh, sched))
    for rule, lr, cr, fresh, sched in (("state restored only after a sampled iteration", "sampled", "from0", "1111", "0011"),
                                       ("duplication chain built from the resumed iteration only", "always", "initial", "1100", "1111")):
        r = ctx.tlc("ClVIStreams", SCFG % (fresh, sched, lr, cr, "TRUE", 2) + "SPECIFICATION Spec\nINVARIANT StreamsConsistent\nCHECK_DEADLOCK FALSE\n", label="mistake: " + rule, expect_ok=False)
        if r.violated != "StreamsConsistent":
            raise tlcmod.MachineryError("the model does not refute: " + rule)
    for inv in ("NeverResumesInOtherState", "NeverReuses"):
        r = ctx.tlc("ClVIStreams", SCFG % ("1100", "1111", "always", "from0", "TRUE", 2) + "SPECIFICATION Spec\nINVARIANT %s\nCHECK_DEADLOCK FALSE\n" % inv, label="witness " + inv, expect_ok=False)
        if r.violated != inv:
            raise tlcmod.MachineryError("vacuity witness %s not refuted" % inv)
    for fresh, sched in combos:
        for strat in (("all", "latest") if not q else ("all",)):
            env = dict(CF_STRATEGY=strat, CF_SCHED=sched, CF_FRESH=fresh, CF_PLOTS="0", CF_TOTAL="4")
            groot = os.path.join(base, "sgold-%s-%s-%s" % (strat, fresh, sched))
            os.makedirs(groot)
            rc, gold, err, gev = crashfs.run_child(CHILD, groot, "record", extra_env=env)
            gstreams = _read_streams(groot)
            shutil.rmtree(groot, ignore_errors=True)
            if gold is None or len(gstreams) != 4:
                raise tlcmod.MachineryError("uninterrupted run failed (%s, %s, %s): %s" % (strat, fresh, sched, err[-600:]))
            ref = gstreams[0]
            markers = [e["k"] for e in gev if e["ev"] == "replace" and cls_of(e["path"]) == "marker"]
            pts = [(k, "after") for k in markers[:-1]] + [(k, "before") for k in markers[1:3]]
            rest = [p for p in crashfs.crash_points(gev) if p[0] > markers[0] and p not in pts]
            pts += rng.sample(rest, min(3 if q else 12, len(rest)))
            traces = [_merge(gstreams, gev, ref) + [dict(ev="done", it=-1, state="", idx=-1, proc="")]]
            meta = ["golden"]

            def one(pt):
                k, v = pt
                root = os.path.join(base, "s-%s-%s-%s-%d-%s" % (strat, fresh, sched, k, v))
                os.makedirs(root, exist_ok=True)
                try:
                    e2 = dict(env, CF_OTHERSTATE="1")
                    rc, res, err, ev = crashfs.run_child(CHILD, root, "kill", k, v, extra_env=e2)
                    s1 = [x for x in _read_streams(root) if x["resume"] == 0]
                    lim = k if v == "after" else k - 1
                    t = _merge(s1, [e for e in ev if e["k"] <= lim], ref, limit=k)
                    rc, res, err, ev2 = crashfs.run_child(CHILD, root, "record", resume=True, extra_env=e2)
                    s2 = [x for x in _read_streams(root) if x["resume"] == 1]
                    t += [dict(ev="crash", it=-1, state="", idx=-1, proc=""), dict(ev="restart", it=-1, state="", idx=-1, proc="X")] + _merge(s2, ev2, ref)
                    if res is not None:
                        t.append(dict(ev="done", it=-1, state="", idx=-1, proc=""))
                    return t, ("ok" if res == gold else ("resume-fails" if res is None else "different-result")), (err.strip().splitlines()[-1][:160] if res is None and err.strip() else "")
                finally:
                    shutil.rmtree(root, ignore_errors=True)
            with ThreadPoolExecutor(15) as ex:
                results = list(ex.map(one, pts))
            for (k, v), (t, outcome, info) in zip(pts, results):
                ctx.case(("streams", strat, fresh, sched, k, v))
                traces.append(t)
                meta.append("kill %s event %d" % (v, k))
                if outcome != "ok":
                    e = gev[k]
                    ctx.violation(dict(kind=outcome, strategy=strat, file=cls_of(e["path"]), streams=True),
                                  "strategy %s schedule %s fresh %s, restarted process in another random state: kill %s event %d (%s %s): %s %s" % (
                                      strat, sched, fresh, v, k, e["ev"], e["path"], outcome, info),
                                  replay=dict(env=dict(env, CF_OTHERSTATE="1"), k=k, variant=v))
            tv = tracemod.validate(ctx, "ClVIStreamsTrace", traces, cfg=SCFG % (fresh, sched, "always", "from0", "TRUE", 3) + "SPECIFICATION TSpec\nCONSTRAINT Progress\nPOSTCONDITION Report\nINVARIANT StreamsConsistent\n",
                                   label="%d stream histories %s/%s/%s" % (len(traces), strat, fresh, sched))
            for tid, l, clause in tv.propfail:
                ctx.violation(dict(kind="stream", strategy=strat), "strategy %s schedule %s fresh %s, %s: event %d %r: %s" % (strat, sched, fresh, meta[tid], l, traces[tid][l - 1], clause),
                              replay=dict(trace=traces[tid]))
            pf = {t for t, _, _ in tv.propfail}
            for tid in tv.rejected:
                if tid not in pf:
                    ctx.add_drift("streams %s/%s/%s %s: event %d does not follow the model: %r" % (strat, fresh, sched, meta[tid], tv.maxl[tid] + 1, traces[tid][tv.maxl[tid]]))
            ctx.notes.setdefault("stream_histories", []).append(dict(strategy=strat, fresh=fresh, schedule=sched, points=len(pts), accepted=tv.accepted))
    ctx.assume("in the stream runs the restarted process has pushed another seed before calling optimize_kl; kill points before the first marker are "
               "left out there (nothing is resumed: the restart is a run from scratch in the other state)")


def run(ctx):
    q = ctx.quick
    nit = 3
    ctx.constants.update(NIter=nit, MaxCrashes=2)
    scheds = ["111", "101"] if q else ["111", "101", "110", "011", "010"]
    for s in scheds:
        ctx.tlc("ClVIResume", CFG % (nit, "all", s, "fixed", 2) + "SPECIFICATION Spec\n" + INVS, label="fixed protocol, all, schedule " + s, coverage=not q and s == "111")
    for inv in ("NeverCrashes", "NeverResumesMidway"):
        r = ctx.tlc("ClVIResume", CFG % (nit, "all", "111", "fixed", 2) + "SPECIFICATION Spec\nINVARIANT %s\n" % inv, label="witness " + inv, expect_ok=False)
        if r.violated != inv:
            raise tlcmod.MachineryError("vacuity witness %s not refuted" % inv)
    for s in scheds[:2]:
        r = ctx.tlc("ClVIResume", CFG % (nit, "latest", s, "fixed", 2) + "SPECIFICATION Spec\n" + INVS, label="fixed protocol, latest, schedule " + s, expect_ok=False)
        if r.violated:
            ctx.violation(dict(kind="model", strategy="latest", invariant=r.violated, schedule=s),
                          "TLC refutes %s for save strategy 'latest' (schedule %s): the sample files of the previous iteration are replaced one by one while the marker still names it" % (r.violated, s),
                          replay=dict(trace=r.error_trace[:4000]))
        r = ctx.tlc("ClVIResume", CFG % (nit, "all", s, "pinned", 2) + "SPECIFICATION Spec\n" + INVS, label="pinned protocol (D10a,b,d), all, schedule " + s, expect_ok=False)
        if not r.violated:
            raise tlcmod.MachineryError("the pinned protocol is not refuted on the model")

    base = os.path.join(tlcmod.RUNROOT, "C25-%d" % os.getpid())
    shutil.rmtree(base, ignore_errors=True)
    os.makedirs(base)
    rng = random.Random(ctx.seed + 25)
    try:
        combos = [("all", "111"), ("all", "101"), ("latest", "111"), ("latest", "101")]
        if not q:
            combos += [("all", "110"), ("latest", "011")]
        for strat, sched in combos:
            env = dict(CF_STRATEGY=strat, CF_SCHED=sched, CF_PLOTS="0" if q else ("1" if (strat, sched) == ("all", "111") else "0"))
            groot = os.path.join(base, "gold-%s-%s" % (strat, sched))
            os.makedirs(groot)
            rc, gold, err, gev = crashfs.run_child(CHILD, groot, "record", extra_env=env)
            shutil.rmtree(groot, ignore_errors=True)
            if gold is None:
                raise tlcmod.MachineryError("uninterrupted run failed (%s, %s): %s" % (strat, sched, err[-600:]))
            pts = crashfs.crash_points(gev)
            if q:
                # the windows the model singles out (samples, mean, marker, histories) of the 2nd and 3rd iteration + a seeded sample of the rest
                first_marker = next((e["k"] for e in gev if e["ev"] == "replace" and cls_of(e["path"]) == "marker"), 0)
                core = [p for p in pts if p[0] > first_marker and cls_of(gev[p[0]]["path"]) in ("sample", "mean", "marker", "marker.tmp", "ehist", "mhist")]
                core = [p for i, p in enumerate(core) if i % 3 == (ctx.seed % 3)]
                rest = [p for p in pts if p not in core]
                pts = core + rng.sample(rest, min(6, len(rest)))
            jobs = [("%s-%s-k%d-%s" % (strat, sched, k, v), k, v) for k, v in pts]
            with ThreadPoolExecutor(15) as ex:
                results = list(ex.map(lambda j: one_crash(base, j[0], gold, j[1], j[2], env), jobs))
            traces = [to_trace(gev) + [dict(ev="done", cls="-", outcome="")]]
            meta = [("golden", None)]
            ctx.case(("golden", strat, sched))
            for (name, k, v), (outcome, trace, info) in zip(jobs, results):
                ctx.case((strat, sched, k, v))
                traces.append(trace)
                meta.append((name, (k, v)))
                if outcome != "ok":
                    e = gev[k]
                    ctx.violation(dict(kind=outcome, strategy=strat, file=cls_of(e["path"])),
                                  "strategy %s schedule %s: kill %s event %d (%s %s): %s %s" % (strat, sched, v, k, e["ev"], e["path"], outcome, info),
                                  replay=dict(env=env, k=k, variant=v))
            if (strat, sched) == ("all", "111"):
                ctx.sample(dict(strategy=strat, schedule=sched, crash_point=dict(event=gev[pts[0][0]], variant=pts[0][1]),
                                golden_events=[(e["ev"], e["path"]) for e in gev[:10]]))
            tv = tracemod.validate(ctx, "ClVIResumeTrace", traces, cfg=CFG % (nit, strat, sched, "fixed", 3) + "SPECIFICATION TSpec\nCONSTRAINT Progress\nPOSTCONDITION Report\n",
                                   label="%d histories %s/%s" % (len(traces), strat, sched))
            pf = {t for t, _, _ in tv.propfail}
            for tid in tv.rejected:
                if tid not in pf:
                    ctx.add_drift("%s/%s history %s: event %d does not follow the modelled protocol / outcome: %r" % (
                        strat, sched, meta[tid][0], tv.maxl[tid] + 1, traces[tid][tv.maxl[tid]]))
            ctx.notes.setdefault("crash_points", []).append(dict(strategy=strat, schedule=sched, events=len(gev), points=len(pts),
                                                                 failing=sum(1 for r in results if r[0] != "ok"), histories_accepted=tv.accepted))
        stream_runs(ctx, base, q, rng)
    finally:
        shutil.rmtree(base, ignore_errors=True)
    ctx.assume("crash = SIGKILL of the process at a Python-level file-system effect (before / after / torn write); fsync / power-loss durability is outside the model",
               "the results compared are all final samples and the final mean (sha256 of the array bytes)")
    ctx.exhaustive = not q


def replay(ctx, doc):
    case = doc["case"]
    base = os.path.join(tlcmod.RUNROOT, "C25-replay-%d" % os.getpid())
    os.makedirs(base, exist_ok=True)
    try:
        env = case["env"]
        groot = os.path.join(base, "gold")
        os.makedirs(groot)
        rc, gold, err, gev = crashfs.run_child(CHILD, groot, "record", extra_env=env)
        outcome, trace, info = one_crash(base, "replay", gold, case["k"], case["variant"], env)
        ctx.case("replay")
        ctx.case("replay2")
        ctx.sample(dict(case=case, outcome=outcome))
        if outcome != "ok":
            ctx.violation(doc.get("key", dict(kind=outcome)), "replayed crash point: %s %s" % (outcome, info), replay=case)
    finally:
        shutil.rmtree(base, ignore_errors=True)
    ctx.states = ctx.transitions = 1


def selftest(ctx):
    it = [("replace", "ehist"), ("replace", "mhist"), ("open:wb", "sample"), ("close", "sample"), ("open:wb", "sample"), ("close", "sample"),
          ("open:wb", "mean"), ("close", "mean"), ("open:w", "marker.tmp"), ("close", "marker.tmp"), ("replace", "marker")]
    ok = [dict(ev=a, cls=b, outcome="") for a, b in it * 3] + [dict(ev="done", cls="-", outcome="")]
    bad_it = it[:2] + [it[8], it[9], it[10]] + it[2:8]       # marker before the samples
    bad = [dict(ev=a, cls=b, outcome="") for a, b in bad_it + it * 2] + [dict(ev="done", cls="-", outcome="")]
    crash = [dict(ev=a, cls=b, outcome="") for a, b in it + it[:3]] + [dict(ev="crash", cls="-", outcome=""), dict(ev="restart", cls="-", outcome=""),
                                                                       dict(ev="outcome", cls="-", outcome="ok")]
    tv = tracemod.validate(ctx, "ClVIResumeTrace", [ok, bad, crash], cfg=CFG % (3, "all", "111", "fixed", 3) + "SPECIFICATION TSpec\nCONSTRAINT Progress\nPOSTCONDITION Report\n", label="selftest")
    return dict(ok=tv.rejected == [1], rejected=tv.rejected, maxl=tv.maxl, mutation="marker written before the samples")
