"""C10 - Power distribution and power analysis are exact on binned spectra.

PowerBins.tla   (shared with C08) the bin of every harmonic pixel for natural and custom binnings, exact in Rat
spec -> code    for every configuration: PowerDistributor as a dense matrix M[p, b] = 1 iff pindex[p] = b (TIMES), its adjoint sums
                per bin, power_analyze of a field whose squared modulus is a distributed spectrum returns the spectrum (perfect-square
                spectra: exact), with and without phase information, over a harmonic sub-space of a product domain;
                create_power_operator(spectrum as Field / as function) is the diagonal of the distributed spectrum;
                nifty.re.correlated_field.get_fourier_mode_distributor (same binning rule) against the same bins"""
import json

import numpy as np

from props import C08
from vf import tlc as tlcmod
from vf.core import quiet

q = C08.q


def _eq(a, b):
    a, b = np.asarray(a), np.asarray(b)
    return a.shape == b.shape and bool(np.array_equal(a, b))


def _close(a, b, rtol=1e-14):
    a, b = np.asarray(a), np.asarray(b)
    return a.shape == b.shape and bool(np.allclose(a, b, rtol=rtol))


def check_config(ift, c, jaxcf=None):
    out = []
    if not c["valid"]:
        return out
    sp = C08.build_spaces(ift, c)
    pix = sorted(c["pix"], key=lambda p: p["flat"])
    bins = np.array([p["bin"] for p in pix])
    nb = c["nbin"]
    n = len(pix)
    if c["binning"] == "natural":
        ps = ift.PowerSpace(sp)
    else:
        ps = ift.PowerSpace(sp, binbounds=np.array([q(b) for b in c["bounds"]]))
    pd = ift.PowerDistributor(sp, ps)
    M = np.zeros((n, nb))
    M[np.arange(n), bins] = 1.
    # dense TIMES and ADJOINT
    D = np.array([pd(ift.makeField(ps, np.eye(nb)[b])).asnumpy().ravel() for b in range(nb)]).T
    if not _eq(D, M):
        out.append("PowerDistributor does not assign every mode the value of its bin")
    A = np.array([pd.adjoint_times(ift.makeField(sp, np.eye(n)[p].reshape(sp.shape))).asnumpy().ravel() for p in range(n)]).T
    if not _eq(A, M.T):
        out.append("the adjoint of the PowerDistributor does not sum over each bin")
    # power analysis of a field whose squared modulus is a distributed spectrum (perfect squares: sqrt exact)
    spec = ift.makeField(ps, (np.arange(1., nb + 1) + 1) ** 2)
    amp = pd(spec).ptw("sqrt")
    bb = None if c["binning"] == "natural" else ps.binbounds
    back = ift.power_analyze(amp, binbounds=bb)
    if back.domain[0] != ps or not _eq(back.asnumpy(), spec.asnumpy()):
        out.append("power_analyze(sqrt(distributed spectrum)) = %s, the spectrum is %s" % (back.asnumpy().tolist(), spec.asnumpy().tolist()))
    # with phase information: a complex field 3 a + 4 i a  -> (9 + 16 i) spectrum
    cf = ift.makeField(sp, amp.asnumpy() * (3 + 4j))
    ph = ift.power_analyze(cf, binbounds=bb, keep_phase_information=True)
    if not _close(ph.asnumpy(), spec.asnumpy() * (9 + 16j), rtol=1e-14):
        out.append("power_analyze with phase information does not return the spectra of the real and imaginary parts")
    if not _close(ift.power_analyze(cf, binbounds=bb).asnumpy(), 25 * spec.asnumpy(), rtol=1e-14):
        out.append("power_analyze of a complex field is not the spectrum of its squared modulus")
    # sub-space of a product domain
    other = ift.RGSpace(2)       # a structured (position) space: unstructured domains have no volume by design and cannot be analysed
    dom = ift.DomainTuple.make((other, sp))
    f = ift.makeField(dom, np.stack([amp.asnumpy(), 2 * amp.asnumpy()]))
    pa = ift.power_analyze(f, spaces=1, binbounds=bb)
    if not _eq(pa.asnumpy(), np.stack([spec.asnumpy(), 4 * spec.asnumpy()])):
        out.append("power_analyze over the harmonic sub-space of a product domain is wrong")
    # power operators
    try:
        op = ift.create_power_operator(sp, spec)
        if not _eq(op(ift.full(sp, 1.)).asnumpy().ravel(), spec.asnumpy()[bins]):
            out.append("create_power_operator(Field) is not the diagonal of the distributed spectrum")
        op2 = ift.create_power_operator(dom, spec, space=1)
        if not _eq(op2(ift.full(dom, 1.)).asnumpy()[1].ravel(), spec.asnumpy()[bins]):
            out.append("create_power_operator on a sub-space is not the diagonal of the distributed spectrum")
    except Exception as e:
        out.append("create_power_operator with a spectrum given as a Field raised %s: %s" % (type(e).__name__, str(e)[:100]))
    if c["binning"] == "natural":
        sv = q(c["sigvar"])
        for label, space in (("the power space", ps), ("the harmonic space", sp)):
            try:
                got = float(ift.get_signal_variance(lambda k: 1. + k ** 2, space))
                if not np.isclose(got, sv, rtol=1e-13):
                    out.append("get_signal_variance(1 + k^2, %s) = %r, the sum over the modes of spectrum x pixel volume^2 is %r" % (label, got, sv))
            except Exception as e:
                out.append("get_signal_variance on %s raised %s: %s" % (label, type(e).__name__, str(e)[:100]))
        # bin bounds suggested for this space must give a valid binning (no empty bin), with and without a requested number of bins
        # (spaces with exactly three distinct k-lengths are left out: there the finest linear suggestion has an empty bin - DESIGN S.5,
        #  the helper's claim is not part of C08 / C10, the constructor refuses such bounds as specified)
        for logarithmic in ((False, True) if len(c["uniq"]) >= 4 else ()):
            try:
                bb_ = ift.PowerSpace.useful_binbounds(sp, logarithmic)
                ps_ = ift.PowerSpace(sp, binbounds=bb_)
                if ps_.shape[0] != len(bb_) + 1:
                    out.append("useful_binbounds(logarithmic=%s): %d bounds give %d bins" % (logarithmic, len(bb_), ps_.shape[0]))
                bb3 = ift.PowerSpace.useful_binbounds(sp, logarithmic, 3)
                if len(bb3) != 2 or not np.isclose(bb3[0], bb_[0]) or not np.isclose(bb3[-1], bb_[-1]):
                    out.append("useful_binbounds(logarithmic=%s, nbin=3) = %s does not span the bounds of the finest binning %s" % (logarithmic, bb3.tolist(), [bb_[0], bb_[-1]]))
                ift.PowerSpace(sp, binbounds=bb3)
            except ValueError as e:
                if "enough unique" in str(e):
                    continue
                out.append("useful_binbounds(logarithmic=%s) does not give a usable binning: %s" % (logarithmic, str(e)[:100]))
            except Exception as e:
                out.append("useful_binbounds(logarithmic=%s) raised %s: %s" % (logarithmic, type(e).__name__, str(e)[:100]))
        fn = lambda k: 1. / (1. + k) ** 2
        op3 = ift.create_power_operator(sp, fn)
        if not _close(op3(ift.full(sp, 1.)).asnumpy().ravel(), fn(np.asarray(ps.k_lengths))[bins], rtol=1e-14):
            out.append("create_power_operator(function) is not the function of the bins' k-lengths distributed")
        if jaxcf is not None:
            # the JAX correlated field uses the same natural binning of the modes of a position-space grid
            shape = tuple(c["shape"])
            hd = np.array([q(x) for x in c["d"]])
            pos_dist = 1.0 / (np.array(shape) * hd)
            idx, uniq, mult = jaxcf.get_fourier_mode_distributor(shape, tuple(pos_dist))
            cnt = np.array([b["count"] for b in sorted(c["bins"], key=lambda b: b["bin"])])
            if not (_eq(np.asarray(idx).ravel(), bins) and _eq(np.asarray(mult), cnt)):
                out.append("nifty.re get_fourier_mode_distributor bins the modes differently: %s vs %s" % (np.asarray(idx).ravel().tolist(), bins.tolist()))
    return out


def check_binbounds(ift, c):
    out = []
    lin = c["lin"]
    for nb in range(3, 7):
        exp = lin[str(nb)] if isinstance(lin, dict) else lin[nb - 3]
        got = ift.PowerSpace.linear_binbounds(nb, 0.5, 3.)
        e = np.array([q(v) for v in exp])
        if got.shape != e.shape or not np.allclose(got, e, rtol=1e-15, atol=0):
            out.append("linear_binbounds(%d, 1/2, 3) = %s, equidistant bounds are %s" % (nb, got.tolist(), e.tolist()))
        lg = ift.PowerSpace.logarithmic_binbounds(nb, 0.5, 3.)
        if lg.shape != e.shape or not np.isclose(lg[0], 0.5, rtol=1e-14) or not np.isclose(lg[-1], 3., rtol=1e-14) or not np.allclose(lg[1:] / lg[:-1], (3. / 0.5) ** (1. / (nb - 2)), rtol=1e-13):
            out.append("logarithmic_binbounds(%d, 1/2, 3) = %s is not the geometric progression from 1/2 to 3" % (nb, lg.tolist()))
    for bad in (2, 1):
        try:
            ift.PowerSpace.linear_binbounds(bad, 0.5, 3.)
            out.append("linear_binbounds accepts nbin = %d" % bad)
        except ValueError:
            pass
    return out


def run(ctx):
    import nifty.cl as ift
    try:
        import jax
        jax.config.update("jax_enable_x64", True)
        from nifty.re import correlated_field as jaxcf
    except Exception:
        jaxcf = None
        ctx.assume("nifty.re could not be imported: the JAX mode distributor is not checked")
    r = ctx.tlc("PowerBins", "SPECIFICATION Spec\nINVARIANT Law\nINVARIANT Emit\n", label="harmonic grids and binnings", workers=1, timeout=1500)
    cfgs = r.emitted
    if len(cfgs) < 200:
        raise tlcmod.MachineryError("too few configurations: %d" % len(cfgs))
    nv = 0
    with quiet():
        for c in cfgs:
            ctx.case((tuple(c["shape"]), json.dumps(c["d"]), c["binning"], json.dumps(c["bounds"])))
            if c["valid"]:
                nv += 1
            for msg in check_config(ift, c, jaxcf):
                ctx.violation(dict(kind="power", what=msg.split(" ")[0], binning=c["binning"]), "harmonic RGSpace%s distances %s, %s binning %s: %s" % (
                    tuple(c["shape"]), [q(x) for x in c["d"]], c["binning"], [q(b) for b in c["bounds"]], msg), replay=dict(config=c))
    for msg in check_binbounds(ift, cfgs[0]):
        ctx.violation(dict(kind="binbounds"), msg, replay=dict(what="binbounds"))
    ctx.traces += len(cfgs)
    ctx.sample(dict(configuration=dict(shape=cfgs[7]["shape"], d=cfgs[7]["d"], binning=cfgs[7]["binning"]), pindex=[p["bin"] for p in sorted(cfgs[7]["pix"], key=lambda p: p["flat"])]))
    ctx.notes.update(configurations=len(cfgs), with_valid_binning=nv)
    ctx.exhaustive = True
    ctx.assume("spectra are perfect squares so that sqrt and the per-bin averages are exact in floating point")


def replay(ctx, doc):
    import nifty.cl as ift
    c = doc["case"]
    if "config" in c:
        with quiet():
            viols = check_config(ift, c["config"])
        for msg in viols:
            ctx.violation(doc.get("key", dict(kind="power")), msg, replay=c)
    ctx.case("replay")
    ctx.case("replay2")
    ctx.sample(dict(replayed=str(c)[:200]))
    ctx.states = ctx.transitions = 1


def selftest(ctx):
    import nifty.cl as ift
    r = tlcmod.run("PowerBins", "SPECIFICATION Spec\nINVARIANT Emit\n", workers=1, timeout=1500)
    c = next(x for x in r.emitted if x["binning"] == "natural" and len(x["shape"]) == 2)
    with quiet():
        good = check_config(ift, c)
        i, j = 0, next(k for k, p in enumerate(c["pix"]) if p["bin"] != c["pix"][0]["bin"])
        c["pix"][i]["bin"], c["pix"][j]["bin"] = c["pix"][j]["bin"], c["pix"][i]["bin"]
        bad = check_config(ift, c)
    return dict(ok=(good == [] and len(bad) > 0), mutation="bins of two pixels swapped in the expectation")
