"""C36 - Fit-quality diagnostics report the documented statistics.

Minisanity.tla   reduced chi-square, mean, degrees of freedom and ignored entries of samples of normalised residuals containing NaNs and
                 exact zeros, exact in Rat, for all placements and all value combinations (Size 2-3, 1-2 samples); TLC: Law
spec -> code     every instance is fed to nifty.cl.extra.minisanity (through a Gaussian likelihood whose normalised residual is the
                 identity) and - where both definitions coincide (real, finite, non-zero entries) - to
                 nifty.re.minisanity.reduced_residual_stats; the reported numbers must equal the spec's rationals"""
import json
import random

import numpy as np

from vf import tlc as tlcmod
from vf.core import quiet

NAN = 99
TINY = 97


def _val(v):
    re, im = v
    if re == NAN:
        return np.nan
    if re == TINY:
        return 2.0 ** -40
    return complex(re, im) if im else float(re)


def q(v):
    return v["n"] / v["d"]


def check_instance(ift, inst, jaxenv=None, form="identity"):
    """form: how the residuals reach the diagnostics - "identity" (Gaussian likelihood, data 0, unit noise: residual = sample),
    "scaled" (data 1, noise variance 4: sample = 2 r + 1)"""
    out = []
    size = len(inst["samples"][0])
    dom = ift.DomainTuple.make(ift.UnstructuredDomain(size))
    cplx = bool(inst.get("cplx"))
    arrs = [np.array([_val(v) for v in s], dtype=complex if cplx else float) for s in inst["samples"]]
    mdom = ift.MultiDomain.make({"x": dom})
    if form == "identity":
        lh = ift.GaussianEnergy(data=ift.full(dom, 0j if cplx else 0.)).ducktape("x")
        lat = arrs
    else:
        lh = ift.GaussianEnergy(data=ift.full(dom, 1. + 0j if cplx else 1.), inverse_covariance=ift.ScalingOperator(dom, 0.25)).ducktape("x")
        lat = [2. * a + 1. for a in arrs]
    sl = ift.SampleList([ift.MultiField.from_dict({"x": ift.makeField(dom, a)}) for a in lat], domain=mdom)
    try:
        _, vals = ift.extra.minisanity(lh, sl, terminal_colors=False, return_values=True)
    except Exception as e:
        return ["minisanity raised %s: %s" % (type(e).__name__, str(e)[:120])]
    for cat in ("data_residuals", "latent_variables") if form == "identity" else ("data_residuals",):
        key = list(vals["redchisq"][cat].keys())[0]
        rc, sm = vals["redchisq"][cat][key], vals["scmean"][cat][key]
        nd, ni = vals["ndof"][cat][key], vals["nigndof"][cat][key]

        def close(a, b):
            return abs(a - b) <= 1e-10 * max(1., abs(b))
        wantmean = complex(q(inst["mean"]), q(inst["meanim"])) if cplx else q(inst["mean"])
        if not close(float(rc["mean"]), q(inst["redchi"])):
            out.append("%s: reduced chi-square %r, the sample average of sum|r|^2/ndof is %r" % (cat, float(rc["mean"]), q(inst["redchi"])))
        if not close(complex(sm["mean"]), wantmean):
            out.append("%s: mean %r, the sample average of sum r/ndof is %r" % (cat, complex(sm["mean"]), wantmean))
        if int(nd) != inst["ndof"] or int(ni) != inst["nign"]:
            out.append("%s: ndof/ignored %s/%s, expected %s/%s" % (cat, nd, ni, inst["ndof"], inst["nign"]))
        if len(arrs) > 1 and rc["std"] is not None and not cplx:
            if not close(float(rc["std"]) ** 2, q(inst["redchivar"])) or not close(float(sm["std"]) ** 2, q(inst["meanvar"])):
                out.append("%s: spread of the per-sample values (%r, %r)^2 differs from the unbiased variances (%r, %r)" % (
                    cat, float(rc["std"]), float(sm["std"]), q(inst["redchivar"]), q(inst["meanvar"])))
    if jaxenv is not None and inst["nign"] == 0:
        jax, jnp, jft, ms = jaxenv
        samples = jft.Samples(pos=jft.Vector({"x": jnp.zeros(size, dtype=complex if cplx else float)}), samples=jft.Vector({"x": jnp.asarray(np.stack(arrs))}))
        if form == "identity":
            st = ms.reduced_residual_stats(samples)
        else:
            jl = jft.Gaussian(jnp.ones(size), noise_std_inv=lambda x: 0.5 * x)
            samples = jft.Samples(pos=jft.Vector({"x": jnp.zeros(size, dtype=complex if cplx else float)}), samples=jft.Vector({"x": jnp.asarray(np.stack([1. - 2. * a for a in arrs]))}))   # jft residual = (data - x) / sigma
            st, _ = ms.minisanity(samples, lambda v: jft.Vector({"x": jl.normalized_residual(v.tree["x"])}))
        leaf = st.tree["x"] if hasattr(st, "tree") else st["x"]
        m, rx, ndj = complex(leaf.mean[0]), float(leaf.reduced_chisq[0]), int(leaf.ndof)
        # a complex entry counts as two degrees of freedom in nifty.re (documented): chi-square per real degree of freedom
        fac = 2 if cplx else 1
        wantmean = complex(q(inst["mean"]), q(inst["meanim"]))
        if abs(m - wantmean) > 1e-10 or abs(rx - q(inst["redchi"]) / fac) > 1e-10 or ndj != fac * inst["ndof"]:
            out.append("nifty.re reduced_residual_stats gives mean %r, reduced chi-square %r, ndof %r; the classic definition gives %r, %r, %r%s" % (
                m, rx, ndj, wantmean, q(inst["redchi"]), inst["ndof"], " (complex entries count twice in nifty.re)" if cplx else ""))
    return out


def check_two_keys(ift, a, b):
    """two likelihoods with different keys added up: every key is reported on its own"""
    out = []
    doms = {k: ift.DomainTuple.make(ift.UnstructuredDomain(len(i["samples"][0]))) for k, i in (("a", a), ("b", b))}
    lh = ift.GaussianEnergy(data=ift.full(doms["a"], 0.)).ducktape("a") + ift.GaussianEnergy(data=ift.full(doms["b"], 0.)).ducktape("b")
    mdom = ift.MultiDomain.make(doms)
    fl = []
    for sa, sb in zip(a["samples"], b["samples"]):
        fl.append(ift.MultiField.from_dict({k: ift.makeField(doms[k], np.array([_val(v) for v in s], dtype=float)) for k, s in (("a", sa), ("b", sb))}))
    try:
        _, vals = ift.extra.minisanity(lh, ift.SampleList(fl, domain=mdom), terminal_colors=False, return_values=True)
    except Exception as e:
        return ["minisanity raised %s: %s" % (type(e).__name__, str(e)[:120])]
    for k, inst in (("a", a), ("b", b)):
        v = vals["redchisq"]["latent_variables"][k]["mean"], vals["scmean"]["latent_variables"][k]["mean"], vals["ndof"]["latent_variables"][k], vals["nigndof"]["latent_variables"][k]
        want = q(inst["redchi"]), q(inst["mean"]), inst["ndof"], inst["nign"]
        if any(abs(float(x) - y) > 1e-12 * max(1, abs(y)) for x, y in zip(v, want)):
            out.append("key %s latent: %s, expected %s" % (k, v, want))
        dk = [kk for kk in vals["redchisq"]["data_residuals"] if k in kk]
        if len(dk) == 1:
            v = vals["redchisq"]["data_residuals"][dk[0]]["mean"], vals["scmean"]["data_residuals"][dk[0]]["mean"], vals["ndof"]["data_residuals"][dk[0]], vals["nigndof"]["data_residuals"][dk[0]]
            if any(abs(float(x) - y) > 1e-12 * max(1, abs(y)) for x, y in zip(v, want)):
                out.append("key %s data residuals: %s, expected %s" % (k, v, want))
    return out


def run(ctx):
    import nifty.cl as ift
    qk = ctx.quick
    try:
        import jax
        jax.config.update("jax_enable_x64", True)
        import jax.numpy as jnp
        import nifty.re as jft
        import importlib
        ms = importlib.import_module("nifty.re.minisanity")
        jaxenv = (jax, jnp, jft, ms)
    except Exception:
        jaxenv = None
        ctx.assume("nifty.re could not be imported: the JAX diagnostics are not compared")
    insts = []
    for size, ns, nv, cx in ((2, 1, 4, 0), (2, 2, 2, 0), (3, 1, 2, 0), (2, 3, 2, 0), (2, 1, 4, 1), (2, 2, 2, 1)) + (((3, 2, 2, 0), (3, 3, 2, 0), (4, 1, 2, 0), (3, 2, 2, 1)) if not qk else ()):
        r = ctx.tlc("Minisanity", "CONSTANTS Size = %d\nNSamples = %d\nNVals = %d\nCplx = %s\nSPECIFICATION Spec\nINVARIANT Law\nINVARIANT Emit\n" % (size, ns, nv, "TRUE" if cx else "FALSE"),
                    label="size %d, %d samples, %d values%s" % (size, ns, nv, ", complex" if cx else ""), workers=1, timeout=2500)
        insts += r.emitted
    if len(insts) < 200:
        raise tlcmod.MachineryError("too few instances: %d" % len(insts))
    with quiet():
        for inst in insts:
            ctx.case(json.dumps(inst["samples"]))
            for form in ("identity", "scaled"):
                for msg in check_instance(ift, inst, jaxenv, form):
                    ctx.violation(dict(kind="diagnostics", what=msg.split(":")[0], form=form), "samples %s (%s): %s" % (inst["samples"], form, msg),
                                  replay=dict(instance=inst, form=form))
        for a, b in zip(insts[::2], insts[1::2]):
            if len(a["samples"]) == len(b["samples"]) and not a.get("cplx") and not b.get("cplx"):
                for msg in check_two_keys(ift, a, b):
                    ctx.violation(dict(kind="diagnostics-two-keys"), "samples %s / %s: %s" % (a["samples"], b["samples"], msg), replay=dict(pair=[a, b]))
    ctx.traces += len(insts)
    ctx.sample(dict(instance=insts[len(insts) // 2]))
    ctx.assume("complex residuals: nifty.re counts a complex entry as two degrees of freedom (reduced chi-square per real degree of freedom, as its documentation "
               "says), nifty.cl as one; the two are compared through that factor, the means directly",
               "NaN is represented by the marker 99, a tiny non-zero value (2^-40) by the marker 97 in the specification; the placement of NaNs and exact zeros is the same in every sample",
               "the classic and the JAX diagnostics are compared where both definitions coincide (real, finite, non-zero entries) and only for mean, reduced chi-square and ndof")


def replay(ctx, doc):
    import nifty.cl as ift
    c = doc["case"]
    with quiet():
        if "pair" in c:
            msgs = check_two_keys(ift, *c["pair"])
        else:
            import jax
            jax.config.update("jax_enable_x64", True)
            import jax.numpy as jnp
            import nifty.re as jft
            import importlib
            msgs = check_instance(ift, c["instance"], (jax, jnp, jft, importlib.import_module("nifty.re.minisanity")), c.get("form", "identity"))
        for msg in msgs:
            ctx.violation(doc.get("key", dict(kind="diagnostics")), msg, replay=c)
    ctx.case("replay")
    ctx.case("replay2")
    ctx.sample(dict(replayed=c))
    ctx.states = ctx.transitions = 1


def selftest(ctx):
    import nifty.cl as ift
    r = tlcmod.run("Minisanity", "CONSTANTS Size = 2\nNSamples = 1\nNVals = 4\nCplx = FALSE\nSPECIFICATION Spec\nINVARIANT Emit\n", workers=1, timeout=900)
    inst = next(i for i in r.emitted if i["nign"] == 1)
    with quiet():
        good = check_instance(ift, inst)
        inst["ndof"] += 1
        bad = check_instance(ift, inst)
    return dict(ok=(good == [] and len(bad) > 0), mutation="expected ndof changed")
