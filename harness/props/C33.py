"""C33 - Pytree vector arithmetic and custom maps match flat-array semantics.

PyTree.tla    nested dict / tuple / list trees of integer and Gaussian-integer arrays; every operation is defined by recursion over the
              tree and on the flat array; TLC: the two agree on every instance (ElementwiseLaw, ReductionLaw)
AxisMap.tla   sequential maps: result of mapping a function over chosen input axes into chosen output axes, as index relations
spec -> code  every instance is replayed into nifty.re.Vector / nifty.re.tree_math (exact integers) and into smap / lmap (and jax.vmap)"""
import importlib
import json

import numpy as np

from vf import tlc as tlcmod
from vf.core import quiet


def _jenv():
    import jax
    jax.config.update("jax_enable_x64", True)
    import jax.numpy as jnp
    import nifty.re as jft
    import importlib
    return jax, jnp, jft, importlib.import_module("nifty.re.tree_math"), importlib.import_module("nifty.re.custom_map")


def val(v, cplx):
    if isinstance(v, (list, tuple)):
        return complex(v[0], v[1])
    return int(v)


def build(t, cplx, jnp):
    if t["k"] == "leaf":
        return jnp.asarray(np.array([val(v, cplx) for v in t["v"]], dtype=np.complex128 if cplx else np.int64))
    kids = [build(c, cplx, jnp) for c in t["kids"]]
    if t["k"] == "dict":
        return {k: c for k, c in zip(t["keys"], kids)}          # insertion order as given by the spec (not sorted)
    return tuple(kids) if t["k"] == "tuple" else list(kids)


def flat(jax, x):
    lv = jax.tree_util.tree_leaves(x)
    return np.concatenate([np.atleast_1d(np.asarray(l)).ravel() for l in lv]) if lv else np.zeros(0)


def same_structure(jax, a, b):
    return jax.tree_util.tree_structure(a) == jax.tree_util.tree_structure(b)


def check_tree_instance(jenv, inst):
    jax, jnp, jft, tm, _ = jenv
    cplx = inst["mode"] == "cplx"
    out = []
    t1, t2, t2nz = (build(inst[k], cplx, jnp) for k in ("t1", "t2", "t2nz"))
    v1, v2, v2nz = jft.Vector(t1), jft.Vector(t2), jft.Vector(t2nz)
    c = inst["c"]

    def ex(name):
        return np.array([val(v, cplx) for v in inst[name]], dtype=complex if cplx else float) if name not in ("lt", "le", "eq", "ne") else np.array(inst[name]).astype(bool)

    def cmp(name, got, structure_of=v1):
        try:
            g = got()
        except Exception as e:
            out.append("%s raised %s: %s" % (name, type(e).__name__, str(e)[:100]))
            return
        e = ex(name)
        gf = flat(jax, g)
        if gf.shape != e.shape or not np.array_equal(gf, e):
            out.append("%s: %s, the flat-array result is %s" % (name, gf.tolist(), e.tolist()))
        elif structure_of is not None and not same_structure(jax, g, structure_of):
            out.append("%s: the result has another tree structure than the operands" % name)
    if not np.array_equal(flat(jax, v1), ex("flat1")):
        out.append("flattening order: %s, expected (dict keys sorted) %s" % (flat(jax, v1).tolist(), ex("flat1").tolist()))
    cmp("add", lambda: v1 + v2)
    cmp("sub", lambda: v1 - v2)
    cmp("mul", lambda: v1 * v2)
    cmp("neg", lambda: -v1)
    cmp("addc", lambda: v1 + c)
    cmp("addc", lambda: c + v1)
    cmp("csub", lambda: c - v1)
    cmp("mulc", lambda: v1 * c)
    cmp("mulc", lambda: c * v1)
    cmp("eq", lambda: v1 == v2)
    cmp("ne", lambda: v1 != v2)
    cmp("conj", lambda: v1.conj())
    cmp("conj", lambda: tm.conj(v1))
    cmp("real", lambda: v1.real)
    cmp("imag", lambda: v1.imag)
    cmp("where", lambda: tm.where(v1 == v2, v1, -v2))
    # the same operators through the plain pytrees (tree_math functions accept any pytree)
    cmp("where", lambda: tm.where(jax.tree_util.tree_map(lambda a, b: a == b, t1, t2), t1, jax.tree_util.tree_map(lambda b: -b, t2)), structure_of=t1)
    if not cplx:
        cmp("floordiv", lambda: v1 // v2nz)
        cmp("mod", lambda: v1 % v2nz)
        cmp("fdivc", lambda: v1 // (c if c else 1))
        cmp("cmod", lambda: c % jft.Vector(jax.tree_util.tree_map(lambda a: jnp.where(a == 0, 1, a), t1)))
        cmp("lt", lambda: v1 < v2)
        cmp("le", lambda: v1 <= v2)
        cmp("abs", lambda: abs(v1))

    def scal(name, got, exp, tol=0.):
        try:
            g = got()
            g = complex(g) if cplx else float(g)
        except Exception as e:
            out.append("%s raised %s: %s" % (name, type(e).__name__, str(e)[:100]))
            return
        if abs(g - exp) > tol * max(1., abs(exp)):
            out.append("%s: %r, the flat-array result is %r" % (name, g, exp))
    scal("sum", lambda: tm.sum(v1), val(inst["sum"], cplx))
    scal("Vector.sum", lambda: v1.sum(), val(inst["sum"], cplx))
    scal("size", lambda: tm.size(v1), inst["size"])
    scal("len", lambda: len(v1), inst["size"])
    scal("dot", lambda: tm.dot(v1, v2), val(inst["dot"], cplx))
    scal("matmul", lambda: v1 @ v2, val(inst["dot"], cplx))
    scal("vdot", lambda: tm.vdot(v1, v2), val(inst["vdot"], cplx))
    scal("norm", lambda: tm.norm(v1, ord=2) ** 2, inst["norm2sq"], 1e-12)
    scal("any", lambda: tm.any(v1 == v2), inst["any"])
    scal("all", lambda: tm.all(v1 == v2), inst["all"])
    if not cplx:
        scal("norm1", lambda: tm.norm(v1, ord=1), inst["norm1"], 1e-12)
        scal("norminf", lambda: tm.norm(v1, ord=np.inf), max(abs(inst["max"]), abs(inst["min"])), 1e-12)
        scal("max", lambda: tm.max(v1), inst["max"])
        scal("min", lambda: tm.min(v1), inst["min"])
        scal("Vector.max", lambda: v1.max(), inst["max"])
    if not cplx:
        scal("Vector.min", lambda: v1.min(), inst["min"])
        cmp("floordiv", lambda: divmod(v1, v2nz)[0])
        cmp("mod", lambda: divmod(v1, v2nz)[1])
        cmp("fdivc", lambda: divmod(v1, c if c else 1)[0])
    scal("Vector.size", lambda: v1.size, inst["size"])
    scal("Vector.shape", lambda: v1.shape[0], inst["size"])
    scal("tree_math.shape", lambda: tm.shape(v1)[0], inst["size"])
    cmp("flat1", lambda: v1.copy())
    cmp("flat1", lambda: v1.ravel())
    # forests (tuples of trees of one structure)
    fm = importlib.import_module("nifty.re.tree_math.forest_math")
    t3 = build(inst["t3"], cplx, jnp)
    v3 = jft.Vector(t3)
    n1 = inst["size"]

    def cmpv(name, got, exp, structure_of=None, tol=0.):
        try:
            g = got()
            gf = flat(jax, g)
        except Exception as e:
            out.append("%s raised %s: %s" % (name, type(e).__name__, str(e)[:100]))
            return
        if gf.shape != exp.shape or not np.allclose(gf, exp, rtol=tol, atol=tol):
            out.append("%s: %s, the flat-array result is %s" % (name, np.round(gf, 9).tolist(), np.round(exp, 9).tolist()))
        elif structure_of is not None and not same_structure(jax, g, structure_of):
            out.append("%s: the result has another tree structure than the members of the forest" % name)
    fsum = ex("fsum")
    cmpv("forest mean (Vectors)", lambda: fm.mean((v1, v2, v3)), fsum / 3., v1, 1e-13)
    cmpv("forest mean (plain trees)", lambda: fm.mean((t1, t2, t3)), fsum / 3., t1, 1e-13)
    cmpv("stack", lambda: fm.stack((t1, t2, t3)), np.concatenate([np.stack([np.atleast_1d(np.asarray(a)), np.atleast_1d(np.asarray(b)), np.atleast_1d(np.asarray(c_))]).ravel()
                                                                   for a, b, c_ in zip(jax.tree_util.tree_leaves(t1), jax.tree_util.tree_leaves(t2), jax.tree_util.tree_leaves(t3))]), t1)
    try:
        back = fm.unstack(fm.stack((t1, t2, t3)))
        if len(back) != 3 or any(not np.array_equal(flat(jax, b_), flat(jax, t_)) or not same_structure(jax, b_, t_) for b_, t_ in zip(back, (t1, t2, t3))):
            out.append("unstack(stack(forest)) is not the forest")
        mapped = fm.map_forest(lambda t: jax.tree_util.tree_map(lambda a: 2 * a + 1, t))((t1, t2, t3))
        if len(mapped) != 3 or any(not np.array_equal(flat(jax, m_), 2 * flat(jax, t_) + 1) for m_, t_ in zip(mapped, (t1, t2, t3))):
            out.append("map_forest(f)(forest) is not (f(t) for t in forest)")
        for mp in ("vmap", "lmap", "smap"):
            mm = fm.map_forest_mean(lambda t: jax.tree_util.tree_map(lambda a: 2 * a + 1, t), map=mp)((t1, t2, t3))
            if not np.allclose(flat(jax, mm), 2 * fsum / 3. + 1, rtol=1e-13, atol=1e-13) or not same_structure(jax, mm, t1):
                out.append("map_forest_mean(f, map=%r): %s, the mean of f over the forest is %s" % (mp, flat(jax, mm).tolist(), (2 * fsum / 3. + 1).tolist()))
    except Exception as e:
        out.append("forest helpers raised %s: %s" % (type(e).__name__, str(e)[:120]))
    if not cplx:
        var = ex("fvarnum") / 6.
        for label, forest, so in (("Vectors", (v1, v2, v3), v1), ("plain trees", (t1, t2, t3), None)):
            try:
                m, sd = fm.mean_and_std(tuple(jax.tree_util.tree_map(lambda a: a.astype(float), f_) for f_ in forest))
                if not np.allclose(flat(jax, m), fsum / 3., rtol=1e-13, atol=1e-13) or not np.allclose(flat(jax, sd) ** 2, var, rtol=1e-10, atol=1e-12):
                    out.append("mean_and_std (%s): mean %s std^2 %s, the unbiased statistics over the forest are %s and %s" % (label, flat(jax, m).tolist(), (flat(jax, sd) ** 2).tolist(), (fsum / 3.).tolist(), var.tolist()))
                m, sd = fm.mean_and_std(tuple(jax.tree_util.tree_map(lambda a: a.astype(float), f_) for f_ in forest), correct_bias=False)
                if not np.allclose(flat(jax, sd) ** 2, var * 2. / 3., rtol=1e-10, atol=1e-12):
                    out.append("mean_and_std (%s, correct_bias=False): std^2 %s, the biased variance is %s" % (label, (flat(jax, sd) ** 2).tolist(), (var * 2. / 3.).tolist()))
            except Exception as e:
                out.append("mean_and_std (%s) raised %s: %s" % (label, type(e).__name__, str(e)[:120]))
    u1, u2 = build(inst["u1"], cplx, jnp), build(inst["u2"], cplx, jnp)
    cmpv("unite", lambda: fm.unite(u1, u2), ex("united"))
    cmpv("unite (Vectors)", lambda: fm.unite(jft.Vector(u1), jft.Vector(u2)), ex("united"))
    # structure helpers
    try:
        z = tm.zeros_like(v1)
        o = tm.ones_like(v1)
        if flat(jax, z).tolist() != [0] * inst["size"] or flat(jax, o).tolist() != [1] * inst["size"] or not same_structure(jax, z, v1):
            out.append("zeros_like / ones_like do not reproduce the structure")
    except Exception as e:
        out.append("zeros_like raised %s: %s" % (type(e).__name__, str(e)[:100]))
    return out


def run(ctx):
    import warnings
    warnings.simplefilter("ignore")
    q = ctx.quick
    jenv = _jenv()
    insts = []
    for mode in ("int", "cplx"):
        r = ctx.tlc("PyTree", 'CONSTANTS Mode = "%s"\nSPECIFICATION Spec\nINVARIANT ElementwiseLaw\nINVARIANT ReductionLaw\nINVARIANT ForestLaw\nINVARIANT UniteLaw\nINVARIANT Emit\n' % mode, label="trees, " + mode, workers=1, deadlock=False, timeout=1500)
        insts += r.emitted
    if len(insts) < 500:
        raise tlcmod.MachineryError("too few instances: %d" % len(insts))
    if q:
        insts = [x for i, x in enumerate(insts) if i % 3 == ctx.seed % 3]
    with quiet():
        for inst in insts:
            ctx.case((inst["mode"], inst["name"], json.dumps(inst["flat1"]), json.dumps(inst["flat2"]), inst["c"]))
            for msg in check_tree_instance(jenv, inst):
                ctx.violation(dict(kind="tree", op=msg.split(":")[0].split(" ")[0], mode=inst["mode"]), "%s tree %s, flat %s / %s, c=%s: %s" % (
                    inst["mode"], inst["name"], inst["flat1"], inst["flat2"], inst["c"], msg), replay=dict(instance=inst))
    ctx.traces += len(insts)
    ctx.sample(dict(instance={k: insts[7][k] for k in ("mode", "name", "t1", "flat1", "add", "vdot")}))
    from props import C33_maps
    C33_maps.run_maps(ctx, jenv)
    ctx.assume("leaves are 1-d arrays of 1-2 (Gaussian) integers; floating-point reductions (norm) are compared to 1e-12")


def replay(ctx, doc):
    c = doc["case"]
    jenv = _jenv()
    with quiet():
        if "instance" in c:
            msgs = check_tree_instance(jenv, c["instance"])
        else:
            from props import C33_maps
            msgs = C33_maps.check_map_instance(jenv, c["map"])
    for m in msgs:
        ctx.violation(doc.get("key", dict(kind="replay")), m, replay=c)
    ctx.case("replay")
    ctx.case("replay2")
    ctx.sample(dict(replayed=list(c.keys())))
    ctx.states = ctx.transitions = 1


def selftest(ctx):
    jenv = _jenv()
    r = tlcmod.run("PyTree", 'CONSTANTS Mode = "int"\nSPECIFICATION Spec\nINVARIANT Emit\n', workers=1, timeout=900, deadlock=False)
    inst = next(i for i in r.emitted if i["name"] == "S3")
    with quiet():
        good = check_tree_instance(jenv, inst)
        inst["add"][0] += 1
        bad = check_tree_instance(jenv, inst)
    return dict(ok=(good == [] and len(bad) > 0), mutation="one entry of the expected sum changed")
