"""C24 - The JAX VI driver resumes after a crash with identical results.

JaxVIResume.tla       the driver's persistence protocol, one action per file-system effect, Crash anywhere, Restart(resume)
TLC                   Resumable / SameResult / AtMostOneLost / LastComplete for every crash point (<= 2 crashes) of a 3-iteration run;
                      the in-place protocol of the pinned snapshot (defect D9) is refuted
code -> spec          the events of the uninterrupted real run, and of every killed-and-resumed history, are validated by
                      JaxVIResumeTrace.tla (fidelity: same files in the same order; property: resumed result = uninterrupted result)
spec -> code          every crash point of the model is realised on the real driver: the child process is SIGKILLed before / after /
                      in the middle of each recorded file-system effect, restarted with resume=True and compared bit for bit"""
import os
import random
import shutil
from concurrent.futures import ThreadPoolExecutor

from vf import crashfs
from vf import tlc as tlcmod
from vf import trace as tracemod

CHILD = os.path.join(os.path.dirname(os.path.abspath(__file__)), "..", "children", "c24_child.py")
CFG = "CONSTANTS NIter = %d\nAtomic = %s\nMaxCrashes = %d\nSPECIFICATION Spec\n"
INVS = "INVARIANT Resumable\nINVARIANT SameResult\nINVARIANT AtMostOneLost\nINVARIANT LastComplete\n"


def cls_of(path):
    b = os.path.basename(path)
    return {"minisanity.txt": "sanity", "last.pkl.tmp": "tmp", "last.pkl": "last", "out": "dir"}.get(b, "other:" + b)


def to_trace(events):
    return [dict(ev=e["ev"], cls=cls_of(e["path"]), same=True, nit=0) for e in events]


def one_crash(base, name, gold, kills, extra_env):
    """kills: list of (k, variant) applied to successive runs; then a final resumed run to completion.
    returns (outcome, trace, info)"""
    root = os.path.join(base, name)
    os.makedirs(root, exist_ok=True)
    trace = []
    try:
        resume = False
        for (k, variant) in kills:
            rc, res, err, ev = crashfs.run_child(CHILD, root, "kill", k, variant, resume=resume, extra_env=extra_env)
            if res is not None:      # the run finished before reaching event k
                pass
            done = [e for e in ev if e["k"] < k] + ([e for e in ev if e["k"] == k] if variant == "after" else [])
            trace += to_trace(done) + [dict(ev="crash", cls="-", same=True, nit=0), dict(ev="restart", cls="-", same=True, nit=0)]
            resume = True
        rc, res, err, ev = crashfs.run_child(CHILD, root, "record", resume=True, extra_env=extra_env)
        trace += to_trace(ev)
        if res is None:
            last = err.strip().splitlines()[-1][:200] if err.strip() else "rc=%s" % rc
            trace.append(dict(ev="resumefail", cls="-", same=False, nit=0))
            return "resume-fails", trace, last
        same = res["hash"] == gold["hash"] and res["nit"] == gold["nit"]
        trace.append(dict(ev="done", cls="-", same=bool(same), nit=int(res["nit"])))
        return ("ok" if same else "different-result"), trace, ""
    finally:
        shutil.rmtree(root, ignore_errors=True)


def run(ctx):
    q = ctx.quick
    nit = 3
    ctx.constants.update(NIter=nit, MaxCrashes=2)
    ctx.tlc("JaxVIResume", CFG % (nit, "TRUE", 2) + INVS, label="atomic protocol, <=2 crashes", coverage=not q)
    if not q:
        ctx.tlc("JaxVIResume", CFG % (5, "TRUE", 3) + INVS, label="atomic protocol, 5 iterations, <=3 crashes")
    for inv in ("NeverCrashes", "NeverResumesMidway"):
        r = ctx.tlc("JaxVIResume", CFG % (nit, "TRUE", 2) + "INVARIANT %s\n" % inv, label="witness " + inv, expect_ok=False)
        if r.violated != inv:
            raise tlcmod.MachineryError("vacuity witness %s not refuted" % inv)
    r = ctx.tlc("JaxVIResume", CFG % (nit, "FALSE", 2) + INVS, label="in-place protocol (defect D9)", expect_ok=False)
    if r.violated != "Resumable":
        raise tlcmod.MachineryError("the in-place protocol is not refuted on the model")

    base = os.path.join(tlcmod.RUNROOT, "C24-%d" % os.getpid())
    shutil.rmtree(base, ignore_errors=True)
    os.makedirs(base)
    try:
        configs = [dict(CF_NIT=nit, CF_SAMPLE_MODE="linear_resample", CF_NSAMPLES="1")]
        if not q:
            configs.append(dict(CF_NIT=nit, CF_SAMPLE_MODE="nonlinear_resample", CF_NSAMPLES="fn"))
        rng = random.Random(ctx.seed + 24)
        alltraces, meta = [], []
        for ci, env in enumerate(configs):
            groot = os.path.join(base, "gold%d" % ci)
            os.makedirs(groot)
            rc, gold, err, gev = crashfs.run_child(CHILD, groot, "record", extra_env=env)
            if gold is None:
                raise tlcmod.MachineryError("uninterrupted run failed: " + err[-800:])
            rc2, gold2, _, _ = crashfs.run_child(CHILD, os.path.join(base, "gold%d" % ci), "record", resume=True, extra_env=env)
            shutil.rmtree(groot, ignore_errors=True)
            alltraces.append(to_trace(gev) + [dict(ev="done", cls="-", same=True, nit=int(gold["nit"]))])
            meta.append(("golden", ci, None))
            ctx.case(("golden", ci))
            if gold2 is None or gold2["hash"] != gold["hash"]:
                ctx.violation(dict(kind="resume-after-completion", config=ci), "resume=True on a finished run does not return the finished result", replay=dict(env=env))
            pts = crashfs.crash_points(gev)
            if q:
                keep = [p for p in pts if cls_of(gev[p[0]]["path"]) in ("tmp", "last") and p[0] > 9]
                others = [p for p in pts if p not in keep]
                pts = keep + rng.sample(others, min(4, len(others)))
            jobs = [("c%d-k%d-%s" % (ci, k, v), [(k, v)]) for k, v in pts]
            # double crashes: a second kill during the resumed run
            n2 = 3 if q else 16
            for j2 in range(n2):
                k1, v1 = rng.choice(pts)
                k2 = rng.randrange(0, 12)
                # (the job name is the scratch directory: unique, two jobs may draw the same pair of kill points)
                jobs.append(("c%d-d%d-k%d-%s-k%d" % (ci, j2, k1, v1, k2), [(k1, v1), (k2, rng.choice(["before", "after"]))]))
            with ThreadPoolExecutor(14) as ex:
                results = list(ex.map(lambda j: one_crash(base, j[0], gold, j[1], env), jobs))
            for (name, kills), (outcome, trace, info) in zip(jobs, results):
                k, v = kills[0]
                evd = gev[k] if k < len(gev) else dict(ev="?", path="?")
                ctx.case((ci,) + tuple(kills))
                alltraces.append(trace)
                meta.append((name, ci, kills))
                if outcome != "ok":
                    ctx.violation(dict(kind=outcome, event=evd["ev"], file=cls_of(evd["path"]), variant=v, crashes=len(kills)),
                                  "kill %s event %d (%s %s)%s: %s %s" % (v, k, evd["ev"], evd["path"], " then a second kill" if len(kills) > 1 else "", outcome, info),
                                  replay=dict(env=env, kills=kills))
            if ci == 0:
                ctx.sample(dict(crash_point=dict(event=gev[pts[0][0]], variant=pts[0][1]), golden_events=[(e["ev"], e["path"]) for e in gev[:12]]))
            ctx.notes.setdefault("crash_points", []).append(dict(config=env, events=len(gev), single=len(pts), double=n2))
        tv = tracemod.validate(ctx, "JaxVIResumeTrace", alltraces, cfg=CFG.replace("SPECIFICATION Spec\n", "") % (nit, "TRUE", 5) +
                               "SPECIFICATION TSpec\nCONSTRAINT Progress\nPOSTCONDITION Report\n" + INVS, label="%d real histories" % len(alltraces))
        if tv.tlc.violated:
            ctx.violation(dict(kind="trace-invariant", invariant=tv.tlc.violated), "invariant %s violated along a recorded history" % tv.tlc.violated,
                          replay=dict(trace=tv.tlc.error_trace[:3000]))
        seen = set()
        for tid, l, clause in tv.propfail:
            if tid in seen:
                continue
            seen.add(tid)   # the same history is already reported by the direct comparison above; keep the clause in the evidence
            ctx.notes.setdefault("trace_property_failures", []).append(dict(history=meta[tid][0], clause=clause))
        for tid in tv.rejected:
            if tid not in seen:
                ctx.add_drift("history %s: event %d does not follow the modelled protocol: %r" % (meta[tid][0], tv.maxl[tid] + 1, alltraces[tid][tv.maxl[tid]]))
        ctx.notes["histories_accepted"] = tv.accepted
    finally:
        shutil.rmtree(base, ignore_errors=True)
    ctx.assume("crash = SIGKILL of the process at a Python-level file-system effect (before / after / torn write); loss of OS-buffered data on power "
               "failure (fsync discipline) is outside the model", "the results compared are sample arrays, position, key and iteration count (sha256 of the bytes)")
    ctx.exhaustive = not q


def replay(ctx, doc):
    case = doc["case"]
    base = os.path.join(tlcmod.RUNROOT, "C24-replay-%d" % os.getpid())
    os.makedirs(base, exist_ok=True)
    try:
        env = case["env"]
        groot = os.path.join(base, "gold")
        os.makedirs(groot)
        rc, gold, err, gev = crashfs.run_child(CHILD, groot, "record", extra_env=env)
        outcome, trace, info = one_crash(base, "replay", gold, [tuple(k) for k in case["kills"]], env)
        ctx.case("replay")
        ctx.case("replay2")
        ctx.sample(dict(kills=case["kills"], outcome=outcome))
        if outcome != "ok":
            ctx.violation(doc.get("key", dict(kind=outcome)), "replayed crash history: %s %s" % (outcome, info), replay=case)
    finally:
        shutil.rmtree(base, ignore_errors=True)
    ctx.states = ctx.transitions = 1


def selftest(ctx):
    """a history whose result flag says 'different' must be reported; a history with a reordered protocol must be rejected"""
    good = [dict(ev="makedirs", cls="dir"), dict(ev="open:w", cls="sanity"), dict(ev="close", cls="sanity")]
    it = [dict(ev="open:a", cls="sanity"), dict(ev="write", cls="sanity"), dict(ev="close", cls="sanity"), dict(ev="open:wb", cls="tmp"),
          dict(ev="write", cls="tmp"), dict(ev="close", cls="tmp"), dict(ev="replace", cls="last")]
    t_ok = [dict(e, same=True, nit=0) for e in good + it * 3] + [dict(ev="done", cls="-", same=True, nit=3)]
    t_diff = t_ok[:-1] + [dict(ev="done", cls="-", same=False, nit=3)]
    bad_it = [it[0], it[1], it[2], it[6], it[3], it[4], it[5]]        # replace before the temporary file is written
    t_bad = [dict(e, same=True, nit=0) for e in good + bad_it + it * 2] + [dict(ev="done", cls="-", same=True, nit=3)]
    tv = tracemod.validate(ctx, "JaxVIResumeTrace", [t_ok, t_diff, t_bad], cfg="CONSTANTS NIter = 3\nAtomic = TRUE\nMaxCrashes = 3\nSPECIFICATION TSpec\nCONSTRAINT Progress\nPOSTCONDITION Report\n", label="selftest")
    ok = tv.rejected == [2] and [t for t, _, _ in tv.propfail] == [1]
    return dict(ok=ok, rejected=tv.rejected, propfail=tv.propfail, mutation="result flag flipped; protocol reordered")
