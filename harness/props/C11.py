"""C11 - Classic likelihood energies are negative log-pdfs with Fisher metrics.

LikelihoodCl.tla   value (terms c*fn(arg)), exact gradient and Fisher metric of the classic likelihood energies at rational points, and
                   their chained / scaled / summed / Hamiltonian versions, in exact rationals; TLC: Symmetric, Positive
spec -> code       every instance is built with nifty.cl and evaluated on a plain field and on a Linearization with metric:
                     value differences between points = differences of the spec's value (parameter-independent constants drop out)
                     gradient = spec gradient,  dense metric = spec Fisher matrix,  plain value = linearized value
                     Jt^H Jt = metric for the coordinate transformation (exact ones); the variable-covariance Gaussian in expectation
                     over data by moment substitution; get_metric_at = metric"""
import json
import math

import numpy as np

from vf import tlc as tlcmod
from vf.core import quiet

RTOL, ATOL = 1e-10, 1e-12


def q(v):
    return v["n"] / v["d"]


def qm(M):
    return np.array([[q(c) for c in row] for row in M])


def evalterms(terms):
    tot = 0.0
    for pix in terms:
        for t in pix:
            a = q(t["arg"])
            tot += q(t["c"]) * {"id": lambda z: z, "log": math.log, "log1p": math.log1p}[t["fn"]](a)
    return tot


class B:
    def __init__(self):
        import nifty.cl as ift
        self.ift = ift
        self.dom = ift.DomainTuple.make(ift.UnstructuredDomain(2))

    def fld(self, v, dtype=np.float64):
        return self.ift.makeField(self.dom, np.array(v, dtype=dtype))

    def base(self, k, variant=0):
        ift = self.ift
        if k == "gaussian":
            if variant == 1:     # sandwich covariance: bun^H bun with bun = diag(sqrt(icov))
                icov = ift.SandwichOperator.make(ift.makeOp(self.fld([2., .5])), sampling_dtype=np.float64)
            elif variant == 2:   # sandwich with a scaling in the middle: bun^H (4) bun with bun = diag(1, 1/4)
                icov = ift.SandwichOperator.make(ift.makeOp(self.fld([1., .25])), ift.ScalingOperator(self.dom, 4.), sampling_dtype=np.float64)
            else:
                icov = ift.makeOp(self.fld([4., .25]), sampling_dtype=np.float64)
            return ift.GaussianEnergy(data=self.fld([1., -2.]), inverse_covariance=icov)
        if k == "poisson":
            return ift.PoissonianEnergy(self.fld([1, 4], np.int64))
        if k == "bernoulli":
            return ift.BernoulliEnergy(self.fld([1, 0], np.int64))
        if k == "studentt":
            return ift.StudentTEnergy(self.dom, 0.6)
        if k == "invgamma":
            return ift.InverseGammaEnergy(self.fld([2., .5]), alpha=(self.fld([.5, .5]) if variant == 1 else 0.5))     # alpha as a number / as a field
        if k == "categorical":
            return ift.CategoricalEnergy(self.fld([1, 0], np.int64), axis=0)
        raise tlcmod.MachineryError(k)

    def build(self, inst, variant=0):
        ift = self.ift
        lh = self.base(inst["kind"], variant)
        comp = inst["comp"]
        if comp == "plain":
            return lh
        if comp == "chain":
            return lh @ ift.MatrixProductOperator(self.dom, qm(inst["A"]))
        if comp == "ham":
            return ift.StandardHamiltonian(lh)
        if comp == "scale":
            return lh.scale(q(inst["c"]))
        if comp == "sum":
            return lh + self.base(inst["kind2"])
        if comp == "avg":
            v = self.fld([.125, -.125])
            return ift.AveragedEnergy(lh, [v, -v])
        raise tlcmod.MachineryError(comp)

    def dense(self, op):
        cols = []
        for k in range(2):
            e = np.zeros(2)
            e[k] = 1.
            cols.append(op(self.fld(e)).asnumpy())
        return np.array(cols).T


def check_instance(b, inst, variant=0):
    ift = b.ift
    out = []
    x = b.fld([q(v) for v in inst["x"]])
    try:
        op = b.build(inst, variant)
        v_plain = float(op(x).asnumpy())
        lin = op(ift.Linearization.make_var(x, want_metric=True))
    except Exception as e:
        return [("raises", "%s: %s" % (type(e).__name__, str(e)[:160]))], None
    v_lin = float(lin.val.asnumpy())
    if not np.isclose(v_plain, v_lin, rtol=1e-13, atol=1e-13):
        out.append(("value", "plain evaluation %r differs from the linearized value %r" % (v_plain, v_lin)))
    g = lin.gradient.asnumpy()
    gexp = np.array([q(v) for v in inst["g"]])
    if not np.allclose(g, gexp, rtol=RTOL, atol=ATOL):
        out.append(("gradient", "gradient %s differs from the exact one %s" % (g.tolist(), gexp.tolist())))
    if lin.metric is None:
        out.append(("metric", "no metric although requested"))
    else:
        M = b.dense(lin.metric)
        Mexp = qm(inst["M"])
        if not np.allclose(M, Mexp, rtol=RTOL, atol=ATOL):
            out.append(("fisher", "metric %s differs from the Fisher information %s" % (np.round(M, 8).tolist(), np.round(Mexp, 8).tolist())))
        # the coordinate transformation: metric = pull-back of the identity
        # (AveragedEnergy is not a likelihood energy: its get_transformation is outside C11's statement and is not judged - see DESIGN S.5)
        if inst["comp"] in ("plain", "chain", "sum") and hasattr(op, "get_transformation"):
            try:
                tr = op.get_transformation()
            except Exception as e:
                tr = None
                out.append(("transformation", "get_transformation raised %s: %s" % (type(e).__name__, str(e)[:120])))
            if tr is not None:
                f = tr[1]
                J = f(ift.Linearization.make_var(x)).jac if not isinstance(f, ift.LinearOperator) else f
                cols = []
                for k in range(2):
                    e = np.zeros(2)
                    e[k] = 1.
                    r = J(b.fld(e))
                    cols.append(np.concatenate([r[kk].asnumpy().ravel() for kk in r.keys()]) if isinstance(r, ift.MultiField) else r.asnumpy().ravel())
                Jt = np.array(cols).T
                if not np.allclose(Jt.conj().T @ Jt, M, rtol=1e-9, atol=1e-11):
                    out.append(("transformation", "Jt^H Jt = %s differs from the metric %s" % (np.round(Jt.conj().T @ Jt, 8).tolist(), np.round(M, 8).tolist())))
        if hasattr(op, "get_metric_at"):
            try:
                M2 = b.dense(op.get_metric_at(x))
                if not np.allclose(M2, M, rtol=RTOL, atol=ATOL):
                    out.append(("metric-at", "get_metric_at differs from the metric of the linearization"))
            except NotImplementedError:
                pass
    return out, v_plain


def vcg_checks(b):
    """VariableCovarianceGaussianEnergy: value, gradient, metric at rational points; transformation in expectation over data"""
    ift = b.ift
    out = []
    dom = ift.DomainTuple.make(ift.UnstructuredDomain(1))
    n = 0
    for full in (True, False):
        op = ift.VariableCovarianceGaussianEnergy(dom, "r", "i", np.float64, use_full_fisher=full)
        for r, i in ((0.5, 2.0), (-1.0, 0.25), (0.0, 1.5)):
            n += 1
            x = ift.MultiField.from_dict({"r": ift.makeField(dom, np.array([r])), "i": ift.makeField(dom, np.array([i]))})
            lin = op(ift.Linearization.make_var(x, want_metric=True))
            val = float(lin.val.asnumpy())
            exp = 0.5 * r * r * i - 0.5 * math.log(i)
            if not np.isclose(val, exp, rtol=1e-12, atol=1e-13):
                out.append(("vcg-value", "value %r != 1/2 r^2 i - 1/2 log i = %r" % (val, exp)))
            g = lin.gradient
            if not (np.isclose(g["r"].asnumpy()[0], i * r) and np.isclose(g["i"].asnumpy()[0], 0.5 * r * r - 0.5 / i)):
                out.append(("vcg-gradient", "gradient (%r, %r) != (i r, r^2/2 - 1/(2 i))" % (g["r"].asnumpy()[0], g["i"].asnumpy()[0])))
            if full:
                e_r = ift.MultiField.from_dict({"r": ift.makeField(dom, np.array([1.])), "i": ift.makeField(dom, np.array([0.]))})
                e_i = ift.MultiField.from_dict({"r": ift.makeField(dom, np.array([0.])), "i": ift.makeField(dom, np.array([1.]))})
                m_rr = lin.metric(e_r)["r"].asnumpy()[0]
                m_ii = lin.metric(e_i)["i"].asnumpy()[0]
                m_ri = lin.metric(e_r)["i"].asnumpy()[0]
                if not (np.isclose(m_rr, i) and np.isclose(m_ii, 0.5 / i ** 2) and abs(m_ri) < 1e-14):
                    out.append(("vcg-fisher", "full Fisher metric (%r, %r, %r) != (i, 1/(2 i^2), 0)" % (m_rr, m_ii, m_ri)))
    # one of the two keys held constant (simplify_for_constant_input): the remaining energy must keep value, gradient and the Fisher metric
    # of the remaining parameter (1/(2 i^2) for the inverse variance of a real residual, i for the residual)
    for dt, cfac in ((np.float64, 0.5), (np.complex128, 1.0)):
        op = ift.VariableCovarianceGaussianEnergy(dom, "r", "i", dt, use_full_fisher=True)
        for r, i in ((0.5, 2.0), (-1.0, 0.25)):
            n += 1
            rv = np.array([r], dtype=dt)
            for const, free, fisher in (("r", "i", cfac / i ** 2), ("i", "r", i)):
                cval = ift.MultiField.from_dict({const: ift.makeField(dom, rv if const == "r" else np.array([i]))})
                try:
                    _, sop = op.simplify_for_constant_input(cval)
                    x = ift.MultiField.from_dict({free: ift.makeField(dom, np.array([i]) if free == "i" else rv)})
                    lin = sop(ift.Linearization.make_var(x, want_metric=True))
                    full = op(ift.Linearization.make_var(ift.MultiField.union([x, cval]), want_metric=True))
                    m = lin.metric(ift.MultiField.from_dict({free: ift.makeField(dom, np.array([1.], dtype=dt if free == "r" else np.float64))}))[free].asnumpy()[0]
                    if not np.isclose(float(lin.val.asnumpy()), float(full.val.asnumpy()), rtol=1e-12):
                        out.append(("vcg-const-value", "%s constant (%s): value %r != %r" % (const, dt.__name__, float(lin.val.asnumpy()), float(full.val.asnumpy()))))
                    if not np.isclose(lin.gradient[free].asnumpy()[0], full.gradient[free].asnumpy()[0], rtol=1e-12):
                        out.append(("vcg-const-gradient", "%s constant (%s): gradient differs from the gradient of the full energy" % (const, dt.__name__)))
                    if not np.isclose(m, fisher, rtol=1e-12):
                        out.append(("vcg-const-fisher", "%s constant (%s residual) at r=%s, i=%s: metric of the remaining key %s is %r, its Fisher information is %r" % (
                            const, dt.__name__, r, i, free, m, fisher)))
                except Exception as e:
                    out.append(("vcg-const-raises", "%s constant (%s): %s: %s" % (const, dt.__name__, type(e).__name__, str(e)[:120])))
    # the transformation is a local approximation: E_data[Jt^H Jt] = Fisher, by substituting E r = 0, E r^2 = 1/i into the quadratic in r
    op = ift.VariableCovarianceGaussianEnergy(dom, "r", "i", np.float64, use_full_fisher=True)
    f = op.get_transformation()[1]
    i0 = 1.5
    Q = {}
    for r in (-1.0, 0.0, 1.0):
        x = ift.MultiField.from_dict({"r": ift.makeField(dom, np.array([r])), "i": ift.makeField(dom, np.array([i0]))})
        J = f(ift.Linearization.make_var(x)).jac
        cols = []
        for key in ("r", "i"):
            e = ift.MultiField.from_dict({k: ift.makeField(dom, np.array([1. if k == key else 0.])) for k in ("r", "i")})
            rr = J(e)
            cols.append(np.array([rr["r"].asnumpy()[0], rr["i"].asnumpy()[0]]))
        Jt = np.array(cols).T
        Q[r] = Jt.T @ Jt
    c2 = (Q[1.0] + Q[-1.0] - 2 * Q[0.0]) / 2
    expect = Q[0.0] + c2 * (1.0 / i0)
    n += 1
    if not np.allclose(expect, np.diag([i0, 0.5 / i0 ** 2]), rtol=1e-9, atol=1e-11):
        out.append(("vcg-expectation", "E_data[Jt^H Jt] = %s differs from the Fisher metric diag(i, 1/(2 i^2)) = %s" % (np.round(expect, 6).tolist(), [i0, 0.5 / i0 ** 2])))
    return out, n


def block_gauss_checks(b, insts):
    """the Gaussian energy over a MultiDomain with a block-diagonal inverse covariance (one block per key): same gradient and Fisher metric
    as the flat instance, and the coordinate transformation (BlockDiagonalOperator.get_sqrt) pulls the identity back to the metric"""
    ift = b.ift
    out = []
    n = 0
    d1 = ift.DomainTuple.make(ift.UnstructuredDomain(1))
    md = ift.MultiDomain.make({"a": d1, "b": d1})
    mf = lambda v: ift.MultiField.from_dict({"a": ift.makeField(d1, np.array([v[0]])), "b": ift.makeField(d1, np.array([v[1]]))})
    for inst in insts:
        if inst["kind"] != "gaussian" or inst["comp"] != "plain":
            continue
        n += 1
        try:
            icov = ift.BlockDiagonalOperator(md, {"a": ift.makeOp(ift.makeField(d1, np.array([4.])), sampling_dtype=np.float64),
                                                  "b": ift.makeOp(ift.makeField(d1, np.array([.25])), sampling_dtype=np.float64)})
            op = ift.GaussianEnergy(data=mf([1., -2.]), inverse_covariance=icov)
            x = mf([q(v) for v in inst["x"]])
            lin = op(ift.Linearization.make_var(x, want_metric=True))
            g = np.array([lin.gradient["a"].asnumpy()[0], lin.gradient["b"].asnumpy()[0]])
            gexp = np.array([q(v) for v in inst["g"]])
            if not np.allclose(g, gexp, rtol=RTOL, atol=ATOL):
                out.append(("block-gradient", "block-diagonal covariance: gradient %s differs from %s" % (g.tolist(), gexp.tolist())))
            M = np.array([[lin.metric(mf(e))[k].asnumpy()[0] for e in ((1., 0.), (0., 1.))] for k in ("a", "b")])
            Mexp = qm(inst["M"])
            if not np.allclose(M, Mexp, rtol=RTOL, atol=ATOL):
                out.append(("block-fisher", "block-diagonal covariance: metric %s differs from the Fisher information %s" % (M.tolist(), Mexp.tolist())))
            tr = op.get_transformation()[1]
            cols = []
            for e in ((1., 0.), (0., 1.)):
                r = tr(mf(e))
                cols.append(np.array([r["a"].asnumpy()[0], r["b"].asnumpy()[0]]))
            Jt = np.array(cols).T
            if not np.allclose(Jt.conj().T @ Jt, Mexp, rtol=1e-9, atol=1e-11):
                out.append(("block-transformation", "block-diagonal covariance: Jt^H Jt = %s differs from the metric %s" % ((Jt.conj().T @ Jt).tolist(), Mexp.tolist())))
        except Exception as e:
            out.append(("block-raises", "%s: %s" % (type(e).__name__, str(e)[:160])))
    return out, n


def complex_gauss_checks(b):
    """complex Gaussian energies behind complex linear models: value 1/2 r^H N^-1 r, metric = A^H N^-1 A (Hermitian, positive)"""
    ift = b.ift
    out = []
    n = 0
    dom = b.dom
    d = ift.makeField(dom, np.array([1. + 1j, -2j]))
    nv = np.array([4., .25])
    for icname, icov in (("diagonal", ift.makeOp(ift.makeField(dom, nv), sampling_dtype=np.complex128)),
                         ("sandwich with a complex bun", ift.SandwichOperator.make(ift.makeOp(ift.makeField(dom, np.array([2j, .5 + 0j]))), sampling_dtype=np.complex128)),
                         ("sandwich with a complex scaling bun", ift.SandwichOperator.make(ift.ScalingOperator(dom, 1. + 1j), ift.makeOp(ift.makeField(dom, nv / 2.)), sampling_dtype=np.complex128))):
        lh = ift.GaussianEnergy(data=d, inverse_covariance=icov)
        for mname, model, A in (("identity", None, np.eye(2)),
                                ("complex scaling", ift.ScalingOperator(dom, 2. + 1j), (2. + 1j) * np.eye(2)),
                                ("imaginary scaling", ift.ScalingOperator(dom, 1j), 1j * np.eye(2)),
                                ("complex matrix", ift.MatrixProductOperator(dom, np.array([[1., 2j], [1j, 1.]])), np.array([[1., 2j], [1j, 1.]]))):
            n += 1
            try:
                op = lh if model is None else lh @ model
                xv = np.array([.5 - 1j, 2. + .25j])
                lin = op(ift.Linearization.make_var(ift.makeField(dom, xv), want_metric=True))
                r = A @ xv - d.asnumpy()
                exp = 0.5 * np.real(np.vdot(r, nv * r))
                if not np.isclose(float(lin.val.asnumpy()), exp, rtol=1e-12):
                    out.append(("complex-gauss-value", "%s covariance, %s model: value %r != 1/2 r^H N^-1 r = %r" % (icname, mname, float(lin.val.asnumpy()), exp)))
                M = np.array([lin.metric(ift.makeField(dom, e)).asnumpy() for e in (np.array([1. + 0j, 0.]), np.array([0., 1. + 0j]))]).T
                Mexp = A.conj().T @ np.diag(nv) @ A
                if not np.allclose(M, Mexp, rtol=1e-12, atol=1e-13):
                    out.append(("complex-gauss-metric", "%s covariance, %s model: metric %s, the pull-back A^H N^-1 A is %s" % (icname, mname, np.round(M, 6).tolist(), np.round(Mexp, 6).tolist())))
            except Exception as e:
                out.append(("complex-gauss-raises", "%s covariance, %s model: %s: %s" % (icname, mname, type(e).__name__, str(e)[:120])))
    return out, n


def run(ctx):
    b = B()
    r = ctx.tlc("LikelihoodCl", "SPECIFICATION Spec\nINVARIANT Symmetric\nINVARIANT Positive\nINVARIANT Emit\n", label="all instances", workers=1, timeout=900)
    insts = r.emitted
    if len(insts) < 100:
        raise tlcmod.MachineryError("too few instances emitted: %d" % len(insts))
    groups = {}
    with quiet():
        for inst in insts:
            variants = (0, 1, 2) if inst["kind"] == "gaussian" else ((0, 1) if inst["kind"] == "invgamma" else (0,))
            for v in variants:
                ctx.case((inst["comp"], inst["kind"], inst["kind2"], json.dumps(inst["x"]), json.dumps(inst["A"]), json.dumps(inst["c"]), v))
                viols, val = check_instance(b, inst, v)
                for kind, msg in viols:
                    ctx.violation(dict(kind=kind, energy=inst["kind"], comp=inst["comp"]), "%s/%s%s at x=%s: %s" % (inst["kind"], inst["comp"], "+" + inst["kind2"] if inst["comp"] == "sum" else "",
                                                                                                              [q(t) for t in inst["x"]], msg), replay=dict(instance=inst, variant=v))
                if val is not None:
                    groups.setdefault((inst["comp"], inst["kind"], inst["kind2"], json.dumps(inst["A"]), json.dumps(inst["c"]), v), []).append((val, evalterms(inst["terms"]), inst))
        # values up to parameter-independent constants: differences within a family
        nd = 0
        for key, items in groups.items():
            v0, e0, i0 = items[0]
            for v1, e1, i1 in items[1:]:
                nd += 1
                if not np.isclose(v1 - v0, e1 - e0, rtol=1e-10, atol=1e-11):
                    ctx.violation(dict(kind="value", energy=i1["kind"], comp=i1["comp"]), "%s/%s: E(%s) - E(%s) = %r, the negative log-probability gives %r" % (
                        i1["kind"], i1["comp"], [q(t) for t in i1["x"]], [q(t) for t in i0["x"]], v1 - v0, e1 - e0), replay=dict(instance=i1, other=i0))
        vv, nv = vcg_checks(b)
        cv, nc = complex_gauss_checks(b)
        bv, nb = block_gauss_checks(b, insts)
        nv += nc + nb
    for kind, msg in vv:
        ctx.violation(dict(kind=kind, energy="vcgauss"), msg, replay=dict(what="vcg"))
    for kind, msg in cv:
        ctx.violation(dict(kind=kind, energy="gaussian-complex"), msg, replay=dict(what="complex-gauss"))
    for kind, msg in bv:
        ctx.violation(dict(kind=kind, energy="gaussian-block"), msg, replay=dict(what="block-gauss"))
    for k in range(nv + nd):
        ctx.case(("extra", k))
    ctx.traces += len(insts)
    ctx.sample(dict(instance={k: insts[30][k] for k in ("comp", "kind", "x", "A")}, gradient=insts[30]["g"], fisher=insts[30]["M"], value_terms=insts[30]["terms"]))
    ctx.exhaustive = True
    ctx.assume("values are compared as differences between parameter points (the statement allows parameter-independent constants)",
               "float comparison 1e-10 relative")


def replay(ctx, doc):
    b = B()
    c = doc["case"]
    if "instance" in c:
        with quiet():
            viols, _ = check_instance(b, c["instance"], c.get("variant", 0))
        for kind, msg in viols:
            ctx.violation(doc.get("key", dict(kind=kind)), msg, replay=c)
    elif c.get("what") in ("vcg", "complex-gauss"):
        with quiet():
            viols, _ = vcg_checks(b) if c["what"] == "vcg" else complex_gauss_checks(b)
        for kind, msg in viols:
            ctx.violation(doc.get("key", dict(kind=kind)), msg, replay=c)
    ctx.case("replay")
    ctx.case("replay2")
    ctx.sample(dict(replayed=str(c)[:300]))
    ctx.states = ctx.transitions = 1


def selftest(ctx):
    b = B()
    r = tlcmod.run("LikelihoodCl", "SPECIFICATION Spec\nINVARIANT Emit\n", workers=1, timeout=900)
    good = next(i for i in r.emitted if i["kind"] == "bernoulli" and i["comp"] == "plain")
    bad = json.loads(json.dumps(good))
    bad["g"][0]["n"] += 1
    with quiet():
        a, _ = check_instance(b, good)
        c, _ = check_instance(b, bad)
    return dict(ok=(a == [] and any(k == "gradient" for k, _ in c)), mutation="one entry of the expected gradient changed")
